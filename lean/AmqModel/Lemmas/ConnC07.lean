import AmqModel.Model.ConnRun
import AmqModel.Lemmas.Conn
/-!
# Lemmas for C03 (dispatch, channel independence) and C07 (protocol violations)

1. `process` arm by arm in the steady state (channel `n ≠ 0` frames, channel-0 leftovers);
2. `processChannelMethod` arm by arm (content methods, close, close-ok, consume-ok, the generic /
   not-implemented / not-allowed tables);
3. channel independence: the relation `Off m c c'` ("every slot other than `m` is as in `c`") and
   its preservation by every primitive, by `processChannelMethod` and by `process`;
4. "never `.hang`" for everything but the connection-level CloseOk reply;
5. the outcome of `clientException`;
6. `truncUtf8` and the wire form of `Connection.Close`.
-/
namespace AmqModel.Conn
open AmqModel.Collector

/-! ## 1. `process`, arm by arm -/

theorem process_fst_nonsteady {c : Conn} (hs : c.st ≠ .steady) (f : Frame) (dc df : Bytes) :
    (process c f dc df).1 = c := by
  unfold process
  split
  · rfl
  · split <;> rfl
  · split <;> rfl
  · rename_i h; exact absurd h hs

theorem process_snd_nonsteady {c : Conn} (hs : c.st ≠ .steady) (f : Frame) (dc df : Bytes) :
    (process c f dc df).2 = none ∨ (process c f dc df).2 = some .frameUnexpected := by
  unfold process
  split
  · exact Or.inl rfl
  · split
    · exact Or.inr rfl
    · exact Or.inl rfl
  · split
    · exact Or.inr rfl
    · exact Or.inl rfl
  · rename_i h; exact absurd h hs

theorem process_heartbeat {c : Conn} (hs : c.st = .steady) (ch : Nat) (dc df : Bytes) :
    process c (.heartbeat ch) dc df = (c, if ch = 0 then none else some .frameUnexpected) := by
  cases ch with
  | zero => unfold process; simp only [hs]; rfl
  | succ k => unfold process; simp only [hs]; rfl

theorem process_header_ne0 {c : Conn} (hs : c.st = .steady) {n : Nat} (hn : n ≠ 0)
    (cid size : Nat) (props dc df : Bytes) :
    process c (.header n cid size props) dc df =
      match slotGet c n with
      | .error e => (c, some e)
      | .ok slot => afterCollect c n slot (collectHeader slot.coll size props) := by
  obtain ⟨k, rfl⟩ : ∃ k, n = k + 1 := ⟨n - 1, by omega⟩
  unfold process
  simp only [hs]
  rfl

theorem process_body_ne0 {c : Conn} (hs : c.st = .steady) {n : Nat} (hn : n ≠ 0)
    (payload dc df : Bytes) :
    process c (.body n payload) dc df =
      match slotGet c n with
      | .error e => (c, some e)
      | .ok slot => afterCollect c n slot (collectBody slot.coll payload) := by
  obtain ⟨k, rfl⟩ : ∃ k, n = k + 1 := ⟨n - 1, by omega⟩
  unfold process
  simp only [hs]
  rfl

theorem process_method_ne0 {c : Conn} (hs : c.st = .steady) {n : Nat} (hn : n ≠ 0)
    (cls mid : Nat) (fields : List Field) (dc df : Bytes) :
    process c (.method n cls mid fields) dc df =
      ((if (processChannelMethod c n cls mid fields dc).1.st = .clientException
          then process.dropCh0 (processChannelMethod c n cls mid fields dc).1
          else (processChannelMethod c n cls mid fields dc).1),
        (processChannelMethod c n cls mid fields dc).2) := by
  obtain ⟨k, rfl⟩ : ∃ k, n = k + 1 := ⟨n - 1, by omega⟩
  unfold process
  simp only [hs]

theorem process_method_ne0_snd {c : Conn} (hs : c.st = .steady) {n : Nat} (hn : n ≠ 0)
    (cls mid : Nat) (fields : List Field) (dc df : Bytes) :
    (process c (.method n cls mid fields) dc df).2 = (processChannelMethod c n cls mid fields dc).2 := by
  rw [process_method_ne0 hs hn]

theorem slotGet_of_lookup {c : Conn} {n : Nat} {s : Slot} (h : lookupN n c.slots = some s) :
    slotGet c n = .ok s := by
  unfold slotGet; rw [h]

theorem slotGet_of_lookup_none {c : Conn} {n : Nat} (h : lookupN n c.slots = none) :
    slotGet c n = .error (.bogusChannel n) := by
  unfold slotGet; rw [h]

theorem process_header_slot {c : Conn} (hs : c.st = .steady) {n : Nat} (hn : n ≠ 0) {slot : Slot}
    (hslot : lookupN n c.slots = some slot) (cid size : Nat) (props dc df : Bytes) :
    process c (.header n cid size props) dc df =
      afterCollect c n slot (collectHeader slot.coll size props) := by
  rw [process_header_ne0 hs hn, slotGet_of_lookup hslot]

theorem process_body_slot {c : Conn} (hs : c.st = .steady) {n : Nat} (hn : n ≠ 0) {slot : Slot}
    (hslot : lookupN n c.slots = some slot) (payload dc df : Bytes) :
    process c (.body n payload) dc df = afterCollect c n slot (collectBody slot.coll payload) := by
  rw [process_body_ne0 hs hn, slotGet_of_lookup hslot]

theorem process_header_noslot {c : Conn} (hs : c.st = .steady) {n : Nat} (hn : n ≠ 0)
    (hslot : lookupN n c.slots = none) (cid size : Nat) (props dc df : Bytes) :
    process c (.header n cid size props) dc df = (c, some (.bogusChannel n)) := by
  rw [process_header_ne0 hs hn, slotGet_of_lookup_none hslot]

theorem process_body_noslot {c : Conn} (hs : c.st = .steady) {n : Nat} (hn : n ≠ 0)
    (hslot : lookupN n c.slots = none) (payload dc df : Bytes) :
    process c (.body n payload) dc df = (c, some (.bogusChannel n)) := by
  rw [process_body_ne0 hs hn, slotGet_of_lookup_none hslot]

/-- Content frames on channel 0. -/
theorem process_header0 {c : Conn} (hs : c.st = .steady) (cid size : Nat) (props dc df : Bytes) :
    process c (.header 0 cid size props) dc df =
      (process.dropCh0 (clientException c 530 (asciiBytes "received illegal channel 0 frame " ++ df)), none) := by
  unfold process
  simp only [hs]

theorem process_body0 {c : Conn} (hs : c.st = .steady) (payload dc df : Bytes) :
    process c (.body 0 payload) dc df =
      (process.dropCh0 (clientException c 530 (asciiBytes "received illegal channel 0 frame " ++ df)), none) := by
  unfold process
  simp only [hs]

/-- Every channel-0 method other than Close / CloseOk / Blocked / Unblocked. -/
theorem process_method0_other {c : Conn} (hs : c.st = .steady) (cls mid : Nat) (fs : List Field)
    (dc df : Bytes) (h : ¬(cls = 10 ∧ (mid = 50 ∨ mid = 51 ∨ mid = 60 ∨ mid = 61))) :
    process c (.method 0 cls mid fs) dc df =
      (process.dropCh0 (clientException c 540
        (asciiBytes "do not know how to handle channel 0 method " ++ dc)), none) := by
  unfold process
  simp only [hs]
  split
  all_goals (rename_i heq; cases heq)
  all_goals first | (exfalso; apply h; simp; done) | skip
  · rfl
  · rename_i h0 _ _ _ _; exact absurd rfl h0

/-! ## 2. `processChannelMethod`, arm by arm -/

theorem pcm_deliver (c : Conn) (n : Nat) (tag : Bytes) (dtag : Nat) (red : Bool) (ex rk dbg : Bytes) :
    processChannelMethod c n 60 60 [.bytes tag, .nat dtag, .bool red, .bytes ex, .bytes rk] dbg =
      match slotGet c n with
      | .ok slot => afterCollect c n slot (collectMethod slot.coll (.deliver tag dtag red ex rk))
      | .error e => (c, some e) := rfl

theorem pcm_return (c : Conn) (n code : Nat) (text ex rk dbg : Bytes) :
    processChannelMethod c n 60 50 [.nat code, .bytes text, .bytes ex, .bytes rk] dbg =
      match slotGet c n with
      | .ok slot => afterCollect c n slot (collectMethod slot.coll (.ret code text ex rk))
      | .error e => (c, some e) := rfl

theorem pcm_getOk (c : Conn) (n dtag : Nat) (red : Bool) (ex rk : Bytes) (count : Nat) (dbg : Bytes) :
    processChannelMethod c n 60 71 [.nat dtag, .bool red, .bytes ex, .bytes rk, .nat count] dbg =
      match slotGet c n with
      | .ok slot => afterCollect c n slot (collectMethod slot.coll (.get dtag red ex rk count))
      | .error e => (c, some e) := rfl

theorem pcm_close_noslot {c : Conn} {n : Nat} (h : lookupN n c.slots = none) (code : Nat)
    (text dbg : Bytes) :
    processChannelMethod c n 20 40 [.nat code, .bytes text] dbg = (c, some (.bogusChannel n)) := by
  unfold processChannelMethod
  simp only [slotGet_of_lookup_none h]

theorem pcm_closeOk_noslot {c : Conn} {n : Nat} (h : lookupN n c.slots = none)
    (fields : List Field) (dbg : Bytes) :
    processChannelMethod c n 20 41 fields dbg = (c, none) := by
  unfold processChannelMethod
  simp only [h]

theorem pcm_consumeOk_dup {c : Conn} {n : Nat} {slot : Slot} (h : lookupN n c.slots = some slot)
    {tag : Bytes} {qid : Nat} (hc : lookupB tag slot.consumers = some qid) (dbg : Bytes) :
    processChannelMethod c n 60 21 [.bytes tag] dbg = (c, some (.duplicateConsumerTag n tag)) := by
  unfold processChannelMethod
  simp only [slotGet_of_lookup h, hc]

/-- The 13 generic replies are not among the specifically matched methods. -/
theorem pcm_generic {c : Conn} {n cls mid : Nat} (hg : isGenericReply cls mid = true)
    (fields : List Field) (dbg : Bytes) :
    processChannelMethod c n cls mid fields dbg =
      match slotGet c n with
      | .ok slot => sendReply c slot.lid (.method cls mid fields)
      | .error e => (c, some e) := by
  unfold processChannelMethod
  dsimp only
  split
  all_goals first
    | (exact absurd hg (by decide))
    | skip
  rw [if_pos hg]
  rfl

theorem not_generic_of_notImplemented {cls mid : Nat} (h : isNotImplemented cls mid = true) :
    isGenericReply cls mid = false := by
  simp only [isNotImplemented, Bool.or_eq_true, decide_eq_true_eq, List.mem_cons, Prod.mk.injEq,
    List.mem_nil_iff, or_false] at h
  rcases h with (rfl | rfl) | ⟨rfl, rfl⟩ | ⟨rfl, rfl⟩ <;> simp [isGenericReply]

/-- Unimplemented methods: hard error 540. -/
theorem pcm_notImplemented {c : Conn} {n cls mid : Nat} (hi : isNotImplemented cls mid = true)
    (fields : List Field) (dbg : Bytes) :
    processChannelMethod c n cls mid fields dbg =
      (clientException c 540 (asciiBytes "do not know how to handle channel " ++ natAscii n ++
        asciiBytes " method " ++ dbg), none) := by
  have hg := not_generic_of_notImplemented hi
  unfold processChannelMethod
  dsimp only
  split
  all_goals first
    | (exact absurd hi (by decide))
    | skip
  rw [if_neg (by rw [hg]; simp), if_pos hi]

/-- Methods a server may not send: hard error 530. -/
theorem pcm_notAllowed {c : Conn} {n cls mid : Nat} (ha : isNotAllowed cls mid = true)
    (hi : isNotImplemented cls mid = false) (hg : isGenericReply cls mid = false)
    (hsp : (cls, mid) ∉ [(20, 40), (20, 41), (60, 21), (60, 30), (60, 31), (60, 60), (60, 50),
      (60, 71), (60, 72), (60, 80), (60, 120)])
    (fields : List Field) (dbg : Bytes) :
    processChannelMethod c n cls mid fields dbg =
      (clientException c 530 (asciiBytes "illegal channel " ++ natAscii n ++ asciiBytes " method " ++ dbg),
        none) := by
  unfold processChannelMethod
  dsimp only
  split
  all_goals first
    | (exact absurd hsp (by decide))
    | skip
  rw [if_neg (by rw [hg]; simp), if_neg (by rw [hi]; simp), if_pos ha]

/-! ## 3. Channel independence -/

/-- Every slot other than `m` is in `c'` what it is in `c`. -/
def Off (m : Nat) (c c' : Conn) : Prop := ∀ n, n ≠ m → lookupN n c'.slots = lookupN n c.slots

theorem Off.refl (m : Nat) (c : Conn) : Off m c c := fun _ _ => rfl

theorem Off.of_slots {m : Nat} {c x y : Conn} (h : Off m c x) (e : y.slots = x.slots) : Off m c y :=
  fun n hn => by rw [e]; exact h n hn

theorem Off.of_eq_fst {β : Type} {m : Nat} {c : Conn} {r : Conn × β} {c' : Conn} {b : β}
    (h : Off m c r.1) (e : r = (c', b)) : Off m c c' := by subst e; exact h

section OffPrims
variable {m : Nat} {c x : Conn}

theorem off_setLink (h : Off m c x) (lid : Nat) (l : Link) : Off m c (setLink x lid l) :=
  h.of_slots rfl

theorem off_sendReply (h : Off m c x) (lid : Nat) (r : Reply) : Off m c (sendReply x lid r).1 :=
  h.of_slots (same_sendReply x lid r).slots

theorem off_sendCons (h : Off m c x) (qid : Nat) (msg : CMsg) : Off m c (sendCons x qid msg).1 :=
  h.of_slots (same_sendCons x qid msg).slots

theorem off_dropConsTx (h : Off m c x) (qid : Nat) : Off m c (dropConsTx x qid) :=
  h.of_slots (same_dropConsTx x qid).slots

theorem off_sendLst (h : Off m c x) (l : Label) (msg : LMsg) : Off m c (sendLst x l msg).1 :=
  h.of_slots (sendLst_slots x l msg)

theorem off_dropReply (h : Off m c x) (r : Reply) : Off m c (dropReply x r) := by
  unfold dropReply
  split
  · split
    · exact h.of_slots rfl
    · exact h
  · exact h

theorem off_dropSlotEnds (h : Off m c x) (s : Slot) : Off m c (dropSlotEnds x s) :=
  h.of_slots (same_dropSlotEnds x s).slots

theorem off_notifyConsumers (h : Off m c x) (msg : CMsg) (l : List (Bytes × Nat)) :
    Off m c (notifyConsumers msg x l).1 :=
  h.of_slots (same_notifyConsumers msg x l).slots

theorem off_pushOut (h : Off m c x) (b : Bytes) : Off m c (pushOut x b) :=
  h.of_slots (pushOut_slots x b)

theorem off_clientException (h : Off m c x) (code : Nat) (text : Bytes) :
    Off m c (clientException x code text) :=
  h.of_slots (by unfold clientException; exact pushOut_slots x _)

theorem off_dropCh0 (h : Off m c x) : Off m c (process.dropCh0 x) := h.of_slots rfl

theorem off_with_nondet (h : Off m c x) (b : Bool) : Off m c { x with nondet := x.nondet || b } :=
  h.of_slots rfl

/-- Overwriting slot `m` itself. -/
theorem off_setSlot (h : Off m c x) (s : Slot) : Off m c (setSlot x m s) := fun n hn => by
  show lookupN n (setN m s x.slots) = _
  rw [lookupN_setN_ne (Ne.symm hn)]; exact h n hn

/-- Removing slot `m` itself. -/
theorem off_removeSlot (h : Off m c x) : Off m c (removeSlot x m) := fun n hn => by
  show lookupN n (eraseN m x.slots) = _
  rw [lookupN_eraseN_ne (Ne.symm hn)]; exact h n hn

theorem off_trySendConfirm (h : Off m c x) (slot : Slot) (msg : LMsg) :
    Off m c (trySendConfirm x m slot msg) := by
  unfold trySendConfirm
  split
  · exact h
  · split
    · rename_i heq; exact (off_sendLst h _ _).of_eq_fst heq
    · rename_i heq; exact off_setSlot ((off_sendLst h _ _).of_eq_fst heq) _

theorem off_dispatchContent (h : Off m c x) (slot : Slot) (ct : Content) :
    Off m c (dispatchContent x m slot ct).1 := by
  unfold dispatchContent
  split
  · split
    · exact h
    · exact off_sendCons h _ _
  · split
    · exact h
    · split
      · rename_i heq; exact (off_sendLst h _ _).of_eq_fst heq
      · rename_i heq; exact off_setSlot ((off_sendLst h _ _).of_eq_fst heq) _
  · exact off_sendReply h _ _

theorem off_afterCollect (h : Off m c x) (slot : Slot) (r : Res) :
    Off m c (afterCollect x m slot r).1 := by
  unfold afterCollect
  dsimp only
  split
  · exact off_setSlot h _
  · exact off_setSlot h _
  · exact off_dispatchContent (off_setSlot h _) _ _

end OffPrims

/-- One backward step of an independence proof (same shape as `inv_step`). -/
macro "off_step" : tactic => `(tactic| first
  | assumption
  | with_reducible exact Off.refl _ _
  | with_reducible apply off_dropSlotEnds
  | with_reducible apply off_pushOut
  | with_reducible apply off_dropConsTx
  | with_reducible apply off_dropReply
  | with_reducible apply off_removeSlot
  | with_reducible apply off_clientException
  | with_reducible apply off_sendReply
  | with_reducible apply off_sendCons
  | with_reducible apply off_notifyConsumers
  | with_reducible apply off_with_nondet
  | with_reducible apply off_afterCollect
  | with_reducible apply off_trySendConfirm
  | with_reducible apply off_setSlot
  | (apply Off.of_eq_fst; rotate_left; assumption; try dsimp only))

macro "off_auto" : tactic =>
  `(tactic| ((try dsimp only); repeat' (first | off_step | (split <;> try dsimp only))))

theorem off_processChannelMethod (c : Conn) (m cls mid : Nat) (fields : List Field) (dbg : Bytes) :
    Off m c (processChannelMethod c m cls mid fields dbg).1 := by
  unfold processChannelMethod
  dsimp only
  split
  all_goals (repeat' split)
  all_goals try off_auto
  all_goals exact Off.of_slots (Off.refl _ _) rfl

/-- The frame is a heartbeat or travels on channel `m`. -/
def Frame.onChannel (m : Nat) : Frame → Prop
  | .method ch _ _ _ => ch = m
  | .header ch _ _ _ => ch = m
  | .body ch _ => ch = m
  | .heartbeat _ => True

theorem off_process (c : Conn) (f : Frame) (dc df : Bytes) {m : Nat} (hm : m ≠ 0)
    (hf : f.onChannel m) : Off m c (process c f dc df).1 := by
  by_cases hs : c.st = .steady
  · cases f with
    | heartbeat ch => rw [process_heartbeat hs]; exact Off.refl _ _
    | method ch cls mid fields =>
      have e : ch = m := hf
      subst e
      rw [process_method_ne0 hs hm]
      dsimp only
      split
      · exact off_dropCh0 (off_processChannelMethod _ _ _ _ _ _)
      · exact off_processChannelMethod _ _ _ _ _ _
    | header ch cid size props =>
      have e : ch = m := hf
      subst e
      rw [process_header_ne0 hs hm]
      split
      · exact Off.refl _ _
      · exact off_afterCollect (Off.refl _ _) _ _
    | body ch payload =>
      have e : ch = m := hf
      subst e
      rw [process_body_ne0 hs hm]
      split
      · exact Off.refl _ _
      · exact off_afterCollect (Off.refl _ _) _ _
  · rw [process_fst_nonsteady hs]; exact Off.refl _ _

/-! ## 4. Never `.hang` -/

theorem nh_of_eq {r : Conn × Option Err} {c' : Conn} {x : Option Err} (h : r.2 ≠ some .hang)
    (e : r = (c', x)) : x ≠ some .hang := by subst e; exact h

theorem nh_sendReply (c : Conn) (lid : Nat) (r : Reply) : (sendReply c lid r).2 ≠ some .hang := by
  unfold sendReply; dsimp only
  repeat' split
  all_goals simp

theorem nh_sendCons (c : Conn) (qid : Nat) (m : CMsg) : (sendCons c qid m).2 ≠ some .hang := by
  unfold sendCons
  repeat' split
  all_goals simp

theorem nh_notifyConsumers (m : CMsg) (c : Conn) (l : List (Bytes × Nat)) :
    (notifyConsumers m c l).2 ≠ some .hang := by
  induction l generalizing c with
  | nil => simp [notifyConsumers]
  | cons x r ih =>
    obtain ⟨t, qid⟩ := x
    unfold notifyConsumers
    split
    · rename_i heq; exact nh_of_eq (nh_sendCons c qid m) heq
    · exact ih _

theorem nh_slotGet {c : Conn} {n : Nat} {e : Err} (h : slotGet c n = .error e) :
    some e ≠ some Err.hang := by
  unfold slotGet at h
  split at h
  · cases h
  · cases h; simp

macro "nh_step" : tactic => `(tactic| first
  | (apply nh_slotGet; assumption)
  | exact nh_sendReply _ _ _
  | exact nh_sendCons _ _ _
  | exact nh_notifyConsumers _ _ _
  | (simp; done)
  | (apply nh_of_eq; rotate_left; assumption; try dsimp only))

macro "nh_auto" : tactic =>
  `(tactic| ((try dsimp only); repeat' (first | nh_step | (split <;> try dsimp only))))

theorem nh_drainSlots_go (r : Reply) (m : CMsg) (all : List (Nat × Slot)) (c : Conn)
    (l : List (Nat × Slot)) : (drainSlots.go r m all c l).2 ≠ some .hang := by
  induction l generalizing c with
  | nil => simp [drainSlots.go]
  | cons x rest ih =>
    obtain ⟨k, s⟩ := x
    unfold drainSlots.go
    dsimp only
    split
    · nh_auto
    · split
      · nh_auto
      · exact ih _

theorem nh_drainSlots (c : Conn) (r : Reply) (m : CMsg) : (drainSlots c r m).2 ≠ some .hang := by
  unfold drainSlots; exact nh_drainSlots_go _ _ _ _ _

theorem nh_dispatchContent (c : Conn) (n : Nat) (slot : Slot) (ct : Content) :
    (dispatchContent c n slot ct).2 ≠ some .hang := by
  unfold dispatchContent
  repeat' split
  all_goals nh_auto

theorem nh_afterCollect (c : Conn) (n : Nat) (slot : Slot) (r : Res) :
    (afterCollect c n slot r).2 ≠ some .hang := by
  unfold afterCollect
  dsimp only
  split
  · simp
  · simp
  · exact nh_dispatchContent _ _ _ _

theorem nh_processChannelMethod (c : Conn) (n cls mid : Nat) (fields : List Field) (dbg : Bytes) :
    (processChannelMethod c n cls mid fields dbg).2 ≠ some .hang := by
  unfold processChannelMethod
  dsimp only
  split
  all_goals (repeat' split)
  all_goals first
    | exact nh_afterCollect _ _ _ _
    | nh_auto

/-- The frame is not the connection-level CloseOk. -/
def Frame.notCloseOk : Frame → Prop
  | .method ch cls mid _ => ¬(ch = 0 ∧ cls = 10 ∧ mid = 51)
  | _ => True

theorem nh_process (c : Conn) (f : Frame) (dc df : Bytes) (hf : f.notCloseOk) :
    (process c f dc df).2 ≠ some .hang := by
  unfold process
  split
  · simp
  · split <;> simp
  · split <;> simp
  · split
    all_goals first
      | (exfalso; exact hf ⟨rfl, rfl, rfl⟩)
      | exact nh_drainSlots _ _ _
      | exact nh_afterCollect _ _ _ _
      | nh_auto
    all_goals first
      | exact nh_drainSlots _ _ _
      | exact nh_afterCollect _ _ _ _
      | exact nh_processChannelMethod _ _ _ _ _ _

/-! ## 5. `clientException` -/

theorem clientException_st (c : Conn) (code : Nat) (text : Bytes) :
    (clientException c code text).st = .clientException := rfl

theorem clientException_sealed (c : Conn) (code : Nat) (text : Bytes) :
    (clientException c code text).sealed = true := rfl

theorem clientException_out {c : Conn} (hl : c.legacy = false) (hsl : c.sealed = false)
    (code : Nat) (text : Bytes) :
    (clientException c code text).out = c.out ++ connectionClose code (truncUtf8 255 text) := by
  show (pushOut c _).out = _
  rw [pushOut_out, hsl, hl]
  rfl

@[simp] theorem dropCh0_st (c : Conn) : (process.dropCh0 c).st = c.st := rfl
@[simp] theorem dropCh0_sealed (c : Conn) : (process.dropCh0 c).sealed = c.sealed := rfl
@[simp] theorem dropCh0_out (c : Conn) : (process.dropCh0 c).out = c.out := rfl

/-! ## 6. `truncUtf8`, the wire form of `Connection.Close` -/

theorem truncUtf8_back_le (s : Bytes) (k : Nat) : truncUtf8.back s k ≤ k := by
  induction k with
  | zero => simp [truncUtf8.back]
  | succ k ih =>
    unfold truncUtf8.back
    split
    · omega
    · omega

theorem truncUtf8_length_le (n : Nat) (s : Bytes) : (truncUtf8 n s).length ≤ n := by
  unfold truncUtf8
  split
  · assumption
  · have := truncUtf8_back_le s n
    simp only [List.length_take]
    omega

theorem truncUtf8_is_prefix (n : Nat) (s : Bytes) : ∃ t, s = truncUtf8 n s ++ t := by
  unfold truncUtf8
  split
  · exact ⟨[], by simp⟩
  · exact ⟨s.drop (truncUtf8.back s n), (List.take_append_drop _ _).symm⟩

/-- The outcome shared by every client-exception arm of `process`. -/
theorem clientException_outcome {c : Conn} (hl : c.legacy = false) (code : Nat) (text : Bytes) :
    (process.dropCh0 (clientException c code text)).st = .clientException ∧
    (process.dropCh0 (clientException c code text)).sealed = true ∧
    (c.sealed = false → ∃ t, t.length ≤ 255 ∧
      (process.dropCh0 (clientException c code text)).out = c.out ++ connectionClose code t) :=
  ⟨rfl, rfl, fun hsl => ⟨truncUtf8 255 text, truncUtf8_length_le 255 text, by
    rw [dropCh0_out, clientException_out hl hsl]⟩⟩

/-- `Connection.Close(code, text)` byte by byte. -/
theorem connectionClose_eq (code : Nat) (text : Bytes) :
    connectionClose code text =
      1 :: 0 :: 0 :: ((text.length + 11) / 16777216 % 256) :: ((text.length + 11) / 65536 % 256) ::
        ((text.length + 11) / 256 % 256) :: ((text.length + 11) % 256) :: 0 :: 10 :: 0 :: 50 ::
        (code / 256 % 256) :: (code % 256) :: (text.length % 256) :: (text ++ [0, 0, 0, 0, 206]) := by
  have e : 4 + (text.length + 1 + 2 + 2 + 2) = text.length + 11 := by omega
  simp [connectionClose, encMethod, be16, be32, encShortStr, e]

/-! ## 7. Every I/O step from a reachable state -/

theorem ioStep_no_panic {c : Conn} (h : Inv c) (o : IoOp) :
    (ioStep c o).2.err ≠ some .panic ∧ (ioStep c o).2.done ≠ some none := by
  cases hd : c.dead with
  | true =>
    obtain ⟨_, h2, h3⟩ := ioStep_dead hd o
    rw [h2, h3]; simp
  | false =>
    cases o with
    | frame bytes => rw [ioStep_frame hd, ioFin_err, ioFin_done]; exact ⟨np_processBytes c bytes, by simp⟩
    | event t => exact ⟨ioStep_event_no_panic h t, by rw [ioStep_event hd, ioFin_done]; simp⟩
    | write => rw [ioStep_write hd, ioFin_err, ioFin_done]; exact ⟨np_writeToStream c, by simp⟩
    | done =>
      refine ⟨?_, ioStep_done_no_assert h⟩
      rw [ioStep_done hd]
      split <;> simp
    | dereg => rw [ioStep_dereg hd]; simp
    | rereg => rw [ioStep_rereg hd]; simp
    | poll => rw [ioStep_poll hd]; simp
    | kill => rw [ioStep_kill hd]; simp

end AmqModel.Conn
