import AmqModel.Spec.Smoother
/-!
# Helper lemmas for C14 (ConfirmSmoother)

Sections:
1. association-list facts;
2. unfolding equations for `drainIt` / `takeIt` and the five-way case split of `iterNext`;
3. termination of the `Drop` loop, fuel irrelevance, dropping an iterator early;
4. the stateless spec: `isCovered`, `outAt`, `frontier` (characterisation, uniqueness, monotonicity),
   `specRun` flattened;
5. safety invariant for arbitrary histories;
6. refinement invariant for valid histories.
-/
namespace AmqModel.Smoother

/-! ## 1. Association lists -/

theorem lookup_erase (j k : Nat) (m : List (Nat × Out)) :
    AL.lookup j (AL.erase k m) = if j = k then none else AL.lookup j m := by
  by_cases h : j = k
  · subst h; simp
  · simp [h]

theorem lookup_insert (j k : Nat) (v : Out) (m : List (Nat × Out)) :
    AL.lookup j (AL.insert k v m) = if j = k then some v else AL.lookup j m := by
  by_cases h : j = k
  · subst h; simp
  · simp [h]

/-! ## 2. Unfolding equations -/

theorem drainIt_zero (it : It) : drainIt 0 it = (it, []) := rfl

theorem drainIt_of_done (n : Nat) (it : It) (hd : it.done = true) : drainIt n it = (it, []) := by
  cases n with
  | zero => rfl
  | succ n => simp [drainIt, drainItG, hd]

theorem drainIt_succ_some (n : Nat) {it it' : It} {o : Out} (hd : it.done = false)
    (hs : iterNext it = (it', some o)) :
    drainIt (n + 1) it = ((drainIt n it').1, o :: (drainIt n it').2) := by
  simp only [iterNext] at hs
  simp [drainIt, drainItG, hd, hs]

theorem drainIt_succ_none (n : Nat) {it it' : It} (hd : it.done = false)
    (hs : iterNext it = (it', none)) :
    drainIt (n + 1) it = drainIt n it' := by
  simp only [iterNext] at hs
  simp [drainIt, drainItG, hd, hs]

theorem takeIt_zero (it : It) : takeItG false 0 it = (it, []) := rfl

theorem takeIt_succ_some (k : Nat) {it it' : It} {o : Out} (hs : iterNext it = (it', some o)) :
    takeItG false (k + 1) it = ((takeItG false k it').1, o :: (takeItG false k it').2) := by
  simp only [iterNext] at hs
  simp [takeItG, hs]

theorem takeIt_succ_none (k : Nat) {it it' : It} (hs : iterNext it = (it', none)) :
    takeItG false (k + 1) it = (it', []) := by
  simp only [iterNext] at hs
  simp [takeItG, hs]

theorem iterNext_of_done (it : It) (hd : it.done = true) : iterNext it = (it, none) := by
  simp [iterNext, iterNextG, hd]

/-- The five behaviours of `Iterator::next` on a live iterator. -/
theorem iterNext_cases (it : It) (hd : it.done = false) :
    (it.payload.tag = it.st.expected ∧
      iterNext it =
        ({ st := ⟨it.st.expected + 1, AL.erase (it.st.expected + 1) it.st.ooo⟩,
           payload := it.payload, next := AL.lookup (it.st.expected + 1) it.st.ooo, done := false },
         some ⟨it.payload.kind, it.payload.tag⟩)) ∨
    (it.st.expected < it.payload.tag ∧ it.payload.multiple = true ∧
      iterNext it =
        ({ st := ⟨it.st.expected + 1, AL.erase it.st.expected it.st.ooo⟩,
           payload := it.payload, next := it.next, done := false },
         some ((AL.lookup it.st.expected it.st.ooo).getD ⟨it.payload.kind, it.st.expected⟩))) ∨
    (it.st.expected < it.payload.tag ∧ it.payload.multiple = false ∧
      iterNext it =
        ({ st := ⟨it.st.expected,
                  AL.insert it.payload.tag ⟨it.payload.kind, it.payload.tag⟩ it.st.ooo⟩,
           payload := it.payload, next := it.next, done := true }, none)) ∨
    (it.payload.tag < it.st.expected ∧ ∃ n, it.next = some n ∧
      iterNext it =
        ({ st := ⟨it.st.expected + 1, AL.erase (it.st.expected + 1) it.st.ooo⟩,
           payload := it.payload, next := AL.lookup (it.st.expected + 1) it.st.ooo, done := false },
         some n)) ∨
    (it.payload.tag < it.st.expected ∧ it.next = none ∧
      iterNext it = ({ it with done := true }, none)) := by
  obtain ⟨⟨e, ooo⟩, p, nx, dn⟩ := it
  simp only at hd
  subst hd
  by_cases h1 : p.tag = e
  · left
    simp [iterNext, iterNextG, h1]
  · by_cases h2 : e < p.tag
    · cases hm : p.multiple
      · right; right; left
        simp [iterNext, iterNextG, h1, h2, hm]
      · right; left
        refine ⟨h2, rfl, ?_⟩
        simp only [iterNext, iterNextG, h1, h2, hm]
        cases AL.lookup e ooo <;> simp
    · have h3 : p.tag < e := by omega
      cases nx with
      | none =>
        right; right; right; right
        simp [iterNext, iterNextG, h1, h2, h3]
      | some n =>
        right; right; right; left
        simp [iterNext, iterNextG, h1, h2, h3]

/-- A live iterator that yields nothing has just finished. -/
theorem iterNext_none_done {it it' : It} (hd : it.done = false) (hs : iterNext it = (it', none)) :
    it'.done = true := by
  rcases iterNext_cases it hd with ⟨_, h⟩ | ⟨_, _, h⟩ | ⟨_, _, h⟩ | ⟨_, n, _, h⟩ | ⟨_, _, h⟩ <;>
    rw [h] at hs <;> simp at hs <;> subst hs <;> rfl

/-! ## 3. Termination, fuel, early drop -/

/-- Termination measure of the `Drop` loop. -/
def mu (it : It) : Nat :=
  (it.payload.tag + 1 - it.st.expected) + it.st.ooo.length + (if it.next.isSome then 1 else 0)

theorem mu_lt_drainFuel (it : It) : mu it < drainFuel it := by
  unfold mu drainFuel
  split <;> omega

theorem iterNext_some_mu {it it' : It} {o : Out} (hd : it.done = false)
    (hs : iterNext it = (it', some o)) : mu it' < mu it := by
  rcases iterNext_cases it hd with ⟨h0, h⟩ | ⟨h0, _, h⟩ | ⟨_, _, h⟩ | ⟨h0, n, hn, h⟩ | ⟨_, _, h⟩ <;>
    rw [h] at hs <;> simp only [Prod.mk.injEq, reduceCtorEq, and_false] at hs
  · obtain ⟨hs, -⟩ := hs
    subst hs
    simp only [mu]
    cases hl : AL.lookup (it.st.expected + 1) it.st.ooo with
    | none =>
      have := AL.erase_length_le (it.st.expected + 1) it.st.ooo
      simp; split <;> omega
    | some v =>
      have := AL.erase_length_lt hl
      simp; split <;> omega
  · obtain ⟨hs, -⟩ := hs
    subst hs
    simp only [mu]
    have := AL.erase_length_le it.st.expected it.st.ooo
    split <;> omega
  · obtain ⟨hs, -⟩ := hs
    subst hs
    simp only [mu, hn]
    cases hl : AL.lookup (it.st.expected + 1) it.st.ooo with
    | none =>
      have := AL.erase_length_le (it.st.expected + 1) it.st.ooo
      simp; omega
    | some v =>
      have := AL.erase_length_lt hl
      simp; omega

theorem drainIt_done_of_mu (n : Nat) (it : It) (h : mu it < n) : (drainIt n it).1.done = true := by
  induction n generalizing it with
  | zero => omega
  | succ n ih =>
    cases hd : it.done with
    | true => rw [drainIt_of_done _ _ hd]; exact hd
    | false =>
      cases hs : iterNext it with
      | mk it' o =>
        cases o with
        | none =>
          rw [drainIt_succ_none n hd hs, drainIt_of_done _ _ (iterNext_none_done hd hs)]
          exact iterNext_none_done hd hs
        | some o =>
          rw [drainIt_succ_some n hd hs]
          have := iterNext_some_mu hd hs
          exact ih it' (by omega)

/-- Once a run has reached `done`, more fuel changes nothing. -/
theorem drainIt_fuel_mono (n : Nat) (it : It) (h : (drainIt n it).1.done = true) (m : Nat)
    (hm : n ≤ m) : drainIt m it = drainIt n it := by
  induction n generalizing it m with
  | zero =>
    rw [drainIt_zero] at h
    rw [drainIt_of_done _ _ h, drainIt_of_done _ _ h]
  | succ n ih =>
    cases hd : it.done with
    | true => rw [drainIt_of_done _ _ hd, drainIt_of_done _ _ hd]
    | false =>
      obtain ⟨m, rfl⟩ : ∃ m', m = m' + 1 := ⟨m - 1, by omega⟩
      cases hs : iterNext it with
      | mk it' o =>
        cases o with
        | none =>
          rw [drainIt_succ_none n hd hs] at h ⊢
          rw [drainIt_succ_none m hd hs]
          exact ih it' h m (by omega)
        | some o =>
          rw [drainIt_succ_some n hd hs] at h ⊢
          rw [drainIt_succ_some m hd hs, ih it' h m (by omega)]

theorem drainIt_drainFuel_done (it : It) : (drainIt (drainFuel it) it).1.done = true :=
  drainIt_done_of_mu _ _ (mu_lt_drainFuel it)

/-- Taking `k` items and then draining reaches the same final iterator as draining directly; the
    items taken are the first `k` of the full run. -/
theorem take_then_drain (k n : Nat) (it : It) (h : (drainIt n it).1.done = true) :
    (drainIt n (takeItG false k it).1).1 = (drainIt n it).1 ∧
    (takeItG false k it).2 = (drainIt n it).2.take k := by
  induction k generalizing n it with
  | zero => simp [takeIt_zero]
  | succ k ih =>
    cases hd : it.done with
    | true =>
      rw [takeIt_succ_none k (iterNext_of_done it hd), drainIt_of_done _ _ hd]
      simp
    | false =>
      cases n with
      | zero => rw [drainIt_zero] at h; simp [hd] at h
      | succ n =>
        cases hs : iterNext it with
        | mk it' o =>
          cases o with
          | none =>
            have hd' := iterNext_none_done hd hs
            rw [takeIt_succ_none k hs, drainIt_succ_none n hd hs, drainIt_of_done _ _ hd',
              drainIt_of_done _ _ hd']
            simp
          | some o =>
            rw [drainIt_succ_some n hd hs] at h ⊢
            rw [takeIt_succ_some k hs]
            have ⟨h1, h2⟩ := ih n it' h
            simp only [List.take_succ_cons, h2, and_true]
            have hdone : (drainIt n (takeItG false k it').1).1.done = true := by rw [h1]; exact h
            rw [← h1]
            exact drainIt_fuel_mono n _ hdone (n + 1) (by omega) ▸ rfl

theorem process_eq (st : St) (c : Confirm) :
    process st c = ((drainIt (drainFuel (mkIt st c)) (mkIt st c)).1.st,
      (drainIt (drainFuel (mkIt st c)) (mkIt st c)).2) := rfl

theorem takeDrop_eq (k : Nat) (st : St) (c : Confirm) :
    takeDrop k st c =
      ((drainIt (drainFuel (takeItG false k (mkIt st c)).1) (takeItG false k (mkIt st c)).1).1.st,
        (takeItG false k (mkIt st c)).2) := rfl

theorem takeDrop_process (k : Nat) (st : St) (c : Confirm) :
    (takeDrop k st c).1 = (process st c).1 ∧ (takeDrop k st c).2 = (process st c).2.take k := by
  have hdone := drainIt_drainFuel_done (mkIt st c)
  have ⟨h1, h2⟩ := take_then_drain k _ _ hdone
  have hdone' : (drainIt (drainFuel (mkIt st c)) (takeItG false k (mkIt st c)).1).1.done = true := by
    rw [h1]; exact hdone
  have hdone'' := drainIt_drainFuel_done (takeItG false k (mkIt st c)).1
  have e1 := drainIt_fuel_mono _ _ hdone'
    (max (drainFuel (mkIt st c)) (drainFuel (takeItG false k (mkIt st c)).1)) (Nat.le_max_left _ _)
  have e2 := drainIt_fuel_mono _ _ hdone''
    (max (drainFuel (mkIt st c)) (drainFuel (takeItG false k (mkIt st c)).1)) (Nat.le_max_right _ _)
  rw [takeDrop_eq, process_eq]
  refine ⟨?_, h2⟩
  show (drainIt _ _).1.st = (drainIt _ _).1.st
  rw [← e2, e1, h1]

/-! ## 4. The stateless spec -/

theorem covers_iff (c : Confirm) (t : Nat) :
    covers c t = true ↔ (c.multiple = true ∧ t ≤ c.tag) ∨ (c.multiple = false ∧ c.tag = t) := by
  unfold covers
  cases c.multiple <;> simp

theorem covers_self (c : Confirm) : covers c c.tag = true := by
  rw [covers_iff]; cases c.multiple <;> simp

theorem covers_le {c : Confirm} {t : Nat} (h : covers c t = true) : t ≤ c.tag := by
  rw [covers_iff] at h; omega

theorem covers_of_gt {c : Confirm} {t : Nat} (h : c.tag < t) : covers c t = false := by
  cases hc : covers c t with
  | false => rfl
  | true => have := covers_le hc; omega

theorem covers_single_ne {c : Confirm} {t : Nat} (hm : c.multiple = false) (h : c.tag ≠ t) :
    covers c t = false := by
  cases hc : covers c t with
  | false => rfl
  | true =>
    rw [covers_iff] at hc
    rcases hc with ⟨h', _⟩ | ⟨_, h'⟩
    · rw [hm] at h'; cases h'
    · exact absurd h' h

theorem isCovered_nil (t : Nat) : isCovered [] t = false := rfl

theorem isCovered_append (p q : List Confirm) (t : Nat) :
    isCovered (p ++ q) t = (isCovered p t || isCovered q t) := by
  simp [isCovered, List.any_append]

theorem isCovered_snoc (p : List Confirm) (c : Confirm) (t : Nat) :
    isCovered (p ++ [c]) t = (isCovered p t || covers c t) := by
  simp [isCovered, List.any_append]

theorem isCovered_mono {p : List Confirm} {t : Nat} (q : List Confirm)
    (h : isCovered p t = true) : isCovered (p ++ q) t = true := by
  simp [isCovered_append, h]

theorem outAt_append {p : List Confirm} {t : Nat} (q : List Confirm)
    (h : isCovered p t = true) : outAt (p ++ q) t = outAt p t := by
  unfold outAt cover
  rw [List.find?_append]
  cases hf : List.find? (fun x => covers x t) p with
  | some c => simp
  | none =>
    rw [List.find?_eq_none] at hf
    simp only [isCovered, List.any_eq_true] at h
    obtain ⟨c, hc, hcov⟩ := h
    exact absurd hcov (hf c hc)

theorem outAt_snoc_new {p : List Confirm} {c : Confirm} {t : Nat}
    (h : isCovered p t = false) (hc : covers c t = true) : outAt (p ++ [c]) t = ⟨c.kind, t⟩ := by
  unfold outAt cover
  rw [List.find?_append]
  have hf : List.find? (fun x => covers x t) p = none := by
    rw [List.find?_eq_none]
    intro x hx hcx
    have : isCovered p t = true := by
      simp only [isCovered, List.any_eq_true]; exact ⟨x, hx, hcx⟩
    rw [h] at this; cases this
  simp [hf, hc]

theorem le_foldl_maxTag (h : List Confirm) (m : Nat) :
    m ≤ h.foldl (fun m c => max m c.tag) m ∧
      ∀ c ∈ h, c.tag ≤ h.foldl (fun m c => max m c.tag) m := by
  induction h generalizing m with
  | nil => simp
  | cons a h ih =>
    simp only [List.foldl_cons, List.mem_cons]
    have ⟨h1, h2⟩ := ih (max m a.tag)
    refine ⟨by omega, ?_⟩
    rintro c (rfl | hc)
    · omega
    · exact h2 c hc

theorem covered_le_maxTag {h : List Confirm} {t : Nat} (hc : isCovered h t = true) :
    t ≤ maxTag h := by
  simp only [isCovered, List.any_eq_true] at hc
  obtain ⟨c, hmem, hcov⟩ := hc
  have := (le_foldl_maxTag h 0).2 c hmem
  have := covers_le hcov
  unfold maxTag; omega

theorem scanUp_spec (h : List Confirm) (f t : Nat) :
    t ≤ scanUp h f t ∧ (∀ u, t ≤ u → u < scanUp h f t → isCovered h u = true) ∧
      (isCovered h (scanUp h f t) = false ∨ scanUp h f t = t + f) := by
  induction f generalizing t with
  | zero => simp [scanUp]; intro u h1 h2; omega
  | succ f ih =>
    unfold scanUp
    cases hc : isCovered h t with
    | false => simp [hc]; intro u h1 h2; omega
    | true =>
      simp only [if_true]
      have ⟨h1, h2, h3⟩ := ih (t + 1)
      refine ⟨by omega, ?_, ?_⟩
      · intro u hu1 hu2
        by_cases hut : u = t
        · subst hut; exact hc
        · exact h2 u (by omega) hu2
      · rcases h3 with h3 | h3
        · exact Or.inl h3
        · exact Or.inr (by omega)

theorem frontier_spec' (start : Nat) (h : List Confirm) :
    start ≤ frontier start h ∧ isCovered h (frontier start h) = false ∧
      ∀ t, start ≤ t → t < frontier start h → isCovered h t = true := by
  have ⟨h1, h2, h3⟩ := scanUp_spec h (maxTag h + 2 - start) start
  refine ⟨h1, ?_, h2⟩
  rcases h3 with h3 | h3
  · exact h3
  · cases hc : isCovered h (frontier start h) with
    | false => rfl
    | true =>
      have := covered_le_maxTag hc
      unfold frontier at this
      omega

/-- The frontier is the only tag with the three properties of `frontier_spec'`. -/
theorem frontier_unique {start : Nat} {h : List Confirm} {a : Nat} (h1 : start ≤ a)
    (h2 : isCovered h a = false) (h3 : ∀ t, start ≤ t → t < a → isCovered h t = true) :
    frontier start h = a := by
  have ⟨g1, g2, g3⟩ := frontier_spec' start h
  rcases Nat.lt_trichotomy (frontier start h) a with hlt | heq | hgt
  · have := h3 _ g1 hlt; rw [g2] at this; cases this
  · exact heq
  · have := g3 _ h1 hgt; rw [h2] at this; cases this

theorem frontier_nil (start : Nat) : frontier start [] = start :=
  frontier_unique (Nat.le_refl _) rfl (fun t h1 h2 => by omega)

theorem frontier_mono (start : Nat) (p q : List Confirm) :
    frontier start p ≤ frontier start (p ++ q) := by
  have ⟨g1, g2, g3⟩ := frontier_spec' start p
  have ⟨k1, k2, k3⟩ := frontier_spec' start (p ++ q)
  rcases Nat.lt_or_ge (frontier start (p ++ q)) (frontier start p) with hlt | hge
  · have := isCovered_mono q (g3 _ k1 hlt)
    rw [k2] at this; cases this
  · exact hge

theorem map_outAt_range'_congr (p q : List Confirm) (a n : Nat)
    (h : ∀ t, a ≤ t → t < a + n → isCovered p t = true) :
    (List.range' a n).map (outAt (p ++ q)) = (List.range' a n).map (outAt p) := by
  apply List.map_congr_left
  intro t ht
  rw [List.mem_range'_1] at ht
  exact outAt_append q (h t ht.1 ht.2)

theorem specRun_flatten (start : Nat) (p h : List Confirm) :
    (specRun start p h).flatten =
      (List.range' (frontier start p) (frontier start (p ++ h) - frontier start p)).map
        (outAt (p ++ h)) := by
  induction h generalizing p with
  | nil => simp [specRun]
  | cons c cs ih =>
    have e : p ++ c :: cs = (p ++ [c]) ++ cs := by simp
    simp only [specRun, List.flatten_cons, ih, specOut]
    rw [e]
    have m1 := frontier_mono start p [c]
    have m2 := frontier_mono start (p ++ [c]) cs
    have hcov := (frontier_spec' start (p ++ [c])).2.2
    have g1 := (frontier_spec' start p).1
    rw [← map_outAt_range'_congr (p ++ [c]) cs (frontier start p)
      (frontier start (p ++ [c]) - frontier start p)
      (fun t h1 h2 => hcov t (by omega) (by omega))]
    rw [← List.map_append]
    congr 1
    have : frontier start (p ++ [c] ++ cs) - frontier start p =
        (frontier start (p ++ [c]) - frontier start p) +
          (frontier start (p ++ [c] ++ cs) - frontier start (p ++ [c])) := by omega
    rw [this, ← List.range'_append_1]
    congr 2
    omega

/-! ## 5. Safety for arbitrary histories -/

theorem run_nil (st : St) : run st [] = (st, []) := rfl

theorem run_cons (st : St) (c : Confirm) (cs : List Confirm) :
    run st (c :: cs) =
      ((run (process st c).1 cs).1, (process st c).2 :: (run (process st c).1 cs).2) := rfl

/-- Iterator invariant, relative to a coverage predicate `cv`: stored entries sit under their own
    tag and are covered; a pending `next` exists only after the payload's own tag has been emitted
    and is the entry for `expected`; whatever the payload covers is covered. -/
def J (cv : Nat → Bool) (it : It) : Prop :=
  (∀ t o, AL.lookup t it.st.ooo = some o → o.tag = t ∧ cv t = true) ∧
  (∀ n, it.next = some n →
    it.payload.tag < it.st.expected ∧ n.tag = it.st.expected ∧ cv it.st.expected = true) ∧
  (∀ t, covers it.payload t = true → cv t = true)

theorem J_erase {cv : Nat → Bool} {m : List (Nat × Out)} (k : Nat)
    (j1 : ∀ t o, AL.lookup t m = some o → o.tag = t ∧ cv t = true) :
    ∀ t o, AL.lookup t (AL.erase k m) = some o → o.tag = t ∧ cv t = true := by
  intro t o ho
  simp only [lookup_erase] at ho
  split at ho
  · cases ho
  · exact j1 t o ho

theorem J_step_some {cv : Nat → Bool} {it it' : It} {o : Out} (hJ : J cv it)
    (hd : it.done = false) (hs : iterNext it = (it', some o)) :
    J cv it' ∧ o.tag = it.st.expected ∧ cv it.st.expected = true ∧
      it'.st.expected = it.st.expected + 1 := by
  obtain ⟨j1, j2, j3⟩ := hJ
  rcases iterNext_cases it hd with ⟨h0, h⟩ | ⟨h0, hm, h⟩ | ⟨_, _, h⟩ | ⟨h0, n, hn, h⟩ | ⟨_, _, h⟩ <;>
    rw [h] at hs <;> simp only [Prod.mk.injEq, reduceCtorEq, and_false, Option.some.injEq] at hs
  · obtain ⟨rfl, rfl⟩ := hs
    refine ⟨⟨J_erase _ j1, ?_, j3⟩, h0, ?_, rfl⟩
    · intro n hn
      exact ⟨by simp only; omega, (j1 _ n hn).1, (j1 _ n hn).2⟩
    · rw [← h0]; exact j3 _ (covers_self _)
  · obtain ⟨rfl, rfl⟩ := hs
    have hcv : cv it.st.expected = true :=
      j3 _ ((covers_iff _ _).2 (Or.inl ⟨hm, by omega⟩))
    refine ⟨⟨J_erase _ j1, ?_, j3⟩, ?_, hcv, rfl⟩
    · intro n hn
      have := (j2 n hn).1
      omega
    · cases hl : AL.lookup it.st.expected it.st.ooo with
      | none => rfl
      | some v => exact (j1 _ v hl).1
  · obtain ⟨rfl, rfl⟩ := hs
    refine ⟨⟨J_erase _ j1, ?_, j3⟩, (j2 n hn).2.1, (j2 n hn).2.2, rfl⟩
    intro n hn
    exact ⟨by simp only; omega, (j1 _ n hn).1, (j1 _ n hn).2⟩

theorem J_step_none {cv : Nat → Bool} {it it' : It} (hJ : J cv it)
    (hd : it.done = false) (hs : iterNext it = (it', none)) :
    J cv it' ∧ it'.st.expected = it.st.expected := by
  obtain ⟨j1, j2, j3⟩ := hJ
  rcases iterNext_cases it hd with ⟨h0, h⟩ | ⟨h0, hm, h⟩ | ⟨h0, hm, h⟩ | ⟨h0, n, hn, h⟩ | ⟨_, _, h⟩ <;>
    rw [h] at hs <;> simp only [Prod.mk.injEq, reduceCtorEq, and_false, and_true] at hs
  · subst hs
    refine ⟨⟨?_, ?_, j3⟩, rfl⟩
    · intro t o ho
      simp only [lookup_insert] at ho
      split at ho
      · next ht =>
        cases ho
        subst ht
        exact ⟨rfl, j3 _ (covers_self _)⟩
      · exact j1 t o ho
    · intro n hn
      have := (j2 n hn).1
      omega
  · subst hs
    exact ⟨⟨j1, j2, j3⟩, rfl⟩

theorem J_drain {cv : Nat → Bool} (n : Nat) (it : It) (hJ : J cv it) :
    J cv (drainIt n it).1 ∧
    (drainIt n it).2.map (·.tag) = List.range' it.st.expected (drainIt n it).2.length ∧
    (drainIt n it).1.st.expected = it.st.expected + (drainIt n it).2.length ∧
    ∀ o ∈ (drainIt n it).2, cv o.tag = true := by
  induction n generalizing it with
  | zero => simp [drainIt_zero, hJ]
  | succ n ih =>
    cases hd : it.done with
    | true => simp [drainIt_of_done _ _ hd, hJ]
    | false =>
      cases hs : iterNext it with
      | mk it' o =>
        cases o with
        | none =>
          have ⟨hJ', he⟩ := J_step_none hJ hd hs
          rw [drainIt_succ_none n hd hs, ← he]
          exact ih it' hJ'
        | some o =>
          have ⟨hJ', ht, hc, he⟩ := J_step_some hJ hd hs
          have ⟨i1, i2, i3, i4⟩ := ih it' hJ'
          rw [drainIt_succ_some n hd hs]
          refine ⟨i1, ?_, ?_, ?_⟩
          · simp only [List.map_cons, List.length_cons, List.range'_succ, i2, ht, he]
          · simp only [List.length_cons, i3, he]; omega
          · intro x hx
            simp only [List.mem_cons] at hx
            rcases hx with rfl | hx
            · rw [ht]; exact hc
            · exact i4 x hx

/-- State invariant for arbitrary histories: a stored entry sits under its own tag, and somebody
    confirmed that tag. -/
def SInv (p : List Confirm) (st : St) : Prop :=
  ∀ t o, AL.lookup t st.ooo = some o → o.tag = t ∧ isCovered p t = true

theorem SInv_new (start : Nat) : SInv [] (Smoother.new start) := by
  intro t o h; simp [Smoother.new] at h

theorem process_safe (p : List Confirm) (st : St) (c : Confirm) (h : SInv p st) :
    (process st c).2.map (·.tag) = List.range' st.expected (process st c).2.length ∧
    (process st c).1.expected = st.expected + (process st c).2.length ∧
    (∀ o ∈ (process st c).2, isCovered (p ++ [c]) o.tag = true) ∧
    SInv (p ++ [c]) (process st c).1 := by
  have hJ : J (isCovered (p ++ [c])) (mkIt st c) := by
    refine ⟨?_, ?_, ?_⟩
    · intro t o ho
      exact ⟨(h t o ho).1, isCovered_mono _ (h t o ho).2⟩
    · intro n hn; cases hn
    · intro t ht
      simp [isCovered_snoc, mkIt] at ht ⊢
      exact Or.inr ht
  have ⟨i1, i2, i3, i4⟩ := J_drain (drainFuel (mkIt st c)) (mkIt st c) hJ
  rw [process_eq]
  exact ⟨i2, i3, i4, i1.1⟩

theorem run_SInv (p h : List Confirm) (st : St) (hI : SInv p st) : SInv (p ++ h) (run st h).1 := by
  induction h generalizing p st with
  | nil => simpa [run_nil] using hI
  | cons c cs ih =>
    rw [run_cons]
    have := ih (p ++ [c]) _ (process_safe p st c hI).2.2.2
    simpa using this

theorem run_expected (p h : List Confirm) (st : St) (hI : SInv p st) :
    (run st h).1.expected = st.expected + (run st h).2.flatten.length := by
  induction h generalizing p st with
  | nil => simp [run_nil]
  | cons c cs ih =>
    rw [run_cons]
    have ⟨_, h2, _, h4⟩ := process_safe p st c hI
    have := ih (p ++ [c]) _ h4
    simp only [List.flatten_cons, List.length_append, this, h2]
    omega

/-! ## 6. Refinement of the spec on valid histories -/

/-- What the out-of-order store must hold at tag `t` when it keeps exactly the covered tags `≥ lo`. -/
def want (p : List Confirm) (lo t : Nat) : Option Out :=
  if lo ≤ t ∧ isCovered p t = true then some (outAt p t) else none

theorem want_self_none (p : List Confirm) (lo : Nat) : want p (lo + 1) lo = none := by
  unfold want
  rw [if_neg]
  omega

theorem want_succ_of_ne (p : List Confirm) {lo t : Nat} (h : t ≠ lo) :
    want p lo t = want p (lo + 1) t := by
  unfold want
  have : lo ≤ t ↔ lo + 1 ≤ t := by omega
  simp only [this]

theorem want_succ_of_not_cov {p : List Confirm} {lo : Nat} (h : isCovered p lo = false) (t : Nat) :
    want p lo t = want p (lo + 1) t := by
  by_cases ht : t = lo
  · subst ht; simp [want, h]
  · exact want_succ_of_ne p ht

theorem want_self (p : List Confirm) (lo : Nat) :
    want p lo lo = if isCovered p lo = true then some (outAt p lo) else none := by
  simp [want]

theorem want_erase {p : List Confirm} {lo : Nat} {m : List (Nat × Out)}
    (h : ∀ t, AL.lookup t m = want p lo t) (t : Nat) :
    AL.lookup t (AL.erase lo m) = want p (lo + 1) t := by
  rw [lookup_erase]
  split
  · next ht => subst ht; exact (want_self_none p t).symm
  · next ht => rw [h, want_succ_of_ne p ht]

theorem want_snoc_of_lt {p : List Confirm} {c : Confirm} {lo : Nat} (h : c.tag < lo) (t : Nat) :
    want (p ++ [c]) lo t = want p lo t := by
  unfold want
  by_cases hlo : lo ≤ t
  · have hc : covers c t = false := covers_of_gt (by omega)
    rw [isCovered_snoc, hc, Bool.or_false]
    cases hp : isCovered p t with
    | false => simp
    | true => simp [hlo, outAt_append [c] hp]
  · simp [hlo]

/-- State invariant on valid histories: `expected` is the spec's frontier and the store holds
    exactly the covered tags beyond it, each with its true outcome. -/
def RInv (start : Nat) (p : List Confirm) (st : St) : Prop :=
  st.expected = frontier start p ∧ ∀ t, AL.lookup t st.ooo = want p (st.expected + 1) t

theorem RInv_new (start : Nat) : RInv start [] (Smoother.new start) := by
  refine ⟨(frontier_nil start).symm, ?_⟩
  intro t
  simp [Smoother.new, want, isCovered_nil]

/-- Iterator invariant while serving payload `c` after valid history `p` (sweep / chain phases). -/
def K (p : List Confirm) (c : Confirm) (it : It) : Prop :=
  it.payload = c ∧
  (it.st.expected < c.tag → c.multiple = true) ∧
  (it.st.expected ≤ c.tag →
    it.next = none ∧ it.done = false ∧ ∀ t, AL.lookup t it.st.ooo = want p it.st.expected t) ∧
  (c.tag < it.st.expected →
    (∀ t, AL.lookup t it.st.ooo = want p (it.st.expected + 1) t) ∧
    it.next = want p it.st.expected it.st.expected ∧
    (it.done = true → isCovered p it.st.expected = false))

theorem K_step_some {p : List Confirm} {c : Confirm} {it it' : It} {o : Out} (hK : K p c it)
    (hv : isCovered p c.tag = false) (hd : it.done = false) (hs : iterNext it = (it', some o)) :
    K p c it' ∧ o = outAt (p ++ [c]) it.st.expected ∧
      isCovered (p ++ [c]) it.st.expected = true ∧ it'.st.expected = it.st.expected + 1 := by
  obtain ⟨rfl, k2, k3, k4⟩ := hK
  rcases iterNext_cases it hd with ⟨h0, h⟩ | ⟨h0, hm, h⟩ | ⟨_, _, h⟩ | ⟨h0, n, hn, h⟩ | ⟨_, _, h⟩ <;>
    rw [h] at hs <;> simp only [Prod.mk.injEq, reduceCtorEq, and_false, Option.some.injEq] at hs
  · -- exact match
    obtain ⟨rfl, rfl⟩ := hs
    obtain ⟨-, -, k3⟩ := k3 (by omega)
    have hv' : isCovered p it.st.expected = false := h0 ▸ hv
    have k3' : ∀ t, AL.lookup t it.st.ooo = want p (it.st.expected + 1) t :=
      fun t => (k3 t).trans (want_succ_of_not_cov hv' t)
    refine ⟨⟨rfl, ?_, ?_, ?_⟩, ?_, ?_, rfl⟩
    · intro hlt; simp only at hlt; omega
    · intro hle; simp only at hle; omega
    · intro _
      exact ⟨want_erase k3', k3' _, fun hd' => by cases hd'⟩
    · rw [outAt_snoc_new hv' (h0 ▸ covers_self _), h0]
    · rw [isCovered_snoc, ← h0, covers_self, Bool.or_true]
  · -- sweep
    obtain ⟨rfl, rfl⟩ := hs
    obtain ⟨k31, -, k3⟩ := k3 (by omega)
    have hcov : covers it.payload it.st.expected = true :=
      (covers_iff _ _).2 (Or.inl ⟨hm, by omega⟩)
    refine ⟨⟨rfl, fun _ => hm, ?_, ?_⟩, ?_, ?_, rfl⟩
    · intro _
      exact ⟨k31, rfl, want_erase k3⟩
    · intro hlt; simp only at hlt; omega
    · rw [k3, want_self]
      cases hp : isCovered p it.st.expected with
      | false => simp [outAt_snoc_new hp hcov]
      | true => simp [outAt_append [it.payload] hp]
    · rw [isCovered_snoc, hcov, Bool.or_true]
  · -- chain
    obtain ⟨rfl, rfl⟩ := hs
    obtain ⟨k41, k42, -⟩ := k4 h0
    rw [hn, want_self] at k42
    have hp : isCovered p it.st.expected = true := by
      cases hp : isCovered p it.st.expected with
      | false => simp [hp] at k42
      | true => rfl
    simp only [hp, if_true, Option.some.injEq] at k42
    refine ⟨⟨rfl, ?_, ?_, ?_⟩, ?_, isCovered_mono _ hp, rfl⟩
    · intro hlt; simp only at hlt; omega
    · intro hle; simp only at hle; omega
    · intro _
      exact ⟨want_erase k41, k41 _, fun hd' => by cases hd'⟩
    · rw [outAt_append _ hp, k42]

theorem K_step_none {p : List Confirm} {c : Confirm} {it it' : It} (hK : K p c it)
    (hd : it.done = false) (hs : iterNext it = (it', none)) :
    K p c it' ∧ it'.st.expected = it.st.expected := by
  obtain ⟨rfl, k2, k3, k4⟩ := hK
  rcases iterNext_cases it hd with ⟨h0, h⟩ | ⟨h0, hm, h⟩ | ⟨h0, hm, h⟩ | ⟨h0, n, hn, h⟩ | ⟨h0, hn, h⟩ <;>
    rw [h] at hs <;> simp only [Prod.mk.injEq, reduceCtorEq, and_false, and_true] at hs
  · have := k2 h0
    rw [hm] at this; cases this
  · subst hs
    obtain ⟨k41, k42, -⟩ := k4 h0
    refine ⟨⟨rfl, k2, ?_, ?_⟩, rfl⟩
    · intro hle; simp only at hle; omega
    · intro _
      refine ⟨k41, k42, fun _ => ?_⟩
      rw [hn, want_self] at k42
      cases hp : isCovered p it.st.expected with
      | false => rfl
      | true => simp [hp] at k42

theorem K_drain {p : List Confirm} {c : Confirm} (hv : isCovered p c.tag = false) (n : Nat)
    (it : It) (hK : K p c it) (hdone : (drainIt n it).1.done = true) :
    K p c (drainIt n it).1 ∧ it.st.expected ≤ (drainIt n it).1.st.expected ∧
    (drainIt n it).2 =
      (List.range' it.st.expected ((drainIt n it).1.st.expected - it.st.expected)).map
        (outAt (p ++ [c])) ∧
    ∀ t, it.st.expected ≤ t → t < (drainIt n it).1.st.expected →
      isCovered (p ++ [c]) t = true := by
  induction n generalizing it with
  | zero =>
    simp only [drainIt_zero, Nat.sub_self, List.range'_zero, List.map_nil, Nat.le_refl, true_and]
    exact ⟨hK, fun t h1 h2 => by omega⟩
  | succ n ih =>
    cases hd : it.done with
    | true =>
      simp only [drainIt_of_done _ _ hd, Nat.sub_self, List.range'_zero, List.map_nil, Nat.le_refl,
        true_and]
      exact ⟨hK, fun t h1 h2 => by omega⟩
    | false =>
      cases hs : iterNext it with
      | mk it' o =>
        cases o with
        | none =>
          have ⟨hK', he⟩ := K_step_none hK hd hs
          rw [drainIt_succ_none n hd hs] at hdone ⊢
          rw [← he]
          exact ih it' hK' hdone
        | some o =>
          have ⟨hK', ho, hc, he⟩ := K_step_some hK hv hd hs
          rw [drainIt_succ_some n hd hs] at hdone ⊢
          have ⟨i1, i2, i3, i4⟩ := ih it' hK' hdone
          refine ⟨i1, by simp only; omega, ?_, ?_⟩
          · simp only
            have : (drainIt n it').1.st.expected - it.st.expected =
                ((drainIt n it').1.st.expected - it'.st.expected) + 1 := by omega
            rw [this, List.range'_succ, List.map_cons, ← ho, ← he, ← i3]
          · intro t h1 h2
            by_cases ht : t = it.st.expected
            · subst ht; exact hc
            · exact i4 t (by omega) h2

theorem validStep_iff (start : Nat) (p : List Confirm) (c : Confirm) :
    validStep start p c = true ↔ start ≤ c.tag ∧ isCovered p c.tag = false := by
  simp [validStep]

/-- A single confirmation beyond `expected` is parked. -/
theorem process_park (st : St) (c : Confirm) (h1 : st.expected < c.tag) (hm : c.multiple = false) :
    process st c = (⟨st.expected, AL.insert c.tag ⟨c.kind, c.tag⟩ st.ooo⟩, []) := by
  have hd : (mkIt st c).done = false := rfl
  obtain ⟨k, hk⟩ : ∃ k, drainFuel (mkIt st c) = k + 1 := ⟨_, rfl⟩
  rw [process_eq, hk]
  rcases iterNext_cases (mkIt st c) hd with ⟨h0, h⟩ | ⟨h0, hm', h⟩ | ⟨_, _, h⟩ | ⟨h0, n, hn, h⟩ | ⟨h0, _, h⟩
  · simp only [mkIt] at h0; omega
  · simp only [mkIt] at hm'; rw [hm] at hm'; cases hm'
  · rw [drainIt_succ_none k hd h, drainIt_of_done _ _ rfl]
    rfl
  · simp only [mkIt] at h0; omega
  · simp only [mkIt] at h0; omega

theorem process_refines {start : Nat} {p : List Confirm} {st : St} (c : Confirm)
    (hI : RInv start p st) (hv : validStep start p c = true) :
    (process st c).2 = specOut start p c ∧ RInv start (p ++ [c]) (process st c).1 := by
  obtain ⟨hs, hcv⟩ := (validStep_iff start p c).1 hv
  obtain ⟨hE, hL⟩ := hI
  have ⟨f1, f2, f3⟩ := frontier_spec' start p
  -- the payload's tag is at or beyond the frontier
  have hge : st.expected ≤ c.tag := by
    rcases Nat.lt_or_ge c.tag st.expected with hlt | hge
    · have := f3 c.tag hs (hE ▸ hlt); rw [hcv] at this; cases this
    · exact hge
  by_cases hpark : st.expected < c.tag ∧ c.multiple = false
  · -- parked: nothing is emitted, the frontier does not move
    obtain ⟨hlt, hm⟩ := hpark
    have hcE : covers c st.expected = false := covers_single_ne hm (by omega)
    have hF : frontier start (p ++ [c]) = st.expected := by
      apply frontier_unique (hE ▸ f1)
      · rw [isCovered_snoc, hcE, hE, f2]; rfl
      · intro t h1 h2; exact isCovered_mono _ (f3 t h1 (hE ▸ h2))
    rw [process_park st c hlt hm]
    refine ⟨?_, hF.symm, ?_⟩
    · simp [specOut, hF, ← hE]
    · intro t
      simp only [lookup_insert]
      split
      · next ht =>
        subst ht
        simp only [want]
        rw [if_pos ⟨by omega, by rw [isCovered_snoc, covers_self, Bool.or_true]⟩,
          outAt_snoc_new hcv (covers_self c)]
      · next ht =>
        have hct : covers c t = false := covers_single_ne hm (fun h => ht h.symm)
        rw [hL t]
        unfold want
        rw [isCovered_snoc, hct, Bool.or_false]
        cases hp : isCovered p t with
        | false => simp
        | true => simp [outAt_append [c] hp]
  · -- sweep / exact match / chain
    have hm : st.expected < c.tag → c.multiple = true := by
      intro hlt
      cases hm : c.multiple with
      | true => rfl
      | false => exact absurd ⟨hlt, hm⟩ hpark
    have hEcov : isCovered p st.expected = false := hE ▸ f2
    have hK : K p c (mkIt st c) := by
      refine ⟨rfl, hm, fun _ => ⟨rfl, rfl, ?_⟩, ?_⟩
      · intro t
        exact (hL t).trans (want_succ_of_not_cov hEcov t).symm
      · intro hlt; simp only [mkIt] at hlt; omega
    have hdone := drainIt_drainFuel_done (mkIt st c)
    have ⟨⟨_, _, i13, i14⟩, i2, i3, i4⟩ := K_drain hcv _ _ hK hdone
    rw [process_eq]
    generalize drainIt (drainFuel (mkIt st c)) (mkIt st c) = r at *
    simp only [mkIt] at i2 i3 i4
    -- the run ended beyond the payload's tag, at an uncovered tag
    have hgt : c.tag < r.1.st.expected := by
      rcases Nat.lt_or_ge c.tag r.1.st.expected with h | h
      · exact h
      · have := (i13 h).2.1; rw [hdone] at this; cases this
    obtain ⟨j1, _, j3⟩ := i14 hgt
    have hF : frontier start (p ++ [c]) = r.1.st.expected := by
      apply frontier_unique (by have := hE ▸ f1; omega)
      · rw [isCovered_snoc, j3 hdone, covers_of_gt hgt]; rfl
      · intro t h1 h2
        by_cases ht : t < st.expected
        · exact isCovered_mono _ (f3 t h1 (hE ▸ ht))
        · exact i4 t (by omega) h2
    refine ⟨?_, hF.symm, ?_⟩
    · simp only [specOut, hF, ← hE, i3]
    · show ∀ t, AL.lookup t r.1.st.ooo = want (p ++ [c]) (r.1.st.expected + 1) t
      intro t
      rw [j1 t, want_snoc_of_lt (by omega)]

theorem run_refines {start : Nat} (h p : List Confirm) (st : St) (hI : RInv start p st)
    (hv : validFrom start p h = true) : (run st h).2 = specRun start p h := by
  induction h generalizing p st with
  | nil => rfl
  | cons c cs ih =>
    simp only [validFrom, Bool.and_eq_true] at hv
    have ⟨h1, h2⟩ := process_refines c hI hv.1
    rw [run_cons]
    simp only [specRun, h1, ih (p ++ [c]) _ h2 hv.2]

end AmqModel.Smoother
