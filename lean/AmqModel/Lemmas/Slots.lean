import AmqModel.Model.Slots
/-!
Helper lemmas for C10 (`AmqModel/Props/C10.lean`) about the channel-id allocator model
`AmqModel/Model/Slots.lean`.
-/
namespace AmqModel.Slots

/-- Same body as `AmqModel.Props.C10.Inv` (the two are definitionally equal). -/
def WF (s : Slots) : Prop :=
  s.open_.Nodup ∧ (∀ id ∈ s.open_, 1 ≤ id ∧ id ≤ s.max) ∧
  s.freed.Nodup ∧ (∀ id ∈ s.freed, 1 ≤ id ∧ id ≤ s.max) ∧
  1 ≤ s.next ∧ s.next ≤ s.max + 1 ∧
  (∀ id, 1 ≤ id → id < s.next → id ∈ s.open_ ∨ id ∈ s.freed)

theorem wf_new (max : Nat) : WF (new max) := by
  refine ⟨?_, ?_, ?_, ?_, ?_, ?_, ?_⟩ <;> simp [new]
  intro id h1 h2; omega

/-! ## `freedInsert` -/

theorem mem_freedInsert {x id : Nat} {f : List Nat} :
    x ∈ freedInsert id f ↔ x = id ∨ x ∈ f := by
  unfold freedInsert
  split
  · constructor
    · intro h; exact Or.inr h
    · rintro (h | h)
      · subst h; assumption
      · exact h
  · simp

theorem nodup_freedInsert {id : Nat} {f : List Nat} (h : f.Nodup) :
    (freedInsert id f).Nodup := by
  unfold freedInsert
  split
  · exact h
  · exact List.nodup_cons.mpr ⟨by assumption, h⟩

theorem mem_foldl_freedInsert (l f : List Nat) (x : Nat) :
    x ∈ l.foldl (fun f id => freedInsert id f) f ↔ x ∈ l ∨ x ∈ f := by
  induction l generalizing f with
  | nil => simp
  | cons a l ih =>
    rw [List.foldl_cons, ih, mem_freedInsert, List.mem_cons]
    constructor
    · rintro (h | h | h)
      · exact Or.inl (Or.inr h)
      · exact Or.inl (Or.inl h)
      · exact Or.inr h
    · rintro ((h | h) | h)
      · exact Or.inr (Or.inl h)
      · exact Or.inl h
      · exact Or.inr (Or.inr h)

theorem nodup_foldl_freedInsert (l f : List Nat) (h : f.Nodup) :
    (l.foldl (fun f id => freedInsert id f) f).Nodup := by
  induction l generalizing f with
  | nil => exact h
  | cons a l ih => exact ih _ (nodup_freedInsert h)

/-! ## `counterLoop` -/

theorem counterLoop_fuel (n : Nat) (s : Slots) (h : s.max + 1 - s.next ≤ n) :
    counterLoop n s = counterLoop (s.max + 1 - s.next) s := by
  induction n generalizing s with
  | zero =>
    have : s.max + 1 - s.next = 0 := by omega
    rw [this]
  | succ n ih =>
    by_cases hle : s.next ≤ s.max
    · obtain ⟨k, hk⟩ : ∃ k, s.max + 1 - s.next = k + 1 := ⟨s.max - s.next, by omega⟩
      rw [hk]
      simp only [counterLoop, hle, if_true]
      split
      · have e : k = ({ s with next := s.next + 1 } : Slots).max + 1
            - ({ s with next := s.next + 1 } : Slots).next := by
          show k = s.max + 1 - (s.next + 1); omega
        rw [e]
        apply ih
        show s.max + 1 - (s.next + 1) ≤ n; omega
      · rfl
    · have h0 : s.max + 1 - s.next = 0 := by omega
      rw [h0]
      simp [counterLoop, hle]

theorem counterLoop_some {n : Nat} {s s' : Slots} {id : Nat}
    (h : counterLoop n s = (s', some id)) :
    s.next ≤ id ∧ id ≤ s.max ∧ id ∉ s.open_ ∧ s'.open_ = id :: s.open_ ∧
    s'.freed = s.freed ∧ s'.next = id + 1 ∧ s'.max = s.max ∧
    ∀ x, s.next ≤ x → x < id → x ∈ s.open_ := by
  induction n generalizing s with
  | zero => simp [counterLoop] at h
  | succ n ih =>
    simp only [counterLoop] at h
    split at h
    · rename_i hle
      split at h
      · rename_i hmem
        obtain ⟨a1, a2, a3, a4, a5, a6, a7, a8⟩ := ih h
        refine ⟨by have := a1; simp only at this; omega, a2, a3, a4, a5, a6, a7, ?_⟩
        intro x hx1 hx2
        by_cases hx : x = s.next
        · subst hx; exact hmem
        · apply a8 x _ hx2
          show s.next + 1 ≤ x; omega
      · rename_i hmem
        simp only [Prod.mk.injEq, Option.some.injEq] at h
        obtain ⟨h1, h2⟩ := h
        subst h1; subst h2
        refine ⟨Nat.le_refl _, hle, hmem, rfl, rfl, rfl, rfl, ?_⟩
        intro x hx1 hx2; omega
    · simp at h

theorem counterLoop_none {n : Nat} {s s' : Slots}
    (hn : s.max + 1 - s.next ≤ n) (hnext : s.next ≤ s.max + 1)
    (h : counterLoop n s = (s', none)) :
    s'.next = s.max + 1 ∧ s'.open_ = s.open_ ∧ s'.freed = s.freed ∧ s'.max = s.max ∧
    ∀ x, s.next ≤ x → x ≤ s.max → x ∈ s.open_ := by
  induction n generalizing s with
  | zero =>
    simp only [counterLoop, Prod.mk.injEq, and_true] at h
    subst h
    refine ⟨by omega, rfl, rfl, rfl, ?_⟩
    intro x h1 h2; omega
  | succ n ih =>
    simp only [counterLoop] at h
    split at h
    · rename_i hle
      split at h
      · rename_i hmem
        have hn' : ({ s with next := s.next + 1 } : Slots).max + 1
            - ({ s with next := s.next + 1 } : Slots).next ≤ n := by
          show s.max + 1 - (s.next + 1) ≤ n; omega
        have hnext' : ({ s with next := s.next + 1 } : Slots).next
            ≤ ({ s with next := s.next + 1 } : Slots).max + 1 := by
          show s.next + 1 ≤ s.max + 1; omega
        obtain ⟨a1, a2, a3, a4, a5⟩ := ih hn' hnext' h
        refine ⟨a1, a2, a3, a4, ?_⟩
        intro x hx1 hx2
        by_cases hx : x = s.next
        · subst hx; exact hmem
        · apply a5 x _ hx2
          show s.next + 1 ≤ x; omega
      · simp at h
    · rename_i hle
      simp only [Prod.mk.injEq, and_true] at h
      subst h
      refine ⟨by omega, rfl, rfl, rfl, ?_⟩
      intro x h1 h2; omega

/-! ## `popLoop` -/

theorem popLoop_some {o f f' : List Nat} {id : Nat} (h : popLoop o f = (f', some id)) :
    id ∉ o ∧ id ∈ f ∧ f'.Sublist f ∧ ∀ x ∈ f, x ∈ f' ∨ x ∈ o ∨ x = id := by
  induction f with
  | nil => simp [popLoop] at h
  | cons a rest ih =>
    simp only [popLoop] at h
    split at h
    · rename_i hmem
      obtain ⟨a1, a2, a3, a4⟩ := ih h
      refine ⟨a1, List.mem_cons_of_mem _ a2, a3.trans (List.sublist_cons_self _ _), ?_⟩
      intro x hx
      rcases List.mem_cons.mp hx with hx | hx
      · subst hx; exact Or.inr (Or.inl hmem)
      · exact a4 x hx
    · rename_i hmem
      simp only [Prod.mk.injEq, Option.some.injEq] at h
      obtain ⟨h1, h2⟩ := h
      subst h1; subst h2
      refine ⟨hmem, List.mem_cons_self, List.sublist_cons_self _ _, ?_⟩
      intro x hx
      rcases List.mem_cons.mp hx with hx | hx
      · exact Or.inr (Or.inr hx)
      · exact Or.inl hx

theorem popLoop_none {o f f' : List Nat} (h : popLoop o f = (f', none)) :
    f' = [] ∧ ∀ x ∈ f, x ∈ o := by
  induction f with
  | nil =>
    simp only [popLoop, Prod.mk.injEq, and_true] at h
    exact ⟨h.symm, by simp⟩
  | cons a rest ih =>
    simp only [popLoop] at h
    split at h
    · rename_i hmem
      obtain ⟨a1, a2⟩ := ih h
      refine ⟨a1, ?_⟩
      intro x hx
      rcases List.mem_cons.mp hx with hx | hx
      · subst hx; exact hmem
      · exact a2 x hx
    · simp at h

/-! ## `insertSome` -/

theorem insertSome_ok {s : Slots} {id : Nat} (h1 : 1 ≤ id) (h2 : id ≤ s.max)
    (h3 : id ∉ s.open_) : insertSome s id = ({ s with open_ := id :: s.open_ }, .ok id) := by
  have h0 : id ≠ 0 := by omega
  have h4 : ¬ id > s.max := by omega
  simp [insertSome, insertSomeG, h0, h4, h3]

theorem insertSome_unavailable {s : Slots} {id : Nat}
    (h : ¬(1 ≤ id ∧ id ≤ s.max ∧ id ∉ s.open_)) : insertSome s id = (s, .unavailable id) := by
  simp only [insertSome, insertSomeG]
  split
  · rfl
  · rename_i hc
    split
    · rfl
    · rename_i hmem
      exfalso
      apply h
      simp at hc
      exact ⟨by omega, by omega, hmem⟩

theorem insertSome_spec (s : Slots) (id : Nat) :
    (1 ≤ id ∧ id ≤ s.max ∧ id ∉ s.open_ →
        (insertSome s id).2 = .ok id ∧ (insertSome s id).1.open_ = id :: s.open_) ∧
    (¬(1 ≤ id ∧ id ≤ s.max ∧ id ∉ s.open_) → insertSome s id = (s, .unavailable id)) := by
  constructor
  · rintro ⟨h1, h2, h3⟩
    rw [insertSome_ok h1 h2 h3]
    exact ⟨rfl, rfl⟩
  · exact insertSome_unavailable

theorem wf_push_open {s : Slots} (h : WF s) {id : Nat} (h1 : 1 ≤ id) (h2 : id ≤ s.max)
    (h3 : id ∉ s.open_) : WF { s with open_ := id :: s.open_ } := by
  obtain ⟨a1, a2, a3, a4, a5, a6, a7⟩ := h
  refine ⟨List.nodup_cons.mpr ⟨h3, a1⟩, ?_, a3, a4, a5, a6, ?_⟩
  · intro x hx
    rcases List.mem_cons.mp hx with hx | hx
    · subst hx; exact ⟨h1, h2⟩
    · exact a2 x hx
  · intro x hx1 hx2
    rcases a7 x hx1 hx2 with hx | hx
    · exact Or.inl (List.mem_cons_of_mem _ hx)
    · exact Or.inr hx

theorem wf_insertSome {s : Slots} (h : WF s) (id : Nat) :
    WF (insertSome s id).1 ∧ (insertSome s id).1.max = s.max := by
  by_cases hc : 1 ≤ id ∧ id ≤ s.max ∧ id ∉ s.open_
  · obtain ⟨h1, h2, h3⟩ := hc
    rw [insertSome_ok h1 h2 h3]
    exact ⟨wf_push_open h h1 h2 h3, rfl⟩
  · rw [insertSome_unavailable hc]
    exact ⟨h, rfl⟩

/-! ## `insertNone` -/

/-- Full description of `insertNone` from a well-formed state. -/
theorem insertNone_cases {s : Slots} (h : WF s) :
    (∃ id, (insertNone s).2 = .ok id ∧ 1 ≤ id ∧ id ≤ s.max ∧ id ∉ s.open_ ∧
        (insertNone s).1.open_ = id :: s.open_ ∧
        WF (insertNone s).1 ∧ (insertNone s).1.max = s.max) ∨
    ((insertNone s).2 = .exhausted ∧ (∀ id, 1 ≤ id → id ≤ s.max → id ∈ s.open_) ∧
        (insertNone s).1.open_ = s.open_ ∧
        WF (insertNone s).1 ∧ (insertNone s).1.max = s.max) := by
  obtain ⟨a1, a2, a3, a4, a5, a6, a7⟩ := h
  simp only [insertNone, insertNoneG]
  split
  · -- the counter produced an id
    rename_i s' id hc
    obtain ⟨c1, c2, c3, c4, c5, c6, c7, c8⟩ := counterLoop_some hc
    left
    refine ⟨id, rfl, by omega, c2, c3, c4, ?_, c7⟩
    refine ⟨?_, ?_, ?_, ?_, ?_, ?_, ?_⟩
    · rw [c4]; exact List.nodup_cons.mpr ⟨c3, a1⟩
    · rw [c4, c7]
      intro x hx
      rcases List.mem_cons.mp hx with hx | hx
      · subst hx; exact ⟨by omega, c2⟩
      · exact a2 x hx
    · rw [c5]; exact a3
    · rw [c5, c7]; exact a4
    · show 1 ≤ s'.next
      omega
    · show s'.next ≤ s'.max + 1
      omega
    · rw [c4, c5, c6]
      intro x hx1 hx2
      by_cases hx : x < s.next
      · rcases a7 x hx1 hx with h | h
        · exact Or.inl (List.mem_cons_of_mem _ h)
        · exact Or.inr h
      · by_cases hx' : x = id
        · subst hx'; exact Or.inl List.mem_cons_self
        · exact Or.inl (List.mem_cons_of_mem _ (c8 x (by omega) (by omega)))
  · -- the counter is exhausted: fall back to the freed list
    rename_i s' hc
    obtain ⟨c1, c2, c3, c4, c5⟩ := counterLoop_none (Nat.le_refl _) a6 hc
    simp only [Bool.false_eq_true, if_false]
    split
    · rename_i f id hp
      rw [c2, c3] at hp
      obtain ⟨p1, p2, p3, p4⟩ := popLoop_some hp
      obtain ⟨r1, r2⟩ := a4 id p2
      left
      refine ⟨id, rfl, r1, r2, p1, by simp only [c2], ?_, c4⟩
      refine ⟨?_, ?_, ?_, ?_, ?_, ?_, ?_⟩
      · show (id :: s'.open_).Nodup
        rw [c2]; exact List.nodup_cons.mpr ⟨p1, a1⟩
      · show ∀ x ∈ id :: s'.open_, 1 ≤ x ∧ x ≤ s'.max
        rw [c2, c4]
        intro x hx
        rcases List.mem_cons.mp hx with hx | hx
        · subst hx; exact ⟨r1, r2⟩
        · exact a2 x hx
      · exact a3.sublist p3
      · show ∀ x ∈ f, 1 ≤ x ∧ x ≤ s'.max
        rw [c4]
        intro x hx; exact a4 x (p3.subset hx)
      · show 1 ≤ s'.next
        omega
      · show s'.next ≤ s'.max + 1
        omega
      · show ∀ x, 1 ≤ x → x < s'.next → x ∈ id :: s'.open_ ∨ x ∈ f
        rw [c1, c2]
        intro x hx1 hx2
        have hopen : x ∈ s.open_ ∨ x ∈ s.freed := by
          by_cases hx : x < s.next
          · exact a7 x hx1 hx
          · exact Or.inl (c5 x (by omega) (by omega))
        rcases hopen with h | h
        · exact Or.inl (List.mem_cons_of_mem _ h)
        · rcases p4 x h with h | h | h
          · exact Or.inr h
          · exact Or.inl (List.mem_cons_of_mem _ h)
          · subst h; exact Or.inl List.mem_cons_self
    · rename_i f hp
      rw [c2, c3] at hp
      obtain ⟨p1, p2⟩ := popLoop_none hp
      subst p1
      have hall : ∀ id, 1 ≤ id → id ≤ s.max → id ∈ s.open_ := by
        intro x hx1 hx2
        by_cases hx : x < s.next
        · rcases a7 x hx1 hx with h | h
          · exact h
          · exact p2 x h
        · exact c5 x (by omega) hx2
      right
      refine ⟨rfl, hall, c2, ?_, c4⟩
      refine ⟨?_, ?_, ?_, ?_, ?_, ?_, ?_⟩
      · show s'.open_.Nodup
        rw [c2]; exact a1
      · show ∀ x ∈ s'.open_, 1 ≤ x ∧ x ≤ s'.max
        rw [c2, c4]; exact a2
      · exact List.nodup_nil
      · intro x hx; cases hx
      · show 1 ≤ s'.next
        omega
      · show s'.next ≤ s'.max + 1
        omega
      · show ∀ x, 1 ≤ x → x < s'.next → x ∈ s'.open_ ∨ x ∈ []
        rw [c1, c2]
        intro x hx1 hx2
        exact Or.inl (hall x hx1 (by omega))

theorem insertNone_not_panic (s : Slots) : (insertNone s).2 ≠ .panic := by
  simp only [insertNone, insertNoneG]
  split
  · simp
  · simp only [Bool.false_eq_true, if_false]
    split <;> simp

/-! ## `remove` and `drain` -/

theorem remove_spec {s : Slots} (h : s.open_.Nodup) (id : Nat) :
    (remove s id).2 = decide (id ∈ s.open_) ∧
    ∀ x, x ∈ (remove s id).1.open_ ↔ (x ∈ s.open_ ∧ x ≠ id) := by
  unfold remove
  split
  · rename_i hmem
    refine ⟨by simp [hmem], ?_⟩
    intro x
    show x ∈ s.open_.erase id ↔ _
    rw [h.mem_erase_iff]
    exact ⟨fun ⟨a, b⟩ => ⟨b, a⟩, fun ⟨a, b⟩ => ⟨b, a⟩⟩
  · rename_i hmem
    refine ⟨by simp [hmem], ?_⟩
    intro x
    constructor
    · intro hx
      exact ⟨hx, fun e => hmem (e ▸ hx)⟩
    · exact fun hx => hx.1

theorem wf_remove {s : Slots} (h : WF s) (id : Nat) :
    WF (remove s id).1 ∧ (remove s id).1.max = s.max := by
  unfold remove
  split
  · rename_i hmem
    obtain ⟨a1, a2, a3, a4, a5, a6, a7⟩ := h
    refine ⟨⟨a1.erase id, ?_, nodup_freedInsert a3, ?_, a5, a6, ?_⟩, rfl⟩
    · intro x hx
      exact a2 x (List.mem_of_mem_erase hx)
    · intro x hx
      rcases mem_freedInsert.mp hx with hx | hx
      · subst hx; exact a2 x hmem
      · exact a4 x hx
    · intro x hx1 hx2
      show x ∈ s.open_.erase id ∨ x ∈ freedInsert id s.freed
      by_cases hx : x = id
      · exact Or.inr (mem_freedInsert.mpr (Or.inl hx))
      · rcases a7 x hx1 hx2 with h | h
        · exact Or.inl ((List.mem_erase_of_ne hx).mpr h)
        · exact Or.inr (mem_freedInsert.mpr (Or.inr h))
  · exact ⟨h, rfl⟩

theorem wf_drain {s : Slots} (h : WF s) : WF (drain s).1 ∧ (drain s).1.max = s.max := by
  obtain ⟨a1, a2, a3, a4, a5, a6, a7⟩ := h
  unfold drain
  refine ⟨⟨List.nodup_nil, ?_, nodup_foldl_freedInsert _ _ a3, ?_, a5, a6, ?_⟩, rfl⟩
  · intro x hx; cases hx
  · intro x hx
    rcases (mem_foldl_freedInsert _ _ x).mp hx with hx | hx
    · exact a2 x hx
    · exact a4 x hx
  · intro x hx1 hx2
    exact Or.inr ((mem_foldl_freedInsert _ _ x).mpr (a7 x hx1 hx2))

/-! ## `step` -/

theorem wf_insertNone {s : Slots} (h : WF s) :
    WF (insertNone s).1 ∧ (insertNone s).1.max = s.max := by
  rcases insertNone_cases h with ⟨id, _, _, _, _, _, hw, hm⟩ | ⟨_, _, _, hw, hm⟩
  · exact ⟨hw, hm⟩
  · exact ⟨hw, hm⟩

theorem wf_step {s : Slots} (h : WF s) (op : Op) : WF (step s op) ∧ (step s op).max = s.max := by
  cases op with
  | some id => exact wf_insertSome h id
  | none => exact wf_insertNone h
  | remove id => exact wf_remove h id
  | drain => exact wf_drain h

theorem wf_foldl_step {s : Slots} (h : WF s) (ops : List Op) : WF (ops.foldl step s) := by
  induction ops generalizing s with
  | nil => exact h
  | cons op ops ih => exact ih (wf_step h op).1

theorem wf_reachable (max : Nat) (ops : List Op) : WF (ops.foldl step (new max)) :=
  wf_foldl_step (wf_new max) ops

theorem insertSome_ne_ok_zero (s : Slots) (id : Nat) : (insertSome s id).2 ≠ .ok 0 := by
  by_cases hc : 1 ≤ id ∧ id ≤ s.max ∧ id ∉ s.open_
  · obtain ⟨h1, h2, h3⟩ := hc
    rw [insertSome_ok h1 h2 h3]
    intro e
    simp only [Res.ok.injEq] at e
    omega
  · rw [insertSome_unavailable hc]
    intro e; cases e

theorem insertSome_ne_panic (s : Slots) (id : Nat) : (insertSome s id).2 ≠ .panic := by
  by_cases hc : 1 ≤ id ∧ id ≤ s.max ∧ id ∉ s.open_
  · obtain ⟨h1, h2, h3⟩ := hc
    rw [insertSome_ok h1 h2 h3]
    intro e; cases e
  · rw [insertSome_unavailable hc]
    intro e; cases e

theorem insertNone_ne_ok_zero {s : Slots} (h : WF s) : (insertNone s).2 ≠ .ok 0 := by
  rcases insertNone_cases h with ⟨id, e, h1, _⟩ | ⟨e, _⟩
  · rw [e]; intro e'
    simp only [Res.ok.injEq] at e'
    omega
  · rw [e]; intro e'; cases e'

/-- Pigeonhole: a duplicate-free list of ids in `1..=m` has at most `m` elements. -/
theorem nodup_bounded_length : ∀ (m : Nat) (l : List Nat), l.Nodup → (∀ x ∈ l, 1 ≤ x ∧ x ≤ m) →
    l.length ≤ m := by
  intro m
  induction m with
  | zero =>
    intro l _ hb
    cases l with
    | nil => simp
    | cons a t => have := hb a (by simp); omega
  | succ m ih =>
    intro l hn hb
    have h1 : (l.erase (m + 1)).Nodup := hn.erase _
    have h2 : ∀ x ∈ l.erase (m + 1), 1 ≤ x ∧ x ≤ m := by
      intro x hx
      have hx' := (hn.mem_erase_iff).mp hx
      have := hb x hx'.2
      have := hx'.1
      omega
    have h3 := ih _ h1 h2
    rw [List.length_erase] at h3
    split at h3 <;> omega

end AmqModel.Slots
