import AmqModel.Model.ConnRun
import AmqModel.Lemmas.Slots
import AmqModel.Lemmas.FrameBuffer
/-!
# Shared lemmas about the `Conn` machine (Model/Conn.lean, Model/ConnRun.lean)

Sections:
1. association-list helpers (`lookupN`/`setN`/`eraseN`/`insertSorted`, `lookupS`/`setS`/`eraseS`);
2. `pushOut` / `sealOut`, `getLink` / `setLink`;
3. the reachable-state invariant `Inv`, its transport lemma `Inv.congr`;
4. preservation of `Inv` by every primitive, by `process`, by every event handler, by `kill`,
   by the client operations; `inv_step`, `inv_run`;
5. "never `.panic`" for `process` and for the event handlers;
6. fuel lemmas for the fuel-indexed loops (`writeLoop`, `setBlockedLoop`, `drainFifo`,
   `allocateLoop`);
7. behaviour of the I/O thread in the non-steady states (frames are ignored, the output buffer
   only shrinks, only transport errors surface).
-/
namespace AmqModel.Conn
open AmqModel.Collector

/-! ## 1. Association lists -/

section Maps
variable {α : Type}

@[simp] theorem lookupN_nil (k : Nat) : lookupN k ([] : List (Nat × α)) = none := rfl

theorem lookupN_cons (k k' : Nat) (v : α) (r : List (Nat × α)) :
    lookupN k ((k', v) :: r) = if k' = k then some v else lookupN k r := rfl

theorem lookupN_setN (j k : Nat) (v : α) (m : List (Nat × α)) :
    lookupN j (setN k v m) = if k = j then some v else lookupN j m := by
  induction m with
  | nil => simp [setN, lookupN_cons]
  | cons p r ih =>
    obtain ⟨k', v'⟩ := p
    by_cases h : k' = k
    · subst h; by_cases hj : k' = j <;> simp [setN, lookupN_cons, hj]
    · by_cases hj : k' = j
      · subst hj
        have : ¬ k = k' := fun e => h e.symm
        simp [setN, lookupN_cons, h, this]
      · simp [setN, lookupN_cons, h, hj, ih]

@[simp] theorem lookupN_setN_self (k : Nat) (v : α) (m : List (Nat × α)) :
    lookupN k (setN k v m) = some v := by simp [lookupN_setN]

theorem lookupN_setN_ne {j k : Nat} (h : k ≠ j) (v : α) (m : List (Nat × α)) :
    lookupN j (setN k v m) = lookupN j m := by simp [lookupN_setN, h]

theorem lookupN_eraseN (j k : Nat) (m : List (Nat × α)) :
    lookupN j (eraseN k m) = if k = j then none else lookupN j m := by
  induction m with
  | nil => simp [eraseN]
  | cons p r ih =>
    obtain ⟨k', v'⟩ := p
    by_cases h : k' = k
    · subst h
      by_cases hj : k' = j
      · subst hj; simpa [eraseN] using ih
      · simp [eraseN, lookupN_cons, hj, ih]
    · by_cases hj : k' = j
      · subst hj
        have : ¬ k = k' := fun e => h e.symm
        simp [eraseN, lookupN_cons, h, this]
      · simp [eraseN, lookupN_cons, h, hj, ih]

@[simp] theorem lookupN_eraseN_self (k : Nat) (m : List (Nat × α)) :
    lookupN k (eraseN k m) = none := by simp [lookupN_eraseN]

theorem lookupN_eraseN_ne {j k : Nat} (h : k ≠ j) (m : List (Nat × α)) :
    lookupN j (eraseN k m) = lookupN j m := by simp [lookupN_eraseN, h]

theorem lookupN_append (j : Nat) (m m' : List (Nat × α)) :
    lookupN j (m ++ m') = (lookupN j m).orElse (fun _ => lookupN j m') := by
  induction m with
  | nil => simp
  | cons p r ih =>
    obtain ⟨k', v'⟩ := p
    by_cases hj : k' = j <;> simp [lookupN_cons, hj, ih]

theorem lookupN_append_ne {j k : Nat} (h : k ≠ j) (m : List (Nat × α)) (v : α) :
    lookupN j (m ++ [(k, v)]) = lookupN j m := by
  rw [lookupN_append]
  cases lookupN j m <;> simp [lookupN_cons, h]

theorem mem_of_lookupN {k : Nat} {v : α} {m : List (Nat × α)} (h : lookupN k m = some v) :
    (k, v) ∈ m := by
  induction m with
  | nil => simp at h
  | cons p r ih =>
    obtain ⟨k', v'⟩ := p
    by_cases hk : k' = k
    · subst hk; simp [lookupN_cons] at h; subst h; exact List.mem_cons_self
    · simp [lookupN_cons, hk] at h; exact List.mem_cons_of_mem _ (ih h)

theorem mem_setN {p : Nat × α} {k : Nat} {v : α} {m : List (Nat × α)} (h : p ∈ setN k v m) :
    p = (k, v) ∨ p ∈ m := by
  induction m with
  | nil => simp [setN] at h; exact Or.inl h
  | cons q r ih =>
    obtain ⟨k', v'⟩ := q
    by_cases hk : k' = k
    · simp [setN, hk] at h
      rcases h with h | h
      · exact Or.inl h
      · exact Or.inr (List.mem_cons_of_mem _ h)
    · simp [setN, hk] at h
      rcases h with h | h
      · exact Or.inr (h ▸ List.mem_cons_self)
      · rcases ih h with h | h
        · exact Or.inl h
        · exact Or.inr (List.mem_cons_of_mem _ h)

theorem setN_ne_nil (k : Nat) (v : α) (m : List (Nat × α)) : setN k v m ≠ [] := by
  cases m with
  | nil => simp [setN]
  | cons q r => obtain ⟨k', v'⟩ := q; by_cases hk : k' = k <;> simp [setN, hk]

theorem mem_eraseN {p : Nat × α} {k : Nat} {m : List (Nat × α)} (h : p ∈ eraseN k m) : p ∈ m := by
  induction m with
  | nil => simp [eraseN] at h
  | cons q r ih =>
    obtain ⟨k', v'⟩ := q
    by_cases hk : k' = k
    · simp [eraseN, hk] at h; exact List.mem_cons_of_mem _ (ih h)
    · simp [eraseN, hk] at h
      rcases h with h | h
      · exact h ▸ List.mem_cons_self
      · exact List.mem_cons_of_mem _ (ih h)

theorem mem_insertSorted {p : Nat × α} {k : Nat} {v : α} {m : List (Nat × α)}
    (h : p ∈ insertSorted k v m) : p = (k, v) ∨ p ∈ m := by
  induction m with
  | nil => simp [insertSorted] at h; exact Or.inl h
  | cons q r ih =>
    obtain ⟨k', v'⟩ := q
    unfold insertSorted at h
    split at h
    · rcases List.mem_cons.mp h with h | h
      · exact Or.inl h
      · exact Or.inr h
    · split at h
      · rcases List.mem_cons.mp h with h | h
        · exact Or.inl h
        · exact Or.inr (List.mem_cons_of_mem _ h)
      · rcases List.mem_cons.mp h with h | h
        · exact Or.inr (h ▸ List.mem_cons_self)
        · rcases ih h with h | h
          · exact Or.inl h
          · exact Or.inr (List.mem_cons_of_mem _ h)

@[simp] theorem lookupS_nil (k : String) : lookupS k ([] : List (String × α)) = none := rfl

theorem lookupS_cons (k k' : String) (v : α) (r : List (String × α)) :
    lookupS k ((k', v) :: r) = if k' = k then some v else lookupS k r := rfl

theorem lookupS_setS (j k : String) (v : α) (m : List (String × α)) :
    lookupS j (setS k v m) = if k = j then some v else lookupS j m := by
  induction m with
  | nil => simp [setS, lookupS_cons]
  | cons p r ih =>
    obtain ⟨k', v'⟩ := p
    by_cases h : k' = k
    · subst h; by_cases hj : k' = j <;> simp [setS, lookupS_cons, hj]
    · by_cases hj : k' = j
      · subst hj
        have : ¬ k = k' := fun e => h e.symm
        simp [setS, lookupS_cons, h, this]
      · simp [setS, lookupS_cons, h, hj, ih]

@[simp] theorem lookupS_setS_self (k : String) (v : α) (m : List (String × α)) :
    lookupS k (setS k v m) = some v := by simp [lookupS_setS]

theorem lookupS_setS_ne {j k : String} (h : k ≠ j) (v : α) (m : List (String × α)) :
    lookupS j (setS k v m) = lookupS j m := by simp [lookupS_setS, h]

theorem lookupS_eraseS (j k : String) (m : List (String × α)) :
    lookupS j (eraseS k m) = if k = j then none else lookupS j m := by
  induction m with
  | nil => simp [eraseS]
  | cons p r ih =>
    obtain ⟨k', v'⟩ := p
    by_cases h : k' = k
    · subst h
      by_cases hj : k' = j
      · subst hj; simpa [eraseS] using ih
      · simp [eraseS, lookupS_cons, hj, ih]
    · by_cases hj : k' = j
      · subst hj
        have : ¬ k = k' := fun e => h e.symm
        simp [eraseS, lookupS_cons, h, this]
      · simp [eraseS, lookupS_cons, h, hj, ih]

end Maps

/-! ## 2. Output buffer, links -/

theorem pushOut_of_sealed {c : Conn} (h : c.sealed = true) (b : Bytes) : pushOut c b = c := by
  simp [pushOut, h]

theorem pushOut_of_not_sealed {c : Conn} (h : c.sealed = false) (b : Bytes) :
    pushOut c b = { c with out := c.out ++ b } := by
  simp [pushOut, h]

theorem pushOut_out (c : Conn) (b : Bytes) :
    (pushOut c b).out = if c.sealed then c.out else c.out ++ b := by
  unfold pushOut; split <;> rfl

/-- The output buffer only grows by a suffix under `pushOut`. -/
theorem pushOut_out_suffix (c : Conn) (b : Bytes) : ∃ t, (pushOut c b).out = c.out ++ t := by
  rw [pushOut_out]; split
  · exact ⟨[], by simp⟩
  · exact ⟨b, rfl⟩

@[simp] theorem pushOut_dead (c : Conn) (b : Bytes) : (pushOut c b).dead = c.dead := by
  unfold pushOut; split <;> rfl
@[simp] theorem pushOut_nondet (c : Conn) (b : Bytes) : (pushOut c b).nondet = c.nondet := by
  unfold pushOut; split <;> rfl
@[simp] theorem pushOut_st (c : Conn) (b : Bytes) : (pushOut c b).st = c.st := by
  unfold pushOut; split <;> rfl
@[simp] theorem pushOut_blockedL (c : Conn) (b : Bytes) : (pushOut c b).blockedL = c.blockedL := by
  unfold pushOut; split <;> rfl
@[simp] theorem pushOut_slots (c : Conn) (b : Bytes) : (pushOut c b).slots = c.slots := by
  unfold pushOut; split <;> rfl
@[simp] theorem pushOut_alloc (c : Conn) (b : Bytes) : (pushOut c b).alloc = c.alloc := by
  unfold pushOut; split <;> rfl
@[simp] theorem pushOut_sealed (c : Conn) (b : Bytes) : (pushOut c b).sealed = c.sealed := by
  unfold pushOut; split <;> rfl
@[simp] theorem pushOut_registered (c : Conn) (b : Bytes) : (pushOut c b).registered = c.registered := by
  unfold pushOut; split <;> rfl
@[simp] theorem pushOut_bound (c : Conn) (b : Bytes) : (pushOut c b).bound = c.bound := by
  unfold pushOut; split <;> rfl
@[simp] theorem pushOut_links (c : Conn) (b : Bytes) : (pushOut c b).links = c.links := by
  unfold pushOut; split <;> rfl
@[simp] theorem pushOut_nextLid (c : Conn) (b : Bytes) : (pushOut c b).nextLid = c.nextLid := by
  unfold pushOut; split <;> rfl
@[simp] theorem pushOut_cqs (c : Conn) (b : Bytes) : (pushOut c b).cqs = c.cqs := by
  unfold pushOut; split <;> rfl
@[simp] theorem pushOut_nextQid (c : Conn) (b : Bytes) : (pushOut c b).nextQid = c.nextQid := by
  unfold pushOut; split <;> rfl
@[simp] theorem pushOut_lqs (c : Conn) (b : Bytes) : (pushOut c b).lqs = c.lqs := by
  unfold pushOut; split <;> rfl
@[simp] theorem pushOut_handles (c : Conn) (b : Bytes) : (pushOut c b).handles = c.handles := by
  unfold pushOut; split <;> rfl
@[simp] theorem pushOut_consLabels (c : Conn) (b : Bytes) : (pushOut c b).consLabels = c.consLabels := by
  unfold pushOut; split <;> rfl
@[simp] theorem pushOut_allocReq (c : Conn) (b : Bytes) : (pushOut c b).allocReq = c.allocReq := by
  unfold pushOut; split <;> rfl
@[simp] theorem pushOut_allocSrc (c : Conn) (b : Bytes) : (pushOut c b).allocSrc = c.allocSrc := by
  unfold pushOut; split <;> rfl
@[simp] theorem pushOut_allocRep (c : Conn) (b : Bytes) : (pushOut c b).allocRep = c.allocRep := by
  unfold pushOut; split <;> rfl
@[simp] theorem pushOut_blockedFifo (c : Conn) (b : Bytes) : (pushOut c b).blockedFifo = c.blockedFifo := by
  unfold pushOut; split <;> rfl
@[simp] theorem pushOut_blockedSrc (c : Conn) (b : Bytes) : (pushOut c b).blockedSrc = c.blockedSrc := by
  unfold pushOut; split <;> rfl
@[simp] theorem pushOut_fb (c : Conn) (b : Bytes) : (pushOut c b).fb = c.fb := by
  unfold pushOut; split <;> rfl
@[simp] theorem pushOut_reads (c : Conn) (b : Bytes) : (pushOut c b).reads = c.reads := by
  unfold pushOut; split <;> rfl
@[simp] theorem pushOut_writes (c : Conn) (b : Bytes) : (pushOut c b).writes = c.writes := by
  unfold pushOut; split <;> rfl
@[simp] theorem pushOut_table (c : Conn) (b : Bytes) : (pushOut c b).table = c.table := by
  unfold pushOut; split <;> rfl
@[simp] theorem pushOut_legacy (c : Conn) (b : Bytes) : (pushOut c b).legacy = c.legacy := by
  unfold pushOut; split <;> rfl

@[simp] theorem getLink_pushOut (c : Conn) (b : Bytes) (lid : Nat) :
    getLink (pushOut c b) lid = getLink c lid := by
  unfold getLink; rw [pushOut_links]

@[simp] theorem sealOut_sealed (c : Conn) : (sealOut c).sealed = true := rfl
@[simp] theorem sealOut_out (c : Conn) : (sealOut c).out = c.out := rfl
@[simp] theorem sealOut_st (c : Conn) : (sealOut c).st = c.st := rfl

theorem sealOut_of_sealed {c : Conn} (h : c.sealed = true) : sealOut c = c := by
  cases c; simp only [sealOut] at *; simp [h]

/-- Once sealed, pushing and re-sealing change nothing. -/
theorem sealOut_pushOut_of_sealed {c : Conn} (h : c.sealed = true) (b : Bytes) :
    sealOut (pushOut c b) = c := by
  rw [pushOut_of_sealed h, sealOut_of_sealed h]

theorem getLink_setLink (c : Conn) (a b : Nat) (l : Link) :
    getLink (setLink c a l) b = if a = b then l else getLink c b := by
  unfold getLink setLink
  simp only [lookupN_setN]
  split <;> rfl

@[simp] theorem getLink_setLink_self (c : Conn) (a : Nat) (l : Link) :
    getLink (setLink c a l) a = l := by simp [getLink_setLink]

theorem getLink_setLink_ne (c : Conn) {a b : Nat} (h : a ≠ b) (l : Link) :
    getLink (setLink c a l) b = getLink c b := by simp [getLink_setLink, h]

/-- `getLink` only looks at `links`. -/
theorem getLink_congr {c c' : Conn} (h : c'.links = c.links) (lid : Nat) :
    getLink c' lid = getLink c lid := by unfold getLink; rw [h]

/-! ## 3. The reachable-state invariant -/

/-- Listener registrations (`setReturn` / `setConfirm`): the messages that must never travel on
    the connection's own (channel-0) FIFO. -/
def Msg.isListener : Msg → Bool
  | .setReturn _ => true
  | .setConfirm _ => true
  | _ => false

/-- Invariant of every state reachable from `init` (non-legacy code) by `ApiLegal` operations. -/
structure Inv (c : Conn) : Prop where
  /-- the repaired code stays the repaired code -/
  legacy : c.legacy = false
  /-- (a) `ServerClosing` / `ClientException` ⇒ writes are sealed -/
  sealed_of_closing : c.st ≠ .steady → c.st ≠ .clientClosed → c.sealed = true
  /-- `ServerClosing` / `ClientClosed` ⇒ every channel slot has been drained -/
  slots_of_closed : c.st ≠ .steady → c.st ≠ .clientException → c.slots = []
  /-- a dead I/O thread owns no slot -/
  slots_of_dead : c.dead = true → c.slots = []
  /-- (c) slot keys are non-zero channel ids; no slot uses the channel-0 link -/
  slot_ok : ∀ p ∈ c.slots, p.1 ≠ 0 ∧ p.2.lid ≠ 0
  /-- the id allocator is in a reachable state (C10) -/
  alloc_wf : Slots.WF c.alloc
  nextLid_pos : c.nextLid ≠ 0
  /-- handles in flight on the allocation reply queue never point at the channel-0 link -/
  allocRep_lid : ∀ lid, Except.ok lid ∈ c.allocRep → lid ≠ 0
  /-- only the connection's own handle points at the channel-0 link -/
  handles_zero : ∀ label, lookupS label c.handles = some 0 → label = "0"
  /-- (b) the channel-0 FIFO never holds a listener registration -/
  ch0_fifo : ∀ m ∈ (getLink c 0).fifo, m.isListener = false

theorem Inv.sealed_of_serverClosing {c : Conn} (h : Inv c) {code : Nat} {text : Bytes}
    (hs : c.st = .serverClosing code text) : c.sealed = true :=
  h.sealed_of_closing (by rw [hs]; intro e; cases e) (by rw [hs]; intro e; cases e)

theorem Inv.sealed_of_clientException {c : Conn} (h : Inv c) (hs : c.st = .clientException) :
    c.sealed = true :=
  h.sealed_of_closing (by rw [hs]; intro e; cases e) (by rw [hs]; intro e; cases e)

theorem Inv.slots_of_serverClosing {c : Conn} (h : Inv c) {code : Nat} {text : Bytes}
    (hs : c.st = .serverClosing code text) : c.slots = [] :=
  h.slots_of_closed (by rw [hs]; intro e; cases e) (by rw [hs]; intro e; cases e)

theorem Inv.slots_of_clientClosed {c : Conn} (h : Inv c) (hs : c.st = .clientClosed) :
    c.slots = [] :=
  h.slots_of_closed (by rw [hs]; intro e; cases e) (by rw [hs]; intro e; cases e)

theorem Inv.slot_key_ne_zero {c : Conn} (h : Inv c) {n : Nat} {s : Slot}
    (hs : lookupN n c.slots = some s) : n ≠ 0 := (h.slot_ok _ (mem_of_lookupN hs)).1

theorem Inv.slot_lid_ne_zero {c : Conn} (h : Inv c) {n : Nat} {s : Slot}
    (hs : lookupN n c.slots = some s) : s.lid ≠ 0 := (h.slot_ok _ (mem_of_lookupN hs)).2

theorem Inv.lookup_zero {c : Conn} (h : Inv c) : lookupN 0 c.slots = none := by
  cases hs : lookupN 0 c.slots with
  | none => rfl
  | some s => exact absurd rfl (h.slot_key_ne_zero hs)

theorem inv_init (cm b : Nat) : Inv (init cm b) where
  legacy := rfl
  sealed_of_closing := fun h => absurd rfl h
  slots_of_closed := fun _ _ => rfl
  slots_of_dead := fun _ => rfl
  slot_ok := fun p hp => by cases hp
  alloc_wf := Slots.wf_new cm
  nextLid_pos := by simp [init]
  allocRep_lid := fun lid hl => by cases hl
  handles_zero := fun label hl => by
    simp only [init, lookupS_cons, lookupS_nil] at hl
    split at hl
    · rename_i e; exact e.symm
    · cases hl
  ch0_fifo := fun _ hm => by
    simp only [init, getLink, lookupN_cons] at hm
    cases hm

/-- Transport of the invariant to a state that agrees on everything the invariant reads
    (writes may additionally become sealed, the channel-0 FIFO may lose messages). -/
theorem Inv.congr {c c' : Conn} (h : Inv c)
    (hlegacy : c'.legacy = c.legacy) (hst : c'.st = c.st)
    (hsealed : c.sealed = true → c'.sealed = true)
    (hdead : c'.dead = c.dead) (hslots : c'.slots = c.slots) (halloc : c'.alloc = c.alloc)
    (hnext : c'.nextLid = c.nextLid) (hrep : c'.allocRep = c.allocRep)
    (hhandles : c'.handles = c.handles)
    (hfifo : ∀ m ∈ (getLink c' 0).fifo, m ∈ (getLink c 0).fifo) : Inv c' where
  legacy := hlegacy ▸ h.legacy
  sealed_of_closing := fun h1 h2 => hsealed (h.sealed_of_closing (hst ▸ h1) (hst ▸ h2))
  slots_of_closed := fun h1 h2 => hslots ▸ h.slots_of_closed (hst ▸ h1) (hst ▸ h2)
  slots_of_dead := fun h1 => hslots ▸ h.slots_of_dead (hdead ▸ h1)
  slot_ok := hslots ▸ h.slot_ok
  alloc_wf := halloc ▸ h.alloc_wf
  nextLid_pos := hnext ▸ h.nextLid_pos
  allocRep_lid := hrep ▸ h.allocRep_lid
  handles_zero := hhandles ▸ h.handles_zero
  ch0_fifo := fun m hm => h.ch0_fifo m (hfifo m hm)

/-- … in particular to a state with the same links. -/
theorem Inv.same {c c' : Conn} (h : Inv c)
    (hlegacy : c'.legacy = c.legacy) (hst : c'.st = c.st) (hsealed : c'.sealed = c.sealed)
    (hdead : c'.dead = c.dead) (hslots : c'.slots = c.slots) (halloc : c'.alloc = c.alloc)
    (hnext : c'.nextLid = c.nextLid) (hrep : c'.allocRep = c.allocRep)
    (hhandles : c'.handles = c.handles) (hlinks : c'.links = c.links) : Inv c' :=
  h.congr hlegacy hst (fun hs => hsealed ▸ hs) hdead hslots halloc hnext hrep hhandles
    (fun _ hm => getLink_congr hlinks 0 ▸ hm)

/-- `inv_same h` closes `Inv c'` when `c'` is `c` with only fields changed that `Inv` does not
    read (each side condition holds by `rfl`). -/
macro "inv_same " h:term : tactic =>
  `(tactic| exact Inv.same $h rfl rfl rfl rfl rfl rfl rfl rfl rfl rfl)

/-- Pull the invariant through a pattern match on a result pair. -/
theorem Inv.of_eq_fst {β : Type} {r : Conn × β} {c' : Conn} {x : β} (h : Inv r.1)
    (e : r = (c', x)) : Inv c' := by subst e; exact h

theorem Inv.of_eq_fst3 {β γ : Type} {r : Conn × β × γ} {c' : Conn} {x : β} {y : γ} (h : Inv r.1)
    (e : r = (c', x, y)) : Inv c' := by subst e; exact h

/-! ### Primitives -/

theorem inv_setLink {c : Conn} (h : Inv c) (lid : Nat) (l : Link)
    (hl : lid = 0 → ∀ m ∈ l.fifo, m.isListener = false) : Inv (setLink c lid l) where
  legacy := h.legacy
  sealed_of_closing := h.sealed_of_closing
  slots_of_closed := h.slots_of_closed
  slots_of_dead := h.slots_of_dead
  slot_ok := h.slot_ok
  alloc_wf := h.alloc_wf
  nextLid_pos := h.nextLid_pos
  allocRep_lid := h.allocRep_lid
  handles_zero := h.handles_zero
  ch0_fifo := fun m hm => by
    rw [getLink_setLink] at hm
    split at hm
    · rename_i e; exact hl e m hm
    · exact h.ch0_fifo m hm

/-- Replacing a link by one whose FIFO holds only messages of the old FIFO. -/
theorem inv_setLink_sub {c : Conn} (h : Inv c) (lid : Nat) (l : Link)
    (hl : ∀ m ∈ l.fifo, m ∈ (getLink c lid).fifo) : Inv (setLink c lid l) :=
  inv_setLink h lid l (fun e m hm => h.ch0_fifo m (e ▸ hl m hm))

theorem inv_pushOut {c : Conn} (h : Inv c) (b : Bytes) : Inv (pushOut c b) :=
  h.congr (by simp) (by simp) (by simp) (by simp) (by simp) (by simp) (by simp) (by simp) (by simp)
    (by simp)

theorem inv_sealOut {c : Conn} (h : Inv c) : Inv (sealOut c) :=
  h.congr rfl rfl (fun _ => rfl) rfl rfl rfl rfl rfl rfl (fun _ hm => hm)

theorem inv_sendReply {c : Conn} (h : Inv c) (lid : Nat) (r : Reply) : Inv (sendReply c lid r).1 := by
  unfold sendReply
  dsimp only
  split
  · exact h
  · split
    · exact h
    · exact inv_setLink_sub h _ _ (fun _ hm => hm)

theorem inv_sendCons {c : Conn} (h : Inv c) (qid : Nat) (m : CMsg) : Inv (sendCons c qid m).1 := by
  unfold sendCons
  split
  · split
    · exact h
    · inv_same h
  · exact h

theorem inv_dropConsTx {c : Conn} (h : Inv c) (qid : Nat) : Inv (dropConsTx c qid) := by
  unfold dropConsTx
  split
  · inv_same h
  · exact h

theorem inv_sendLst {c : Conn} (h : Inv c) (l : Label) (m : LMsg) : Inv (sendLst c l m).1 := by
  unfold sendLst
  split
  · split
    · inv_same h
    · exact h
  · exact h

theorem inv_dropReply {c : Conn} (h : Inv c) (r : Reply) : Inv (dropReply c r) := by
  unfold dropReply
  split
  · split
    · inv_same h
    · exact h
  · exact h

theorem inv_foldl_dropConsTx {c : Conn} (h : Inv c) (l : List (Bytes × Nat)) :
    Inv (l.foldl (fun acc (x : Bytes × Nat) => dropConsTx acc x.2) c) := by
  induction l generalizing c with
  | nil => exact h
  | cons x r ih => exact ih (inv_dropConsTx h x.2)

theorem inv_dropSlotEnds {c : Conn} (h : Inv c) (s : Slot) : Inv (dropSlotEnds c s) := by
  unfold dropSlotEnds
  exact inv_foldl_dropConsTx (inv_setLink_sub h _ _ (fun _ hm => by cases hm)) _

theorem inv_foldl_dropSlotEnds {c : Conn} (h : Inv c) (l : List Slot) :
    Inv (l.foldl dropSlotEnds c) := by
  induction l generalizing c with
  | nil => exact h
  | cons x r ih => exact ih (inv_dropSlotEnds h x)

theorem inv_notifyConsumers {c : Conn} (h : Inv c) (m : CMsg) (l : List (Bytes × Nat)) :
    Inv (notifyConsumers m c l).1 := by
  induction l generalizing c with
  | nil => exact h
  | cons x r ih =>
    obtain ⟨t, qid⟩ := x
    unfold notifyConsumers
    split
    · rename_i heq; exact (inv_sendCons h qid m).of_eq_fst heq
    · rename_i heq; exact ih (inv_dropConsTx ((inv_sendCons h qid m).of_eq_fst heq) qid)

@[simp] theorem sendLst_slots (c : Conn) (l : Label) (m : LMsg) : (sendLst c l m).1.slots = c.slots := by
  unfold sendLst; split
  · split <;> rfl
  · rfl

/-- Overwriting an existing slot, keeping its link. -/
theorem inv_setSlot {c : Conn} (h : Inv c) {n : Nat} {s0 : Slot} (hk : lookupN n c.slots = some s0)
    (s : Slot) (hl : s.lid = s0.lid) : Inv (setSlot c n s) where
  legacy := h.legacy
  sealed_of_closing := h.sealed_of_closing
  slots_of_closed := fun h1 h2 => by
    have := h.slots_of_closed h1 h2; rw [this] at hk; cases hk
  slots_of_dead := fun h1 => by
    have := h.slots_of_dead h1; rw [this] at hk; cases hk
  slot_ok := fun p hp => by
    rcases mem_setN hp with e | hp
    · subst e; exact ⟨h.slot_key_ne_zero hk, hl ▸ h.slot_lid_ne_zero hk⟩
    · exact h.slot_ok p hp
  alloc_wf := h.alloc_wf
  nextLid_pos := h.nextLid_pos
  allocRep_lid := h.allocRep_lid
  handles_zero := h.handles_zero
  ch0_fifo := h.ch0_fifo

theorem inv_removeSlot {c : Conn} (h : Inv c) (n : Nat) : Inv (removeSlot c n) where
  legacy := h.legacy
  sealed_of_closing := h.sealed_of_closing
  slots_of_closed := fun h1 h2 => by
    show eraseN n c.slots = []
    rw [h.slots_of_closed h1 h2]; rfl
  slots_of_dead := fun h1 => by
    show eraseN n c.slots = []
    rw [h.slots_of_dead h1]; rfl
  slot_ok := fun p hp => h.slot_ok p (mem_eraseN hp)
  alloc_wf := (Slots.wf_remove h.alloc_wf n).1
  nextLid_pos := h.nextLid_pos
  allocRep_lid := h.allocRep_lid
  handles_zero := h.handles_zero
  ch0_fifo := h.ch0_fifo

theorem inv_clientException {c : Conn} (h : Inv c) (code : Nat) (text : Bytes) :
    Inv (clientException c code text) := by
  have h1 := inv_sealOut (inv_pushOut h (connectionClose code (if c.legacy then text else truncUtf8 255 text)))
  exact { legacy := h1.legacy
          sealed_of_closing := fun _ _ => rfl
          slots_of_closed := fun _ h2 => absurd rfl h2
          slots_of_dead := h1.slots_of_dead
          slot_ok := h1.slot_ok
          alloc_wf := h1.alloc_wf
          nextLid_pos := h1.nextLid_pos
          allocRep_lid := h1.allocRep_lid
          handles_zero := h1.handles_zero
          ch0_fifo := h1.ch0_fifo }

theorem inv_dropCh0 {c : Conn} (h : Inv c) : Inv (process.dropCh0 c) := by
  unfold process.dropCh0
  have h1 := inv_setLink_sub h 0 { (getLink c 0) with ioAlive := false, fifo := [] }
    (fun _ hm => by cases hm)
  inv_same h1

theorem inv_drainSlots_go {c : Conn} (h : Inv c) (r : Reply) (m : CMsg) (all l : List (Nat × Slot)) :
    Inv (drainSlots.go r m all c l).1 := by
  induction l generalizing c with
  | nil => exact h
  | cons x rest ih =>
    obtain ⟨k, s⟩ := x
    unfold drainSlots.go
    dsimp only
    split
    · rename_i heq
      have h1 := (inv_notifyConsumers h m s.consumers).of_eq_fst heq
      have h2 := inv_foldl_dropSlotEnds h1 (s :: rest.map (·.2))
      inv_same h2
    · rename_i heq
      have h1 := (inv_notifyConsumers h m s.consumers).of_eq_fst heq
      split
      · rename_i heq2
        have h2 := (inv_sendReply h1 s.lid r).of_eq_fst heq2
        have h3 := inv_foldl_dropSlotEnds h2 (s :: rest.map (·.2))
        inv_same h3
      · rename_i heq2
        have h2 := (inv_sendReply h1 s.lid r).of_eq_fst heq2
        exact ih (inv_dropSlotEnds h2 s)

/-- `drainSlots` re-establishes the invariant from a state in which only the clauses about the
    slot table may be broken (the state has just left `Steady`). -/
theorem inv_drainSlots {c : Conn} (r : Reply) (m : CMsg)
    (hlegacy : c.legacy = false)
    (hsealed : c.st ≠ .steady → c.st ≠ .clientClosed → c.sealed = true)
    (halloc : Slots.WF c.alloc) (hnext : c.nextLid ≠ 0)
    (hrep : ∀ lid, Except.ok lid ∈ c.allocRep → lid ≠ 0)
    (hhandles : ∀ label, lookupS label c.handles = some 0 → label = "0")
    (hfifo : ∀ m ∈ (getLink c 0).fifo, m.isListener = false) :
    Inv (drainSlots c r m).1 := by
  unfold drainSlots
  apply inv_drainSlots_go
  exact { legacy := hlegacy
          sealed_of_closing := hsealed
          slots_of_closed := fun _ _ => rfl
          slots_of_dead := fun _ => rfl
          slot_ok := fun p hp => by cases hp
          alloc_wf := (Slots.wf_drain halloc).1
          nextLid_pos := hnext
          allocRep_lid := hrep
          handles_zero := hhandles
          ch0_fifo := hfifo }

theorem inv_dispatchContent {c : Conn} (h : Inv c) {n : Nat} {s0 : Slot}
    (hk : lookupN n c.slots = some s0) (slot : Slot) (hl : slot.lid = s0.lid) (ct : Content) :
    Inv (dispatchContent c n slot ct).1 := by
  unfold dispatchContent
  split
  · split
    · exact h
    · exact inv_sendCons h _ _
  · split
    · exact h
    · rename_i l _
      split
      · rename_i heq; exact (inv_sendLst h _ _).of_eq_fst heq
      · rename_i c1 heq
        have h1 := (inv_sendLst h _ _).of_eq_fst heq
        have e : c1.slots = c.slots := by
          have := congrArg (fun r => r.1.slots) heq
          simpa using this.symm
        exact inv_setSlot h1 (e ▸ hk) _ hl
  · exact inv_sendReply h _ _

theorem inv_afterCollect {c : Conn} (h : Inv c) {n : Nat} {slot : Slot}
    (hk : lookupN n c.slots = some slot) (r : Res) : Inv (afterCollect c n slot r).1 := by
  unfold afterCollect
  have h1 : Inv (setSlot c n { slot with coll := r.state }) := inv_setSlot h hk _ rfl
  dsimp only
  split
  · exact h1
  · exact h1
  · exact inv_dispatchContent h1 (lookupN_setN_self _ _ _) _ rfl _

theorem inv_trySendConfirm {c : Conn} (h : Inv c) {n : Nat} {slot : Slot}
    (hk : lookupN n c.slots = some slot) (m : LMsg) : Inv (trySendConfirm c n slot m) := by
  unfold trySendConfirm
  split
  · exact h
  · rename_i l _
    split
    · rename_i heq; exact (inv_sendLst h _ _).of_eq_fst heq
    · rename_i c1 heq
      have h1 := (inv_sendLst h _ _).of_eq_fst heq
      have e : c1.slots = c.slots := by
        have := congrArg (fun r => r.1.slots) heq
        simpa using this.symm
      exact inv_setSlot h1 (s0 := slot) (e ▸ hk) _ rfl

theorem inv_trySendBlocked {c : Conn} (h : Inv c) (m : LMsg) : Inv (trySendBlocked c m) := by
  unfold trySendBlocked
  split
  · exact h
  · split
    · rename_i heq; exact (inv_sendLst h _ _).of_eq_fst heq
    · rename_i heq
      have h1 := (inv_sendLst h _ _).of_eq_fst heq
      inv_same h1

theorem slotGet_ok {c : Conn} {n : Nat} {s : Slot} (h : slotGet c n = .ok s) :
    lookupN n c.slots = some s := by
  unfold slotGet at h
  split at h
  · rename_i e; cases h; exact e
  · cases h

theorem inv_with_nondet {c : Conn} (h : Inv c) (b : Bool) :
    Inv { c with nondet := c.nondet || b } := by
  inv_same h

/-- One backward step of an `Inv`-preservation proof: peel the outermost primitive, or pull the
    goal through an equation `f … = (c', _)` left in the context by `split`. -/
macro "inv_step" : tactic => `(tactic| first
  | assumption
  | with_reducible apply inv_dropSlotEnds
  | with_reducible apply inv_pushOut
  | with_reducible apply inv_sealOut
  | with_reducible apply inv_dropConsTx
  | with_reducible apply inv_dropReply
  | with_reducible apply inv_removeSlot
  | with_reducible apply inv_clientException
  | with_reducible apply inv_dropCh0
  | with_reducible apply inv_sendReply
  | with_reducible apply inv_sendCons
  | with_reducible apply inv_sendLst
  | with_reducible apply inv_notifyConsumers
  | with_reducible apply inv_trySendBlocked
  | with_reducible apply inv_with_nondet
  | (with_reducible refine inv_afterCollect ?_ (slotGet_ok (by assumption)) _)
  | (with_reducible refine inv_trySendConfirm ?_ (slotGet_ok (by assumption)) _)
  | (refine inv_setSlot ?_ (slotGet_ok (by assumption)) _ ?_; rotate_left; rfl)
  | (apply Inv.of_eq_fst; rotate_left; assumption; try dsimp only))

macro "inv_auto" : tactic =>
  `(tactic| ((try dsimp only); repeat' (first | inv_step | (split <;> try dsimp only))))

theorem inv_processChannelMethod {c : Conn} (h : Inv c) (n cls mid : Nat) (fields : List Field)
    (dbg : Bytes) : Inv (processChannelMethod c n cls mid fields dbg).1 := by
  unfold processChannelMethod
  dsimp only
  split
  all_goals (repeat' split)
  all_goals try inv_auto
  all_goals inv_same h

/-- Leaving `Steady` for a closed state: the state changes, the channel-0 slot is dropped, the
    pending channel-0 requests are dropped, every slot is drained. -/
theorem inv_closeDrain {c : Conn} (h : Inv c) (st' : CSt)
    (hs : c.sealed = true ∨ st' = .clientClosed) (r : Reply) (m : CMsg) :
    Inv (drainSlots
      { (setLink { c with st := st' } 0
          { (getLink { c with st := st' } 0) with ioAlive := false, fifo := [] }) with
        blockedL := none, allocReq := [], blockedFifo := [] } r m).1 := by
  apply inv_drainSlots
  · exact h.legacy
  · intro _ h2
    rcases hs with hs | hs
    · exact hs
    · exact absurd hs h2
  · exact h.alloc_wf
  · exact h.nextLid_pos
  · exact h.allocRep_lid
  · exact h.handles_zero
  · intro x hx
    have e : (getLink (setLink { c with st := st' } 0
          { (getLink { c with st := st' } 0) with ioAlive := false, fifo := [] }) 0).fifo = [] := by
      rw [getLink_setLink_self]
    have hx' : x ∈ (getLink (setLink { c with st := st' } 0
          { (getLink { c with st := st' } 0) with ioAlive := false, fifo := [] }) 0).fifo := hx
    rw [e] at hx'; cases hx'

theorem inv_process {c : Conn} (h : Inv c) (f : Frame) (dc df : Bytes) :
    Inv (process c f dc df).1 := by
  unfold process
  split
  · exact h
  · split <;> exact h
  · split <;> exact h
  · split
    all_goals try inv_auto
    · exact inv_closeDrain (inv_sealOut (inv_pushOut h connectionCloseOk)) _ (Or.inl rfl) _ _
    · exact inv_closeDrain (inv_setLink_sub h 0
        { (getLink c 0) with replies := (getLink c 0).replies ++ [.method 10 51 []] }
        (fun _ hm => hm)) _ (Or.inr rfl) _ _
    · exact inv_processChannelMethod h _ _ _ _ _
    · exact inv_processChannelMethod h _ _ _ _ _

/-! ### Event handlers -/

theorem inv_ite {α : Type} {p : Prop} [Decidable p] {a b : Conn × α} (ha : Inv a.1) (hb : Inv b.1) :
    Inv (if p then a else b).1 := by
  split <;> assumption

theorem inv_processPlainMessage {c : Conn} (h : Inv c) (n : Nat) (m : Msg) :
    Inv (processPlainMessage c n m).1 := by
  unfold processPlainMessage
  split
  · exact inv_sealOut (inv_pushOut h _)
  · exact inv_pushOut h _
  · split
    · exact h
    · split
      · rename_i hk; exact inv_setSlot h hk _ rfl
      · exact h
  · split
    · exact h
    · split
      · rename_i hk; exact inv_setSlot h hk _ rfl
      · exact h

theorem inv_popFifo {c c1 : Conn} {m : Msg} (h : Inv c) {lid : Nat}
    (hp : popFifo c lid = some (m, c1)) : Inv c1 := by
  unfold popFifo at hp
  dsimp only at hp
  split at hp
  · cases hp
  · rename_i m' rest hf
    cases hp
    exact inv_setLink_sub h _ _ (fun x hx => by rw [hf]; exact List.mem_cons_of_mem _ hx)

/-! ### The close request's preamble (fix D17): `takeQueued` / `takeAllQueued`

Induction principles: a property that survives "pop one message of an open channel's queue and
handle it" survives `takeQueued`, `takeAllQueued`, and — when it also survives the plain handling
of the message at hand — `processChannelMessage`. -/

@[simp] theorem processChannelMessage_send (c : Conn) (n : Nat) (b : Bytes) :
    processChannelMessage c n (.send b) = processPlainMessage c n (.send b) := rfl
@[simp] theorem processChannelMessage_setReturn (c : Conn) (n : Nat) (l : Option Label) :
    processChannelMessage c n (.setReturn l) = processPlainMessage c n (.setReturn l) := rfl
@[simp] theorem processChannelMessage_setConfirm (c : Conn) (n : Nat) (l : Option Label) :
    processChannelMessage c n (.setConfirm l) = processPlainMessage c n (.setConfirm l) := rfl

theorem processChannelMessage_close (c : Conn) (n : Nat) (buf : Bytes) :
    processChannelMessage c n (.connectionClose buf) =
      match takeAllQueued c ((c.slots.map (·.1)).mergeSort (· ≤ ·)) with
      | (c1, some e) => (c1, some e)
      | (c1, none) => (sealOut (pushOut c1 buf), none) := rfl

theorem takeQueued_ind {P : Conn → Prop}
    (hstep : ∀ (c : Conn) (n : Nat) (slot : Slot) (m : Msg) (c1 : Conn), P c →
      lookupN n c.slots = some slot → popFifo c slot.lid = some (m, c1) →
      P (processPlainMessage c1 n m).1)
    (fuel : Nat) (c : Conn) (n : Nat) (h : P c) : P (takeQueued fuel c n).1 := by
  induction fuel generalizing c with
  | zero => exact h
  | succ fuel ih =>
    unfold takeQueued
    split
    · exact h
    · rename_i slot hk
      split
      · exact h
      · rename_i m c1 hp
        have h2 := hstep c n slot m c1 h hk hp
        split
        · rename_i heq; rw [heq] at h2; exact h2
        · rename_i heq; rw [heq] at h2; exact ih _ h2

/-- The number of messages queued on channel `n` (`0` when it has no slot): `takeAllQueued` gives
    `takeQueued` one unit of fuel more. -/
def qlen (c : Conn) (n : Nat) : Nat :=
  match lookupN n c.slots with
  | some slot => (getLink c slot.lid).fifo.length
  | none => 0

theorem qlen_of_slot {c : Conn} {n : Nat} {slot : Slot} (h : lookupN n c.slots = some slot) :
    qlen c n = (getLink c slot.lid).fifo.length := by
  unfold qlen; rw [h]

theorem takeAllQueued_cons (c : Conn) (n : Nat) (more : List Nat) :
    takeAllQueued c (n :: more) =
      match takeQueued (qlen c n + 1) c n with
      | (c1, some e) => (c1, some e)
      | (c1, none) => takeAllQueued c1 more := rfl

theorem takeAllQueued_ind {P : Conn → Prop}
    (hstep : ∀ (c : Conn) (n : Nat) (slot : Slot) (m : Msg) (c1 : Conn), P c →
      lookupN n c.slots = some slot → popFifo c slot.lid = some (m, c1) →
      P (processPlainMessage c1 n m).1)
    (ids : List Nat) (c : Conn) (h : P c) : P (takeAllQueued c ids).1 := by
  induction ids generalizing c with
  | nil => exact h
  | cons n more ih =>
    rw [takeAllQueued_cons]
    have h1 := takeQueued_ind hstep (qlen c n + 1) c n h
    split
    · rename_i heq; rw [heq] at h1; exact h1
    · rename_i heq; rw [heq] at h1; exact ih _ h1

theorem processChannelMessage_ind {P : Conn → Prop}
    (hstep : ∀ (c : Conn) (n : Nat) (slot : Slot) (m : Msg) (c1 : Conn), P c →
      lookupN n c.slots = some slot → popFifo c slot.lid = some (m, c1) →
      P (processPlainMessage c1 n m).1)
    {c : Conn} {n : Nat} {m : Msg} (hplain : ∀ c' : Conn, P c' → P (processPlainMessage c' n m).1)
    (h : P c) : P (processChannelMessage c n m).1 := by
  cases m with
  | send b => exact hplain c h
  | setReturn l => exact hplain c h
  | setConfirm l => exact hplain c h
  | connectionClose buf =>
    rw [processChannelMessage_close]
    have h1 := takeAllQueued_ind hstep ((c.slots.map (·.1)).mergeSort (· ≤ ·)) c h
    split
    · rename_i heq; rw [heq] at h1; exact h1
    · rename_i heq; rw [heq] at h1; exact hplain _ h1

theorem inv_processChannelMessage {c : Conn} (h : Inv c) (n : Nat) (m : Msg) :
    Inv (processChannelMessage c n m).1 :=
  processChannelMessage_ind (P := Inv)
    (fun _ n _ m _ h _ hp => inv_processPlainMessage (inv_popFifo h hp) n m)
    (fun _ h' => inv_processPlainMessage h' n m) h

theorem inv_drainFifo {c : Conn} (h : Inv c) (fuel n : Nat) : Inv (drainFifo fuel c n).1 := by
  induction fuel generalizing c with
  | zero => exact h
  | succ fuel ih =>
    unfold drainFifo
    dsimp only
    split
    · exact h
    · split
      · rename_i hp
        have h1 := inv_popFifo h hp
        split
        · rename_i heq; exact (inv_processChannelMessage h1 n _).of_eq_fst heq
        · rename_i heq; exact ih ((inv_processChannelMessage h1 n _).of_eq_fst heq)
      · split <;> exact h

theorem inv_setBlockedLoop {c : Conn} (h : Inv c) (fuel : Nat) : Inv (setBlockedLoop fuel c).1 := by
  induction fuel generalizing c with
  | zero => exact h
  | succ fuel ih =>
    unfold setBlockedLoop
    split
    · split <;> exact h
    · exact ih (by inv_same h)

theorem inv_writeLoop {c : Conn} (h : Inv c) (fuel pos : Nat) (w : Bytes) :
    Inv (writeLoop fuel c pos w).1 := by
  induction fuel generalizing c pos w with
  | zero => exact h
  | succ fuel ih =>
    unfold writeLoop
    split
    · split
      · inv_same h
      · inv_same h
      · inv_same h
      · exact ih (by inv_same h) _ _
    · inv_same h

theorem inv_writeToStream {c : Conn} (h : Inv c) : Inv (writeToStream c).1 :=
  inv_writeLoop h _ _ _

theorem inv_processBytes {c : Conn} (h : Inv c) (bytes : Bytes) : Inv (processBytes c bytes).1 := by
  unfold processBytes
  split
  · split
    · exact inv_process h _ _ _
    · exact h
  · exact h

theorem inv_readFromStream_go {c : Conn} (h : Inv c) (l : List Bytes) :
    Inv (readFromStream.go c l).1 := by
  induction l generalizing c with
  | nil => exact h
  | cons fr rest ih =>
    unfold readFromStream.go
    split
    · rename_i heq; exact (inv_processBytes h fr).of_eq_fst heq
    · rename_i heq; exact ih ((inv_processBytes h fr).of_eq_fst heq)

theorem inv_readFromStream {c : Conn} (h : Inv c) : Inv (readFromStream c).1 := by
  unfold readFromStream
  dsimp only
  split
  · rename_i heq
    exact (inv_readFromStream_go (by inv_same h) _).of_eq_fst heq
  · rename_i heq
    have h1 := (inv_readFromStream_go (c := { c with fb := _, reads := _ }) (by inv_same h) _).of_eq_fst heq
    split <;> exact h1

theorem inv_with_alloc {c : Conn} (h : Inv c) {a : Slots.Slots} (ha : Slots.WF a)
    (r : List (Option Nat)) (x : Src) : Inv { c with alloc := a, allocReq := r, allocSrc := x } where
  legacy := h.legacy
  sealed_of_closing := h.sealed_of_closing
  slots_of_closed := h.slots_of_closed
  slots_of_dead := h.slots_of_dead
  slot_ok := h.slot_ok
  alloc_wf := ha
  nextLid_pos := h.nextLid_pos
  allocRep_lid := h.allocRep_lid
  handles_zero := h.handles_zero
  ch0_fifo := h.ch0_fifo

theorem inv_with_allocRep {c : Conn} (h : Inv c) (x : Except Err Nat)
    (hx : ∀ lid, x = .ok lid → lid ≠ 0) : Inv { c with allocRep := c.allocRep ++ [x] } where
  legacy := h.legacy
  sealed_of_closing := h.sealed_of_closing
  slots_of_closed := h.slots_of_closed
  slots_of_dead := h.slots_of_dead
  slot_ok := h.slot_ok
  alloc_wf := h.alloc_wf
  nextLid_pos := h.nextLid_pos
  allocRep_lid := fun lid hl => by
    rcases List.mem_append.mp hl with hl | hl
    · exact h.allocRep_lid lid hl
    · exact hx lid (List.mem_singleton.mp hl).symm
  handles_zero := h.handles_zero
  ch0_fifo := h.ch0_fifo

/-- A freshly allocated channel: new slot `id ↦ nextLid`, new link `nextLid`. -/
theorem inv_newChannel {c : Conn} (h : Inv c) (hs : c.st = .steady) (hd : c.dead = false)
    {a : Slots.Slots} (ha : Slots.WF a) {id : Nat} (hid : id ≠ 0) (l : Link)
    (r : List (Option Nat)) (x : Src) :
    Inv { c with alloc := a, allocReq := r, allocSrc := x, nextLid := c.nextLid + 1,
                 links := c.links ++ [(c.nextLid, l)],
                 slots := insertSorted id { lid := c.nextLid } c.slots } where
  legacy := h.legacy
  sealed_of_closing := h.sealed_of_closing
  slots_of_closed := fun h1 _ => absurd hs h1
  slots_of_dead := fun h1 => by rw [show c.dead = true from h1] at hd; cases hd
  slot_ok := fun p hp => by
    rcases mem_insertSorted hp with e | hp
    · subst e; exact ⟨hid, h.nextLid_pos⟩
    · exact h.slot_ok p hp
  alloc_wf := ha
  nextLid_pos := Nat.succ_ne_zero _
  allocRep_lid := h.allocRep_lid
  handles_zero := h.handles_zero
  ch0_fifo := fun m hm => by
    refine h.ch0_fifo m ?_
    have e : (lookupN 0 (c.links ++ [(c.nextLid, l)])).getD
        { chan := 0, ioAlive := false, clientAlive := false } = getLink c 0 := by
      rw [lookupN_append_ne h.nextLid_pos]; rfl
    have hm' : m ∈ ((lookupN 0 (c.links ++ [(c.nextLid, l)])).getD
        { chan := 0, ioAlive := false, clientAlive := false }).fifo := hm
    rw [e] at hm'; exact hm'

theorem inv_allocateLoop {c : Conn} (h : Inv c) (hs : c.st = .steady) (hd : c.dead = false)
    (fuel : Nat) : Inv (allocateLoop fuel c).1 := by
  induction fuel generalizing c with
  | zero => exact h
  | succ fuel ih =>
    unfold allocateLoop
    split
    · split <;> exact h
    · rename_i req rest hreq
      dsimp only
      cases req
      case' none =>
        have hw := (Slots.wf_insertNone h.alloc_wf).1
        have hz : ∀ i, (Slots.insertNone c.alloc).2 = .ok i → i ≠ 0 :=
          fun i hi e => Slots.insertNone_ne_ok_zero h.alloc_wf (e ▸ hi)
        dsimp only
        generalize Slots.insertNone c.alloc = p at hw hz ⊢
      case' some id =>
        have hw := (Slots.wf_insertSome h.alloc_wf id).1
        have hz : ∀ i, (Slots.insertSome c.alloc id).2 = .ok i → i ≠ 0 :=
          fun i hi e => Slots.insertSome_ne_ok_zero c.alloc id (e ▸ hi)
        dsimp only
        generalize Slots.insertSome c.alloc id = p at hw hz ⊢
      all_goals
        have h2 := inv_with_alloc h hw rest c.allocSrc.dec
        split
        · exact h2
        · rename_i i hi
          have h3 := fun l => inv_newChannel h hs hd hw (hz i hi) l rest c.allocSrc.dec
          exact inv_ite
            (ih (inv_setLink (inv_removeSlot (h3 _) i) _ _ (fun e => absurd e h.nextLid_pos)) hs hd)
            (inv_ite (h3 _) (ih (inv_with_allocRep (h3 _) _
                (fun lid e => by injection e with e; exact e ▸ h.nextLid_pos)) hs hd))
        · exact inv_ite (ih h2 hs hd)
            (inv_ite h2 (ih (inv_with_allocRep h2 _ (fun lid e => by cases e)) hs hd))

theorem inv_handleEvent {c : Conn} (h : Inv c) (hd : c.dead = false) (t : Token) :
    Inv (handleEvent c t).1 := by
  unfold handleEvent
  split
  · rename_i r w
    cases w <;> cases r <;> simp only [Bool.false_eq_true, ↓reduceIte]
    all_goals (repeat' split)
    all_goals first
      | exact h
      | exact inv_writeToStream h
      | exact inv_readFromStream h
      | exact inv_readFromStream (inv_writeToStream h)
  · exact h
  · split
    · rename_i hs; exact inv_setBlockedLoop h _
    · split <;> exact h
  · split
    · rename_i hs; exact inv_allocateLoop h hs hd _
    · split <;> exact h
  · split
    · exact inv_drainFifo h _ _
    · split <;> exact h
  · exact inv_drainFifo h _ _

theorem foldl_invariant {σ β : Type} (P : σ → Prop) (g : σ → β → σ)
    (hg : ∀ a x, P a → P (g a x)) (l : List β) (a : σ) (h : P a) : P (l.foldl g a) := by
  induction l generalizing a with
  | nil => exact h
  | cons x r ih => exact ih _ (hg a x h)

theorem inv_with_registered {c : Conn} (h : Inv c) (b : Bool) : Inv { c with registered := b } := by
  inv_same h

theorem inv_with_srcs {c : Conn} (h : Inv c) (a b : Src) :
    Inv { c with allocSrc := a, blockedSrc := b } := by
  inv_same h

theorem inv_killed {c : Conn} (h : Inv c) :
    Inv { c with dead := true, slots := [], blockedL := none, allocReq := [], blockedFifo := [] } where
  legacy := h.legacy
  sealed_of_closing := h.sealed_of_closing
  slots_of_closed := fun _ _ => rfl
  slots_of_dead := fun _ => rfl
  slot_ok := fun p hp => by cases hp
  alloc_wf := h.alloc_wf
  nextLid_pos := h.nextLid_pos
  allocRep_lid := h.allocRep_lid
  handles_zero := h.handles_zero
  ch0_fifo := h.ch0_fifo

theorem inv_deregisterAll {c : Conn} (h : Inv c) : Inv (deregisterAll c) := by
  unfold deregisterAll
  dsimp only
  apply inv_with_registered
  apply foldl_invariant Inv
  · intro acc x ha
    exact inv_setLink_sub ha _ _ (fun _ hm => hm)
  · exact h

theorem inv_reregisterAll {c : Conn} (h : Inv c) : Inv (reregisterAll c) := by
  unfold reregisterAll
  dsimp only
  apply inv_with_registered
  apply foldl_invariant Inv
  · intro acc x ha
    exact inv_setLink_sub ha _ _ (fun _ hm => hm)
  · exact h

theorem inv_kill {c : Conn} (h : Inv c) : Inv (kill c) := by
  unfold kill
  dsimp only
  apply inv_killed
  apply inv_setLink_sub
  · apply foldl_invariant Inv
    · intro acc x ha
      exact inv_dropSlotEnds ha _
    · exact h
  · intro _ hm; cases hm

theorem inv_pollAll {c : Conn} (h : Inv c) : Inv (pollAll c).1 := by
  unfold pollAll
  dsimp only
  apply inv_with_srcs
  apply foldl_invariant (fun (a : Conn × List PTok) => Inv a.1)
  · intro acc x ha
    exact inv_setLink_sub ha _ _ (fun _ hm => hm)
  · exact h

theorem inv_ioStep {c : Conn} (h : Inv c) (o : IoOp) : Inv (ioStep c o).1 := by
  unfold ioStep
  split
  · split <;> exact h
  · rename_i hd
    have hd : c.dead = false := by simpa using hd
    dsimp only
    split
    all_goals (repeat' split)
    all_goals first
      | exact h
      | exact inv_kill h
      | exact inv_processBytes h _
      | exact inv_kill (inv_processBytes h _)
      | exact inv_handleEvent h hd _
      | exact inv_kill (inv_handleEvent h hd _)
      | exact inv_writeToStream h
      | exact inv_kill (inv_writeToStream h)
      | exact inv_deregisterAll h
      | exact inv_reregisterAll h
      | exact inv_pollAll h

/-! ### Client operations -/

theorem inv_allocRequest {c : Conn} (h : Inv c) (req : Option Nat) : Inv (allocRequest c req).1 := by
  unfold allocRequest
  repeat' split
  all_goals first | exact h | inv_same h

theorem inv_setBlockedRequest {c : Conn} (h : Inv c) (l : Label) : Inv (setBlockedRequest c l).1 := by
  unfold setBlockedRequest
  repeat' split
  all_goals first | exact h | inv_same h

theorem inv_newListener {c : Conn} (h : Inv c) (l : Label) : Inv (newListener c l) := by
  unfold newListener; inv_same h

theorem inv_allocReply {c : Conn} (h : Inv c) (label : Label) : Inv (allocReply c label).1 := by
  unfold allocReply
  split
  · exact h
  · split
    · split <;> exact h
    · rename_i lid rest hrep
      have hlid : lid ≠ 0 := h.allocRep_lid lid (by rw [hrep]; exact List.mem_cons_self)
      exact { legacy := h.legacy
              sealed_of_closing := h.sealed_of_closing
              slots_of_closed := h.slots_of_closed
              slots_of_dead := h.slots_of_dead
              slot_ok := h.slot_ok
              alloc_wf := h.alloc_wf
              nextLid_pos := h.nextLid_pos
              allocRep_lid := fun l hl => h.allocRep_lid l (by rw [hrep]; exact List.mem_cons_of_mem _ hl)
              handles_zero := fun l hl => by
                have hl' : lookupS l (setS label lid c.handles) = some 0 := hl
                rw [lookupS_setS] at hl'
                split at hl'
                · injection hl' with e; exact absurd e hlid
                · exact h.handles_zero l hl'
              ch0_fifo := h.ch0_fifo }
    · rename_i e rest hrep
      exact { legacy := h.legacy
              sealed_of_closing := h.sealed_of_closing
              slots_of_closed := h.slots_of_closed
              slots_of_dead := h.slots_of_dead
              slot_ok := h.slot_ok
              alloc_wf := h.alloc_wf
              nextLid_pos := h.nextLid_pos
              allocRep_lid := fun l hl => h.allocRep_lid l (by rw [hrep]; exact List.mem_cons_of_mem _ hl)
              handles_zero := h.handles_zero
              ch0_fifo := h.ch0_fifo }

/-- A send on a handle; on the connection's own handle only non-listener messages are legal. -/
theorem inv_clientSend {c : Conn} (h : Inv c) (label : Label) (m : Msg)
    (hm : label = "0" → m.isListener = false) : Inv (clientSend c label m).1 := by
  unfold clientSend
  split
  · exact h
  · rename_i lid hlid
    dsimp only
    split
    · exact h
    · split
      · exact h
      · refine inv_setLink h _ _ (fun e x hx => ?_)
        subst e
        rcases List.mem_append.mp hx with hx | hx
        · exact h.ch0_fifo x hx
        · rw [List.mem_singleton.mp hx]; exact hm (h.handles_zero label hlid)

theorem inv_with_consLabels {c : Conn} (h : Inv c) (x : List (Label × Nat)) :
    Inv { c with consLabels := x } := by
  inv_same h

theorem inv_clientRecv {c : Conn} (h : Inv c) (label cl : Label) : Inv (clientRecv c label cl).1 := by
  unfold clientRecv
  split
  · exact h
  · dsimp only
    split
    · split <;> exact h
    · split
      · apply inv_with_consLabels
        exact inv_setLink_sub h _ _ (fun _ hx => hx)
      · exact inv_setLink_sub h _ _ (fun _ hx => hx)

theorem inv_consRecv {c : Conn} (h : Inv c) (cl : Label) : Inv (consRecv c cl).1 := by
  unfold consRecv
  repeat' split
  all_goals first | exact h | inv_same h

theorem inv_lstRecv {c : Conn} (h : Inv c) (l : Label) : Inv (lstRecv c l).1 := by
  unfold lstRecv
  repeat' split
  all_goals first | exact h | inv_same h

theorem inv_dropCons {c : Conn} (h : Inv c) (cl : Label) : Inv (dropCons c cl) := by
  unfold dropCons
  repeat' split
  all_goals first | exact h | inv_same h

theorem inv_dropListener {c : Conn} (h : Inv c) (l : Label) : Inv (dropListener c l) := by
  unfold dropListener
  repeat' split
  all_goals first | exact h | inv_same h

theorem inv_with_handles_erase {c : Conn} (h : Inv c) (label : Label) :
    Inv { c with handles := eraseS label c.handles } where
  legacy := h.legacy
  sealed_of_closing := h.sealed_of_closing
  slots_of_closed := h.slots_of_closed
  slots_of_dead := h.slots_of_dead
  slot_ok := h.slot_ok
  alloc_wf := h.alloc_wf
  nextLid_pos := h.nextLid_pos
  allocRep_lid := h.allocRep_lid
  handles_zero := fun l hl => by
    have hl' : lookupS l (eraseS label c.handles) = some 0 := hl
    rw [lookupS_eraseS] at hl'
    split at hl'
    · cases hl'
    · exact h.handles_zero l hl'
  ch0_fifo := h.ch0_fifo

theorem inv_with_allocRep_nil {c : Conn} (h : Inv c) (a b : Src) :
    Inv { c with allocSrc := a, blockedSrc := b, allocRep := [] } where
  legacy := h.legacy
  sealed_of_closing := h.sealed_of_closing
  slots_of_closed := h.slots_of_closed
  slots_of_dead := h.slots_of_dead
  slot_ok := h.slot_ok
  alloc_wf := h.alloc_wf
  nextLid_pos := h.nextLid_pos
  allocRep_lid := fun l hl => by cases hl
  handles_zero := h.handles_zero
  ch0_fifo := h.ch0_fifo

theorem inv_dropHandle {c : Conn} (h : Inv c) (label : Label) : Inv (dropHandle c label) := by
  unfold dropHandle
  split
  · exact h
  · rename_i lid _
    dsimp only
    have h1 : Inv ((getLink c lid).replies.foldl dropReply c) :=
      foldl_invariant Inv _ (fun a x ha => inv_dropReply ha x) _ _ h
    have e : ∀ k, getLink ((getLink c lid).replies.foldl dropReply c) k = getLink c k := by
      intro k
      apply getLink_congr
      apply foldl_invariant (fun a : Conn => a.links = c.links)
      · intro a x ha
        rw [← ha]; unfold dropReply; split
        · split <;> rfl
        · rfl
      · rfl
    have h2 := inv_with_handles_erase (inv_setLink_sub h1 lid
      { (getLink c lid) with clientAlive := false, replies := [], src := (getLink c lid).src.inc }
      (fun x hx => by rw [e]; exact hx)) label
    split
    · exact inv_with_allocRep_nil h2 _ _
    · exact h2

theorem inv_clientStep {c : Conn} (h : Inv c) (o : ClientOp) (hl : ApiLegal (.client o)) :
    Inv (clientStep c o).1 := by
  cases o with
  | allocReq req => exact inv_allocRequest h req
  | allocRep label => exact inv_allocReply h label
  | send label m =>
    have hm : label = "0" → m.isListener = false := by
      intro e
      obtain ⟨h1, h2, h3⟩ := hl e
      cases m with
      | send _ => rfl
      | connectionClose _ => rfl
      | setReturn l =>
        cases l with
        | none => exact absurd rfl h2
        | some l => cases h1
      | setConfirm l =>
        cases l with
        | none => exact absurd rfl h3
        | some l => cases h1
    unfold clientStep
    dsimp only
    split
    · exact inv_clientSend (inv_newListener h _) label m hm
    · exact inv_clientSend h label m hm
  | setBlocked l => exact inv_setBlockedRequest (inv_newListener h l) l
  | recv label cl => exact inv_clientRecv h label cl
  | crecv cl => exact inv_consRecv h cl
  | lrecv l => exact inv_lstRecv h l
  | dropHandle label => exact inv_dropHandle h label
  | dropCons cl => exact inv_dropCons h cl
  | dropLst l => exact inv_dropListener h l

/-! ### `step`, `run` -/

/-- Every `ApiLegal` operation preserves the invariant (non-legacy code: `Inv.legacy`). -/
theorem inv_step {c : Conn} (h : Inv c) (o : Op) (hl : ApiLegal o) : Inv (step c o) := by
  cases o with
  | io o => exact inv_ioStep h o
  | client o => exact inv_clientStep h o hl
  | decl d => show Inv { c with table := c.table ++ [d] }; inv_same h
  | feed evs => show Inv { c with reads := c.reads ++ evs }; inv_same h
  | wscript ws => show Inv { c with writes := c.writes ++ ws }; inv_same h

theorem inv_run {c : Conn} (h : Inv c) (ops : List Op) (hl : ∀ o ∈ ops, ApiLegal o) :
    Inv (run c ops) := by
  induction ops generalizing c with
  | nil => exact h
  | cons o rest ih =>
    exact ih (inv_step h o (hl o List.mem_cons_self)) (fun o' ho' => hl o' (List.mem_cons_of_mem _ ho'))

/-- Every reachable state satisfies the invariant. -/
theorem inv_reachable (cm b : Nat) (ops : List Op) (hl : ∀ o ∈ ops, ApiLegal o) :
    Inv (run (init cm b) ops) := inv_run (inv_init cm b) ops hl

/-! ## 5. The I/O thread never panics -/

theorem np_of_eq {r : Conn × Option Err} {c' : Conn} {x : Option Err} (h : r.2 ≠ some .panic)
    (e : r = (c', x)) : x ≠ some .panic := by subst e; exact h

theorem np_sendReply (c : Conn) (lid : Nat) (r : Reply) : (sendReply c lid r).2 ≠ some .panic := by
  unfold sendReply; dsimp only
  repeat' split
  all_goals simp

theorem np_sendCons (c : Conn) (qid : Nat) (m : CMsg) : (sendCons c qid m).2 ≠ some .panic := by
  unfold sendCons
  repeat' split
  all_goals simp

theorem np_notifyConsumers (m : CMsg) (c : Conn) (l : List (Bytes × Nat)) :
    (notifyConsumers m c l).2 ≠ some .panic := by
  induction l generalizing c with
  | nil => simp [notifyConsumers]
  | cons x r ih =>
    obtain ⟨t, qid⟩ := x
    unfold notifyConsumers
    split
    · rename_i heq; exact np_of_eq (np_sendCons c qid m) heq
    · exact ih _

theorem np_slotGet {c : Conn} {n : Nat} {e : Err} (h : slotGet c n = .error e) :
    some e ≠ some Err.panic := by
  unfold slotGet at h
  split at h
  · cases h
  · cases h; simp

/-- One backward step of a "never `.panic`" proof (same shape as `inv_step`). -/
macro "np_step" : tactic => `(tactic| first
  | (apply np_slotGet; assumption)
  | exact np_sendReply _ _ _
  | exact np_sendCons _ _ _
  | exact np_notifyConsumers _ _ _
  | (simp; done)
  | (apply np_of_eq; rotate_left; assumption; try dsimp only))

macro "np_auto" : tactic =>
  `(tactic| ((try dsimp only); repeat' (first | np_step | (split <;> try dsimp only))))

theorem np_drainSlots_go (r : Reply) (m : CMsg) (all : List (Nat × Slot)) (c : Conn)
    (l : List (Nat × Slot)) : (drainSlots.go r m all c l).2 ≠ some .panic := by
  induction l generalizing c with
  | nil => simp [drainSlots.go]
  | cons x rest ih =>
    obtain ⟨k, s⟩ := x
    unfold drainSlots.go
    dsimp only
    split
    · np_auto
    · split
      · np_auto
      · exact ih _

theorem np_drainSlots (c : Conn) (r : Reply) (m : CMsg) : (drainSlots c r m).2 ≠ some .panic := by
  unfold drainSlots; exact np_drainSlots_go _ _ _ _ _

theorem np_dispatchContent (c : Conn) (n : Nat) (slot : Slot) (ct : Content) :
    (dispatchContent c n slot ct).2 ≠ some .panic := by
  unfold dispatchContent
  repeat' split
  all_goals np_auto

theorem np_afterCollect (c : Conn) (n : Nat) (slot : Slot) (r : Res) :
    (afterCollect c n slot r).2 ≠ some .panic := by
  unfold afterCollect
  dsimp only
  split
  · simp
  · simp
  · exact np_dispatchContent _ _ _ _

theorem np_processChannelMethod (c : Conn) (n cls mid : Nat) (fields : List Field) (dbg : Bytes) :
    (processChannelMethod c n cls mid fields dbg).2 ≠ some .panic := by
  unfold processChannelMethod
  dsimp only
  split
  all_goals (repeat' split)
  all_goals first
    | exact np_afterCollect _ _ _ _
    | np_auto

theorem np_process (c : Conn) (f : Frame) (dc df : Bytes) : (process c f dc df).2 ≠ some .panic := by
  unfold process
  split
  · simp
  · split <;> simp
  · split <;> simp
  · split
    all_goals first
      | exact np_drainSlots _ _ _
      | exact np_afterCollect _ _ _ _
      | np_auto
    all_goals first
      | exact np_drainSlots _ _ _
      | exact np_afterCollect _ _ _ _
      | exact np_processChannelMethod _ _ _ _ _ _

theorem np_processBytes (c : Conn) (bytes : Bytes) : (processBytes c bytes).2 ≠ some .panic := by
  unfold processBytes
  split
  · split
    · exact np_process _ _ _ _
    · simp
  · simp

theorem np_readFromStream_go (c : Conn) (l : List Bytes) :
    (readFromStream.go c l).2 ≠ some .panic := by
  induction l generalizing c with
  | nil => simp [readFromStream.go]
  | cons fr rest ih =>
    unfold readFromStream.go
    split
    · rename_i heq; exact np_of_eq (np_processBytes c fr) heq
    · exact ih _

theorem np_readFromStream (c : Conn) : (readFromStream c).2 ≠ some .panic := by
  unfold readFromStream
  dsimp only
  split
  · rename_i heq; exact np_of_eq (np_readFromStream_go _ _) heq
  · split <;> simp

theorem np_writeLoop (fuel : Nat) (c : Conn) (pos : Nat) (w : Bytes) :
    (writeLoop fuel c pos w).2.2 ≠ some .panic := by
  induction fuel generalizing c pos w with
  | zero => simp [writeLoop]
  | succ fuel ih =>
    unfold writeLoop
    split
    · split
      · simp
      · simp
      · simp
      · exact ih _ _ _
    · simp

theorem np_writeToStream (c : Conn) : (writeToStream c).2.2 ≠ some .panic := np_writeLoop _ _ _ _

theorem np_setBlockedLoop (fuel : Nat) (c : Conn) : (setBlockedLoop fuel c).2 ≠ some .panic := by
  induction fuel generalizing c with
  | zero => simp [setBlockedLoop]
  | succ fuel ih =>
    unfold setBlockedLoop
    split
    · split <;> simp
    · exact ih _

theorem np_ite {α : Type} {p : Prop} [Decidable p] {a b : α × Option Err}
    (ha : a.2 ≠ some .panic) (hb : b.2 ≠ some .panic) : (if p then a else b).2 ≠ some .panic := by
  split <;> assumption

/-- `allocate_channel` never panics: the repaired allocator has no `unreachable!` (C10). -/
theorem np_allocateLoop (fuel : Nat) (c : Conn) : (allocateLoop fuel c).2 ≠ some .panic := by
  induction fuel generalizing c with
  | zero => simp [allocateLoop]
  | succ fuel ih =>
    unfold allocateLoop
    split
    · split <;> simp
    · rename_i req rest hreq
      dsimp only
      cases req
      case' none =>
        have hp : (Slots.insertNone c.alloc).2 ≠ .panic := Slots.insertNone_not_panic c.alloc
        dsimp only
        generalize Slots.insertNone c.alloc = p at hp ⊢
      case' some id =>
        have hp : (Slots.insertSome c.alloc id).2 ≠ .panic := Slots.insertSome_ne_panic c.alloc id
        dsimp only
        generalize Slots.insertSome c.alloc id = p at hp ⊢
      all_goals
        split
        · rename_i e; exact absurd e hp
        · exact np_ite (ih _) (np_ite (by simp) (ih _))
        · exact np_ite (ih _) (np_ite (by simp) (ih _))

theorem popFifo_spec {c c1 : Conn} {m : Msg} {lid : Nat} (hp : popFifo c lid = some (m, c1)) :
    (∃ rest, (getLink c lid).fifo = m :: rest ∧ (getLink c1 lid).fifo = rest) ∧
    c1.slots = c.slots ∧ c1.st = c.st ∧ c1.sealed = c.sealed ∧ c1.out = c.out ∧
    c1.legacy = c.legacy ∧ c1.dead = c.dead := by
  unfold popFifo at hp
  dsimp only at hp
  split at hp
  · cases hp
  · rename_i m' rest hf
    cases hp
    exact ⟨⟨rest, hf, by rw [getLink_setLink_self]⟩, rfl, rfl, rfl, rfl, rfl, rfl⟩

/-- Slot keys are non-zero channel ids (part of `Inv`; all the close preamble needs). -/
def KeysOk (c : Conn) : Prop := ∀ p ∈ c.slots, p.1 ≠ 0

theorem Inv.keysOk {c : Conn} (h : Inv c) : KeysOk c := fun p hp => (h.slot_ok p hp).1

theorem KeysOk.key_ne_zero {c : Conn} (h : KeysOk c) {n : Nat} {s : Slot}
    (hs : lookupN n c.slots = some s) : n ≠ 0 := h _ (mem_of_lookupN hs)

theorem keysOk_setSlot {c : Conn} (h : KeysOk c) {n : Nat} {s0 : Slot}
    (hk : lookupN n c.slots = some s0) (s : Slot) : KeysOk (setSlot c n s) := by
  intro p hp
  rcases mem_setN (show p ∈ setN n s c.slots from hp) with e | hp
  · subst e; exact h.key_ne_zero hk
  · exact h p hp

theorem keysOk_processPlainMessage {c : Conn} (h : KeysOk c) (n : Nat) (m : Msg) :
    KeysOk (processPlainMessage c n m).1 := by
  unfold processPlainMessage
  split
  · exact fun p hp => h p (by simpa [sealOut] using hp)
  · exact fun p hp => h p (by simpa using hp)
  · split
    · exact h
    · split
      · rename_i hk; exact keysOk_setSlot h hk _
      · exact h
  · split
    · exact h
    · split
      · rename_i hk; exact keysOk_setSlot h hk _
      · exact h

theorem keysOk_step (c : Conn) (n : Nat) (slot : Slot) (m : Msg) (c1 : Conn) (h : KeysOk c)
    (_ : lookupN n c.slots = some slot) (hp : popFifo c slot.lid = some (m, c1)) :
    KeysOk (processPlainMessage c1 n m).1 := by
  apply keysOk_processPlainMessage
  have hsl := (popFifo_spec hp).2.1
  intro p hp'; rw [hsl] at hp'; exact h p hp'

theorem keysOk_takeQueued {c : Conn} (h : KeysOk c) (fuel n : Nat) : KeysOk (takeQueued fuel c n).1 :=
  takeQueued_ind (P := KeysOk) keysOk_step fuel c n h

theorem keysOk_processChannelMessage {c : Conn} (h : KeysOk c) (n : Nat) (m : Msg) :
    KeysOk (processChannelMessage c n m).1 :=
  processChannelMessage_ind (P := KeysOk) keysOk_step (fun _ h' => keysOk_processPlainMessage h' n m) h

@[simp] theorem processPlainMessage_links (c : Conn) (n : Nat) (m : Msg) :
    (processPlainMessage c n m).1.links = c.links := by
  unfold processPlainMessage
  repeat' split
  all_goals first | rfl | simp [sealOut]

theorem setSlot_lid {c : Conn} {n : Nat} {s0 : Slot} (hk : lookupN n c.slots = some s0) (s : Slot)
    (hl : s.lid = s0.lid) (k : Nat) :
    (lookupN k (setSlot c n s).slots).map (·.lid) = (lookupN k c.slots).map (·.lid) := by
  show (lookupN k (setN n s c.slots)).map (·.lid) = (lookupN k c.slots).map (·.lid)
  rw [lookupN_setN]
  split
  · rename_i e; subst e; rw [hk]; simp [hl]
  · rfl

/-- Handling a message never moves a channel to another link. -/
theorem processPlainMessage_lid (c : Conn) (n : Nat) (m : Msg) (k : Nat) :
    (lookupN k (processPlainMessage c n m).1.slots).map (·.lid) = (lookupN k c.slots).map (·.lid) := by
  unfold processPlainMessage
  repeat' split
  all_goals first
    | rfl
    | (simp [sealOut]; done)
    | (rename_i hk; dsimp only; apply setSlot_lid hk; rfl)

/-- Queues only get shorter and no channel moves to another link. -/
structure QLe (c c' : Conn) : Prop where
  lid : ∀ k, (lookupN k c'.slots).map (·.lid) = (lookupN k c.slots).map (·.lid)
  len : ∀ l, (getLink c' l).fifo.length ≤ (getLink c l).fifo.length

theorem QLe.refl (c : Conn) : QLe c c := ⟨fun _ => rfl, fun _ => Nat.le_refl _⟩

theorem QLe.trans {a b c : Conn} (h1 : QLe a b) (h2 : QLe b c) : QLe a c :=
  ⟨fun k => (h2.lid k).trans (h1.lid k), fun l => Nat.le_trans (h2.len l) (h1.len l)⟩

theorem qle_popFifo {c c1 : Conn} {m : Msg} {lid : Nat} (hp : popFifo c lid = some (m, c1)) :
    QLe c c1 := by
  unfold popFifo at hp
  dsimp only at hp
  split at hp
  · cases hp
  · rename_i m' rest hf
    cases hp
    refine ⟨fun _ => rfl, fun l => ?_⟩
    rw [getLink_setLink]
    split
    · rename_i e; subst e; rw [hf]; exact Nat.le_succ _
    · exact Nat.le_refl _

theorem qle_processPlainMessage (c : Conn) (n : Nat) (m : Msg) : QLe c (processPlainMessage c n m).1 :=
  ⟨processPlainMessage_lid c n m, fun l => by
    rw [getLink_congr (processPlainMessage_links c n m)]; exact Nat.le_refl _⟩

theorem qle_processChannelMessage (c : Conn) (n : Nat) (m : Msg) :
    QLe c (processChannelMessage c n m).1 :=
  processChannelMessage_ind (P := QLe c)
    (fun _ n _ m _ h _ hp => h.trans ((qle_popFifo hp).trans (qle_processPlainMessage _ n m)))
    (fun _ h => h.trans (qle_processPlainMessage _ n m)) (QLe.refl c)

/-- Messages that are not listener registrations are handled without error on any channel. -/
theorem processPlainMessage_plain (c : Conn) (n : Nat) {m : Msg} (hm : m.isListener = false) :
    (processPlainMessage c n m).2 = none := by
  cases m with
  | send _ => rfl
  | connectionClose _ => rfl
  | setReturn _ => cases hm
  | setConfirm _ => cases hm

/-- Any message is handled without error on a non-zero channel that has a slot. -/
theorem processPlainMessage_slot (c : Conn) {n : Nat} (hn : n ≠ 0) {s : Slot}
    (hs : lookupN n c.slots = some s) (m : Msg) : (processPlainMessage c n m).2 = none := by
  cases m with
  | send _ => rfl
  | connectionClose _ => rfl
  | setReturn _ => simp [processPlainMessage, hn, hs]
  | setConfirm _ => simp [processPlainMessage, hn, hs]

/-- The only error of the plain handling is the `unreachable!` (`.panic`). -/
theorem processPlainMessage_err (c : Conn) (n : Nat) (m : Msg) :
    (processPlainMessage c n m).2 = none ∨ (processPlainMessage c n m).2 = some .panic := by
  unfold processPlainMessage
  repeat' split
  all_goals first | exact Or.inl rfl | exact Or.inr rfl

/-- `takeQueued`, given more fuel than there are queued messages, fails only by meeting a listener
    registration under the (unreachable) slot key `0`. -/
theorem takeQueued_err (fuel : Nat) (c : Conn) (n : Nat)
    (hf : ∀ slot, lookupN n c.slots = some slot → (getLink c slot.lid).fifo.length < fuel)
    (h0 : 0 < fuel) :
    (takeQueued fuel c n).2 = none ∨ ((takeQueued fuel c n).2 = some .panic ∧ n = 0) := by
  induction fuel generalizing c with
  | zero => omega
  | succ fuel ih =>
    unfold takeQueued
    split
    · exact Or.inl rfl
    · rename_i slot hk
      split
      · exact Or.inl rfl
      · rename_i m c1 hp
        obtain ⟨⟨rest, hfifo, hrest⟩, hsl, _⟩ := popFifo_spec hp
        have hlen : rest.length < fuel := by
          have := hf slot hk; rw [hfifo] at this; simpa using this
        split
        · rename_i c2 e heq
          by_cases hn : n = 0
          · rcases processPlainMessage_err c1 n m with h | h
            · rw [heq] at h; cases h
            · rw [heq] at h; exact Or.inr ⟨h, hn⟩
          · have := processPlainMessage_slot c1 hn (hsl ▸ hk) m
            rw [heq] at this; cases this
        · rename_i c2 heq
          have hl2 : c2.links = c1.links := by
            have := processPlainMessage_links c1 n m; rw [heq] at this; exact this
          have hlid : (lookupN n c2.slots).map (·.lid) = some slot.lid := by
            have := processPlainMessage_lid c1 n m n; rw [heq] at this
            rw [this, hsl, hk]; rfl
          apply ih
          · intro slot' hs'
            rw [hs'] at hlid
            have e : slot'.lid = slot.lid := by simpa using hlid
            rw [e, getLink_congr hl2, hrest]; exact hlen
          · omega

theorem takeAllQueued_err (c : Conn) (ids : List Nat) :
    (takeAllQueued c ids).2 = none ∨ ((takeAllQueued c ids).2 = some .panic ∧ 0 ∈ ids) := by
  induction ids generalizing c with
  | nil => exact Or.inl rfl
  | cons n more ih =>
    rw [takeAllQueued_cons]
    have h1 := takeQueued_err (qlen c n + 1) c n
      (fun slot hs => by rw [qlen_of_slot hs]; exact Nat.lt_succ_self _) (Nat.succ_pos _)
    split
    · rename_i heq; rw [heq] at h1
      rcases h1 with h | ⟨h, hn⟩
      · cases h
      · exact Or.inr ⟨h, hn ▸ List.mem_cons_self⟩
    · rcases ih _ with h | ⟨h, hm⟩
      · exact Or.inl h
      · exact Or.inr ⟨h, List.mem_cons_of_mem _ hm⟩

/-- Handling a queued message fails only with `.panic`, and the close request only when a slot
    is filed under key `0`. -/
theorem processChannelMessage_close_err (c : Conn) (n : Nat) (buf : Bytes) :
    (processChannelMessage c n (.connectionClose buf)).2 = none ∨
    ((processChannelMessage c n (.connectionClose buf)).2 = some .panic ∧ ∃ p ∈ c.slots, p.1 = 0) := by
  rw [processChannelMessage_close]
  have h1 := takeAllQueued_err c ((c.slots.map (·.1)).mergeSort (· ≤ ·))
  split
  · rename_i heq; rw [heq] at h1
    rcases h1 with h | ⟨h, hm⟩
    · cases h
    · rw [List.mem_mergeSort, List.mem_map] at hm
      obtain ⟨p, hp, e⟩ := hm
      exact Or.inr ⟨h, p, hp, e⟩
  · exact Or.inl rfl

theorem processChannelMessage_err (c : Conn) (n : Nat) (m : Msg) :
    (processChannelMessage c n m).2 = none ∨ (processChannelMessage c n m).2 = some .panic := by
  cases m with
  | send b => exact processPlainMessage_err c n _
  | setReturn l => exact processPlainMessage_err c n _
  | setConfirm l => exact processPlainMessage_err c n _
  | connectionClose buf =>
    rcases processChannelMessage_close_err c n buf with h | ⟨h, _⟩
    · exact Or.inl h
    · exact Or.inr h

theorem processChannelMessage_ne_hang (c : Conn) (n : Nat) (m : Msg) :
    (processChannelMessage c n m).2 ≠ some .hang := by
  rcases processChannelMessage_err c n m with h | h <;> rw [h] <;> simp

/-- Messages that are not listener registrations are handled without error on any channel (the
    close request: when no slot is filed under key `0`). -/
theorem processChannelMessage_plain {c : Conn} (hk : KeysOk c) (n : Nat) {m : Msg}
    (hm : m.isListener = false) : (processChannelMessage c n m).2 = none := by
  cases m with
  | send _ => rfl
  | connectionClose buf =>
    rcases processChannelMessage_close_err c n buf with h | ⟨_, p, hp, e⟩
    · exact h
    · exact absurd e (hk p hp)
  | setReturn _ => cases hm
  | setConfirm _ => cases hm

/-- Any message is handled without error on a non-zero channel that has a slot. -/
theorem processChannelMessage_slot {c : Conn} (hk : KeysOk c) {n : Nat} (hn : n ≠ 0) {s : Slot}
    (hs : lookupN n c.slots = some s) (m : Msg) : (processChannelMessage c n m).2 = none := by
  cases m with
  | send _ => rfl
  | connectionClose _ => exact processChannelMessage_plain hk n rfl
  | setReturn _ => exact processPlainMessage_slot c hn hs _
  | setConfirm _ => exact processPlainMessage_slot c hn hs _

/-- In a reachable state, handling a queued channel message never fails. -/
theorem processChannelMessage_ok {c c1 : Conn} (h : Inv c) {n lid : Nat} {m : Msg}
    (hlid : (if n = 0 then some 0 else (lookupN n c.slots).map (·.lid)) = some lid)
    (hp : popFifo c lid = some (m, c1)) : (processChannelMessage c1 n m).2 = none := by
  obtain ⟨⟨rest, hf, _⟩, hsl, _⟩ := popFifo_spec hp
  have hk1 : KeysOk c1 := (inv_popFifo h hp).keysOk
  by_cases hn : n = 0
  · simp only [hn, if_true, Option.some.injEq] at hlid
    subst hlid
    exact processChannelMessage_plain hk1 n (h.ch0_fifo m (by rw [hf]; exact List.mem_cons_self))
  · simp only [hn, if_false] at hlid
    cases hs : lookupN n c.slots with
    | none => rw [hs] at hlid; cases hlid
    | some s => exact processChannelMessage_slot hk1 hn (hsl ▸ hs) m

theorem np_drainFifo {c : Conn} (h : Inv c) (fuel n : Nat) :
    (drainFifo fuel c n).2 ≠ some .panic := by
  induction fuel generalizing c with
  | zero => simp [drainFifo]
  | succ fuel ih =>
    unfold drainFifo
    dsimp only
    split
    · simp
    · rename_i lid hlid
      split
      · rename_i m c1 hp
        have h1 := inv_popFifo h hp
        have hok := processChannelMessage_ok h hlid hp
        split
        · rename_i heq
          rw [heq] at hok; cases hok
        · rename_i heq
          exact ih ((inv_processChannelMessage h1 n m).of_eq_fst heq)
      · split <;> simp

theorem np_handleEvent {c : Conn} (h : Inv c) (t : Token) : (handleEvent c t).2.2 ≠ some .panic := by
  have hl := h.legacy
  unfold handleEvent
  split
  · rename_i r w
    cases w <;> cases r <;> simp only [Bool.false_eq_true, ↓reduceIte]
    all_goals (repeat' split)
    all_goals first
      | (simp; done)
      | exact np_readFromStream _
      | (rename_i heq; rw [← heq]; exact np_writeToStream _)
  · simp
  · split
    · exact np_setBlockedLoop _ _
    · simp [hl]
  · split
    · exact np_allocateLoop _ _
    · simp [hl]
  · split
    · exact np_drainFifo h _ _
    · simp [hl]
  · exact np_drainFifo h _ _

/-- In a reachable state the `assert!` of `is_connection_done` cannot fire. -/
theorem isDone_isSome {c : Conn} (h : Inv c) : isDone c ≠ none := by
  unfold isDone
  split
  · simp
  · simp
  · rename_i h1 h2
    rw [h.sealed_of_closing h1 h2]; simp

/-! ## 6. Fuel suffices -/

/-- What `write_to_stream` can do to the state: only `out` (a suffix of the old one remains) and
    the transport script change; the only errors are a transport error and — never with the fuel
    `writeToStream` supplies — fuel exhaustion. -/
theorem writeLoop_spec (fuel : Nat) (c : Conn) (pos : Nat) (w : Bytes) :
    (writeLoop fuel c pos w).1.st = c.st ∧ (writeLoop fuel c pos w).1.sealed = c.sealed ∧
    (writeLoop fuel c pos w).1.legacy = c.legacy ∧ (writeLoop fuel c pos w).1.slots = c.slots ∧
    (writeLoop fuel c pos w).1.dead = c.dead ∧ (writeLoop fuel c pos w).1.table = c.table ∧
    (writeLoop fuel c pos w).1.fb = c.fb ∧ (writeLoop fuel c pos w).1.reads = c.reads ∧
    (∃ k, (writeLoop fuel c pos w).1.out = c.out.drop k) ∧
    ((writeLoop fuel c pos w).2.2 = none ∨ (writeLoop fuel c pos w).2.2 = some .ioErrorWritingSocket ∨
      ((writeLoop fuel c pos w).2.2 = some .hang ∧ fuel ≤ c.writes.length)) := by
  induction fuel generalizing c pos w with
  | zero =>
    unfold writeLoop
    exact ⟨rfl, rfl, rfl, rfl, rfl, rfl, rfl, rfl, ⟨0, rfl⟩, Or.inr (Or.inr ⟨rfl, Nat.zero_le _⟩)⟩
  | succ fuel ih =>
    unfold writeLoop
    split
    · split
      · exact ⟨rfl, rfl, rfl, rfl, rfl, rfl, rfl, rfl, ⟨pos, rfl⟩, Or.inl rfl⟩
      · exact ⟨rfl, rfl, rfl, rfl, rfl, rfl, rfl, rfl, ⟨pos, rfl⟩, Or.inl rfl⟩
      · exact ⟨rfl, rfl, rfl, rfl, rfl, rfl, rfl, rfl, ⟨0, rfl⟩, Or.inr (Or.inl rfl)⟩
      · rename_i k rest hw
        obtain ⟨h1, h2, h3, h4, h5, h6, h7, h8, h9, h10⟩ :=
          ih { c with writes := rest } (pos + min k (c.out.length - pos))
            (w ++ (c.out.drop pos).take (min k (c.out.length - pos)))
        refine ⟨h1, h2, h3, h4, h5, h6, h7, h8, h9, ?_⟩
        rcases h10 with h | h | ⟨h, hle⟩
        · exact Or.inl h
        · exact Or.inr (Or.inl h)
        · refine Or.inr (Or.inr ⟨h, ?_⟩)
          rw [hw]; exact Nat.succ_le_succ hle
    · refine ⟨rfl, rfl, rfl, rfl, rfl, rfl, rfl, rfl, ⟨c.out.length, ?_⟩, Or.inl rfl⟩
      show [] = c.out.drop c.out.length
      rw [List.drop_length]

theorem writeToStream_spec (c : Conn) :
    (writeToStream c).1.st = c.st ∧ (writeToStream c).1.sealed = c.sealed ∧
    (writeToStream c).1.legacy = c.legacy ∧ (writeToStream c).1.slots = c.slots ∧
    (writeToStream c).1.dead = c.dead ∧ (writeToStream c).1.table = c.table ∧
    (writeToStream c).1.fb = c.fb ∧ (writeToStream c).1.reads = c.reads ∧
    (∃ k, (writeToStream c).1.out = c.out.drop k) ∧
    ((writeToStream c).2.2 = none ∨ (writeToStream c).2.2 = some .ioErrorWritingSocket) := by
  obtain ⟨h1, h2, h3, h4, h5, h6, h7, h8, h9, h10⟩ :=
    writeLoop_spec (c.out.length + c.writes.length + 2) c 0 []
  refine ⟨h1, h2, h3, h4, h5, h6, h7, h8, h9, ?_⟩
  rcases h10 with h | h | ⟨_, hle⟩
  · exact Or.inl h
  · exact Or.inr h
  · omega

/-- `write_to_stream` never hangs. -/
theorem writeToStream_no_hang (c : Conn) : (writeToStream c).2.2 ≠ some .hang := by
  rcases (writeToStream_spec c).2.2.2.2.2.2.2.2.2 with h | h <;> rw [h] <;> simp

theorem setBlockedLoop_no_hang (fuel : Nat) (c : Conn) (hf : c.blockedFifo.length < fuel) :
    (setBlockedLoop fuel c).2 ≠ some .hang := by
  induction fuel generalizing c with
  | zero => omega
  | succ fuel ih =>
    unfold setBlockedLoop
    split
    · split <;> simp
    · rename_i l rest hb
      apply ih
      show rest.length < fuel
      rw [hb] at hf; simpa using hf

/-- The link a `handle_channel_readable(n)` reads from. -/
def drainLid (c : Conn) (n : Nat) : Option Nat :=
  if n = 0 then some 0 else (lookupN n c.slots).map (·.lid)

/-- `drainFifo` never runs out of fuel when given one more than the queue length: every
    iteration pops one message. -/
theorem drainFifo_no_hang (fuel : Nat) (c : Conn) (n : Nat)
    (hf : ∀ lid, drainLid c n = some lid → (getLink c lid).fifo.length < fuel) (h0 : 0 < fuel) :
    (drainFifo fuel c n).2 ≠ some .hang := by
  induction fuel generalizing c with
  | zero => omega
  | succ fuel ih =>
    unfold drainFifo
    dsimp only
    split
    · simp
    · rename_i lid hlid
      have hlid' : drainLid c n = some lid := hlid
      split
      · rename_i m c1 hp
        obtain ⟨⟨rest, hfifo, hrest⟩, hsl, _⟩ := popFifo_spec hp
        have hlen : rest.length < fuel := by
          have := hf lid hlid'; rw [hfifo] at this; simpa using this
        split
        · rename_i c2 e heq
          have : e ≠ .hang := by
            have h2 := processChannelMessage_ne_hang c1 n m
            rw [heq] at h2
            intro he; subst he; exact h2 rfl
          simpa using this
        · rename_i c2 heq
          have hq := qle_processChannelMessage c1 n m
          rw [heq] at hq
          have hd2 : drainLid c2 n = some lid := by
            have := hq.lid n
            unfold drainLid at hlid' ⊢
            split
            · rename_i hn; simpa [hn] using hlid'
            · rename_i hn
              simp only [hn, if_false] at hlid'
              show (lookupN n c2.slots).map (·.lid) = some lid
              rw [this, hsl]; exact hlid'
          apply ih
          · intro lid' hl'
            rw [hd2] at hl'; cases hl'
            exact Nat.lt_of_le_of_lt (hrest ▸ hq.len lid) hlen
          · omega
      · split <;> simp

theorem nh_ite {α : Type} {p : Prop} [Decidable p] {a b : α × Option Err}
    (ha : p → a.2 ≠ some .hang) (hb : ¬ p → b.2 ≠ some .hang) :
    (if p then a else b).2 ≠ some .hang := by
  split
  · rename_i h; exact ha h
  · rename_i h; exact hb h

/-- `allocate_channel` blocks only on a full reply queue (a real blocking `send`); with the
    request/reply discipline of the client (at most one request or reply in flight) it never does,
    and one unit of fuel per queued request (plus one) suffices. -/
theorem allocateLoop_no_hang (fuel : Nat) (c : Conn) (hf : c.allocReq.length < fuel)
    (hq : c.allocReq.length + c.allocRep.length ≤ 1) : (allocateLoop fuel c).2 ≠ some .hang := by
  induction fuel generalizing c with
  | zero => omega
  | succ fuel ih =>
    unfold allocateLoop
    split
    · split <;> simp
    · rename_i req rest hreq
      rw [hreq] at hf hq
      simp only [List.length_cons] at hf hq
      have hlt : rest.length < fuel := by omega
      have hrep : c.allocRep.length = 0 := by omega
      have hsum : rest.length + c.allocRep.length ≤ 1 := by omega
      have hsum' : ∀ x : Except Err Nat, rest.length + (c.allocRep ++ [x]).length ≤ 1 := by
        intro x; simp only [List.length_append, List.length_cons, List.length_nil]; omega
      dsimp only
      cases req
      case' none =>
        dsimp only
        generalize Slots.insertNone c.alloc = p
      case' some id =>
        dsimp only
        generalize Slots.insertSome c.alloc id = p
      all_goals
        split
        · simp
        · exact nh_ite (fun _ => ih _ hlt hsum)
            (fun _ => nh_ite (fun h => by have h' : c.allocRep.length ≥ 1 := h; omega)
              (fun _ => ih _ hlt (hsum' _)))
        · exact nh_ite (fun _ => ih _ hlt hsum)
            (fun _ => nh_ite (fun h => by have h' : c.allocRep.length ≥ 1 := h; omega)
              (fun _ => ih _ hlt (hsum' _)))

/-- … which is the fuel `handle_steady_event` supplies. -/
theorem handleEvent_chan_no_hang (c : Conn) (n : Nat) :
    (handleEvent c (.chan n)).2.2 ≠ some .hang := by
  unfold handleEvent
  split
  · rename_i he; cases he
  · rename_i he; cases he
  · rename_i he; cases he
  · rename_i he; cases he
  · split
    · apply drainFifo_no_hang
      · intro lid hl; simp [drainLid] at hl; subst hl; omega
      · omega
    · split <;> simp
  · rename_i n' hn' he
    cases he
    have hn : n ≠ 0 := fun e => hn' (e ▸ rfl)
    dsimp only
    apply drainFifo_no_hang
    · intro lid hl
      simp only [drainLid, hn, if_false] at hl
      cases hs : lookupN n c.slots with
      | none => rw [hs] at hl; cases hl
      | some s =>
        rw [hs] at hl; simp at hl; subst hl; simp
    · cases lookupN n c.slots <;> simp

theorem handleEvent_setBlocked_no_hang (c : Conn) :
    (handleEvent c .setBlocked).2.2 ≠ some .hang := by
  unfold handleEvent
  split
  all_goals first | (rename_i he; cases he; done) | skip
  split
  · exact setBlockedLoop_no_hang _ _ (by omega)
  · split <;> simp

/-! ## 7. The I/O thread outside `Steady` (non-legacy code) -/

/-- `c'` is `c` up to what a closing connection may still do: the transport takes a prefix of the
    output buffer, queues and scripts move; state, seal, slot table, liveness stay. -/
structure Still (c c' : Conn) : Prop where
  st : c'.st = c.st
  sealed : c'.sealed = c.sealed
  legacy : c'.legacy = c.legacy
  slots : c'.slots = c.slots
  dead : c'.dead = c.dead
  table : c'.table = c.table
  out : ∃ k, c'.out = c.out.drop k

theorem Still.refl (c : Conn) : Still c c := ⟨rfl, rfl, rfl, rfl, rfl, rfl, ⟨0, rfl⟩⟩

theorem Still.trans {a b c : Conn} (h1 : Still a b) (h2 : Still b c) : Still a c := by
  obtain ⟨k1, e1⟩ := h1.out
  obtain ⟨k2, e2⟩ := h2.out
  exact ⟨h2.st.trans h1.st, h2.sealed.trans h1.sealed, h2.legacy.trans h1.legacy,
    h2.slots.trans h1.slots, h2.dead.trans h1.dead, h2.table.trans h1.table,
    ⟨k1 + k2, by rw [e2, e1, List.drop_drop]⟩⟩

/-- `c'` is `c` up to queues, links and scripts. -/
structure Same (c c' : Conn) : Prop where
  st : c'.st = c.st
  sealed : c'.sealed = c.sealed
  legacy : c'.legacy = c.legacy
  slots : c'.slots = c.slots
  dead : c'.dead = c.dead
  table : c'.table = c.table
  out : c'.out = c.out

theorem Same.refl (c : Conn) : Same c c := ⟨rfl, rfl, rfl, rfl, rfl, rfl, rfl⟩

theorem Same.trans {a b c : Conn} (h1 : Same a b) (h2 : Same b c) : Same a c :=
  ⟨h2.st.trans h1.st, h2.sealed.trans h1.sealed, h2.legacy.trans h1.legacy,
    h2.slots.trans h1.slots, h2.dead.trans h1.dead, h2.table.trans h1.table, h2.out.trans h1.out⟩

theorem Same.still {c c' : Conn} (h : Same c c') : Still c c' :=
  ⟨h.st, h.sealed, h.legacy, h.slots, h.dead, h.table, ⟨0, h.out⟩⟩

theorem same_setLink (c : Conn) (lid : Nat) (l : Link) : Same c (setLink c lid l) :=
  ⟨rfl, rfl, rfl, rfl, rfl, rfl, rfl⟩

theorem same_dropConsTx (c : Conn) (qid : Nat) : Same c (dropConsTx c qid) := by
  unfold dropConsTx; split
  · exact ⟨rfl, rfl, rfl, rfl, rfl, rfl, rfl⟩
  · exact Same.refl c

theorem same_dropSlotEnds (c : Conn) (s : Slot) : Same c (dropSlotEnds c s) := by
  unfold dropSlotEnds
  dsimp only
  apply foldl_invariant (Same c)
  · exact fun a x ha => ha.trans (same_dropConsTx a _)
  · exact same_setLink c _ _

theorem still_writeToStream (c : Conn) : Still c (writeToStream c).1 := by
  obtain ⟨h1, h2, h3, h4, h5, h6, _, _, h9, _⟩ := writeToStream_spec c
  exact ⟨h1, h2, h3, h4, h5, h6, h9⟩

theorem same_deregisterAll (c : Conn) : Same c (deregisterAll c) := by
  unfold deregisterAll
  dsimp only
  have h1 := foldl_invariant (Same c)
    (fun acc (x : Nat × Slot) =>
      setLink acc x.2.lid { (getLink acc x.2.lid) with src := (getLink acc x.2.lid).src.deregister })
    (fun a x ha => ha.trans (same_setLink a _ _)) c.slots c (Same.refl c)
  exact ⟨h1.st, h1.sealed, h1.legacy, h1.slots, h1.dead, h1.table, h1.out⟩

theorem same_reregisterAll (c : Conn) : Same c (reregisterAll c) := by
  unfold reregisterAll
  dsimp only
  have h1 := foldl_invariant (Same c)
    (fun acc (x : Nat × Slot) =>
      setLink acc x.2.lid { (getLink acc x.2.lid) with src := (getLink acc x.2.lid).src.reregister })
    (fun a x ha => ha.trans (same_setLink a _ _)) c.slots c (Same.refl c)
  exact ⟨h1.st, h1.sealed, h1.legacy, h1.slots, h1.dead, h1.table, h1.out⟩

theorem same_pollAll (c : Conn) : Same c (pollAll c).1 := by
  unfold pollAll
  dsimp only
  have h1 := foldl_invariant (fun (a : Conn × List PTok) => Same c a.1)
    (fun (acc : Conn × List PTok) (x : Nat × Nat) =>
      (setLink acc.1 x.2 { (getLink acc.1 x.2) with src := ((getLink acc.1 x.2).src.pollOne).1 },
        if ((getLink acc.1 x.2).src.pollOne).2 then acc.2 ++ [PTok.chan x.1] else acc.2))
    (fun a x ha => ha.trans (same_setLink a.1 _ _))
    ((if (getLink c 0).ioAlive then [(0, 0)] else []) ++ c.slots.map (fun (x : Nat × Slot) => (x.1, x.2.lid)))
    (c, []) (Same.refl c)
  exact ⟨h1.st, h1.sealed, h1.legacy, h1.slots, h1.dead, h1.table, h1.out⟩

/-- `kill` keeps state, seal and output buffer; it empties the slot table. -/
theorem kill_spec (c : Conn) :
    (kill c).st = c.st ∧ (kill c).sealed = c.sealed ∧ (kill c).legacy = c.legacy ∧
    (kill c).out = c.out ∧ (kill c).slots = [] ∧ (kill c).dead = true := by
  unfold kill
  dsimp only
  have h1 := foldl_invariant (Same c)
    (fun acc (x : Nat × Slot) => dropSlotEnds acc x.2)
    (fun a x ha => ha.trans (same_dropSlotEnds a _)) c.slots c (Same.refl c)
  exact ⟨h1.st, h1.sealed, h1.legacy, h1.out, rfl, rfl⟩

/-- Outside `Steady` the repaired code ignores every inbound frame. -/
theorem process_nonsteady {c : Conn} (hl : c.legacy = false) (hs : c.st ≠ .steady) (f : Frame)
    (dc df : Bytes) : process c f dc df = (c, none) := by
  unfold process
  split
  · rfl
  · simp [hl]
  · simp [hl]
  · rename_i h; exact absurd h hs

/-- The frames `read_from` hands to the handler are exactly those `parse` accepts. -/
theorem _root_.AmqModel.FrameBuffer.run_frames_parse {parse : Bytes → Bool} {failAt : Option Nat}
    {buf : Bytes} {script : List FrameBuffer.ReadEv} {seen nread : Nat} {acc : List Bytes}
    {out : FrameBuffer.RdOut}
    (h : FrameBuffer.Run parse failAt buf script seen nread acc out)
    (hacc : ∀ fr ∈ acc, parse fr = true) : ∀ fr ∈ out.frames, parse fr = true := by
  induction h with
  | bad hc hp => intro fr hfr; exact hacc fr (by simpa using hfr)
  | herr hc hp hf =>
    intro fr hfr
    rcases List.mem_reverse.mp hfr with hfr
    rcases List.mem_cons.mp hfr with e | hfr
    · rw [e]; exact hp
    · exact hacc fr hfr
  | frame hc hp hf _ ih =>
    apply ih
    intro fr hfr
    rcases List.mem_cons.mp hfr with e | hfr
    · rw [e]; exact hp
    · exact hacc fr hfr
  | nil hc => intro fr hfr; exact hacc fr (by simpa using hfr)
  | wb hc => intro fr hfr; exact hacc fr (by simpa using hfr)
  | eof hc => intro fr hfr; exact hacc fr (by simpa using hfr)
  | ioerr hc => intro fr hfr; exact hacc fr (by simpa using hfr)
  | chunkNil hc => intro fr hfr; exact hacc fr (by simpa using hfr)
  | chunk hc hbs _ ih => exact ih hacc

theorem _root_.AmqModel.FrameBuffer.readFrom_frames_parse (parse : Bytes → Bool)
    (failAt : Option Nat) (buf : Bytes) (script : List FrameBuffer.ReadEv) (seen : Nat) :
    ∀ fr ∈ (FrameBuffer.readFrom parse failAt buf script seen).frames, parse fr = true :=
  FrameBuffer.run_frames_parse (FrameBuffer.run_readFrom parse failAt buf script seen)
    (fun _ h => by cases h)

/-- The errors that come from the transport (or from bytes that are not a frame). -/
def Err.isTransport : Err → Prop
  | .ioErrorWritingSocket | .ioErrorReadingSocket | .unexpectedSocketClose | .malformedFrame => True
  | _ => False

theorem Err.isTransport_iff (e : Err) : e.isTransport ↔
    (e = .ioErrorWritingSocket ∨ e = .ioErrorReadingSocket ∨ e = .unexpectedSocketClose ∨
      e = .malformedFrame) := by
  cases e <;> simp [Err.isTransport]

theorem processBytes_nonsteady {c : Conn} (hl : c.legacy = false) (hs : c.st ≠ .steady)
    (bytes : Bytes) :
    (processBytes c bytes).1 = c ∧
    ((processBytes c bytes).2 = none ∨ (processBytes c bytes).2 = some .malformedFrame ∨
      ((processBytes c bytes).2 = some .modelBadInput ∧ declOf c bytes = none)) := by
  unfold processBytes
  split
  · split
    · rw [process_nonsteady hl hs]; exact ⟨rfl, Or.inl rfl⟩
    · exact ⟨rfl, Or.inr (Or.inl rfl)⟩
  · rename_i h; exact ⟨rfl, Or.inr (Or.inr ⟨rfl, h⟩)⟩

theorem readFromStream_go_nonsteady {c : Conn} (hl : c.legacy = false) (hs : c.st ≠ .steady)
    (l : List Bytes)
    (hp : ∀ fr ∈ l, (match declOf c fr with | some d => d.frame.isSome | none => false) = true) :
    readFromStream.go c l = (c, none) := by
  induction l with
  | nil => rfl
  | cons fr rest ih =>
    have h1 := hp fr List.mem_cons_self
    have hpb : processBytes c fr = (c, none) := by
      unfold processBytes
      split at h1
      · rename_i d hd
        rw [hd]; dsimp only
        cases hf : d.frame with
        | none => rw [hf] at h1; cases h1
        | some f => dsimp only; exact process_nonsteady hl hs _ _ _
      · cases h1
    unfold readFromStream.go
    rw [hpb]
    exact ih (fun fr' h' => hp fr' (List.mem_cons_of_mem _ h'))

/-- Outside `Steady`, `read_from_stream` only moves the frame buffer and the transport script;
    the only errors are transport errors. -/
theorem readFromStream_nonsteady {c : Conn} (hl : c.legacy = false) (hs : c.st ≠ .steady) :
    Same c (readFromStream c).1 ∧
    ((readFromStream c).2 = none ∨ ∃ e, (readFromStream c).2 = some e ∧ e.isTransport) := by
  unfold readFromStream
  dsimp only
  have hne := (FrameBuffer.readFrom_spec
    (fun bs => match declOf c bs with | some d => d.frame.isSome | none => false)
    c.fb c.reads 0).choose_spec.2.2.2
  split
  · rename_i heq
    rw [@readFromStream_go_nonsteady] at heq
    · cases heq
    · exact hl
    · exact hs
    · exact FrameBuffer.readFrom_frames_parse _ none c.fb c.reads 0
  · rename_i heq
    rw [@readFromStream_go_nonsteady] at heq
    · cases heq
      split
      · exact ⟨⟨rfl, rfl, rfl, rfl, rfl, rfl, rfl⟩, Or.inl rfl⟩
      · exact ⟨⟨rfl, rfl, rfl, rfl, rfl, rfl, rfl⟩, Or.inr ⟨_, rfl, trivial⟩⟩
      · exact ⟨⟨rfl, rfl, rfl, rfl, rfl, rfl, rfl⟩, Or.inr ⟨_, rfl, trivial⟩⟩
      · exact ⟨⟨rfl, rfl, rfl, rfl, rfl, rfl, rfl⟩, Or.inr ⟨_, rfl, trivial⟩⟩
      · rename_i h; exact absurd h hne
    · exact hl
    · exact hs
    · exact FrameBuffer.readFrom_frames_parse _ none c.fb c.reads 0

/-! ### `ioStep` unfolded -/

/-- The tail of every `ioStep` that runs a handler: an error result ends the loop. -/
def ioFin (c1 : Conn) (wrote : Option Bytes) (e : Option Err) : Conn × IoOut :=
  match e with
  | none => (c1, { wrote := wrote, nondet := c1.nondet })
  | some e => (kill c1, { wrote := wrote, err := some e, nondet := c1.nondet })

@[simp] theorem ioFin_err (c1 : Conn) (w : Option Bytes) (e : Option Err) : (ioFin c1 w e).2.err = e := by
  cases e <;> rfl

@[simp] theorem ioFin_done (c1 : Conn) (w : Option Bytes) (e : Option Err) : (ioFin c1 w e).2.done = none := by
  cases e <;> rfl

@[simp] theorem ioFin_fst_none (c1 : Conn) (w : Option Bytes) : (ioFin c1 w none).1 = c1 := rfl

@[simp] theorem ioFin_fst_some (c1 : Conn) (w : Option Bytes) (e : Err) : (ioFin c1 w (some e)).1 = kill c1 := rfl

theorem ioStep_dead {c : Conn} (hd : c.dead = true) (o : IoOp) :
    (ioStep c o).1 = c ∧ (ioStep c o).2.err = none ∧ (ioStep c o).2.done = none := by
  unfold ioStep
  rw [if_pos hd]
  split <;> exact ⟨rfl, rfl, rfl⟩

theorem ioStep_frame {c : Conn} (hd : c.dead = false) (bytes : Bytes) :
    ioStep c (.frame bytes) = ioFin (processBytes c bytes).1 none (processBytes c bytes).2 := by
  unfold ioStep ioFin
  simp only [hd, Bool.false_eq_true, if_false]
  cases (processBytes c bytes).2 <;> rfl

theorem ioStep_event {c : Conn} (hd : c.dead = false) (t : Token) :
    ioStep c (.event t) = ioFin (handleEvent c t).1
      (match t with
        | .stream _ true => some (handleEvent c t).2.1
        | _ => none) (handleEvent c t).2.2 := by
  unfold ioStep ioFin
  simp only [hd, Bool.false_eq_true, if_false]
  cases (handleEvent c t).2.2 <;> rfl

theorem ioStep_write {c : Conn} (hd : c.dead = false) :
    ioStep c .write = ioFin (writeToStream c).1 (some (writeToStream c).2.1) (writeToStream c).2.2 := by
  unfold ioStep ioFin
  simp only [hd, Bool.false_eq_true, if_false]
  cases (writeToStream c).2.2 <;> rfl

theorem ioStep_done {c : Conn} (hd : c.dead = false) :
    ioStep c .done = match isDone c with
      | some b => (c, { done := some (some b) })
      | none => (kill c, { done := some none }) := by
  unfold ioStep
  simp only [hd, Bool.false_eq_true, if_false]
  cases isDone c <;> rfl

theorem ioStep_dereg {c : Conn} (hd : c.dead = false) : ioStep c .dereg = (deregisterAll c, {}) := by
  unfold ioStep
  simp only [hd, Bool.false_eq_true, if_false]

theorem ioStep_rereg {c : Conn} (hd : c.dead = false) : ioStep c .rereg = (reregisterAll c, {}) := by
  unfold ioStep
  simp only [hd, Bool.false_eq_true, if_false]

theorem ioStep_poll {c : Conn} (hd : c.dead = false) :
    ioStep c .poll = ((pollAll c).1, { ready := (pollAll c).2 }) := by
  unfold ioStep
  simp only [hd, Bool.false_eq_true, if_false]

theorem ioStep_kill {c : Conn} (hd : c.dead = false) : ioStep c .kill = (kill c, {}) := by
  unfold ioStep
  simp only [hd, Bool.false_eq_true, if_false]

/-! ### Stale events -/

theorem handleEvent_alloc_nonsteady {c : Conn} (hl : c.legacy = false) (hs : c.st ≠ .steady) :
    handleEvent c .alloc = (c, [], none) := by
  unfold handleEvent
  cases h : c.st <;> simp [hl] <;> exact absurd h hs

theorem handleEvent_setBlocked_nonsteady {c : Conn} (hl : c.legacy = false) (hs : c.st ≠ .steady) :
    handleEvent c .setBlocked = (c, [], none) := by
  unfold handleEvent
  cases h : c.st <;> simp [hl] <;> exact absurd h hs

theorem handleEvent_chan0_nonsteady {c : Conn} (hl : c.legacy = false) (hs : c.st ≠ .steady) :
    handleEvent c (.chan 0) = (c, [], none) := by
  unfold handleEvent
  cases h : c.st <;> simp [hl] <;> exact absurd h hs

theorem handleEvent_chan_noslot {c : Conn} {n : Nat} (hn : n ≠ 0) (h : lookupN n c.slots = none) :
    handleEvent c (.chan n) = (c, [], none) := by
  unfold handleEvent
  split
  all_goals first | (rename_i he; cases he; done) | skip
  · rename_i he; cases he; exact absurd rfl hn
  · rename_i n' _ he
    cases he
    simp [h, drainFifo, hn]

/-! ### Stream events outside `Steady` -/

theorem handleEvent_stream_nonsteady {c : Conn} (hl : c.legacy = false) (hs : c.st ≠ .steady)
    (r w : Bool) :
    Still c (handleEvent c (.stream r w)).1 ∧
    ((handleEvent c (.stream r w)).2.2 = none ∨
      ∃ e, (handleEvent c (.stream r w)).2.2 = some e ∧ e.isTransport) := by
  have hw := still_writeToStream c
  have hwe := (writeToStream_spec c).2.2.2.2.2.2.2.2.2
  have hl' : (writeToStream c).1.legacy = false := hw.legacy.trans hl
  have hs' : (writeToStream c).1.st ≠ .steady := by rw [hw.st]; exact hs
  have hr := readFromStream_nonsteady hl hs
  have hr' := readFromStream_nonsteady hl' hs'
  unfold handleEvent
  cases w <;> cases r <;> simp only [Bool.false_eq_true, ↓reduceIte]
  · exact ⟨Still.refl c, Or.inl trivial⟩
  · split
    · exact ⟨hr.1.still, Or.inl rfl⟩
    · exact ⟨hr.1.still, hr.2⟩
  · rcases hwe with h | h <;> rw [h]
    · exact ⟨hw, Or.inl rfl⟩
    · exact ⟨hw, Or.inr ⟨_, rfl, trivial⟩⟩
  · rcases hwe with h | h <;> rw [h]
    · dsimp only
      split
      · exact ⟨hw.trans hr'.1.still, Or.inl rfl⟩
      · exact ⟨hw.trans hr'.1.still, hr'.2⟩
    · exact ⟨hw, Or.inr ⟨_, rfl, trivial⟩⟩

/-- After the server's close (state `ServerClosing`) only what the socket itself does is forgiven:
    the end of the stream and a read error never become the result of a stream event (an error
    raised while frames are processed - `malformedFrame` - still does). -/
theorem handleEvent_stream_serverClosing {c : Conn} (hl : c.legacy = false)
    (hs : c.st.isServerClosing = true) (r w : Bool) :
    (handleEvent c (.stream r w)).2.2 ≠ some .unexpectedSocketClose ∧
    (handleEvent c (.stream r w)).2.2 ≠ some .ioErrorReadingSocket ∧
    (handleEvent c (.stream r w)).2.2 ≠ some .malformedFrame := by
  have hst : c.st ≠ .steady := by
    intro h; rw [h] at hs; exact absurd hs (by decide)
  have hw := still_writeToStream c
  have hwe := (writeToStream_spec c).2.2.2.2.2.2.2.2.2
  have hl' : (writeToStream c).1.legacy = false := hw.legacy.trans hl
  have hst' : (writeToStream c).1.st ≠ .steady := by rw [hw.st]; exact hst
  have hr := (readFromStream_nonsteady hl hst).1
  have hr' := (readFromStream_nonsteady hl' hst').1
  have e1 : (readFromStream c).1.legacy = false := hr.legacy.trans hl
  have e2 : (readFromStream c).1.st.isServerClosing = true := by rw [hr.st]; exact hs
  have e1' : (readFromStream (writeToStream c).1).1.legacy = false := hr'.legacy.trans hl'
  have e2' : (readFromStream (writeToStream c).1).1.st.isServerClosing = true := by
    rw [hr'.st, hw.st]; exact hs
  have key : ∀ (b : Bool) (c2 : Conn) (wr : Bytes) (e : Option Err),
      (if (b || (decide (e = some Err.unexpectedSocketClose) || decide (e = some Err.ioErrorReadingSocket) || decide (e = some Err.malformedFrame))) = true
        then (c2, wr, (none : Option Err)) else (c2, wr, e)).2.2 ≠ some .unexpectedSocketClose ∧
      (if (b || (decide (e = some Err.unexpectedSocketClose) || decide (e = some Err.ioErrorReadingSocket) || decide (e = some Err.malformedFrame))) = true
        then (c2, wr, (none : Option Err)) else (c2, wr, e)).2.2 ≠ some .ioErrorReadingSocket ∧
      (if (b || (decide (e = some Err.unexpectedSocketClose) || decide (e = some Err.ioErrorReadingSocket) || decide (e = some Err.malformedFrame))) = true
        then (c2, wr, (none : Option Err)) else (c2, wr, e)).2.2 ≠ some .malformedFrame := by
    intro b c2 wr e
    split
    · exact ⟨by simp, by simp, by simp⟩
    · rename_i h
      exact ⟨fun h2 => h (by simp [show e = _ from h2]), fun h2 => h (by simp [show e = _ from h2]),
        fun h2 => h (by simp [show e = _ from h2])⟩
  unfold handleEvent
  cases w <;> cases r <;> simp only [Bool.false_eq_true, ↓reduceIte]
  · exact ⟨by simp, by simp, by simp⟩
  · simp only [e1, e2, Bool.not_false, Bool.true_and]
    exact key _ _ _ _
  · rcases hwe with h | h <;> rw [h]
    · exact ⟨by simp, by simp, by simp⟩
    · exact ⟨by simp, by simp, by simp⟩
  · rcases hwe with h | h <;> rw [h]
    · dsimp only
      simp only [e1', e2', Bool.not_false, Bool.true_and]
      exact key _ _ _ _
    · exact ⟨by simp, by simp, by simp⟩

/-! ### Channel events with writes sealed -/

/-- What a sealed state keeps (`SealedEq c c'`: `c'` is sealed and agrees with `c` on state,
    output buffer, `legacy`, `dead`). -/
structure SealedEq (c c' : Conn) : Prop where
  st : c'.st = c.st
  sealed : c'.sealed = true
  legacy : c'.legacy = c.legacy
  out : c'.out = c.out
  dead : c'.dead = c.dead

theorem SealedEq.trans {a b c : Conn} (h1 : SealedEq a b) (h2 : SealedEq b c) : SealedEq a c :=
  ⟨h2.st.trans h1.st, h2.sealed, h2.legacy.trans h1.legacy, h2.out.trans h1.out,
    h2.dead.trans h1.dead⟩

theorem sealedEq_processPlainMessage {c : Conn} (hs : c.sealed = true) (n : Nat) (m : Msg) :
    SealedEq c (processPlainMessage c n m).1 := by
  unfold processPlainMessage
  split
  · rw [sealOut_pushOut_of_sealed hs]; exact ⟨rfl, hs, rfl, rfl, rfl⟩
  · rw [pushOut_of_sealed hs]; exact ⟨rfl, hs, rfl, rfl, rfl⟩
  · repeat' split
    all_goals exact ⟨rfl, hs, rfl, rfl, rfl⟩
  · repeat' split
    all_goals exact ⟨rfl, hs, rfl, rfl, rfl⟩

theorem sealedEq_popFifo {c c1 : Conn} {m : Msg} {lid : Nat} (hs : c.sealed = true)
    (hp : popFifo c lid = some (m, c1)) : SealedEq c c1 := by
  obtain ⟨_, _, hst, hse, hout, hleg, hdead⟩ := popFifo_spec hp
  exact ⟨hst, hse.trans hs, hleg, hout, hdead⟩

/-- With writes sealed, a queued message changes nothing but listener registrations in slots and
    (the close request) the channels' queues. -/
theorem processChannelMessage_sealed {c : Conn} (hs : c.sealed = true) (n : Nat) (m : Msg) :
    (processChannelMessage c n m).1.st = c.st ∧ (processChannelMessage c n m).1.sealed = true ∧
    (processChannelMessage c n m).1.legacy = c.legacy ∧ (processChannelMessage c n m).1.out = c.out ∧
    (processChannelMessage c n m).1.dead = c.dead := by
  have h : SealedEq c (processChannelMessage c n m).1 :=
    processChannelMessage_ind (P := SealedEq c)
      (fun _ n _ m _ h _ hp =>
        have h1 := h.trans (sealedEq_popFifo h.sealed hp)
        h1.trans (sealedEq_processPlainMessage h1.sealed n m))
      (fun _ h => h.trans (sealedEq_processPlainMessage h.sealed n m)) ⟨rfl, hs, rfl, rfl, rfl⟩
  exact ⟨h.st, h.sealed, h.legacy, h.out, h.dead⟩

/-- The state part needs nothing but the seal; the classification of the errors needs that no slot
    is filed under key `0` (fix D17: a queued close request visits every slot's queue). -/
theorem drainFifo_sealed {c : Conn} (hs : c.sealed = true) {n : Nat} (hn : n ≠ 0)
    (fuel : Nat) :
    (drainFifo fuel c n).1.st = c.st ∧ (drainFifo fuel c n).1.sealed = true ∧
    (drainFifo fuel c n).1.legacy = c.legacy ∧ (drainFifo fuel c n).1.out = c.out ∧
    (drainFifo fuel c n).1.dead = c.dead ∧
    (KeysOk c → (drainFifo fuel c n).2 = none ∨ (drainFifo fuel c n).2 = some .hang ∨
      (drainFifo fuel c n).2 = some .eventLoopClientDropped) := by
  induction fuel generalizing c with
  | zero => exact ⟨rfl, hs, rfl, rfl, rfl, fun _ => Or.inr (Or.inl rfl)⟩
  | succ fuel ih =>
    unfold drainFifo
    dsimp only
    split
    · exact ⟨rfl, hs, rfl, rfl, rfl, fun _ => Or.inl rfl⟩
    · rename_i lid hlid
      split
      · rename_i m c1 hp
        obtain ⟨_, hsl, hst, hse, hout, hleg, hdead⟩ := popFifo_spec hp
        have hs1 : c1.sealed = true := hse.trans hs
        have hk1 : KeysOk c → KeysOk c1 := fun hk p hp' => hk p (hsl ▸ hp')
        obtain ⟨p1, p2, p3, p4, p5⟩ := processChannelMessage_sealed hs1 n m
        have hok : KeysOk c → (processChannelMessage c1 n m).2 = none := by
          intro hk
          simp only [hn, if_false] at hlid
          cases hk' : lookupN n c.slots with
          | none => rw [hk'] at hlid; cases hlid
          | some s => exact processChannelMessage_slot (hk1 hk) hn (hsl ▸ hk') m
        have hk2 : KeysOk c → KeysOk (processChannelMessage c1 n m).1 :=
          fun hk => keysOk_processChannelMessage (hk1 hk) n m
        split
        · rename_i heq
          rw [heq] at p1 p2 p3 p4 p5 hok
          exact ⟨p1.trans hst, p2, p3.trans hleg, p4.trans hout, p5.trans hdead,
            fun hk => nomatch hok hk⟩
        · rename_i c2 heq
          rw [heq] at p1 p2 p3 p4 p5 hk2
          obtain ⟨q1, q2, q3, q4, q5, q6⟩ := ih (c := c2) p2
          exact ⟨q1.trans (p1.trans hst), q2, q3.trans (p3.trans hleg), q4.trans (p4.trans hout),
            q5.trans (p5.trans hdead), fun hk => q6 (hk2 hk)⟩
      · split
        · exact ⟨rfl, hs, rfl, rfl, rfl, fun _ => Or.inl rfl⟩
        · exact ⟨rfl, hs, rfl, rfl, rfl, fun _ => Or.inr (Or.inr rfl)⟩

theorem handleEvent_chan_sealed {c : Conn} (hl : c.legacy = false) (hst : c.st ≠ .steady)
    (hs : c.sealed = true) (n : Nat) :
    (handleEvent c (.chan n)).1.st = c.st ∧ (handleEvent c (.chan n)).1.sealed = true ∧
    (handleEvent c (.chan n)).1.legacy = c.legacy ∧ (handleEvent c (.chan n)).1.out = c.out ∧
    (handleEvent c (.chan n)).1.dead = c.dead ∧
    (KeysOk c → (handleEvent c (.chan n)).2.2 = none ∨
      (handleEvent c (.chan n)).2.2 = some .eventLoopClientDropped) := by
  by_cases hn : n = 0
  · subst hn
    rw [handleEvent_chan0_nonsteady hl hst]
    exact ⟨rfl, hs, rfl, rfl, rfl, fun _ => Or.inl rfl⟩
  · have hnh := handleEvent_chan_no_hang c n
    unfold handleEvent at hnh ⊢
    split at hnh
    all_goals first | (rename_i he; cases he; done) | skip
    · rename_i he; cases he; exact absurd rfl hn
    · rename_i n' _ he
      cases he
      dsimp only at hnh ⊢
      obtain ⟨q1, q2, q3, q4, q5, q6⟩ := drainFifo_sealed hs hn
        (match lookupN n c.slots with
          | some s => (getLink c s.lid).fifo.length + 1
          | none => 1)
      refine ⟨q1, q2, q3, q4, q5, fun hk => ?_⟩
      rcases q6 hk with h | h | h
      · exact Or.inl h
      · exact absurd h hnh
      · exact Or.inr h

/-! ### Every I/O step outside `Steady` -/

theorem handleEvent_heartbeat (c : Conn) : handleEvent c .heartbeat = (c, [], none) := by
  unfold handleEvent; rfl

theorem isDone_of_sealed {c : Conn} (hs : c.sealed = true) : ∃ b, isDone c = some b := by
  unfold isDone
  split
  · exact ⟨_, rfl⟩
  · exact ⟨_, rfl⟩
  · rw [hs]; exact ⟨_, rfl⟩

/-- An event outside `Steady`, writes sealed: the state is kept, the output buffer only shrinks,
    and the only errors are transport errors or a client that went away. -/
theorem handleEvent_nonsteady {c : Conn} (hl : c.legacy = false) (hst : c.st ≠ .steady)
    (hs : c.sealed = true) (t : Token) :
    (handleEvent c t).1.st = c.st ∧ (handleEvent c t).1.sealed = true ∧
    (handleEvent c t).1.legacy = c.legacy ∧ (handleEvent c t).1.dead = c.dead ∧
    (∃ k, (handleEvent c t).1.out = c.out.drop k) ∧
    (KeysOk c → (handleEvent c t).2.2 = none ∨ (handleEvent c t).2.2 = some .eventLoopClientDropped ∨
      ∃ e, (handleEvent c t).2.2 = some e ∧ e.isTransport) := by
  cases t with
  | stream r w =>
    obtain ⟨h1, h2⟩ := handleEvent_stream_nonsteady hl hst r w
    refine ⟨h1.st, h1.sealed.trans hs, h1.legacy, h1.dead, h1.out, fun _ => ?_⟩
    rcases h2 with h | h
    · exact Or.inl h
    · exact Or.inr (Or.inr h)
  | heartbeat =>
    rw [handleEvent_heartbeat]; exact ⟨rfl, hs, rfl, rfl, ⟨0, rfl⟩, fun _ => Or.inl rfl⟩
  | setBlocked =>
    rw [handleEvent_setBlocked_nonsteady hl hst]
    exact ⟨rfl, hs, rfl, rfl, ⟨0, rfl⟩, fun _ => Or.inl rfl⟩
  | alloc =>
    rw [handleEvent_alloc_nonsteady hl hst]
    exact ⟨rfl, hs, rfl, rfl, ⟨0, rfl⟩, fun _ => Or.inl rfl⟩
  | chan n =>
    obtain ⟨h1, h2, h3, h4, h5, h6⟩ := handleEvent_chan_sealed hl hst hs n
    refine ⟨h1, h2, h3, h5, ⟨0, h4⟩, fun hk => ?_⟩
    rcases h6 hk with h | h
    · exact Or.inl h
    · exact Or.inr (Or.inl h)

/-- … and with no slots left every event keeps the (empty) slot table and fails only with a
    transport error. -/
theorem handleEvent_closed {c : Conn} (hl : c.legacy = false) (hst : c.st ≠ .steady)
    (hsl : c.slots = []) (t : Token) :
    Still c (handleEvent c t).1 ∧
    ((handleEvent c t).2.2 = none ∨ ∃ e, (handleEvent c t).2.2 = some e ∧ e.isTransport) := by
  cases t with
  | stream r w => exact handleEvent_stream_nonsteady hl hst r w
  | heartbeat => rw [handleEvent_heartbeat]; exact ⟨Still.refl c, Or.inl rfl⟩
  | setBlocked => rw [handleEvent_setBlocked_nonsteady hl hst]; exact ⟨Still.refl c, Or.inl rfl⟩
  | alloc => rw [handleEvent_alloc_nonsteady hl hst]; exact ⟨Still.refl c, Or.inl rfl⟩
  | chan n =>
    by_cases hn : n = 0
    · subst hn; rw [handleEvent_chan0_nonsteady hl hst]; exact ⟨Still.refl c, Or.inl rfl⟩
    · rw [handleEvent_chan_noslot hn (by rw [hsl]; rfl)]; exact ⟨Still.refl c, Or.inl rfl⟩

/-- After the connection left `Steady` with every slot drained and writes sealed (`ServerClosing`
    after the server's close; `ClientClosed`), every later I/O step keeps that state with the
    output buffer only shrinking, or ends the loop with a transport error — or with
    `modelBadInput` when the harness feeds bytes it never declared (`IoOp.frame` only). -/
theorem ioStep_closed {c : Conn} (hl : c.legacy = false) (hd : c.dead = false)
    (hst : c.st ≠ .steady) (hs : c.sealed = true) (hsl : c.slots = []) (o : IoOp) :
    ((ioStep c o).2.err = none →
      (o ≠ .kill → (ioStep c o).1.dead = false) ∧
      ((ioStep c o).1.st = c.st ∧ (ioStep c o).1.sealed = true ∧ (ioStep c o).1.slots = []) ∧
      ∃ k, (ioStep c o).1.out = c.out.drop k) ∧
    (∀ e, (ioStep c o).2.err = some e →
      e.isTransport ∨ (e = .modelBadInput ∧ ∃ bytes, o = .frame bytes ∧ declOf c bytes = none)) := by
  have fin : ∀ (c1 : Conn) (w : Option Bytes) (e : Option Err), Still c c1 →
      ((ioFin c1 w e).2.err = none →
        (ioFin c1 w e).1.dead = false ∧
        ((ioFin c1 w e).1.st = c.st ∧ (ioFin c1 w e).1.sealed = true ∧ (ioFin c1 w e).1.slots = []) ∧
        ∃ k, (ioFin c1 w e).1.out = c.out.drop k) := by
    intro c1 w e h he
    rw [ioFin_err] at he; subst he
    exact ⟨h.dead.trans hd, ⟨h.st, h.sealed.trans hs, h.slots.trans hsl⟩, h.out⟩
  have ofSame : ∀ c1 : Conn, Same c c1 →
      c1.dead = false ∧ (c1.st = c.st ∧ c1.sealed = true ∧ c1.slots = []) ∧ ∃ k, c1.out = c.out.drop k :=
    fun c1 h => ⟨h.dead.trans hd, ⟨h.st, h.sealed.trans hs, h.slots.trans hsl⟩, ⟨0, h.out⟩⟩
  cases o with
  | frame bytes =>
    rw [ioStep_frame hd]
    obtain ⟨h1, h2⟩ := processBytes_nonsteady hl hst bytes
    refine ⟨fun he => ?_, fun e he => ?_⟩
    · obtain ⟨a, b, c'⟩ := fin _ none _ (by rw [h1]; exact Still.refl c) he
      exact ⟨fun _ => a, b, c'⟩
    · rw [ioFin_err] at he
      rcases h2 with h | h | ⟨h, hdecl⟩
      · rw [h] at he; cases he
      · rw [h] at he; cases he; exact Or.inl trivial
      · rw [h] at he; cases he; exact Or.inr ⟨rfl, bytes, rfl, hdecl⟩
  | event t =>
    rw [ioStep_event hd]
    obtain ⟨h1, h2⟩ := handleEvent_closed hl hst hsl t
    refine ⟨fun he => ?_, fun e he => ?_⟩
    · obtain ⟨a, b, c'⟩ := fin _ _ _ h1 he
      exact ⟨fun _ => a, b, c'⟩
    · rw [ioFin_err] at he
      rcases h2 with h | ⟨e', h, ht⟩
      · rw [h] at he; cases he
      · rw [h] at he; cases he; exact Or.inl ht
  | write =>
    rw [ioStep_write hd]
    refine ⟨fun he => ?_, fun e he => ?_⟩
    · obtain ⟨a, b, c'⟩ := fin _ _ _ (still_writeToStream c) he
      exact ⟨fun _ => a, b, c'⟩
    · rw [ioFin_err] at he
      rcases (writeToStream_spec c).2.2.2.2.2.2.2.2.2 with h | h
      · rw [h] at he; cases he
      · rw [h] at he; cases he; exact Or.inl trivial
  | done =>
    rw [ioStep_done hd]
    obtain ⟨b, hb⟩ := isDone_of_sealed hs
    rw [hb]
    exact ⟨fun _ => ⟨fun _ => hd, ⟨rfl, hs, hsl⟩, ⟨0, rfl⟩⟩, fun e he => by cases he⟩
  | dereg =>
    rw [ioStep_dereg hd]
    obtain ⟨a, b, c'⟩ := ofSame _ (same_deregisterAll c)
    exact ⟨fun _ => ⟨fun _ => a, b, c'⟩, fun e he => by cases he⟩
  | rereg =>
    rw [ioStep_rereg hd]
    obtain ⟨a, b, c'⟩ := ofSame _ (same_reregisterAll c)
    exact ⟨fun _ => ⟨fun _ => a, b, c'⟩, fun e he => by cases he⟩
  | poll =>
    rw [ioStep_poll hd]
    obtain ⟨a, b, c'⟩ := ofSame _ (same_pollAll c)
    exact ⟨fun _ => ⟨fun _ => a, b, c'⟩, fun e he => by cases he⟩
  | kill =>
    rw [ioStep_kill hd]
    obtain ⟨k1, k2, _, k4, k5, _⟩ := kill_spec c
    exact ⟨fun _ => ⟨fun h => absurd rfl h, ⟨k1, k2.trans hs, k5⟩, ⟨0, k4⟩⟩, fun e he => by cases he⟩

/-- With writes sealed outside `Steady` (in particular in `ClientException`, where slots still
    exist and their FIFOs are still drained), every I/O step keeps the state and the seal, the
    output buffer only shrinks, and — when no slot is filed under key `0` (fix D17: a queued close
    request visits every slot's queue under that slot's key) — the loop can only end with a
    transport error, with a client that went away, or with `modelBadInput` for undeclared bytes. -/
theorem ioStep_sealed {c : Conn} (hl : c.legacy = false) (hd : c.dead = false)
    (hst : c.st ≠ .steady) (hs : c.sealed = true) (o : IoOp) :
    ((ioStep c o).2.err = none →
      (ioStep c o).1.st = c.st ∧ (ioStep c o).1.sealed = true ∧
      ∃ k, (ioStep c o).1.out = c.out.drop k) ∧
    (KeysOk c → ∀ e, (ioStep c o).2.err = some e →
      e.isTransport ∨ e = .eventLoopClientDropped ∨ e = .modelBadInput) := by
  have ofSame : ∀ c1 : Conn, Same c c1 →
      c1.st = c.st ∧ c1.sealed = true ∧ ∃ k, c1.out = c.out.drop k :=
    fun c1 h => ⟨h.st, h.sealed.trans hs, ⟨0, h.out⟩⟩
  cases o with
  | frame bytes =>
    rw [ioStep_frame hd]
    obtain ⟨h1, h2⟩ := processBytes_nonsteady hl hst bytes
    refine ⟨fun he => ?_, fun hk e he => ?_⟩
    · rw [ioFin_err] at he; rw [he, ioFin_fst_none, h1]; exact ⟨rfl, hs, ⟨0, rfl⟩⟩
    · rw [ioFin_err] at he
      rcases h2 with h | h | ⟨h, _⟩
      · rw [h] at he; cases he
      · rw [h] at he; cases he; exact Or.inl trivial
      · rw [h] at he; cases he; exact Or.inr (Or.inr rfl)
  | event t =>
    rw [ioStep_event hd]
    obtain ⟨h1, h2, _, _, h5, h6⟩ := handleEvent_nonsteady hl hst hs t
    refine ⟨fun he => ?_, fun hk e he => ?_⟩
    · rw [ioFin_err] at he; rw [he, ioFin_fst_none]; exact ⟨h1, h2, h5⟩
    · rw [ioFin_err] at he
      rcases h6 hk with h | h | ⟨e', h, ht⟩
      · rw [h] at he; cases he
      · rw [h] at he; cases he; exact Or.inr (Or.inl rfl)
      · rw [h] at he; cases he; exact Or.inl ht
  | write =>
    rw [ioStep_write hd]
    have h := still_writeToStream c
    refine ⟨fun he => ?_, fun hk e he => ?_⟩
    · rw [ioFin_err] at he; rw [he, ioFin_fst_none]; exact ⟨h.st, h.sealed.trans hs, h.out⟩
    · rw [ioFin_err] at he
      rcases (writeToStream_spec c).2.2.2.2.2.2.2.2.2 with h | h
      · rw [h] at he; cases he
      · rw [h] at he; cases he; exact Or.inl trivial
  | done =>
    rw [ioStep_done hd]
    obtain ⟨b, hb⟩ := isDone_of_sealed hs
    rw [hb]
    exact ⟨fun _ => ⟨rfl, hs, ⟨0, rfl⟩⟩, fun _ e he => by cases he⟩
  | dereg =>
    rw [ioStep_dereg hd]
    exact ⟨fun _ => ofSame _ (same_deregisterAll c), fun _ e he => by cases he⟩
  | rereg =>
    rw [ioStep_rereg hd]
    exact ⟨fun _ => ofSame _ (same_reregisterAll c), fun _ e he => by cases he⟩
  | poll =>
    rw [ioStep_poll hd]
    exact ⟨fun _ => ofSame _ (same_pollAll c), fun _ e he => by cases he⟩
  | kill =>
    rw [ioStep_kill hd]
    obtain ⟨k1, k2, _, k4, _, _⟩ := kill_spec c
    exact ⟨fun _ => ⟨k1, k2.trans hs, ⟨0, k4⟩⟩, fun _ e he => by cases he⟩

/-! ### Never `.panic`, at the level of `ioStep` -/

theorem ioStep_event_no_panic {c : Conn} (h : Inv c) (t : Token) :
    (ioStep c (.event t)).2.err ≠ some .panic := by
  cases hd : c.dead with
  | true => rw [(ioStep_dead hd _).2.1]; simp
  | false => rw [ioStep_event hd, ioFin_err]; exact np_handleEvent h t

theorem ioStep_done_no_assert {c : Conn} (h : Inv c) : (ioStep c .done).2.done ≠ some none := by
  cases hd : c.dead with
  | true => rw [(ioStep_dead hd _).2.2]; simp
  | false =>
    rw [ioStep_done hd]
    cases hi : isDone c with
    | none => exact absurd hi (isDone_isSome h)
    | some b => simp

/-! ### The server's `Connection.Close` -/

theorem same_sendReply (c : Conn) (lid : Nat) (r : Reply) : Same c (sendReply c lid r).1 := by
  unfold sendReply
  dsimp only
  repeat' split
  all_goals first | exact Same.refl c | exact same_setLink c _ _

theorem same_sendCons (c : Conn) (qid : Nat) (m : CMsg) : Same c (sendCons c qid m).1 := by
  unfold sendCons
  repeat' split
  all_goals first | exact Same.refl c | exact ⟨rfl, rfl, rfl, rfl, rfl, rfl, rfl⟩

theorem same_notifyConsumers (m : CMsg) (c : Conn) (l : List (Bytes × Nat)) :
    Same c (notifyConsumers m c l).1 := by
  induction l generalizing c with
  | nil => exact Same.refl c
  | cons x r ih =>
    obtain ⟨t, qid⟩ := x
    unfold notifyConsumers
    have h1 := same_sendCons c qid m
    split
    · rename_i heq; rw [heq] at h1; exact h1
    · rename_i heq; rw [heq] at h1
      exact h1.trans ((same_dropConsTx _ qid).trans (ih _))

theorem same_with_nondet (c : Conn) (b : Bool) : Same c { c with nondet := b } :=
  ⟨rfl, rfl, rfl, rfl, rfl, rfl, rfl⟩

theorem same_foldl_dropSlotEnds (c : Conn) (l : List Slot) : Same c (l.foldl dropSlotEnds c) :=
  foldl_invariant (Same c) _ (fun a x ha => ha.trans (same_dropSlotEnds a x)) l c (Same.refl c)

theorem same_drainSlots_go (r : Reply) (m : CMsg) (all : List (Nat × Slot)) (c : Conn)
    (l : List (Nat × Slot)) : Same c (drainSlots.go r m all c l).1 := by
  induction l generalizing c with
  | nil => exact Same.refl c
  | cons x rest ih =>
    obtain ⟨k, s⟩ := x
    unfold drainSlots.go
    dsimp only
    have h1 := same_notifyConsumers m c s.consumers
    split
    · rename_i heq; rw [heq] at h1
      exact h1.trans ((same_foldl_dropSlotEnds _ _).trans (same_with_nondet _ _))
    · rename_i c1 heq; rw [heq] at h1
      have h2 := same_sendReply c1 s.lid r
      split
      · rename_i heq2; rw [heq2] at h2
        exact h1.trans (h2.trans ((same_foldl_dropSlotEnds _ _).trans (same_with_nondet _ _)))
      · rename_i heq2; rw [heq2] at h2
        exact h1.trans (h2.trans ((same_dropSlotEnds _ s).trans (ih _)))

/-- `drainSlots` empties the slot table and keeps state, seal and output buffer. -/
theorem drainSlots_spec (c : Conn) (r : Reply) (m : CMsg) :
    (drainSlots c r m).1.st = c.st ∧ (drainSlots c r m).1.sealed = c.sealed ∧
    (drainSlots c r m).1.out = c.out ∧ (drainSlots c r m).1.slots = [] ∧
    (drainSlots c r m).1.legacy = c.legacy ∧ (drainSlots c r m).1.dead = c.dead := by
  unfold drainSlots
  have h := same_drainSlots_go r m c.slots
    { c with slots := [], alloc := (Slots.drain c.alloc).1 } c.slots
  exact ⟨h.st, h.sealed, h.out, h.slots, h.legacy, h.dead⟩

/-- Processing the server's `Connection.Close` in `Steady`: CloseOk is queued (unless writes were
    already sealed), writes are sealed, the state records code and text, every slot is drained. -/
theorem process_serverClose {c : Conn} (hs : c.st = .steady) (code : Nat) (text dc df : Bytes) :
    (process c (.method 0 10 50 [.nat code, .bytes text]) dc df).1.st = .serverClosing code text ∧
    (process c (.method 0 10 50 [.nat code, .bytes text]) dc df).1.sealed = true ∧
    (process c (.method 0 10 50 [.nat code, .bytes text]) dc df).1.out =
      (if c.sealed then c.out else c.out ++ connectionCloseOk) ∧
    (process c (.method 0 10 50 [.nat code, .bytes text]) dc df).1.slots = [] := by
  unfold process
  split
  all_goals first | (rename_i h; rw [hs] at h; cases h; done) | skip
  dsimp only
  obtain ⟨h1, h2, h3, h4, _, _⟩ := drainSlots_spec
    { (setLink { (sealOut (pushOut c connectionCloseOk)) with st := .serverClosing code text } 0
        { (getLink { (sealOut (pushOut c connectionCloseOk)) with st := .serverClosing code text } 0) with
          ioAlive := false, fifo := [] }) with
      blockedL := none, allocReq := [], blockedFifo := [] }
    (.err (.serverClosedConnection code text)) (.serverClosedConnection code text)
  exact ⟨h1, h2, h3.trans (pushOut_out c connectionCloseOk), h4⟩

/-! ### Requests after the close -/

/-- A send on a handle whose I/O-thread end is gone reports `Disconnected` and changes nothing. -/
theorem clientSend_disconnected {c : Conn} {label : Label} {lid : Nat}
    (hh : lookupS label c.handles = some lid) (hd : (getLink c lid).ioAlive = false) (m : Msg) :
    (clientSend c label m).2 = .disconnected ∧ (clientSend c label m).1 = c := by
  unfold clientSend
  rw [hh]
  simp [hd]

end AmqModel.Conn
