import AmqModel.Lemmas.Conn
/-!
# Helper lemmas for C13 (`AmqModel/Props/C13.lean`): listener forwarding

Computation lemmas: what `process` does with a publisher confirmation, a blocked / unblocked notice,
a returned message; what the registration messages do; FIFO order of a handle's submissions.
-/
namespace AmqModel.Conn
open AmqModel.Collector

/-- In `Steady`, a method frame on a non-zero channel goes to `processChannelMethod`. -/
theorem process_chan {c : Conn} (hs : c.st = .steady) {n : Nat} (hn : n ≠ 0) (cls mid : Nat)
    (fields : List Field) (dc df : Bytes) :
    process c (.method n cls mid fields) dc df =
      ((if (processChannelMethod c n cls mid fields dc).1.st = .clientException
          then process.dropCh0 (processChannelMethod c n cls mid fields dc).1
          else (processChannelMethod c n cls mid fields dc).1),
        (processChannelMethod c n cls mid fields dc).2) := by
  obtain ⟨k, rfl⟩ : ∃ k, n = k + 1 := ⟨n - 1, by omega⟩
  unfold process
  rw [hs]
  rfl

theorem slotGet_of_lookup {c : Conn} {n : Nat} {s : Slot} (h : lookupN n c.slots = some s) :
    slotGet c n = .ok s := by
  unfold slotGet; rw [h]

theorem pcm_confirm (c : Conn) (n dtag : Nat) (ack mult : Bool) (dc : Bytes) {slot : Slot}
    (hslot : lookupN n c.slots = some slot) :
    processChannelMethod c n 60 (if ack then 80 else 120) [.nat dtag, .bool mult] dc =
      (trySendConfirm c n slot (.confirm ack dtag mult), none) := by
  cases ack
  · show (match slotGet c n with
      | .ok s => (trySendConfirm c n s (.confirm false dtag mult), none)
      | .error e => (c, some e)) = _
    rw [slotGet_of_lookup hslot]
  · show (match slotGet c n with
      | .ok s => (trySendConfirm c n s (.confirm true dtag mult), none)
      | .error e => (c, some e)) = _
    rw [slotGet_of_lookup hslot]

theorem sendLst_alive {c : Conn} {l : Label} {q : LQ} (hq : lookupS l c.lqs = some q)
    (hrx : q.rxAlive = true) (m : LMsg) :
    sendLst c l m = ({ c with lqs := setS l { q with msgs := q.msgs ++ [m] } c.lqs }, true) := by
  unfold sendLst; rw [hq]; simp [hrx]

theorem sendLst_dead {c : Conn} {l : Label} {q : LQ} (hq : lookupS l c.lqs = some q)
    (hrx : q.rxAlive = false) (m : LMsg) : sendLst c l m = (c, false) := by
  unfold sendLst; rw [hq]; simp [hrx]

/-- A confirmation frame in `Steady` is exactly `trySendConfirm` (which never leaves `Steady`). -/
theorem process_confirm_eq {c : Conn} (hs : c.st = .steady) {n : Nat} (hn : n ≠ 0) {slot : Slot}
    (hslot : lookupN n c.slots = some slot) (ack : Bool) (dtag : Nat) (mult : Bool) (dc df : Bytes)
    (hst : (trySendConfirm c n slot (.confirm ack dtag mult)).st = c.st) :
    process c (.method n 60 (if ack then 80 else 120) [.nat dtag, .bool mult]) dc df =
      (trySendConfirm c n slot (.confirm ack dtag mult), none) := by
  rw [process_chan hs hn, pcm_confirm c n dtag ack mult dc hslot]
  dsimp only
  rw [hst, hs]
  simp

theorem trySendConfirm_alive {c : Conn} {n : Nat} {slot : Slot} {l : Label} {q : LQ}
    (hl : slot.confL = some l) (hq : lookupS l c.lqs = some q) (hrx : q.rxAlive = true) (m : LMsg) :
    trySendConfirm c n slot m = { c with lqs := setS l { q with msgs := q.msgs ++ [m] } c.lqs } := by
  unfold trySendConfirm; rw [hl]; dsimp only; rw [sendLst_alive hq hrx]

theorem trySendConfirm_none {c : Conn} {n : Nat} {slot : Slot} (hl : slot.confL = none) (m : LMsg) :
    trySendConfirm c n slot m = c := by
  unfold trySendConfirm; rw [hl]

theorem trySendConfirm_dead {c : Conn} {n : Nat} {slot : Slot} {l : Label} {q : LQ}
    (hl : slot.confL = some l) (hq : lookupS l c.lqs = some q) (hrx : q.rxAlive = false) (m : LMsg) :
    trySendConfirm c n slot m = setSlot c n { slot with confL := none } := by
  unfold trySendConfirm; rw [hl]; dsimp only; rw [sendLst_dead hq hrx]

theorem process_confirm_alive {c : Conn} (hs : c.st = .steady) {n : Nat} (hn : n ≠ 0) {slot : Slot}
    (hslot : lookupN n c.slots = some slot) {l : Label} {q : LQ}
    (hl : slot.confL = some l) (hq : lookupS l c.lqs = some q) (hrx : q.rxAlive = true)
    (ack : Bool) (dtag : Nat) (mult : Bool) (dc df : Bytes) :
    process c (.method n 60 (if ack then 80 else 120) [.nat dtag, .bool mult]) dc df =
      ({ c with lqs := setS l { q with msgs := q.msgs ++ [.confirm ack dtag mult] } c.lqs }, none) := by
  rw [process_confirm_eq hs hn hslot, trySendConfirm_alive hl hq hrx]
  rw [trySendConfirm_alive hl hq hrx]

theorem mid_confirm {mid : Nat} (hm : mid = 80 ∨ mid = 120) :
    ∃ ack : Bool, mid = (if ack then 80 else 120) := by
  rcases hm with h | h
  · exact ⟨true, h⟩
  · exact ⟨false, h⟩

theorem process_confirm_none {c : Conn} (hs : c.st = .steady) {n : Nat} (hn : n ≠ 0) {slot : Slot}
    (hslot : lookupN n c.slots = some slot) (hl : slot.confL = none)
    {mid : Nat} (hm : mid = 80 ∨ mid = 120) (dtag : Nat) (mult : Bool) (dc df : Bytes) :
    process c (.method n 60 mid [.nat dtag, .bool mult]) dc df = (c, none) := by
  obtain ⟨ack, rfl⟩ := mid_confirm hm
  rw [process_confirm_eq hs hn hslot, trySendConfirm_none hl]
  rw [trySendConfirm_none hl]

theorem process_confirm_dead {c : Conn} (hs : c.st = .steady) {n : Nat} (hn : n ≠ 0) {slot : Slot}
    (hslot : lookupN n c.slots = some slot) {l : Label} {q : LQ}
    (hl : slot.confL = some l) (hq : lookupS l c.lqs = some q) (hrx : q.rxAlive = false)
    {mid : Nat} (hm : mid = 80 ∨ mid = 120) (dtag : Nat) (mult : Bool) (dc df : Bytes) :
    process c (.method n 60 mid [.nat dtag, .bool mult]) dc df =
      (setSlot c n { slot with confL := none }, none) := by
  obtain ⟨ack, rfl⟩ := mid_confirm hm
  rw [process_confirm_eq hs hn hslot, trySendConfirm_dead hl hq hrx]
  rw [trySendConfirm_dead hl hq hrx]; rfl

/-- A run of confirmations with a live listener extends its queue by exactly those, in order. -/
theorem confirms_fold {n : Nat} (hn : n ≠ 0) {slot : Slot} {l : Label} (hl : slot.confL = some l)
    (cs : List (Bool × Nat × Bool)) :
    ∀ (c : Conn) (q : LQ), c.st = .steady → lookupN n c.slots = some slot →
      lookupS l c.lqs = some q → q.rxAlive = true →
      lookupS l (cs.foldl (fun acc x =>
        (process acc (.method n 60 (if x.1 then 80 else 120) [.nat x.2.1, .bool x.2.2]) [] []).1) c).lqs =
        some { q with msgs := q.msgs ++ cs.map (fun x => .confirm x.1 x.2.1 x.2.2) } := by
  induction cs with
  | nil => intro c q _ _ hq _; simpa using hq
  | cons x rest ih =>
    intro c q hs hslot hq hrx
    rw [List.foldl_cons, process_confirm_alive hs hn hslot hl hq hrx]
    have := ih { c with lqs := setS l { q with msgs := q.msgs ++ [.confirm x.1 x.2.1 x.2.2] } c.lqs }
      { q with msgs := q.msgs ++ [.confirm x.1 x.2.1 x.2.2] } hs hslot (lookupS_setS_self _ _ _) hrx
    rw [this]
    simp

/-! ### Blocked / unblocked -/

theorem process_blocked {c : Conn} (hs : c.st = .steady) (reason dc df : Bytes) :
    process c (.method 0 10 60 [.bytes reason]) dc df = (trySendBlocked c (.blocked reason), none) := by
  unfold process; rw [hs]; rfl

theorem process_unblocked {c : Conn} (hs : c.st = .steady) (fields : List Field) (dc df : Bytes) :
    process c (.method 0 10 61 fields) dc df = (trySendBlocked c .unblocked, none) := by
  unfold process; rw [hs]; rfl

theorem trySendBlocked_alive {c : Conn} {l : Label} {q : LQ} (hl : c.blockedL = some l)
    (hq : lookupS l c.lqs = some q) (hrx : q.rxAlive = true) (m : LMsg) :
    trySendBlocked c m = { c with lqs := setS l { q with msgs := q.msgs ++ [m] } c.lqs } := by
  unfold trySendBlocked
  split
  · rename_i h; rw [hl] at h; cases h
  · rename_i l' h
    rw [hl] at h; cases h
    rw [sendLst_alive hq hrx]

theorem trySendBlocked_none {c : Conn} (hl : c.blockedL = none) (m : LMsg) :
    trySendBlocked c m = c := by
  unfold trySendBlocked; rw [hl]

/-! ### Returns -/

theorem dispatchContent_ret_alive (c : Conn) (n : Nat) {slot : Slot} {l : Label} {q : LQ}
    (code : Nat) (text ex rk props body : Bytes)
    (hl : slot.retL = some l) (hq : lookupS l c.lqs = some q) (hrx : q.rxAlive = true) :
    dispatchContent c n slot ⟨.ret code text ex rk, props, body⟩ =
      ({ c with lqs := setS l { q with msgs := q.msgs ++ [.ret code text ex rk props body] } c.lqs }, none) := by
  unfold dispatchContent
  dsimp only
  rw [hl]; dsimp only
  rw [sendLst_alive hq hrx]

/-! ### Registration -/

theorem pcm_setConfirm {c : Conn} {n : Nat} (hn : n ≠ 0) {slot : Slot}
    (hslot : lookupN n c.slots = some slot) (l' : Option Label) :
    processChannelMessage c n (.setConfirm l') = (setSlot c n { slot with confL := l' }, none) := by
  rw [processChannelMessage_setConfirm]; unfold processPlainMessage; simp [hn, hslot]

theorem pcm_setReturn {c : Conn} {n : Nat} (hn : n ≠ 0) {slot : Slot}
    (hslot : lookupN n c.slots = some slot) (l' : Option Label) :
    processChannelMessage c n (.setReturn l') = (setSlot c n { slot with retL := l' }, none) := by
  rw [processChannelMessage_setReturn]; unfold processPlainMessage; simp [hn, hslot]

theorem lstTxAlive_false (c : Conn) (l : Label)
    (h1 : c.blockedL ≠ some l) (h2 : l ∉ c.blockedFifo)
    (h3 : ∀ p ∈ c.slots, p.2.retL ≠ some l ∧ p.2.confL ≠ some l)
    (h4 : ∀ p ∈ c.links, ∀ m ∈ p.2.fifo, m ≠ .setReturn (some l) ∧ m ≠ .setConfirm (some l)) :
    lstTxAlive c l = false := by
  unfold lstTxAlive
  have a1 : decide (c.blockedL = some l) = false := by simpa using h1
  have a2 : c.blockedFifo.contains l = false := by simpa using h2
  have a3 : c.slots.any (fun x => match x with
      | (_, s) => decide (s.retL = some l) || decide (s.confL = some l)) = false := by
    rw [List.any_eq_false]
    intro p hp
    obtain ⟨b1, b2⟩ := h3 p hp
    obtain ⟨k, s⟩ := p
    simp only [Bool.or_eq_true, decide_eq_true_eq, not_or]
    exact ⟨b1, b2⟩
  have a4 : c.links.any (fun x => match x with
      | (_, k) => k.fifo.any (fun m => decide (m = .setReturn (some l)) || decide (m = .setConfirm (some l)))) = false := by
    rw [List.any_eq_false]
    intro p hp
    obtain ⟨k, s⟩ := p
    dsimp only
    rw [Bool.not_eq_true, List.any_eq_false]
    intro m hm
    obtain ⟨b1, b2⟩ := h4 _ hp m hm
    simp only [Bool.or_eq_true, decide_eq_true_eq, not_or]
    exact ⟨b1, b2⟩
  rw [a1, a2, a3, a4]; rfl

/-! ### Submission order -/

theorem clientSend_sent {c : Conn} {label : Label} {lid : Nat} (m : Msg)
    (hh : lookupS label c.handles = some lid) (hio : (getLink c lid).ioAlive = true)
    (hroom : (getLink c lid).fifo.length < c.bound) :
    (clientSend c label m).2 = .sent ∧
    (getLink (clientSend c label m).1 lid).fifo = (getLink c lid).fifo ++ [m] := by
  unfold clientSend
  rw [hh]
  dsimp only
  have h2 : ¬ (getLink c lid).fifo.length ≥ c.bound := by omega
  simp only [hio, Bool.not_true, Bool.false_eq_true, if_false, h2]
  refine ⟨trivial, ?_⟩
  rw [getLink_setLink_self]

theorem popFifo_cons {c : Conn} {lid : Nat} {m : Msg} {rest : List Msg}
    (h : (getLink c lid).fifo = m :: rest) :
    popFifo c lid = some (m, setLink c lid { (getLink c lid) with fifo := rest, src := (getLink c lid).src.dec }) := by
  unfold popFifo; dsimp only; rw [h]

theorem popFifo_nil {c : Conn} {lid : Nat} (h : (getLink c lid).fifo = []) : popFifo c lid = none := by
  unfold popFifo; dsimp only; rw [h]

theorem drainFifo_succ_slot {c : Conn} {n : Nat} (hn : n ≠ 0) {slot : Slot}
    (hslot : lookupN n c.slots = some slot) (fuel : Nat) :
    drainFifo (fuel + 1) c n =
      match popFifo c slot.lid with
      | some (m, c1) =>
        match processChannelMessage c1 n m with
        | (c2, some e) => (c2, some e)
        | (c2, none) => drainFifo fuel c2 n
      | none => if (getLink c slot.lid).clientAlive then (c, none) else (c, some .eventLoopClientDropped) := by
  rw [drainFifo]
  simp only [hn, if_false, hslot, Option.map_some]
  rfl

theorem handleEvent_chan_slot {c : Conn} {n : Nat} (hn : n ≠ 0) {slot : Slot}
    (hslot : lookupN n c.slots = some slot) :
    handleEvent c (.chan n) =
      ((drainFifo ((getLink c slot.lid).fifo.length + 1) c n).1, [],
        (drainFifo ((getLink c slot.lid).fifo.length + 1) c n).2) := by
  obtain ⟨k, rfl⟩ : ∃ k, n = k + 1 := ⟨n - 1, by omega⟩
  unfold handleEvent
  simp only [hslot]

theorem registration_then_publish_aux (c : Conn) (n : Nat) (slot : Slot) (l : Label) (bytes : Bytes)
    (hn : n ≠ 0) (hslot : lookupN n c.slots = some slot) (hseal : c.sealed = false)
    (hf : (getLink c slot.lid).fifo = [.setConfirm (some l), .send bytes])
    (hca : (getLink c slot.lid).clientAlive = true) :
    (handleEvent c (.chan n)).2.2 = none ∧ (handleEvent c (.chan n)).1.out = c.out ++ bytes ∧
    (∃ s', lookupN n (handleEvent c (.chan n)).1.slots = some s' ∧ s'.confL = some l) := by
  rw [handleEvent_chan_slot hn hslot, hf]
  dsimp only [List.length_cons, List.length_nil]
  -- first message: the registration
  rw [drainFifo_succ_slot hn hslot, popFifo_cons hf]
  dsimp only
  rw [pcm_setConfirm hn (show lookupN n (setLink c slot.lid _).slots = some slot from hslot)]
  dsimp only
  -- second message: the publish
  generalize hc1 : setSlot (setLink c slot.lid
      { (getLink c slot.lid) with fifo := [.send bytes], src := (getLink c slot.lid).src.dec }) n
      { slot with confL := some l } = c1
  have hslot1 : lookupN n c1.slots = some { slot with confL := some l } := by
    rw [← hc1]; exact lookupN_setN_self _ _ _
  have hl1 : getLink c1 slot.lid =
      { (getLink c slot.lid) with fifo := [.send bytes], src := (getLink c slot.lid).src.dec } := by
    rw [← hc1]
    show getLink (setLink c slot.lid _) slot.lid = _
    rw [getLink_setLink_self]
  have hout1 : c1.out = c.out := by rw [← hc1]; rfl
  have hseal1 : c1.sealed = false := by rw [← hc1]; exact hseal
  have hf1 : (getLink c1 ({ slot with confL := some l } : Slot).lid).fifo = [.send bytes] := by
    show (getLink c1 slot.lid).fifo = _
    rw [hl1]
  rw [drainFifo_succ_slot hn hslot1, popFifo_cons hf1]
  dsimp only
  show (match processChannelMessage _ n (.send bytes) with
    | (c2, some e) => (c2, some e)
    | (c2, none) => drainFifo 1 c2 n).2 = none ∧ _
  rw [processChannelMessage_send]
  unfold processPlainMessage
  dsimp only
  -- third round: the queue is empty, the client is alive
  generalize hc2 : pushOut (setLink c1 slot.lid
      { (getLink c1 slot.lid) with fifo := [], src := (getLink c1 slot.lid).src.dec }) bytes = c2
  have hslot2 : lookupN n c2.slots = some { slot with confL := some l } := by
    rw [← hc2, pushOut_slots]; exact hslot1
  have hl2 : getLink c2 slot.lid =
      { (getLink c1 slot.lid) with fifo := [], src := (getLink c1 slot.lid).src.dec } := by
    rw [← hc2, getLink_pushOut, getLink_setLink_self]
  have hout2 : c2.out = c.out ++ bytes := by
    rw [← hc2, pushOut_out]
    show (if c1.sealed = true then c1.out else c1.out ++ bytes) = _
    rw [hseal1, hout1]; rfl
  have hf2 : (getLink c2 ({ slot with confL := some l } : Slot).lid).fifo = [] := by
    show (getLink c2 slot.lid).fifo = _
    rw [hl2]
  have hca2 : (getLink c2 ({ slot with confL := some l } : Slot).lid).clientAlive = true := by
    show (getLink c2 slot.lid).clientAlive = _
    rw [hl2]
    show (getLink c1 slot.lid).clientAlive = true
    rw [hl1]; exact hca
  rw [drainFifo_succ_slot hn hslot2, popFifo_nil hf2]
  dsimp only
  rw [hca2]
  exact ⟨rfl, hout2, _, hslot2, rfl⟩

end AmqModel.Conn
