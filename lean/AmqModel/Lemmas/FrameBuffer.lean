import AmqModel.Model.FrameBuffer
/-!
# Helper lemmas for C06 (FrameBuffer::read_from)

Sections:
1. `frameSize?`: lower bound, stability under appending; `complete` / `fsz` / `reserve`
   (the three quantities one loop iteration computes from the buffer);
2. `drainF`: unfolding equations, fuel irrelevance, fuel-free equations for `framesOf`,
   an induction principle, compositionality (`framesOf_append`), flattening, idempotence;
3. `readLoop`: unfolding equations (nine-way case split), the termination measure `need`
   (`≤ readFuel`), the big-step relation `Run`, totality (`run_of_fuel`) and fuel irrelevance;
4. consequences of `Run`: the one-call specification, end-of-stream / read-error provenance,
   the handler-error frame count;
5. successive calls (`runAll`).
-/
namespace AmqModel.FrameBuffer

/-! ## 1. `frameSize?` -/

theorem frameSize_ge_8 {buf : Bytes} {n : Nat} (h : frameSize? buf = some n) : 8 ≤ n := by
  unfold frameSize? at h
  split at h
  · injection h with h; omega
  · cases h

theorem frameSize_append {buf : Bytes} (more : Bytes) {n : Nat} (h : frameSize? buf = some n) :
    frameSize? (buf ++ more) = some n := by
  unfold frameSize? at h
  split at h
  · simpa [frameSize?] using h
  · cases h

/-- The buffer starts with a whole envelope. -/
def complete (buf : Bytes) : Bool :=
  match frameSize? buf with
  | some n => decide (n ≤ buf.length)
  | none => false

/-- Size of the first envelope (0 when fewer than 7 bytes are buffered). -/
def fsz (buf : Bytes) : Nat := (frameSize? buf).getD 0

/-- Space offered to one `read()`. -/
def reserve (buf : Bytes) : Nat :=
  match frameSize? buf with
  | some n => max MIN_READ n
  | none => MIN_READ

theorem reserve_pos (buf : Bytes) : 1 ≤ reserve buf := by
  unfold reserve MIN_READ
  split
  · omega
  · omega

theorem complete_spec {buf : Bytes} (h : complete buf = true) :
    frameSize? buf = some (fsz buf) ∧ fsz buf ≤ buf.length ∧ 8 ≤ fsz buf := by
  unfold complete at h
  unfold fsz
  split at h
  · next n hn =>
    rw [hn]
    exact ⟨rfl, by simpa using h, frameSize_ge_8 hn⟩
  · cases h

theorem complete_of {buf : Bytes} {n : Nat} (h : frameSize? buf = some n) (hle : n ≤ buf.length) :
    complete buf = true ∧ fsz buf = n := by
  simp [complete, fsz, h, hle]

theorem complete_append {buf : Bytes} (more : Bytes) (h : complete buf = true) :
    complete (buf ++ more) = true ∧ fsz (buf ++ more) = fsz buf := by
  obtain ⟨h1, h2, _⟩ := complete_spec h
  exact complete_of (frameSize_append more h1) (by simp; omega)

/-! ## 2. `drainF` / `framesOf` -/

theorem drainF_incomplete (parse : Bytes → Bool) (f : Nat) {buf : Bytes} (h : complete buf = false) :
    drainF parse f buf = ([], buf, true) := by
  cases f with
  | zero => rfl
  | succ f =>
    unfold complete at h
    unfold drainF
    split
    · next n hn =>
      rw [hn] at h
      have : ¬ n ≤ buf.length := by simpa using h
      simp [this]
    · rfl

theorem drainF_bad (parse : Bytes → Bool) (f : Nat) {buf : Bytes} (h : complete buf = true)
    (hp : parse (buf.take (fsz buf)) = false) : drainF parse (f + 1) buf = ([], buf, false) := by
  obtain ⟨h1, h2, _⟩ := complete_spec h
  simp [drainF, h1, h2, hp]

theorem drainF_good (parse : Bytes → Bool) (f : Nat) {buf : Bytes} (h : complete buf = true)
    (hp : parse (buf.take (fsz buf)) = true) :
    drainF parse (f + 1) buf =
      (buf.take (fsz buf) :: (drainF parse f (buf.drop (fsz buf))).1,
        (drainF parse f (buf.drop (fsz buf))).2.1, (drainF parse f (buf.drop (fsz buf))).2.2) := by
  obtain ⟨h1, h2, _⟩ := complete_spec h
  simp [drainF, h1, h2, hp]

/-- Any fuel above the buffer length gives the same result. -/
theorem drainF_fuel (parse : Bytes → Bool) : ∀ (f g : Nat) (buf : Bytes),
    buf.length < f → buf.length < g → drainF parse f buf = drainF parse g buf := by
  intro f
  induction f with
  | zero => intro g buf h; omega
  | succ f ih =>
    intro g buf hf hg
    cases g with
    | zero => omega
    | succ g =>
      cases hc : complete buf with
      | false => rw [drainF_incomplete parse _ hc, drainF_incomplete parse _ hc]
      | true =>
        obtain ⟨_, h2, h3⟩ := complete_spec hc
        cases hp : parse (buf.take (fsz buf)) with
        | false => rw [drainF_bad parse _ hc hp, drainF_bad parse _ hc hp]
        | true =>
          have hl : (buf.drop (fsz buf)).length = buf.length - fsz buf := List.length_drop
          rw [drainF_good parse _ hc hp, drainF_good parse _ hc hp,
            ih g (buf.drop (fsz buf)) (by omega) (by omega)]

theorem framesOf_incomplete (parse : Bytes → Bool) {buf : Bytes} (h : complete buf = false) :
    framesOf parse buf = ([], buf, true) := drainF_incomplete parse _ h

theorem framesOf_bad (parse : Bytes → Bool) {buf : Bytes} (h : complete buf = true)
    (hp : parse (buf.take (fsz buf)) = false) : framesOf parse buf = ([], buf, false) :=
  drainF_bad parse _ h hp

theorem framesOf_good (parse : Bytes → Bool) {buf : Bytes} (h : complete buf = true)
    (hp : parse (buf.take (fsz buf)) = true) :
    framesOf parse buf =
      (buf.take (fsz buf) :: (framesOf parse (buf.drop (fsz buf))).1,
        (framesOf parse (buf.drop (fsz buf))).2.1, (framesOf parse (buf.drop (fsz buf))).2.2) := by
  obtain ⟨_, h2, h3⟩ := complete_spec h
  have hl : (buf.drop (fsz buf)).length = buf.length - fsz buf := List.length_drop
  unfold framesOf
  rw [drainF_good parse _ h hp,
    drainF_fuel parse buf.length ((buf.drop (fsz buf)).length + 1) (buf.drop (fsz buf))
      (by omega) (by omega)]

/-- Induction along the frames at the head of a byte string. -/
theorem frames_induction_aux (parse : Bytes → Bool) {motive : Bytes → Prop}
    (inc : ∀ buf, complete buf = false → motive buf)
    (bad : ∀ buf, complete buf = true → parse (buf.take (fsz buf)) = false → motive buf)
    (good : ∀ buf, complete buf = true → parse (buf.take (fsz buf)) = true →
      motive (buf.drop (fsz buf)) → motive buf) :
    ∀ (k : Nat) (buf : Bytes), buf.length ≤ k → motive buf := by
  intro k
  induction k with
  | zero =>
    intro buf hk
    apply inc
    cases hc : complete buf with
    | false => rfl
    | true => have := complete_spec hc; omega
  | succ k ih =>
    intro buf hk
    cases hc : complete buf with
    | false => exact inc buf hc
    | true =>
      obtain ⟨_, h2, h3⟩ := complete_spec hc
      cases hp : parse (buf.take (fsz buf)) with
      | false => exact bad buf hc hp
      | true =>
        have hl : (buf.drop (fsz buf)).length = buf.length - fsz buf := List.length_drop
        exact good buf hc hp (ih _ (by omega))

theorem frames_induction (parse : Bytes → Bool) {motive : Bytes → Prop}
    (inc : ∀ buf, complete buf = false → motive buf)
    (bad : ∀ buf, complete buf = true → parse (buf.take (fsz buf)) = false → motive buf)
    (good : ∀ buf, complete buf = true → parse (buf.take (fsz buf)) = true →
      motive (buf.drop (fsz buf)) → motive buf) (buf : Bytes) : motive buf :=
  frames_induction_aux parse inc bad good buf.length buf (Nat.le_refl _)

theorem framesOf_good_append (parse : Bytes → Bool) {buf : Bytes} (more : Bytes)
    (h : complete buf = true) (hp : parse (buf.take (fsz buf)) = true) :
    framesOf parse (buf ++ more) =
      (buf.take (fsz buf) :: (framesOf parse (buf.drop (fsz buf) ++ more)).1,
        (framesOf parse (buf.drop (fsz buf) ++ more)).2.1,
        (framesOf parse (buf.drop (fsz buf) ++ more)).2.2) := by
  obtain ⟨_, h2, _⟩ := complete_spec h
  obtain ⟨c1, c2⟩ := complete_append more h
  have ht : (buf ++ more).take (fsz buf) = buf.take (fsz buf) := List.take_append_of_le_length h2
  have hd : (buf ++ more).drop (fsz buf) = buf.drop (fsz buf) ++ more :=
    List.drop_append_of_le_length h2
  rw [framesOf_good parse c1 (by rw [c2, ht]; exact hp), c2, ht, hd]

theorem framesOf_bad_append (parse : Bytes → Bool) {buf : Bytes} (more : Bytes)
    (h : complete buf = true) (hp : parse (buf.take (fsz buf)) = false) :
    framesOf parse (buf ++ more) = ([], buf ++ more, false) := by
  obtain ⟨_, h2, _⟩ := complete_spec h
  obtain ⟨c1, c2⟩ := complete_append more h
  have ht : (buf ++ more).take (fsz buf) = buf.take (fsz buf) := List.take_append_of_le_length h2
  exact framesOf_bad parse c1 (by rw [c2, ht]; exact hp)

/-- Compositionality, in projection form. -/
theorem framesOf_append' (parse : Bytes → Bool) (more : Bytes) (buf : Bytes) :
    framesOf parse (buf ++ more) =
      if (framesOf parse buf).2.2 = true then
        ((framesOf parse buf).1 ++ (framesOf parse ((framesOf parse buf).2.1 ++ more)).1,
          (framesOf parse ((framesOf parse buf).2.1 ++ more)).2.1,
          (framesOf parse ((framesOf parse buf).2.1 ++ more)).2.2)
      else ((framesOf parse buf).1, (framesOf parse buf).2.1 ++ more, false) := by
  induction buf using frames_induction parse with
  | inc buf hc => simp [framesOf_incomplete parse hc]
  | bad buf hc hp => simp [framesOf_bad parse hc hp, framesOf_bad_append parse more hc hp]
  | good buf hc hp ih =>
    rw [framesOf_good_append parse more hc hp, ih, framesOf_good parse hc hp]
    by_cases hok : (framesOf parse (buf.drop (fsz buf))).2.2 = true
    · simp [hok]
    · simp [hok]

theorem framesOf_flatten (parse : Bytes → Bool) (buf : Bytes) :
    (framesOf parse buf).1.flatten ++ (framesOf parse buf).2.1 = buf := by
  induction buf using frames_induction parse with
  | inc buf hc => simp [framesOf_incomplete parse hc]
  | bad buf hc hp => simp [framesOf_bad parse hc hp]
  | good buf hc hp ih =>
    rw [framesOf_good parse hc hp]
    simp only [List.flatten_cons, List.append_assoc]
    rw [ih, List.take_append_drop]

/-- What `framesOf` leaves over has no acceptable whole frame at its head. -/
theorem framesOf_rest (parse : Bytes → Bool) (buf : Bytes) :
    framesOf parse (framesOf parse buf).2.1 =
      ([], (framesOf parse buf).2.1, (framesOf parse buf).2.2) := by
  induction buf using frames_induction parse with
  | inc buf hc => simp [framesOf_incomplete parse hc]
  | bad buf hc hp => simp [framesOf_bad parse hc hp]
  | good buf hc hp ih =>
    rw [framesOf_good parse hc hp]
    exact ih

/-! ## 3. `readLoop`: unfolding, termination measure, big-step relation -/

/-- The script after a `read()` that was offered `r` bytes of space while `bs` was available. -/
def nextScript (r : Nat) (bs : Bytes) (rest : List ReadEv) : List ReadEv :=
  if (bs.drop r).isEmpty then rest else .chunk (bs.drop r) :: rest

section Unfold
variable (parse : Bytes → Bool) (failAt : Option Nat) (f : Nat) {buf : Bytes}
  (script : List ReadEv) (seen nread : Nat) (acc : List Bytes)

theorem readLoop_succ :
    readLoop parse failAt (f + 1) buf script seen nread acc =
      if complete buf = true then
        if parse (buf.take (fsz buf)) = true then
          if failAt = some seen then
            ⟨buf, script, (buf.take (fsz buf) :: acc).reverse, .handlerErr⟩
          else readLoop parse failAt f (buf.drop (fsz buf)) script (seen + 1) nread
            (buf.take (fsz buf) :: acc)
        else ⟨buf, script, acc.reverse, .malformedFrame⟩
      else
        match script with
        | [] => ⟨buf, [], acc.reverse, .ok nread⟩
        | .wouldBlock :: rest => ⟨buf, rest, acc.reverse, .ok nread⟩
        | .eof :: rest => ⟨buf, rest, acc.reverse, .unexpectedSocketClose⟩
        | .ioErr :: rest => ⟨buf, rest, acc.reverse, .ioErrorReadingSocket⟩
        | .chunk bs :: rest =>
          if bs.isEmpty = true then ⟨buf, rest, acc.reverse, .unexpectedSocketClose⟩
          else readLoop parse failAt f (buf ++ bs.take (reserve buf))
            (nextScript (reserve buf) bs rest) seen (nread + (bs.take (reserve buf)).length) acc := by
  cases script with
  | nil => rfl
  | cons e rest => cases e <;> rfl

theorem readLoop_bad (hc : complete buf = true) (hp : parse (buf.take (fsz buf)) = false) :
    readLoop parse failAt (f + 1) buf script seen nread acc =
      ⟨buf, script, acc.reverse, .malformedFrame⟩ := by
  rw [readLoop_succ]; simp [hc, hp]

theorem readLoop_herr (hc : complete buf = true) (hp : parse (buf.take (fsz buf)) = true)
    (hf : failAt = some seen) :
    readLoop parse failAt (f + 1) buf script seen nread acc =
      ⟨buf, script, (buf.take (fsz buf) :: acc).reverse, .handlerErr⟩ := by
  rw [readLoop_succ]; simp [hc, hp, hf]

theorem readLoop_frame (hc : complete buf = true) (hp : parse (buf.take (fsz buf)) = true)
    (hf : failAt ≠ some seen) :
    readLoop parse failAt (f + 1) buf script seen nread acc =
      readLoop parse failAt f (buf.drop (fsz buf)) script (seen + 1) nread
        (buf.take (fsz buf) :: acc) := by
  rw [readLoop_succ]; simp [hc, hp, hf]

theorem readLoop_nil (hc : complete buf = false) :
    readLoop parse failAt (f + 1) buf [] seen nread acc = ⟨buf, [], acc.reverse, .ok nread⟩ := by
  rw [readLoop_succ]; simp [hc]

theorem readLoop_wb (rest : List ReadEv) (hc : complete buf = false) :
    readLoop parse failAt (f + 1) buf (.wouldBlock :: rest) seen nread acc =
      ⟨buf, rest, acc.reverse, .ok nread⟩ := by
  rw [readLoop_succ]; simp [hc]

theorem readLoop_eof (rest : List ReadEv) (hc : complete buf = false) :
    readLoop parse failAt (f + 1) buf (.eof :: rest) seen nread acc =
      ⟨buf, rest, acc.reverse, .unexpectedSocketClose⟩ := by
  rw [readLoop_succ]; simp [hc]

theorem readLoop_ioerr (rest : List ReadEv) (hc : complete buf = false) :
    readLoop parse failAt (f + 1) buf (.ioErr :: rest) seen nread acc =
      ⟨buf, rest, acc.reverse, .ioErrorReadingSocket⟩ := by
  rw [readLoop_succ]; simp [hc]

theorem readLoop_chunk_nil (rest : List ReadEv) (hc : complete buf = false) :
    readLoop parse failAt (f + 1) buf (.chunk [] :: rest) seen nread acc =
      ⟨buf, rest, acc.reverse, .unexpectedSocketClose⟩ := by
  rw [readLoop_succ]; simp [hc]

theorem readLoop_chunk (bs : Bytes) (rest : List ReadEv) (hc : complete buf = false)
    (hbs : bs ≠ []) :
    readLoop parse failAt (f + 1) buf (.chunk bs :: rest) seen nread acc =
      readLoop parse failAt f (buf ++ bs.take (reserve buf))
        (nextScript (reserve buf) bs rest) seen (nread + (bs.take (reserve buf)).length) acc := by
  rw [readLoop_succ]; simp [hc, hbs]

end Unfold

/-- Termination measure of the loop: a frame step removes ≥ 8 buffered bytes; a read that takes
    the whole chunk removes the event; a read that takes only part of a chunk moves ≥ 1 byte from
    the script (weight 2) to the buffer (weight 1). -/
def need (buf : Bytes) (script : List ReadEv) : Nat := buf.length + 2 * scriptBytes script + 1

theorem need_le_readFuel (buf : Bytes) (script : List ReadEv) : need buf script ≤ readFuel buf script := by
  unfold need readFuel; omega

theorem need_frame {buf : Bytes} (script : List ReadEv) (hc : complete buf = true) :
    need (buf.drop (fsz buf)) script < need buf script := by
  obtain ⟨_, h2, h3⟩ := complete_spec hc
  have hl : (buf.drop (fsz buf)).length = buf.length - fsz buf := List.length_drop
  unfold need; omega

theorem need_chunk (buf bs : Bytes) (rest : List ReadEv) {r : Nat} (hr : 1 ≤ r) (hbs : bs ≠ []) :
    need (buf ++ bs.take r) (nextScript r bs rest) < need buf (.chunk bs :: rest) := by
  have hpos : 0 < bs.length := List.length_pos_iff.mpr hbs
  have ht : (bs.take r).length = min r bs.length := List.length_take
  have hd : (bs.drop r).length = bs.length - r := List.length_drop
  unfold need nextScript
  by_cases he : bs.drop r = []
  · have : bs.length ≤ r := by simpa using he
    simp only [he, List.isEmpty_nil, if_true, List.length_append, scriptBytes]
    omega
  · have : ¬ bs.length ≤ r := by simpa using he
    simp only [List.isEmpty_iff, he, if_false, List.length_append, scriptBytes]
    omega

/-- Big-step semantics of the loop (no fuel). -/
inductive Run (parse : Bytes → Bool) (failAt : Option Nat) :
    Bytes → List ReadEv → Nat → Nat → List Bytes → RdOut → Prop
  | bad {buf script seen nread acc} :
      complete buf = true → parse (buf.take (fsz buf)) = false →
      Run parse failAt buf script seen nread acc ⟨buf, script, acc.reverse, .malformedFrame⟩
  | herr {buf script seen nread acc} :
      complete buf = true → parse (buf.take (fsz buf)) = true → failAt = some seen →
      Run parse failAt buf script seen nread acc
        ⟨buf, script, (buf.take (fsz buf) :: acc).reverse, .handlerErr⟩
  | frame {buf script seen nread acc out} :
      complete buf = true → parse (buf.take (fsz buf)) = true → failAt ≠ some seen →
      Run parse failAt (buf.drop (fsz buf)) script (seen + 1) nread (buf.take (fsz buf) :: acc) out →
      Run parse failAt buf script seen nread acc out
  | nil {buf seen nread acc} :
      complete buf = false →
      Run parse failAt buf [] seen nread acc ⟨buf, [], acc.reverse, .ok nread⟩
  | wb {buf rest seen nread acc} :
      complete buf = false →
      Run parse failAt buf (.wouldBlock :: rest) seen nread acc ⟨buf, rest, acc.reverse, .ok nread⟩
  | eof {buf rest seen nread acc} :
      complete buf = false →
      Run parse failAt buf (.eof :: rest) seen nread acc
        ⟨buf, rest, acc.reverse, .unexpectedSocketClose⟩
  | ioerr {buf rest seen nread acc} :
      complete buf = false →
      Run parse failAt buf (.ioErr :: rest) seen nread acc
        ⟨buf, rest, acc.reverse, .ioErrorReadingSocket⟩
  | chunkNil {buf rest seen nread acc} :
      complete buf = false →
      Run parse failAt buf (.chunk [] :: rest) seen nread acc
        ⟨buf, rest, acc.reverse, .unexpectedSocketClose⟩
  | chunk {buf bs rest seen nread acc out} :
      complete buf = false → bs ≠ [] →
      Run parse failAt (buf ++ bs.take (reserve buf)) (nextScript (reserve buf) bs rest) seen
        (nread + (bs.take (reserve buf)).length) acc out →
      Run parse failAt buf (.chunk bs :: rest) seen nread acc out

/-- With fuel `≥ need`, the loop terminates normally (it never takes the out-of-fuel branch). -/
theorem run_of_fuel (parse : Bytes → Bool) (failAt : Option Nat) :
    ∀ (f : Nat) (buf : Bytes) (script : List ReadEv) (seen nread : Nat) (acc : List Bytes),
      need buf script ≤ f →
      Run parse failAt buf script seen nread acc (readLoop parse failAt f buf script seen nread acc) := by
  intro f
  induction f with
  | zero => intro buf script _ _ _ h; unfold need at h; omega
  | succ f ih =>
    intro buf script seen nread acc h
    cases hc : complete buf with
    | true =>
      cases hp : parse (buf.take (fsz buf)) with
      | false => rw [readLoop_bad _ _ _ _ _ _ _ hc hp]; exact .bad hc hp
      | true =>
        by_cases hf : failAt = some seen
        · rw [readLoop_herr _ _ _ _ _ _ _ hc hp hf]; exact .herr hc hp hf
        · rw [readLoop_frame _ _ _ _ _ _ _ hc hp hf]
          have := need_frame script hc
          exact .frame hc hp hf (ih _ _ _ _ _ (by omega))
    | false =>
      match script with
      | [] => rw [readLoop_nil _ _ _ _ _ _ hc]; exact .nil hc
      | .wouldBlock :: rest => rw [readLoop_wb _ _ _ _ _ _ _ hc]; exact .wb hc
      | .eof :: rest => rw [readLoop_eof _ _ _ _ _ _ _ hc]; exact .eof hc
      | .ioErr :: rest => rw [readLoop_ioerr _ _ _ _ _ _ _ hc]; exact .ioerr hc
      | .chunk bs :: rest =>
        by_cases hbs : bs = []
        · subst hbs; rw [readLoop_chunk_nil _ _ _ _ _ _ _ hc]; exact .chunkNil hc
        · rw [readLoop_chunk _ _ _ _ _ _ _ _ hc hbs]
          have := need_chunk buf bs rest (reserve_pos buf) hbs
          exact .chunk hc hbs (ih _ _ _ _ _ (by omega))

/-- `Run` determines the result of the loop for every sufficient fuel. -/
theorem readLoop_of_run {parse : Bytes → Bool} {failAt : Option Nat} {buf : Bytes}
    {script : List ReadEv} {seen nread : Nat} {acc : List Bytes} {out : RdOut}
    (h : Run parse failAt buf script seen nread acc out) :
    ∀ f, need buf script ≤ f → readLoop parse failAt f buf script seen nread acc = out := by
  induction h with
  | bad hc hp =>
    intro f hf; cases f with
    | zero => unfold need at hf; omega
    | succ f => exact readLoop_bad _ _ _ _ _ _ _ hc hp
  | herr hc hp hfa =>
    intro f hf; cases f with
    | zero => unfold need at hf; omega
    | succ f => exact readLoop_herr _ _ _ _ _ _ _ hc hp hfa
  | @frame buf script _ _ _ _ hc hp hfa _ ih =>
    intro f hf; cases f with
    | zero => unfold need at hf; omega
    | succ f =>
      rw [readLoop_frame _ _ _ _ _ _ _ hc hp hfa]
      have := need_frame script hc
      exact ih f (by omega)
  | nil hc =>
    intro f hf; cases f with
    | zero => unfold need at hf; omega
    | succ f => exact readLoop_nil _ _ _ _ _ _ hc
  | wb hc =>
    intro f hf; cases f with
    | zero => unfold need at hf; omega
    | succ f => exact readLoop_wb _ _ _ _ _ _ _ hc
  | eof hc =>
    intro f hf; cases f with
    | zero => unfold need at hf; omega
    | succ f => exact readLoop_eof _ _ _ _ _ _ _ hc
  | ioerr hc =>
    intro f hf; cases f with
    | zero => unfold need at hf; omega
    | succ f => exact readLoop_ioerr _ _ _ _ _ _ _ hc
  | chunkNil hc =>
    intro f hf; cases f with
    | zero => unfold need at hf; omega
    | succ f => exact readLoop_chunk_nil _ _ _ _ _ _ _ hc
  | @chunk buf bs rest _ _ _ _ hc hbs _ ih =>
    intro f hf; cases f with
    | zero => unfold need at hf; omega
    | succ f =>
      rw [readLoop_chunk _ _ _ _ _ _ _ _ hc hbs]
      have := need_chunk buf bs rest (reserve_pos buf) hbs
      exact ih f (by omega)

/-- Fuel irrelevance above `need`. -/
theorem readLoop_fuel_irrel (parse : Bytes → Bool) (failAt : Option Nat) (buf : Bytes)
    (script : List ReadEv) (seen nread : Nat) (acc : List Bytes) (n m : Nat)
    (hn : need buf script ≤ n) (hm : need buf script ≤ m) :
    readLoop parse failAt n buf script seen nread acc =
      readLoop parse failAt m buf script seen nread acc :=
  readLoop_of_run (run_of_fuel parse failAt m buf script seen nread acc hm) n hn

theorem run_readFrom (parse : Bytes → Bool) (failAt : Option Nat) (buf : Bytes)
    (script : List ReadEv) (seen : Nat) :
    Run parse failAt buf script seen 0 [] (readFrom parse failAt buf script seen) :=
  run_of_fuel parse failAt _ buf script seen 0 [] (need_le_readFuel buf script)

/-! ## 4. Consequences of `Run` -/

/-- All bytes a transport script will ever deliver, in order. -/
def sdata : List ReadEv → Bytes
  | [] => []
  | .chunk bs :: r => bs ++ sdata r
  | _ :: r => sdata r

theorem sdata_append (a b : List ReadEv) : sdata (a ++ b) = sdata a ++ sdata b := by
  induction a with
  | nil => rfl
  | cons e a ih => cases e <;> simp [sdata, ih]

theorem sdata_nextScript (r : Nat) (bs : Bytes) (rest : List ReadEv) :
    sdata (nextScript r bs rest) = bs.drop r ++ sdata rest := by
  unfold nextScript
  by_cases he : bs.drop r = []
  · simp [he]
  · simp [he, sdata]

/-- The one-call specification, for any accumulator / byte counter. -/
theorem run_spec {parse : Bytes → Bool} {failAt : Option Nat} {buf : Bytes}
    {script : List ReadEv} {seen nread : Nat} {acc : List Bytes} {out : RdOut}
    (h : Run parse failAt buf script seen nread acc out) (hfa : failAt = none) :
    ∃ consumed fs : _,
      sdata script = consumed ++ sdata out.script ∧
      out.frames = acc.reverse ++ fs ∧
      framesOf parse (buf ++ consumed) = (fs, out.buf, decide (out.res ≠ .malformedFrame)) ∧
      (∀ n, out.res = .ok n → n = nread + consumed.length) ∧
      out.res ≠ .handlerErr := by
  induction h with
  | bad hc hp =>
    exact ⟨[], [], by simp, by simp, by simp [framesOf_bad parse hc hp], by simp, by simp⟩
  | herr hc hp hf => rw [hfa] at hf; cases hf
  | @frame buf script seen nread acc out hc hp hf _ ih =>
    obtain ⟨c, fs, h1, h2, h3, h4, h5⟩ := ih
    refine ⟨c, buf.take (fsz buf) :: fs, h1, by simp [h2], ?_, h4, h5⟩
    rw [framesOf_good_append parse c hc hp, h3]
  | nil hc =>
    exact ⟨[], [], by simp, by simp, by simp [framesOf_incomplete parse hc], by simp, by simp⟩
  | wb hc =>
    exact ⟨[], [], by simp [sdata], by simp, by simp [framesOf_incomplete parse hc], by simp,
      by simp⟩
  | eof hc =>
    exact ⟨[], [], by simp [sdata], by simp, by simp [framesOf_incomplete parse hc], by simp,
      by simp⟩
  | ioerr hc =>
    exact ⟨[], [], by simp [sdata], by simp, by simp [framesOf_incomplete parse hc], by simp,
      by simp⟩
  | chunkNil hc =>
    exact ⟨[], [], by simp [sdata], by simp, by simp [framesOf_incomplete parse hc], by simp,
      by simp⟩
  | @chunk buf bs rest seen nread acc out hc hbs _ ih =>
    obtain ⟨c, fs, h1, h2, h3, h4, h5⟩ := ih
    refine ⟨bs.take (reserve buf) ++ c, fs, ?_, h2, ?_, ?_, h5⟩
    · rw [sdata_nextScript] at h1
      rw [List.append_assoc, ← h1, ← List.append_assoc, List.take_append_drop, sdata]
    · rw [← List.append_assoc]; exact h3
    · intro n hn
      rw [h4 n hn, List.length_append]; omega

/-- After `Ok`, no whole frame is left at the head of the buffer. -/
theorem run_prompt {parse : Bytes → Bool} {failAt : Option Nat} {buf : Bytes}
    {script : List ReadEv} {seen nread : Nat} {acc : List Bytes} {out : RdOut}
    (h : Run parse failAt buf script seen nread acc out) :
    ∀ n, out.res = .ok n → complete out.buf = false := by
  induction h with
  | bad hc hp => intro n hn; cases hn
  | herr hc hp hf => intro n hn; cases hn
  | frame hc hp hf _ ih => exact ih
  | nil hc => intro _ _; exact hc
  | wb hc => intro _ _; exact hc
  | eof hc => intro n hn; cases hn
  | ioerr hc => intro n hn; cases hn
  | chunkNil hc => intro n hn; cases hn
  | chunk hc hbs _ ih => exact ih

theorem mem_nextScript_chunk_nil {r : Nat} {bs : Bytes} {rest : List ReadEv}
    (h : ReadEv.chunk [] ∈ nextScript r bs rest) : ReadEv.chunk [] ∈ rest := by
  unfold nextScript at h
  by_cases he : bs.drop r = []
  · simpa [he] using h
  · simp only [List.isEmpty_iff, he, if_false, List.mem_cons] at h
    rcases h with h | h
    · injection h with h; exact absurd h.symm he
    · exact h

theorem mem_nextScript_of_ne_chunk {r : Nat} {bs : Bytes} {rest : List ReadEv} {e : ReadEv}
    (hne : ∀ cs, e ≠ .chunk cs) (h : e ∈ nextScript r bs rest) : e ∈ rest := by
  unfold nextScript at h
  by_cases he : bs.drop r = []
  · simpa [he] using h
  · simp only [List.isEmpty_iff, he, if_false, List.mem_cons] at h
    rcases h with h | h
    · exact absurd h (hne _)
    · exact h

theorem run_eof {parse : Bytes → Bool} {failAt : Option Nat} {buf : Bytes}
    {script : List ReadEv} {seen nread : Nat} {acc : List Bytes} {out : RdOut}
    (h : Run parse failAt buf script seen nread acc out) :
    out.res = .unexpectedSocketClose → ReadEv.eof ∈ script ∨ ReadEv.chunk [] ∈ script := by
  induction h with
  | bad hc hp => intro hn; cases hn
  | herr hc hp hf => intro hn; cases hn
  | frame hc hp hf _ ih => exact ih
  | nil hc => intro hn; cases hn
  | wb hc => intro hn; cases hn
  | eof hc => intro _; exact .inl (List.mem_cons_self ..)
  | ioerr hc => intro hn; cases hn
  | chunkNil hc => intro _; exact .inr (List.mem_cons_self ..)
  | chunk hc hbs _ ih =>
    intro hn
    rcases ih hn with h | h
    · exact .inl (List.mem_cons_of_mem _ (mem_nextScript_of_ne_chunk (by intro cs hcs; cases hcs) h))
    · exact .inr (List.mem_cons_of_mem _ (mem_nextScript_chunk_nil h))

theorem run_ioerr {parse : Bytes → Bool} {failAt : Option Nat} {buf : Bytes}
    {script : List ReadEv} {seen nread : Nat} {acc : List Bytes} {out : RdOut}
    (h : Run parse failAt buf script seen nread acc out) :
    out.res = .ioErrorReadingSocket → ReadEv.ioErr ∈ script := by
  induction h with
  | bad hc hp => intro hn; cases hn
  | herr hc hp hf => intro hn; cases hn
  | frame hc hp hf _ ih => exact ih
  | nil hc => intro hn; cases hn
  | wb hc => intro hn; cases hn
  | eof hc => intro hn; cases hn
  | ioerr hc => intro _; exact List.mem_cons_self ..
  | chunkNil hc => intro hn; cases hn
  | chunk hc hbs _ ih =>
    intro hn
    exact List.mem_cons_of_mem _ (mem_nextScript_of_ne_chunk (by intro cs hcs; cases hcs) (ih hn))

theorem run_herr {parse : Bytes → Bool} {k : Nat} {buf : Bytes}
    {script : List ReadEv} {seen nread : Nat} {acc : List Bytes} {out : RdOut}
    (h : Run parse (some k) buf script seen nread acc out) :
    out.res = .handlerErr → seen + out.frames.length = k + 1 + acc.length := by
  induction h with
  | bad hc hp => intro hn; cases hn
  | herr hc hp hf =>
    intro _
    injection hf with hf
    simp; omega
  | frame hc hp hf _ ih =>
    intro hn
    have := ih hn
    simp at this; omega
  | nil hc => intro hn; cases hn
  | wb hc => intro hn; cases hn
  | eof hc => intro hn; cases hn
  | ioerr hc => intro hn; cases hn
  | chunkNil hc => intro hn; cases hn
  | chunk hc hbs _ ih => exact ih

/-! One call of `readFrom`. -/

theorem readFrom_spec (parse : Bytes → Bool) (buf : Bytes) (script : List ReadEv) (seen : Nat) :
    ∃ consumed : Bytes,
      sdata script = consumed ++ sdata (readFrom parse none buf script seen).script ∧
      framesOf parse (buf ++ consumed) =
        ((readFrom parse none buf script seen).frames, (readFrom parse none buf script seen).buf,
          decide ((readFrom parse none buf script seen).res ≠ .malformedFrame)) ∧
      (∀ n, (readFrom parse none buf script seen).res = .ok n → n = consumed.length) ∧
      (readFrom parse none buf script seen).res ≠ .handlerErr := by
  obtain ⟨c, fs, h1, h2, h3, h4, h5⟩ := run_spec (run_readFrom parse none buf script seen) rfl
  refine ⟨c, h1, ?_, ?_, h5⟩
  · rw [h3, h2]; simp
  · intro n hn; rw [h4 n hn]; omega

theorem readFrom_prompt (parse : Bytes → Bool) (failAt : Option Nat) (buf : Bytes)
    (script : List ReadEv) (seen n : Nat)
    (h : (readFrom parse failAt buf script seen).res = .ok n) :
    framesOf parse (readFrom parse failAt buf script seen).buf
      = ([], (readFrom parse failAt buf script seen).buf, true) :=
  framesOf_incomplete parse (run_prompt (run_readFrom parse failAt buf script seen) n h)

/-! ## 5. Successive calls -/

/-- Successive `read_from` calls; what a call leaves unconsumed is offered again to the next one;
    stops at the first call that fails. -/
def runAll (parse : Bytes → Bool) :
    Bytes → List ReadEv → List (List ReadEv) → List Bytes × Bytes × List ReadEv × RdRes
  | buf, pending, [] => ([], buf, pending, .ok 0)
  | buf, pending, s :: ss =>
    let r := readFrom parse none buf (pending ++ s) 0
    match r.res with
    | .ok _ =>
      let (fs, b, p, res) := runAll parse r.buf r.script ss
      (r.frames ++ fs, b, p, res)
    | e => (r.frames, r.buf, r.script, e)

theorem runAll_cons_ok (parse : Bytes → Bool) (buf : Bytes) (pending s : List ReadEv)
    (ss : List (List ReadEv)) (n : Nat)
    (h : (readFrom parse none buf (pending ++ s) 0).res = .ok n) :
    runAll parse buf pending (s :: ss) =
      ((readFrom parse none buf (pending ++ s) 0).frames ++
          (runAll parse (readFrom parse none buf (pending ++ s) 0).buf
            (readFrom parse none buf (pending ++ s) 0).script ss).1,
        (runAll parse (readFrom parse none buf (pending ++ s) 0).buf
            (readFrom parse none buf (pending ++ s) 0).script ss).2.1,
        (runAll parse (readFrom parse none buf (pending ++ s) 0).buf
            (readFrom parse none buf (pending ++ s) 0).script ss).2.2.1,
        (runAll parse (readFrom parse none buf (pending ++ s) 0).buf
            (readFrom parse none buf (pending ++ s) 0).script ss).2.2.2) := by
  simp only [runAll, h]

theorem runAll_cons_err (parse : Bytes → Bool) (buf : Bytes) (pending s : List ReadEv)
    (ss : List (List ReadEv))
    (h : ∀ n, (readFrom parse none buf (pending ++ s) 0).res ≠ .ok n) :
    runAll parse buf pending (s :: ss) =
      ((readFrom parse none buf (pending ++ s) 0).frames,
        (readFrom parse none buf (pending ++ s) 0).buf,
        (readFrom parse none buf (pending ++ s) 0).script,
        (readFrom parse none buf (pending ++ s) 0).res) := by
  cases hr : (readFrom parse none buf (pending ++ s) 0).res with
  | ok n => exact absurd hr (h n)
  | _ => simp only [runAll, hr]

theorem runAll_spec (parse : Bytes → Bool) :
    ∀ (calls : List (List ReadEv)) (buf : Bytes) (pending : List ReadEv),
      complete buf = false →
      ∃ consumed rest : Bytes,
        sdata (pending ++ calls.flatten) = consumed ++ rest ∧
        framesOf parse (buf ++ consumed) =
          ((runAll parse buf pending calls).1, (runAll parse buf pending calls).2.1,
            decide ((runAll parse buf pending calls).2.2.2 ≠ .malformedFrame)) ∧
        ((∃ n, (runAll parse buf pending calls).2.2.2 = .ok n) →
          rest = sdata (runAll parse buf pending calls).2.2.1) := by
  intro calls
  induction calls with
  | nil =>
    intro buf pending hc
    exact ⟨[], sdata pending, by simp, by simp [runAll, framesOf_incomplete parse hc],
      by simp [runAll]⟩
  | cons s ss ih =>
    intro buf pending hc
    obtain ⟨c1, h1, h2, _, _⟩ := readFrom_spec parse buf (pending ++ s) 0
    have hsd : sdata (pending ++ (s :: ss).flatten) =
        c1 ++ sdata ((readFrom parse none buf (pending ++ s) 0).script ++ ss.flatten) := by
      rw [List.flatten_cons, ← List.append_assoc, sdata_append, h1, sdata_append,
        List.append_assoc]
    by_cases hok : ∃ n, (readFrom parse none buf (pending ++ s) 0).res = .ok n
    · obtain ⟨n, hn⟩ := hok
      have hinc := run_prompt (run_readFrom parse none buf (pending ++ s) 0) n hn
      obtain ⟨c2, rest, g1, g2, g3⟩ := ih _ (readFrom parse none buf (pending ++ s) 0).script hinc
      rw [runAll_cons_ok parse buf pending s ss n hn]
      refine ⟨c1 ++ c2, rest, ?_, ?_, g3⟩
      · rw [hsd, g1, List.append_assoc]
      · rw [← List.append_assoc, framesOf_append', h2, hn]
        simp [g2]
    · have hne : ∀ n, (readFrom parse none buf (pending ++ s) 0).res ≠ .ok n :=
        fun n hn => hok ⟨n, hn⟩
      rw [runAll_cons_err parse buf pending s ss hne]
      exact ⟨c1, _, hsd, h2, fun ⟨n, hn⟩ => absurd hn (hne n)⟩

end AmqModel.FrameBuffer
