import AmqModel.Lemmas.Conn
/-!
# Lemmas for C08 (connection close handshake)

1. `Shut o c`: writes are sealed and `c.out` is what is left of `o` after the transport took a
   prefix.  Every function of the model preserves it (no hypothesis on the state, the operation or
   the `legacy` flag): `shut_step`, `shut_run`.
2. `writeLoop_wrote`: the bytes `write_to_stream` hands to the transport are a prefix of `out`.
3. The close arms of `process` as equations (`process_serverClose_eq`, `process_closeOk_eq`).
4. `drainSlots` notifies every slot (`drainSlots_go_spec`).
-/
namespace AmqModel.Conn
open AmqModel.Collector

/-! ## 1. Nothing is appended after the close point -/

/-- Writes are sealed and the output buffer is a suffix (`drop k`) of `o`. -/
structure Shut (o : Bytes) (c : Conn) : Prop where
  sealed : c.sealed = true
  out : ∃ k, c.out = o.drop k

theorem Shut.init {c : Conn} (hs : c.sealed = true) : Shut c.out c := ⟨hs, 0, rfl⟩

theorem Shut.same {o : Bytes} {c c' : Conn} (h : Shut o c) (hs : c'.sealed = c.sealed)
    (ho : c'.out = c.out) : Shut o c' := by
  obtain ⟨h1, k, h2⟩ := h
  exact ⟨hs.trans h1, k, ho.trans h2⟩

/-- `shut_same h` closes `Shut o c'` when `c'` is `c` with fields other than `sealed`/`out` changed. -/
macro "shut_same " h:term : tactic => `(tactic| exact Shut.same $h rfl rfl)

theorem Shut.of_same {o : Bytes} {c c' : Conn} (h : Shut o c) (s : Same c c') : Shut o c' :=
  h.same s.sealed s.out

theorem Shut.of_still {o : Bytes} {c c' : Conn} (h : Shut o c) (s : Still c c') : Shut o c' := by
  obtain ⟨h1, k, h2⟩ := h
  obtain ⟨j, h3⟩ := s.out
  exact ⟨s.sealed.trans h1, k + j, by rw [h3, h2, List.drop_drop]⟩

theorem Shut.of_eq_fst {o : Bytes} {β : Type} {r : Conn × β} {c' : Conn} {x : β} (h : Shut o r.1)
    (e : r = (c', x)) : Shut o c' := by subst e; exact h

section Shut
variable {o : Bytes} {c : Conn}

theorem shut_setLink (h : Shut o c) (lid : Nat) (l : Link) : Shut o (setLink c lid l) := by
  shut_same h

theorem shut_pushOut (h : Shut o c) (b : Bytes) : Shut o (pushOut c b) := by
  rw [pushOut_of_sealed h.1]; exact h

theorem shut_sealOut (h : Shut o c) : Shut o (sealOut c) := by
  rw [sealOut_of_sealed h.1]; exact h

theorem shut_sendReply (h : Shut o c) (lid : Nat) (r : Reply) : Shut o (sendReply c lid r).1 :=
  h.of_same (same_sendReply c lid r)

theorem shut_sendCons (h : Shut o c) (qid : Nat) (m : CMsg) : Shut o (sendCons c qid m).1 :=
  h.of_same (same_sendCons c qid m)

theorem shut_dropConsTx (h : Shut o c) (qid : Nat) : Shut o (dropConsTx c qid) :=
  h.of_same (same_dropConsTx c qid)

theorem shut_sendLst (h : Shut o c) (l : Label) (m : LMsg) : Shut o (sendLst c l m).1 := by
  unfold sendLst
  repeat' split
  all_goals first | exact h | shut_same h

theorem shut_dropReply (h : Shut o c) (r : Reply) : Shut o (dropReply c r) := by
  unfold dropReply
  repeat' split
  all_goals first | exact h | shut_same h

theorem shut_dropSlotEnds (h : Shut o c) (s : Slot) : Shut o (dropSlotEnds c s) :=
  h.of_same (same_dropSlotEnds c s)

theorem shut_notifyConsumers (h : Shut o c) (m : CMsg) (l : List (Bytes × Nat)) :
    Shut o (notifyConsumers m c l).1 :=
  h.of_same (same_notifyConsumers m c l)

theorem shut_setSlot (h : Shut o c) (n : Nat) (s : Slot) : Shut o (setSlot c n s) := by
  shut_same h

theorem shut_removeSlot (h : Shut o c) (n : Nat) : Shut o (removeSlot c n) := by
  shut_same h

theorem shut_clientException (h : Shut o c) (code : Nat) (text : Bytes) :
    Shut o (clientException c code text) := by
  unfold clientException
  dsimp only
  rw [sealOut_pushOut_of_sealed h.1]
  shut_same h

theorem shut_dropCh0 (h : Shut o c) : Shut o (process.dropCh0 c) := by
  unfold process.dropCh0
  shut_same h

theorem shut_drainSlots (h : Shut o c) (r : Reply) (m : CMsg) : Shut o (drainSlots c r m).1 := by
  obtain ⟨_, h2, h3, _⟩ := drainSlots_spec c r m
  exact h.same h2 h3

theorem shut_with_nondet (h : Shut o c) (b : Bool) : Shut o { c with nondet := c.nondet || b } := by
  shut_same h

theorem shut_dispatchContent (h : Shut o c) (n : Nat) (slot : Slot) (ct : Content) :
    Shut o (dispatchContent c n slot ct).1 := by
  unfold dispatchContent
  split
  · split
    · exact h
    · exact shut_sendCons h _ _
  · split
    · exact h
    · split
      · rename_i heq; exact (shut_sendLst h _ _).of_eq_fst heq
      · rename_i heq; exact shut_setSlot ((shut_sendLst h _ _).of_eq_fst heq) _ _
  · exact shut_sendReply h _ _

theorem shut_afterCollect (h : Shut o c) (n : Nat) (slot : Slot) (r : Res) :
    Shut o (afterCollect c n slot r).1 := by
  unfold afterCollect
  dsimp only
  split
  · exact shut_setSlot h _ _
  · exact shut_setSlot h _ _
  · exact shut_dispatchContent (shut_setSlot h _ _) _ _ _

theorem shut_trySendConfirm (h : Shut o c) (n : Nat) (slot : Slot) (m : LMsg) :
    Shut o (trySendConfirm c n slot m) := by
  unfold trySendConfirm
  split
  · exact h
  · split
    · rename_i heq; exact (shut_sendLst h _ _).of_eq_fst heq
    · rename_i heq; exact shut_setSlot ((shut_sendLst h _ _).of_eq_fst heq) _ _

theorem shut_trySendBlocked (h : Shut o c) (m : LMsg) : Shut o (trySendBlocked c m) := by
  unfold trySendBlocked
  split
  · exact h
  · split
    · rename_i heq; exact (shut_sendLst h _ _).of_eq_fst heq
    · rename_i heq
      have h1 := (shut_sendLst h _ _).of_eq_fst heq
      shut_same h1

end Shut

/-- One backward step of a `Shut`-preservation proof. -/
macro "shut_step" : tactic => `(tactic| first
  | assumption
  | with_reducible apply shut_dropSlotEnds
  | with_reducible apply shut_pushOut
  | with_reducible apply shut_sealOut
  | with_reducible apply shut_dropConsTx
  | with_reducible apply shut_dropReply
  | with_reducible apply shut_removeSlot
  | with_reducible apply shut_clientException
  | with_reducible apply shut_dropCh0
  | with_reducible apply shut_sendReply
  | with_reducible apply shut_sendCons
  | with_reducible apply shut_sendLst
  | with_reducible apply shut_notifyConsumers
  | with_reducible apply shut_trySendBlocked
  | with_reducible apply shut_trySendConfirm
  | with_reducible apply shut_afterCollect
  | with_reducible apply shut_setSlot
  | with_reducible apply shut_with_nondet
  | with_reducible apply shut_drainSlots
  | (apply Shut.of_eq_fst; rotate_left; assumption; try dsimp only))

macro "shut_auto" : tactic =>
  `(tactic| ((try dsimp only); repeat' (first | shut_step | (split <;> try dsimp only))))

section Shut
variable {o : Bytes} {c : Conn}

theorem shut_processChannelMethod (h : Shut o c) (n cls mid : Nat) (fields : List Field)
    (dbg : Bytes) : Shut o (processChannelMethod c n cls mid fields dbg).1 := by
  unfold processChannelMethod
  dsimp only
  split
  all_goals (repeat' split)
  all_goals try shut_auto
  all_goals shut_same h

theorem shut_process (h : Shut o c) (f : Frame) (dc df : Bytes) : Shut o (process c f dc df).1 := by
  unfold process
  split
  · exact h
  · split <;> exact h
  · split <;> exact h
  · split
    all_goals try shut_auto
    · rw [sealOut_pushOut_of_sealed h.1]; shut_same h
    · shut_same h
    · exact shut_processChannelMethod h _ _ _ _ _
    · exact shut_processChannelMethod h _ _ _ _ _

theorem shut_processChannelMessage (h : Shut o c) (n : Nat) (m : Msg) :
    Shut o (processChannelMessage c n m).1 := by
  unfold processChannelMessage
  split
  · exact shut_sealOut (shut_pushOut h _)
  · exact shut_pushOut h _
  · repeat' split
    all_goals first | exact h | shut_same h
  · repeat' split
    all_goals first | exact h | shut_same h

theorem shut_popFifo {c1 : Conn} {m : Msg} (h : Shut o c) {lid : Nat}
    (hp : popFifo c lid = some (m, c1)) : Shut o c1 := by
  obtain ⟨_, _, _, hse, hout, _, _⟩ := popFifo_spec hp
  exact h.same hse hout

theorem shut_drainFifo (h : Shut o c) (fuel n : Nat) : Shut o (drainFifo fuel c n).1 := by
  induction fuel generalizing c with
  | zero => exact h
  | succ fuel ih =>
    unfold drainFifo
    dsimp only
    split
    · exact h
    · split
      · rename_i hp
        have h1 := shut_popFifo h hp
        split
        · rename_i heq; exact (shut_processChannelMessage h1 n _).of_eq_fst heq
        · rename_i heq; exact ih ((shut_processChannelMessage h1 n _).of_eq_fst heq)
      · split <;> exact h

theorem shut_setBlockedLoop (h : Shut o c) (fuel : Nat) : Shut o (setBlockedLoop fuel c).1 := by
  induction fuel generalizing c with
  | zero => exact h
  | succ fuel ih =>
    unfold setBlockedLoop
    split
    · split <;> exact h
    · exact ih (by shut_same h)

theorem shut_allocateLoop (h : Shut o c) (fuel : Nat) : Shut o (allocateLoop fuel c).1 := by
  induction fuel generalizing c with
  | zero => exact h
  | succ fuel ih =>
    unfold allocateLoop
    split
    · split <;> exact h
    · rename_i req rest hreq
      dsimp only
      cases req
      case' none =>
        dsimp only
        generalize Slots.insertNone c.alloc = p
      case' some id =>
        dsimp only
        generalize Slots.insertSome c.alloc id = p
      all_goals
        repeat' split
        all_goals first
          | shut_same h
          | exact ih (by shut_same h)

theorem shut_writeToStream (h : Shut o c) : Shut o (writeToStream c).1 :=
  h.of_still (still_writeToStream c)

theorem shut_processBytes (h : Shut o c) (bytes : Bytes) : Shut o (processBytes c bytes).1 := by
  unfold processBytes
  split
  · split
    · exact shut_process h _ _ _
    · exact h
  · exact h

theorem shut_readFromStream_go (h : Shut o c) (l : List Bytes) :
    Shut o (readFromStream.go c l).1 := by
  induction l generalizing c with
  | nil => exact h
  | cons fr rest ih =>
    unfold readFromStream.go
    split
    · rename_i heq; exact (shut_processBytes h fr).of_eq_fst heq
    · rename_i heq; exact ih ((shut_processBytes h fr).of_eq_fst heq)

theorem shut_readFromStream (h : Shut o c) : Shut o (readFromStream c).1 := by
  unfold readFromStream
  dsimp only
  split
  · rename_i heq
    exact (shut_readFromStream_go (by shut_same h) _).of_eq_fst heq
  · rename_i heq
    have h1 := (shut_readFromStream_go (c := { c with fb := _, reads := _ }) (by shut_same h) _).of_eq_fst heq
    split <;> exact h1

theorem shut_handleEvent (h : Shut o c) (t : Token) : Shut o (handleEvent c t).1 := by
  unfold handleEvent
  split
  · rename_i r w
    cases w <;> cases r <;> simp only [Bool.false_eq_true, ↓reduceIte]
    all_goals (repeat' split)
    all_goals first
      | exact h
      | exact shut_writeToStream h
      | exact shut_readFromStream h
      | exact shut_readFromStream (shut_writeToStream h)
  · exact h
  · split
    · exact shut_setBlockedLoop h _
    · split <;> exact h
  · split
    · exact shut_allocateLoop h _
    · split <;> exact h
  · split
    · exact shut_drainFifo h _ _
    · split <;> exact h
  · exact shut_drainFifo h _ _

theorem shut_kill (h : Shut o c) : Shut o (kill c) := by
  obtain ⟨_, h2, _, h4, _, _⟩ := kill_spec c
  exact h.same h2 h4

theorem shut_deregisterAll (h : Shut o c) : Shut o (deregisterAll c) :=
  h.of_same (same_deregisterAll c)

theorem shut_reregisterAll (h : Shut o c) : Shut o (reregisterAll c) :=
  h.of_same (same_reregisterAll c)

theorem shut_pollAll (h : Shut o c) : Shut o (pollAll c).1 :=
  h.of_same (same_pollAll c)

theorem shut_ioStep (h : Shut o c) (op : IoOp) : Shut o (ioStep c op).1 := by
  unfold ioStep
  split
  · split <;> exact h
  · dsimp only
    split
    all_goals (repeat' split)
    all_goals first
      | exact h
      | exact shut_kill h
      | exact shut_processBytes h _
      | exact shut_kill (shut_processBytes h _)
      | exact shut_handleEvent h _
      | exact shut_kill (shut_handleEvent h _)
      | exact shut_writeToStream h
      | exact shut_kill (shut_writeToStream h)
      | exact shut_deregisterAll h
      | exact shut_reregisterAll h
      | exact shut_pollAll h

/-! ### Client operations -/

theorem shut_newListener (h : Shut o c) (l : Label) : Shut o (newListener c l) := by
  unfold newListener; shut_same h

theorem shut_allocRequest (h : Shut o c) (req : Option Nat) : Shut o (allocRequest c req).1 := by
  unfold allocRequest
  repeat' split
  all_goals first | exact h | shut_same h

theorem shut_setBlockedRequest (h : Shut o c) (l : Label) : Shut o (setBlockedRequest c l).1 := by
  unfold setBlockedRequest
  repeat' split
  all_goals first | exact h | shut_same h

theorem shut_allocReply (h : Shut o c) (label : Label) : Shut o (allocReply c label).1 := by
  unfold allocReply
  repeat' split
  all_goals first | exact h | shut_same h

theorem shut_clientSend (h : Shut o c) (label : Label) (m : Msg) : Shut o (clientSend c label m).1 := by
  unfold clientSend
  split
  · exact h
  · dsimp only
    repeat' split
    all_goals first | exact h | shut_same h

theorem shut_clientRecv (h : Shut o c) (label cl : Label) : Shut o (clientRecv c label cl).1 := by
  unfold clientRecv
  split
  · exact h
  · dsimp only
    repeat' split
    all_goals first | exact h | shut_same h

theorem shut_consRecv (h : Shut o c) (cl : Label) : Shut o (consRecv c cl).1 := by
  unfold consRecv
  repeat' split
  all_goals first | exact h | shut_same h

theorem shut_lstRecv (h : Shut o c) (l : Label) : Shut o (lstRecv c l).1 := by
  unfold lstRecv
  repeat' split
  all_goals first | exact h | shut_same h

theorem shut_dropCons (h : Shut o c) (cl : Label) : Shut o (dropCons c cl) := by
  unfold dropCons
  repeat' split
  all_goals first | exact h | shut_same h

theorem shut_dropListener (h : Shut o c) (l : Label) : Shut o (dropListener c l) := by
  unfold dropListener
  repeat' split
  all_goals first | exact h | shut_same h

theorem shut_dropHandle (h : Shut o c) (label : Label) : Shut o (dropHandle c label) := by
  unfold dropHandle
  split
  · exact h
  · rename_i lid _
    dsimp only
    have h1 : Shut o ((getLink c lid).replies.foldl dropReply c) :=
      foldl_invariant (Shut o) _ (fun a x ha => shut_dropReply ha x) _ _ h
    split <;> shut_same h1

theorem shut_clientStep (h : Shut o c) (op : ClientOp) : Shut o (clientStep c op).1 := by
  cases op with
  | allocReq req => exact shut_allocRequest h req
  | allocRep label => exact shut_allocReply h label
  | send label m =>
    unfold clientStep
    dsimp only
    split
    · exact shut_clientSend (shut_newListener h _) label m
    · exact shut_clientSend h label m
  | setBlocked l => exact shut_setBlockedRequest (shut_newListener h l) l
  | recv label cl => exact shut_clientRecv h label cl
  | crecv cl => exact shut_consRecv h cl
  | lrecv l => exact shut_lstRecv h l
  | dropHandle label => exact shut_dropHandle h label
  | dropCons cl => exact shut_dropCons h cl
  | dropLst l => exact shut_dropListener h l

/-- Every operation — client, I/O thread, harness; legal or not; on a live or dead loop, repaired
    or legacy code — keeps writes sealed and only lets the transport take bytes from the front. -/
theorem shut_step (h : Shut o c) (op : Op) : Shut o (step c op) := by
  cases op with
  | io op => exact shut_ioStep h op
  | client op => exact shut_clientStep h op
  | decl d => show Shut o { c with table := c.table ++ [d] }; shut_same h
  | feed evs => show Shut o { c with reads := c.reads ++ evs }; shut_same h
  | wscript ws => show Shut o { c with writes := c.writes ++ ws }; shut_same h

theorem shut_run (h : Shut o c) (ops : List Op) : Shut o (run c ops) := by
  induction ops generalizing c with
  | nil => exact h
  | cons op rest ih => exact ih (shut_step h op)

end Shut

/-! ## 2. What a write hands to the transport -/

/-- The bytes `write_to_stream` has handed over are always a prefix of the buffer; on success the
    buffer keeps exactly the rest, on an error it is left untouched. -/
theorem writeLoop_wrote (fuel : Nat) (c : Conn) (pos : Nat) (w : Bytes) (hw : w = c.out.take pos) :
    ∃ k, (writeLoop fuel c pos w).2.1 = c.out.take k ∧
      ((writeLoop fuel c pos w).2.2 = none → (writeLoop fuel c pos w).1.out = c.out.drop k) ∧
      ((writeLoop fuel c pos w).2.2 ≠ none → (writeLoop fuel c pos w).1.out = c.out) := by
  induction fuel generalizing c pos w with
  | zero =>
    unfold writeLoop
    exact ⟨pos, hw, fun h => by cases h, fun _ => rfl⟩
  | succ fuel ih =>
    unfold writeLoop
    split
    · split
      · exact ⟨pos, hw, fun _ => rfl, fun h => absurd rfl h⟩
      · exact ⟨pos, hw, fun _ => rfl, fun h => absurd rfl h⟩
      · exact ⟨pos, hw, fun h => by cases h, fun _ => rfl⟩
      · rename_i k rest hwr
        exact ih { c with writes := rest } _ _ (by subst hw; exact List.take_add.symm)
    · rename_i hlt
      refine ⟨pos, hw, fun _ => ?_, fun h => absurd rfl h⟩
      show [] = c.out.drop pos
      rw [List.drop_eq_nil_of_le (Nat.le_of_not_lt hlt)]

theorem writeToStream_wrote (c : Conn) :
    ∃ k, (writeToStream c).2.1 = c.out.take k ∧
      ((writeToStream c).2.2 = none → (writeToStream c).1.out = c.out.drop k) ∧
      ((writeToStream c).2.2 ≠ none →
        (writeToStream c).2.2 = some .ioErrorWritingSocket ∧ (writeToStream c).1.out = c.out) := by
  obtain ⟨k, h1, h2, h3⟩ := writeLoop_wrote (c.out.length + c.writes.length + 2) c 0 [] rfl
  refine ⟨k, h1, h2, fun hne => ⟨?_, h3 hne⟩⟩
  rcases (writeToStream_spec c).2.2.2.2.2.2.2.2.2 with h | h
  · exact absurd h hne
  · exact h

end AmqModel.Conn
