import AmqModel.Lemmas.Conn
import AmqModel.Lemmas.ConnC13
/-!
# Lemmas for C08 (connection close handshake)

1. `Shut o c`: writes are sealed and `c.out` is what is left of `o` after the transport took a
   prefix.  Every function of the model preserves it (no hypothesis on the state, the operation or
   the `legacy` flag): `shut_step`, `shut_run`.
2. `writeLoop_wrote`: the bytes `write_to_stream` hands to the transport are a prefix of `out`.
3. The close arms of `process` as equations (`process_serverClose_eq`, `process_closeOk_eq`).
4. `drainSlots` notifies every slot (`drainSlots_go_spec`).
5. The client's close request first takes what the channels have queued (fix D17):
   `takeQueued_sends`, `takeAllQueued_sends`, `close_writes_queued_first`.
-/
namespace AmqModel.Conn
open AmqModel.Collector

/-! ## 1. Nothing is appended after the close point -/

/-- Writes are sealed and the output buffer is a suffix (`drop k`) of `o`. -/
structure Shut (o : Bytes) (c : Conn) : Prop where
  sealed : c.sealed = true
  out : ∃ k, c.out = o.drop k

theorem Shut.init {c : Conn} (hs : c.sealed = true) : Shut c.out c := ⟨hs, 0, rfl⟩

theorem Shut.same {o : Bytes} {c c' : Conn} (h : Shut o c) (hs : c'.sealed = c.sealed)
    (ho : c'.out = c.out) : Shut o c' := by
  obtain ⟨h1, k, h2⟩ := h
  exact ⟨hs.trans h1, k, ho.trans h2⟩

/-- `shut_same h` closes `Shut o c'` when `c'` is `c` with fields other than `sealed`/`out` changed. -/
macro "shut_same " h:term : tactic => `(tactic| exact Shut.same $h rfl rfl)

theorem Shut.of_same {o : Bytes} {c c' : Conn} (h : Shut o c) (s : Same c c') : Shut o c' :=
  h.same s.sealed s.out

theorem Shut.of_still {o : Bytes} {c c' : Conn} (h : Shut o c) (s : Still c c') : Shut o c' := by
  obtain ⟨h1, k, h2⟩ := h
  obtain ⟨j, h3⟩ := s.out
  exact ⟨s.sealed.trans h1, k + j, by rw [h3, h2, List.drop_drop]⟩

theorem Shut.of_eq_fst {o : Bytes} {β : Type} {r : Conn × β} {c' : Conn} {x : β} (h : Shut o r.1)
    (e : r = (c', x)) : Shut o c' := by subst e; exact h

section Shut
variable {o : Bytes} {c : Conn}

theorem shut_setLink (h : Shut o c) (lid : Nat) (l : Link) : Shut o (setLink c lid l) := by
  shut_same h

theorem shut_pushOut (h : Shut o c) (b : Bytes) : Shut o (pushOut c b) := by
  rw [pushOut_of_sealed h.1]; exact h

theorem shut_sealOut (h : Shut o c) : Shut o (sealOut c) := by
  rw [sealOut_of_sealed h.1]; exact h

theorem shut_sendReply (h : Shut o c) (lid : Nat) (r : Reply) : Shut o (sendReply c lid r).1 :=
  h.of_same (same_sendReply c lid r)

theorem shut_sendCons (h : Shut o c) (qid : Nat) (m : CMsg) : Shut o (sendCons c qid m).1 :=
  h.of_same (same_sendCons c qid m)

theorem shut_dropConsTx (h : Shut o c) (qid : Nat) : Shut o (dropConsTx c qid) :=
  h.of_same (same_dropConsTx c qid)

theorem shut_sendLst (h : Shut o c) (l : Label) (m : LMsg) : Shut o (sendLst c l m).1 := by
  unfold sendLst
  repeat' split
  all_goals first | exact h | shut_same h

theorem shut_dropReply (h : Shut o c) (r : Reply) : Shut o (dropReply c r) := by
  unfold dropReply
  repeat' split
  all_goals first | exact h | shut_same h

theorem shut_dropSlotEnds (h : Shut o c) (s : Slot) : Shut o (dropSlotEnds c s) :=
  h.of_same (same_dropSlotEnds c s)

theorem shut_notifyConsumers (h : Shut o c) (m : CMsg) (l : List (Bytes × Nat)) :
    Shut o (notifyConsumers m c l).1 :=
  h.of_same (same_notifyConsumers m c l)

theorem shut_setSlot (h : Shut o c) (n : Nat) (s : Slot) : Shut o (setSlot c n s) := by
  shut_same h

theorem shut_removeSlot (h : Shut o c) (n : Nat) : Shut o (removeSlot c n) := by
  shut_same h

theorem shut_clientException (h : Shut o c) (code : Nat) (text : Bytes) :
    Shut o (clientException c code text) := by
  unfold clientException
  dsimp only
  rw [sealOut_pushOut_of_sealed h.1]
  shut_same h

theorem shut_dropCh0 (h : Shut o c) : Shut o (process.dropCh0 c) := by
  unfold process.dropCh0
  shut_same h

theorem shut_drainSlots (h : Shut o c) (r : Reply) (m : CMsg) : Shut o (drainSlots c r m).1 := by
  obtain ⟨_, h2, h3, _⟩ := drainSlots_spec c r m
  exact h.same h2 h3

theorem shut_with_nondet (h : Shut o c) (b : Bool) : Shut o { c with nondet := c.nondet || b } := by
  shut_same h

theorem shut_dispatchContent (h : Shut o c) (n : Nat) (slot : Slot) (ct : Content) :
    Shut o (dispatchContent c n slot ct).1 := by
  unfold dispatchContent
  split
  · split
    · exact h
    · exact shut_sendCons h _ _
  · split
    · exact h
    · split
      · rename_i heq; exact (shut_sendLst h _ _).of_eq_fst heq
      · rename_i heq; exact shut_setSlot ((shut_sendLst h _ _).of_eq_fst heq) _ _
  · exact shut_sendReply h _ _

theorem shut_afterCollect (h : Shut o c) (n : Nat) (slot : Slot) (r : Res) :
    Shut o (afterCollect c n slot r).1 := by
  unfold afterCollect
  dsimp only
  split
  · exact shut_setSlot h _ _
  · exact shut_setSlot h _ _
  · exact shut_dispatchContent (shut_setSlot h _ _) _ _ _

theorem shut_trySendConfirm (h : Shut o c) (n : Nat) (slot : Slot) (m : LMsg) :
    Shut o (trySendConfirm c n slot m) := by
  unfold trySendConfirm
  split
  · exact h
  · split
    · rename_i heq; exact (shut_sendLst h _ _).of_eq_fst heq
    · rename_i heq; exact shut_setSlot ((shut_sendLst h _ _).of_eq_fst heq) _ _

theorem shut_trySendBlocked (h : Shut o c) (m : LMsg) : Shut o (trySendBlocked c m) := by
  unfold trySendBlocked
  split
  · exact h
  · split
    · rename_i heq; exact (shut_sendLst h _ _).of_eq_fst heq
    · rename_i heq
      have h1 := (shut_sendLst h _ _).of_eq_fst heq
      shut_same h1

end Shut

/-- One backward step of a `Shut`-preservation proof. -/
macro "shut_step" : tactic => `(tactic| first
  | assumption
  | with_reducible apply shut_dropSlotEnds
  | with_reducible apply shut_pushOut
  | with_reducible apply shut_sealOut
  | with_reducible apply shut_dropConsTx
  | with_reducible apply shut_dropReply
  | with_reducible apply shut_removeSlot
  | with_reducible apply shut_clientException
  | with_reducible apply shut_dropCh0
  | with_reducible apply shut_sendReply
  | with_reducible apply shut_sendCons
  | with_reducible apply shut_sendLst
  | with_reducible apply shut_notifyConsumers
  | with_reducible apply shut_trySendBlocked
  | with_reducible apply shut_trySendConfirm
  | with_reducible apply shut_afterCollect
  | with_reducible apply shut_setSlot
  | with_reducible apply shut_with_nondet
  | with_reducible apply shut_drainSlots
  | (apply Shut.of_eq_fst; rotate_left; assumption; try dsimp only))

macro "shut_auto" : tactic =>
  `(tactic| ((try dsimp only); repeat' (first | shut_step | (split <;> try dsimp only))))

section Shut
variable {o : Bytes} {c : Conn}

theorem shut_processChannelMethod (h : Shut o c) (n cls mid : Nat) (fields : List Field)
    (dbg : Bytes) : Shut o (processChannelMethod c n cls mid fields dbg).1 := by
  unfold processChannelMethod
  dsimp only
  split
  all_goals (repeat' split)
  all_goals try shut_auto
  all_goals shut_same h

theorem shut_process (h : Shut o c) (f : Frame) (dc df : Bytes) : Shut o (process c f dc df).1 := by
  unfold process
  split
  · exact h
  · split <;> exact h
  · split <;> exact h
  · split
    all_goals try shut_auto
    · rw [sealOut_pushOut_of_sealed h.1]; shut_same h
    · shut_same h
    · exact shut_processChannelMethod h _ _ _ _ _
    · exact shut_processChannelMethod h _ _ _ _ _

theorem shut_processPlainMessage (h : Shut o c) (n : Nat) (m : Msg) :
    Shut o (processPlainMessage c n m).1 := by
  unfold processPlainMessage
  split
  · exact shut_sealOut (shut_pushOut h _)
  · exact shut_pushOut h _
  · repeat' split
    all_goals first | exact h | shut_same h
  · repeat' split
    all_goals first | exact h | shut_same h

theorem shut_popFifo {c1 : Conn} {m : Msg} (h : Shut o c) {lid : Nat}
    (hp : popFifo c lid = some (m, c1)) : Shut o c1 := by
  obtain ⟨_, _, _, hse, hout, _, _⟩ := popFifo_spec hp
  exact h.same hse hout

theorem shut_processChannelMessage (h : Shut o c) (n : Nat) (m : Msg) :
    Shut o (processChannelMessage c n m).1 :=
  processChannelMessage_ind (P := Shut o)
    (fun _ n _ m _ h _ hp => shut_processPlainMessage (shut_popFifo h hp) n m)
    (fun _ h' => shut_processPlainMessage h' n m) h

theorem shut_drainFifo (h : Shut o c) (fuel n : Nat) : Shut o (drainFifo fuel c n).1 := by
  induction fuel generalizing c with
  | zero => exact h
  | succ fuel ih =>
    unfold drainFifo
    dsimp only
    split
    · exact h
    · split
      · rename_i hp
        have h1 := shut_popFifo h hp
        split
        · rename_i heq; exact (shut_processChannelMessage h1 n _).of_eq_fst heq
        · rename_i heq; exact ih ((shut_processChannelMessage h1 n _).of_eq_fst heq)
      · split <;> exact h

theorem shut_setBlockedLoop (h : Shut o c) (fuel : Nat) : Shut o (setBlockedLoop fuel c).1 := by
  induction fuel generalizing c with
  | zero => exact h
  | succ fuel ih =>
    unfold setBlockedLoop
    split
    · split <;> exact h
    · exact ih (by shut_same h)

theorem shut_ite {α : Type} {p : Prop} [Decidable p] {a b : Conn × α} (ha : Shut o a.1)
    (hb : Shut o b.1) : Shut o (if p then a else b).1 := by
  split <;> assumption

theorem shut_allocateLoop (h : Shut o c) (fuel : Nat) : Shut o (allocateLoop fuel c).1 := by
  induction fuel generalizing c with
  | zero => exact h
  | succ fuel ih =>
    unfold allocateLoop
    split
    · split <;> exact h
    · rename_i req rest hreq
      dsimp only
      cases req
      case' none =>
        dsimp only
        generalize Slots.insertNone c.alloc = p
      case' some id =>
        dsimp only
        generalize Slots.insertSome c.alloc id = p
      all_goals
        split
        · shut_same h
        · exact shut_ite (ih (by shut_same h)) (shut_ite (by shut_same h) (ih (by shut_same h)))
        · exact shut_ite (ih (by shut_same h)) (shut_ite (by shut_same h) (ih (by shut_same h)))

theorem shut_writeToStream (h : Shut o c) : Shut o (writeToStream c).1 :=
  h.of_still (still_writeToStream c)

theorem shut_processBytes (h : Shut o c) (bytes : Bytes) : Shut o (processBytes c bytes).1 := by
  unfold processBytes
  split
  · split
    · exact shut_process h _ _ _
    · exact h
  · exact h

theorem shut_readFromStream_go (h : Shut o c) (l : List Bytes) :
    Shut o (readFromStream.go c l).1 := by
  induction l generalizing c with
  | nil => exact h
  | cons fr rest ih =>
    unfold readFromStream.go
    split
    · rename_i heq; exact (shut_processBytes h fr).of_eq_fst heq
    · rename_i heq; exact ih ((shut_processBytes h fr).of_eq_fst heq)

theorem shut_readFromStream (h : Shut o c) : Shut o (readFromStream c).1 := by
  unfold readFromStream
  dsimp only
  split
  · rename_i heq
    exact (shut_readFromStream_go (by shut_same h) _).of_eq_fst heq
  · rename_i heq
    have h1 := (shut_readFromStream_go (c := { c with fb := _, reads := _ }) (by shut_same h) _).of_eq_fst heq
    split <;> exact h1

theorem shut_handleEvent (h : Shut o c) (t : Token) : Shut o (handleEvent c t).1 := by
  unfold handleEvent
  split
  · rename_i r w
    cases w <;> cases r <;> simp only [Bool.false_eq_true, ↓reduceIte]
    all_goals (repeat' split)
    all_goals first
      | exact h
      | exact shut_writeToStream h
      | exact shut_readFromStream h
      | exact shut_readFromStream (shut_writeToStream h)
  · exact h
  · split
    · exact shut_setBlockedLoop h _
    · split <;> exact h
  · split
    · exact shut_allocateLoop h _
    · split <;> exact h
  · split
    · exact shut_drainFifo h _ _
    · split <;> exact h
  · exact shut_drainFifo h _ _

theorem shut_kill (h : Shut o c) : Shut o (kill c) := by
  obtain ⟨_, h2, _, h4, _, _⟩ := kill_spec c
  exact h.same h2 h4

theorem shut_deregisterAll (h : Shut o c) : Shut o (deregisterAll c) :=
  h.of_same (same_deregisterAll c)

theorem shut_reregisterAll (h : Shut o c) : Shut o (reregisterAll c) :=
  h.of_same (same_reregisterAll c)

theorem shut_pollAll (h : Shut o c) : Shut o (pollAll c).1 :=
  h.of_same (same_pollAll c)

theorem shut_ioStep (h : Shut o c) (op : IoOp) : Shut o (ioStep c op).1 := by
  unfold ioStep
  split
  · split <;> exact h
  · dsimp only
    split
    all_goals (repeat' split)
    all_goals first
      | exact h
      | exact shut_kill h
      | exact shut_processBytes h _
      | exact shut_kill (shut_processBytes h _)
      | exact shut_handleEvent h _
      | exact shut_kill (shut_handleEvent h _)
      | exact shut_writeToStream h
      | exact shut_kill (shut_writeToStream h)
      | exact shut_deregisterAll h
      | exact shut_reregisterAll h
      | exact shut_pollAll h

/-! ### Client operations -/

theorem shut_newListener (h : Shut o c) (l : Label) : Shut o (newListener c l) := by
  unfold newListener; shut_same h

theorem shut_allocRequest (h : Shut o c) (req : Option Nat) : Shut o (allocRequest c req).1 := by
  unfold allocRequest
  repeat' split
  all_goals first | exact h | shut_same h

theorem shut_setBlockedRequest (h : Shut o c) (l : Label) : Shut o (setBlockedRequest c l).1 := by
  unfold setBlockedRequest
  repeat' split
  all_goals first | exact h | shut_same h

theorem shut_allocReply (h : Shut o c) (label : Label) : Shut o (allocReply c label).1 := by
  unfold allocReply
  repeat' split
  all_goals first | exact h | shut_same h

theorem shut_clientSend (h : Shut o c) (label : Label) (m : Msg) : Shut o (clientSend c label m).1 := by
  unfold clientSend
  split
  · exact h
  · dsimp only
    repeat' split
    all_goals first | exact h | shut_same h

theorem shut_clientRecv (h : Shut o c) (label cl : Label) : Shut o (clientRecv c label cl).1 := by
  unfold clientRecv
  split
  · exact h
  · dsimp only
    repeat' split
    all_goals first | exact h | shut_same h

theorem shut_consRecv (h : Shut o c) (cl : Label) : Shut o (consRecv c cl).1 := by
  unfold consRecv
  repeat' split
  all_goals first | exact h | shut_same h

theorem shut_lstRecv (h : Shut o c) (l : Label) : Shut o (lstRecv c l).1 := by
  unfold lstRecv
  repeat' split
  all_goals first | exact h | shut_same h

theorem shut_dropCons (h : Shut o c) (cl : Label) : Shut o (dropCons c cl) := by
  unfold dropCons
  repeat' split
  all_goals first | exact h | shut_same h

theorem shut_dropListener (h : Shut o c) (l : Label) : Shut o (dropListener c l) := by
  unfold dropListener
  repeat' split
  all_goals first | exact h | shut_same h

theorem shut_dropHandle (h : Shut o c) (label : Label) : Shut o (dropHandle c label) := by
  unfold dropHandle
  split
  · exact h
  · rename_i lid _
    dsimp only
    have h1 : Shut o ((getLink c lid).replies.foldl dropReply c) :=
      foldl_invariant (Shut o) _ (fun a x ha => shut_dropReply ha x) _ _ h
    split <;> shut_same h1

theorem shut_clientStep (h : Shut o c) (op : ClientOp) : Shut o (clientStep c op).1 := by
  cases op with
  | allocReq req => exact shut_allocRequest h req
  | allocRep label => exact shut_allocReply h label
  | send label m =>
    unfold clientStep
    dsimp only
    split
    · exact shut_clientSend (shut_newListener h _) label m
    · exact shut_clientSend h label m
  | setBlocked l => exact shut_setBlockedRequest (shut_newListener h l) l
  | recv label cl => exact shut_clientRecv h label cl
  | crecv cl => exact shut_consRecv h cl
  | lrecv l => exact shut_lstRecv h l
  | dropHandle label => exact shut_dropHandle h label
  | dropCons cl => exact shut_dropCons h cl
  | dropLst l => exact shut_dropListener h l

/-- Every operation — client, I/O thread, harness; legal or not; on a live or dead loop, repaired
    or legacy code — keeps writes sealed and only lets the transport take bytes from the front. -/
theorem shut_step (h : Shut o c) (op : Op) : Shut o (step c op) := by
  cases op with
  | io op => exact shut_ioStep h op
  | client op => exact shut_clientStep h op
  | decl d => show Shut o { c with table := c.table ++ [d] }; shut_same h
  | feed evs => show Shut o { c with reads := c.reads ++ evs }; shut_same h
  | wscript ws => show Shut o { c with writes := c.writes ++ ws }; shut_same h

theorem shut_run (h : Shut o c) (ops : List Op) : Shut o (run c ops) := by
  induction ops generalizing c with
  | nil => exact h
  | cons op rest ih => exact ih (shut_step h op)

end Shut

/-! ## 2. What a write hands to the transport -/

/-- The bytes `write_to_stream` has handed over are always a prefix of the buffer; on success the
    buffer keeps exactly the rest, on an error it is left untouched. -/
theorem writeLoop_wrote (fuel : Nat) (c : Conn) (pos : Nat) (w : Bytes) (hw : w = c.out.take pos) :
    ∃ k, (writeLoop fuel c pos w).2.1 = c.out.take k ∧
      ((writeLoop fuel c pos w).2.2 = none → (writeLoop fuel c pos w).1.out = c.out.drop k) ∧
      ((writeLoop fuel c pos w).2.2 ≠ none → (writeLoop fuel c pos w).1.out = c.out) := by
  induction fuel generalizing c pos w with
  | zero =>
    unfold writeLoop
    exact ⟨pos, hw, fun h => (by cases h), fun _ => rfl⟩
  | succ fuel ih =>
    unfold writeLoop
    split
    · split
      · exact ⟨pos, hw, fun _ => rfl, fun h => absurd rfl h⟩
      · exact ⟨pos, hw, fun _ => rfl, fun h => absurd rfl h⟩
      · exact ⟨pos, hw, fun h => (by cases h), fun _ => rfl⟩
      · rename_i k rest hwr
        exact ih { c with writes := rest } _ _ (by subst hw; exact List.take_add.symm)
    · rename_i hlt
      refine ⟨pos, hw, fun _ => ?_, fun h => absurd rfl h⟩
      show [] = c.out.drop pos
      rw [List.drop_eq_nil_of_le (Nat.le_of_not_lt hlt)]

theorem writeToStream_wrote (c : Conn) :
    ∃ k, (writeToStream c).2.1 = c.out.take k ∧
      ((writeToStream c).2.2 = none → (writeToStream c).1.out = c.out.drop k) ∧
      ((writeToStream c).2.2 ≠ none →
        (writeToStream c).2.2 = some .ioErrorWritingSocket ∧ (writeToStream c).1.out = c.out) := by
  obtain ⟨k, h1, h2, h3⟩ := writeLoop_wrote (c.out.length + c.writes.length + 2) c 0 [] rfl
  refine ⟨k, h1, h2, fun hne => ⟨?_, h3 hne⟩⟩
  rcases (writeToStream_spec c).2.2.2.2.2.2.2.2.2 with h | h
  · exact absurd h hne
  · exact h

/-! ## 3. The close arms of `process` -/

/-- What both close arms do after their own first step: the state changes, the channel-0 slot
    (owned by the old `Steady` value) and the pending channel-0 requests are dropped. -/
def closeState (c : Conn) (st' : CSt) : Conn :=
  { (setLink { c with st := st' } 0
      { (getLink { c with st := st' } 0) with ioAlive := false, fifo := [] }) with
    blockedL := none, allocReq := [], blockedFifo := [] }

@[simp] theorem closeState_slots (c : Conn) (st' : CSt) : (closeState c st').slots = c.slots := rfl
@[simp] theorem closeState_cqs (c : Conn) (st' : CSt) : (closeState c st').cqs = c.cqs := rfl
@[simp] theorem closeState_st (c : Conn) (st' : CSt) : (closeState c st').st = st' := rfl
@[simp] theorem closeState_out (c : Conn) (st' : CSt) : (closeState c st').out = c.out := rfl
@[simp] theorem closeState_sealed (c : Conn) (st' : CSt) : (closeState c st').sealed = c.sealed := rfl

theorem getLink_closeState_ne (c : Conn) (st' : CSt) {lid : Nat} (h : lid ≠ 0) :
    getLink (closeState c st') lid = getLink c lid := by
  have e1 : getLink (closeState c st') lid =
      getLink (setLink { c with st := st' } 0
        { (getLink { c with st := st' } 0) with ioAlive := false, fifo := [] }) lid :=
    getLink_congr rfl lid
  rw [e1, getLink_setLink_ne _ (fun e => h e.symm)]
  exact getLink_congr rfl lid

theorem getLink_closeState_zero (c : Conn) (st' : CSt) :
    getLink (closeState c st') 0 = { (getLink c 0) with ioAlive := false, fifo := [] } := by
  have e1 : getLink (closeState c st') 0 =
      getLink (setLink { c with st := st' } 0
        { (getLink { c with st := st' } 0) with ioAlive := false, fifo := [] }) 0 :=
    getLink_congr rfl 0
  rw [e1, getLink_setLink_self]
  have e2 : getLink { c with st := st' } 0 = getLink c 0 := getLink_congr rfl 0
  rw [e2]

/-- The server's Connection.Close in `Steady`. -/
theorem process_serverClose_eq {c : Conn} (hs : c.st = .steady) (code : Nat) (text dc df : Bytes) :
    process c (.method 0 10 50 [.nat code, .bytes text]) dc df =
      drainSlots (closeState (sealOut (pushOut c connectionCloseOk)) (.serverClosing code text))
        (.err (.serverClosedConnection code text)) (.serverClosedConnection code text) := by
  unfold process
  split
  all_goals first | (rename_i h; rw [hs] at h; cases h; done) | skip
  rfl

/-- The server's Connection.CloseOk in `Steady`, the connection's own handle alive with room. -/
theorem process_closeOk_eq {c : Conn} (hs : c.st = .steady) (fields : List Field) (dc df : Bytes)
    (halive : (getLink c 0).clientAlive = true) (hroom : (getLink c 0).replies.length < 2) :
    process c (.method 0 10 51 fields) dc df =
      drainSlots (closeState (setLink c 0
          { (getLink c 0) with replies := (getLink c 0).replies ++ [.method 10 51 []] }) .clientClosed)
        (.err .clientClosedConnection) .clientClosedConnection := by
  unfold process
  split
  all_goals first | (rename_i h; rw [hs] at h; cases h; done) | skip
  dsimp only
  rw [if_neg (by rw [halive]; decide), if_neg (Nat.not_le.mpr hroom)]
  rfl

/-- `drainSlots` with no slot open. -/
theorem drainSlots_nil {c : Conn} (h : c.slots = []) (r : Reply) (m : CMsg) :
    drainSlots c r m = ({ c with slots := [], alloc := (Slots.drain c.alloc).1 }, none) := by
  unfold drainSlots
  rw [h]
  rfl

/-! ## 4. `drainSlots` notifies every slot -/

theorem sendReply_ok {c : Conn} {lid : Nat} (ha : (getLink c lid).clientAlive = true)
    (hr : (getLink c lid).replies.length < 2) (r : Reply) :
    sendReply c lid r =
      (setLink c lid { (getLink c lid) with replies := (getLink c lid).replies ++ [r] }, none) := by
  unfold sendReply
  dsimp only
  rw [if_neg (by rw [ha]; decide), if_neg (Nat.not_le.mpr hr)]

theorem sendCons_ok {c : Conn} {qid : Nat} {q : CQ} (hq : lookupN qid c.cqs = some q)
    (hrx : q.rxAlive = true) (m : CMsg) :
    sendCons c qid m = ({ c with cqs := setN qid { q with msgs := q.msgs ++ [m] } c.cqs }, none) := by
  unfold sendCons
  rw [hq]
  dsimp only
  rw [if_neg (by rw [hrx]; decide)]

theorem dropConsTx_some {c : Conn} {qid : Nat} {q : CQ} (hq : lookupN qid c.cqs = some q) :
    dropConsTx c qid = { c with cqs := setN qid { q with txAlive := false } c.cqs } := by
  unfold dropConsTx
  rw [hq]

@[simp] theorem dropConsTx_links (c : Conn) (qid : Nat) : (dropConsTx c qid).links = c.links := by
  unfold dropConsTx; split <;> rfl

theorem lookupN_dropConsTx_ne (c : Conn) {qid j : Nat} (h : qid ≠ j) :
    lookupN j (dropConsTx c qid).cqs = lookupN j c.cqs := by
  unfold dropConsTx
  split
  · exact lookupN_setN_ne h _ _
  · rfl

/-- Dropping a sender that is already gone changes nothing. -/
theorem lookupN_dropConsTx_off (c : Conn) (qid : Nat) {j : Nat} {q : CQ}
    (hq : lookupN j c.cqs = some q) (hoff : q.txAlive = false) :
    lookupN j (dropConsTx c qid).cqs = some q := by
  by_cases h : qid = j
  · subst h
    rw [dropConsTx_some hq]
    show lookupN qid (setN qid _ c.cqs) = some q
    rw [lookupN_setN_self]
    cases q
    simp only at hoff
    subst hoff
    rfl
  · rw [lookupN_dropConsTx_ne c h]; exact hq

theorem foldl_dropConsTx_links (c : Conn) (l : List (Bytes × Nat)) :
    (l.foldl (fun acc (x : Bytes × Nat) => dropConsTx acc x.2) c).links = c.links := by
  induction l generalizing c with
  | nil => rfl
  | cons x r ih => exact (ih _).trans (dropConsTx_links c x.2)

theorem foldl_dropConsTx_ne (c : Conn) (l : List (Bytes × Nat)) {j : Nat}
    (h : j ∉ l.map (·.2)) :
    lookupN j (l.foldl (fun acc (x : Bytes × Nat) => dropConsTx acc x.2) c).cqs = lookupN j c.cqs := by
  induction l generalizing c with
  | nil => rfl
  | cons x r ih =>
    have h1 : x.2 ≠ j := fun e => h (by rw [List.map_cons, e]; exact List.mem_cons_self)
    have h2 : j ∉ r.map (·.2) := fun e => h (by rw [List.map_cons]; exact List.mem_cons_of_mem _ e)
    exact (ih _ h2).trans (lookupN_dropConsTx_ne c h1)

theorem foldl_dropConsTx_off (c : Conn) (l : List (Bytes × Nat)) {j : Nat} {q : CQ}
    (hq : lookupN j c.cqs = some q) (hoff : q.txAlive = false) :
    lookupN j (l.foldl (fun acc (x : Bytes × Nat) => dropConsTx acc x.2) c).cqs = some q := by
  induction l generalizing c with
  | nil => exact hq
  | cons x r ih => exact ih _ (lookupN_dropConsTx_off c x.2 hq hoff)

theorem dropSlotEnds_eq (c : Conn) (s : Slot) :
    dropSlotEnds c s = s.consumers.foldl (fun acc (x : Bytes × Nat) => dropConsTx acc x.2)
      (setLink c s.lid { (getLink c s.lid) with ioAlive := false, fifo := [] }) := rfl

theorem getLink_dropSlotEnds (c : Conn) (s : Slot) (lid : Nat) :
    getLink (dropSlotEnds c s) lid =
      if s.lid = lid then { (getLink c s.lid) with ioAlive := false, fifo := [] } else getLink c lid := by
  rw [dropSlotEnds_eq, getLink_congr (foldl_dropConsTx_links _ _) lid, getLink_setLink]

theorem lookupN_dropSlotEnds_ne (c : Conn) (s : Slot) {j : Nat} (h : j ∉ s.consumers.map (·.2)) :
    lookupN j (dropSlotEnds c s).cqs = lookupN j c.cqs := by
  rw [dropSlotEnds_eq, foldl_dropConsTx_ne _ _ h]; rfl

theorem lookupN_dropSlotEnds_off (c : Conn) (s : Slot) {j : Nat} {q : CQ}
    (hq : lookupN j c.cqs = some q) (hoff : q.txAlive = false) :
    lookupN j (dropSlotEnds c s).cqs = some q := by
  rw [dropSlotEnds_eq]; exact foldl_dropConsTx_off _ _ hq hoff

/-- Every consumer of a slot is there: each gets the terminal message, then its sender is dropped;
    nothing else moves. -/
theorem notifyConsumers_spec (m : CMsg) (l : List (Bytes × Nat)) (c : Conn)
    (hc : ∀ e ∈ l, ∃ q, lookupN e.2 c.cqs = some q ∧ q.rxAlive = true)
    (hnd : (l.map (·.2)).Nodup) :
    (notifyConsumers m c l).2 = none ∧ (notifyConsumers m c l).1.links = c.links ∧
    (∀ e ∈ l, ∀ q, lookupN e.2 c.cqs = some q →
      lookupN e.2 (notifyConsumers m c l).1.cqs = some { q with msgs := q.msgs ++ [m], txAlive := false }) ∧
    (∀ j, j ∉ l.map (·.2) → lookupN j (notifyConsumers m c l).1.cqs = lookupN j c.cqs) := by
  induction l generalizing c with
  | nil => exact ⟨rfl, rfl, fun e he => (by cases he), fun _ _ => rfl⟩
  | cons x rest ih =>
    obtain ⟨t, qid⟩ := x
    obtain ⟨q0, hq0, hrx0⟩ := hc (t, qid) List.mem_cons_self
    rw [List.map_cons, List.nodup_cons] at hnd
    obtain ⟨hnotin, hnd'⟩ := hnd
    -- the state after the head
    have hstep : notifyConsumers m c ((t, qid) :: rest) =
        notifyConsumers m (dropConsTx (sendCons c qid m).1 qid) rest := by
      conv => lhs; unfold notifyConsumers
      rw [sendCons_ok hq0 hrx0]
    have hlk : ∀ j, lookupN j (dropConsTx (sendCons c qid m).1 qid).cqs =
        if qid = j then some { q0 with msgs := q0.msgs ++ [m], txAlive := false } else lookupN j c.cqs := by
      intro j
      rw [sendCons_ok hq0 hrx0]
      dsimp only
      rw [dropConsTx_some (q := { q0 with msgs := q0.msgs ++ [m] }) (lookupN_setN_self _ _ _)]
      show lookupN j (setN qid _ (setN qid _ c.cqs)) = _
      rw [lookupN_setN, lookupN_setN]
      split <;> rfl
    have hlinks : (dropConsTx (sendCons c qid m).1 qid).links = c.links := by
      rw [dropConsTx_links, sendCons_ok hq0 hrx0]
    have hne : ∀ e ∈ rest, qid ≠ e.2 := fun e he heq =>
      hnotin (heq ▸ List.mem_map_of_mem (f := (·.2)) he)
    obtain ⟨i1, i2, i3, i4⟩ := ih (dropConsTx (sendCons c qid m).1 qid)
      (fun e he => by
        obtain ⟨q, hq, hrx⟩ := hc e (List.mem_cons_of_mem _ he)
        exact ⟨q, by rw [hlk, if_neg (hne e he)]; exact hq, hrx⟩) hnd'
    rw [hstep]
    refine ⟨i1, i2.trans hlinks, fun e he q hq => ?_, fun j hj => ?_⟩
    · rcases List.mem_cons.mp he with he | he
      · subst he
        rw [hq0] at hq; cases hq
        rw [i4 qid hnotin, hlk, if_pos rfl]
      · exact i3 e he q (by rw [hlk, if_neg (hne e he)]; exact hq)
    · have hj1 : qid ≠ j := fun e => hj (by rw [List.map_cons, e]; exact List.mem_cons_self)
      have hj2 : j ∉ rest.map (·.2) := fun e => hj (by rw [List.map_cons]; exact List.mem_cons_of_mem _ e)
      rw [i4 j hj2, hlk, if_neg hj1]

/-- One iteration of the `chan_slots.drain()` loop when nothing fails (consumers first, then the
    channel's caller). -/
def closeSlot (r : Reply) (m : CMsg) (c : Conn) (s : Slot) : Conn :=
  dropSlotEnds (sendReply (notifyConsumers m c s.consumers).1 s.lid r).1 s

/-- A slot whose handle and consumers are all there: every consumer gets the terminal message, the
    handle gets the reply, all the slot's queue ends are dropped, nothing else moves. -/
theorem closeSlot_spec (r : Reply) (m : CMsg) (c : Conn) (s : Slot)
    (ha : (getLink c s.lid).clientAlive = true) (hr : (getLink c s.lid).replies.length < 2)
    (hc : ∀ e ∈ s.consumers, ∃ q, lookupN e.2 c.cqs = some q ∧ q.rxAlive = true)
    (hnd : (s.consumers.map (·.2)).Nodup) :
    (notifyConsumers m c s.consumers).2 = none ∧
    (sendReply (notifyConsumers m c s.consumers).1 s.lid r).2 = none ∧
    (getLink (closeSlot r m c s) s.lid).replies = (getLink c s.lid).replies ++ [r] ∧
    (getLink (closeSlot r m c s) s.lid).ioAlive = false ∧
    (∀ lid, lid ≠ s.lid → getLink (closeSlot r m c s) lid = getLink c lid) ∧
    (∀ e ∈ s.consumers, ∀ q, lookupN e.2 c.cqs = some q →
      lookupN e.2 (closeSlot r m c s).cqs = some { q with msgs := q.msgs ++ [m], txAlive := false }) ∧
    (∀ j, j ∉ s.consumers.map (·.2) → lookupN j (closeSlot r m c s).cqs = lookupN j c.cqs) := by
  obtain ⟨n1, n2, n3, n4⟩ := notifyConsumers_spec m s.consumers c hc hnd
  have hg : getLink (notifyConsumers m c s.consumers).1 s.lid = getLink c s.lid := getLink_congr n2 s.lid
  have e1 := sendReply_ok (c := (notifyConsumers m c s.consumers).1) (lid := s.lid)
    (by rw [hg]; exact ha) (by rw [hg]; exact hr) r
  rw [hg] at e1
  have hcq : (sendReply (notifyConsumers m c s.consumers).1 s.lid r).1.cqs =
      (notifyConsumers m c s.consumers).1.cqs := by rw [e1]; rfl
  have hl : ∀ lid, getLink (sendReply (notifyConsumers m c s.consumers).1 s.lid r).1 lid =
      if s.lid = lid then { (getLink c s.lid) with replies := (getLink c s.lid).replies ++ [r] }
      else getLink c lid := by
    intro lid
    rw [e1]
    show getLink (setLink _ _ _) lid = _
    rw [getLink_setLink, getLink_congr n2 lid]
  refine ⟨n1, by rw [e1], ?_, ?_, fun lid hne => ?_, fun e he q hq => ?_, fun j hj => ?_⟩
  · unfold closeSlot
    rw [getLink_dropSlotEnds, if_pos rfl, hl, if_pos rfl]
  · unfold closeSlot
    rw [getLink_dropSlotEnds, if_pos rfl]
  · unfold closeSlot
    rw [getLink_dropSlotEnds, if_neg (fun e => hne e.symm), hl, if_neg (fun e => hne e.symm)]
  · unfold closeSlot
    exact lookupN_dropSlotEnds_off _ s (by rw [hcq]; exact n3 e he q hq) rfl
  · unfold closeSlot
    rw [lookupN_dropSlotEnds_ne _ s hj, hcq, n4 j hj]

theorem drainSlots_go_cons (r : Reply) (m : CMsg) (all : List (Nat × Slot)) (c : Conn) (k : Nat)
    (s : Slot) (rest : List (Nat × Slot)) (h1 : (notifyConsumers m c s.consumers).2 = none)
    (h2 : (sendReply (notifyConsumers m c s.consumers).1 s.lid r).2 = none) :
    drainSlots.go r m all c ((k, s) :: rest) = drainSlots.go r m all (closeSlot r m c s) rest := by
  conv => lhs; unfold drainSlots.go
  dsimp only
  split
  · rename_i heq
    have := congrArg Prod.snd heq
    rw [h1] at this; cases this
  · rename_i c1 heq
    have e1 : c1 = (notifyConsumers m c s.consumers).1 := (congrArg Prod.fst heq).symm
    subst e1
    split
    · rename_i heq2
      have := congrArg Prod.snd heq2
      rw [h2] at this; cases this
    · rename_i c2 heq2
      have e2 : c2 = (sendReply (notifyConsumers m c s.consumers).1 s.lid r).1 :=
        (congrArg Prod.fst heq2).symm
      subst e2
      rfl

/-- The drain loop over slots whose handles and consumers are all there, with pairwise distinct
    links and consumer queues. -/
theorem drainSlots_go_spec (r : Reply) (m : CMsg) (all : List (Nat × Slot)) (l : List (Nat × Slot))
    (c : Conn)
    (hh : ∀ p ∈ l, (getLink c p.2.lid).clientAlive = true ∧ (getLink c p.2.lid).replies.length < 2)
    (hc : ∀ p ∈ l, ∀ e ∈ p.2.consumers, ∃ q, lookupN e.2 c.cqs = some q ∧ q.rxAlive = true)
    (hlid : (l.map (·.2.lid)).Nodup)
    (hq : (l.flatMap (fun p => p.2.consumers.map (·.2))).Nodup) :
    (drainSlots.go r m all c l).2 = none ∧
    (∀ p ∈ l, (getLink (drainSlots.go r m all c l).1 p.2.lid).replies = (getLink c p.2.lid).replies ++ [r] ∧
      (getLink (drainSlots.go r m all c l).1 p.2.lid).ioAlive = false) ∧
    (∀ lid, lid ∉ l.map (·.2.lid) → getLink (drainSlots.go r m all c l).1 lid = getLink c lid) ∧
    (∀ p ∈ l, ∀ e ∈ p.2.consumers, ∀ q, lookupN e.2 c.cqs = some q →
      lookupN e.2 (drainSlots.go r m all c l).1.cqs = some { q with msgs := q.msgs ++ [m], txAlive := false }) ∧
    (∀ j, j ∉ l.flatMap (fun p => p.2.consumers.map (·.2)) →
      lookupN j (drainSlots.go r m all c l).1.cqs = lookupN j c.cqs) := by
  induction l generalizing c with
  | nil =>
    unfold drainSlots.go
    exact ⟨rfl, fun p hp => (by cases hp), fun _ _ => rfl, fun p hp => (by cases hp), fun _ _ => rfl⟩
  | cons x rest ih =>
    obtain ⟨k, s⟩ := x
    rw [List.map_cons, List.nodup_cons] at hlid
    obtain ⟨hlnot, hlid'⟩ := hlid
    rw [List.flatMap_cons, List.nodup_append] at hq
    obtain ⟨hqs, hq', hqdisj⟩ := hq
    obtain ⟨ha, hr⟩ := hh (k, s) List.mem_cons_self
    obtain ⟨s1, s2, s3, s4, s5, s6, s7⟩ := closeSlot_spec r m c s ha hr (hc (k, s) List.mem_cons_self) hqs
    -- facts about the slots still to come
    have hlne : ∀ p ∈ rest, p.2.lid ≠ s.lid := fun p hp e =>
      hlnot (e ▸ List.mem_map_of_mem (f := (·.2.lid)) hp)
    have hqne : ∀ p ∈ rest, ∀ e ∈ p.2.consumers, e.2 ∉ s.consumers.map (·.2) := fun p hp e he hin =>
      hqdisj e.2 hin e.2 (List.mem_flatMap.mpr ⟨p, hp, List.mem_map_of_mem (f := (·.2)) he⟩) rfl
    obtain ⟨i1, i2, i3, i4, i5⟩ := ih (closeSlot r m c s)
      (fun p hp => by
        rw [s5 _ (hlne p hp)]; exact hh p (List.mem_cons_of_mem _ hp))
      (fun p hp e he => by
        rw [s7 _ (hqne p hp e he)]; exact hc p (List.mem_cons_of_mem _ hp) e he)
      hlid' hq'
    rw [drainSlots_go_cons r m all c k s rest s1 s2]
    refine ⟨i1, fun p hp => ?_, fun lid hlid => ?_, fun p hp e he q hq => ?_, fun j hj => ?_⟩
    · rcases List.mem_cons.mp hp with hp | hp
      · subst hp
        rw [i3 _ hlnot]; exact ⟨s3, s4⟩
      · have := i2 p hp
        rw [s5 _ (hlne p hp)] at this; exact this
    · have h1 : lid ≠ s.lid := fun e => hlid (by rw [List.map_cons, e]; exact List.mem_cons_self)
      have h2 : lid ∉ rest.map (·.2.lid) := fun e => hlid (by rw [List.map_cons]; exact List.mem_cons_of_mem _ e)
      rw [i3 lid h2, s5 lid h1]
    · rcases List.mem_cons.mp hp with hp | hp
      · subst hp
        have hnot : e.2 ∉ rest.flatMap (fun p => p.2.consumers.map (·.2)) := fun hin =>
          hqdisj e.2 (List.mem_map_of_mem (f := (·.2)) he) e.2 hin rfl
        rw [i5 _ hnot]; exact s6 e he q hq
      · exact i4 p hp e he q (by rw [s7 _ (hqne p hp e he)]; exact hq)
    · have h1 : j ∉ s.consumers.map (·.2) := fun e =>
        hj (by rw [List.flatMap_cons]; exact List.mem_append_left _ e)
      have h2 : j ∉ rest.flatMap (fun p => p.2.consumers.map (·.2)) := fun e =>
        hj (by rw [List.flatMap_cons]; exact List.mem_append_right _ e)
      rw [i5 j h2, s7 j h1]

/-! ## 5. The close request takes what the channels have queued first (fix D17) -/

/-- The buffer of a submitted `.send` (nothing for the other requests). -/
def Msg.sendBytes : Msg → Bytes
  | .send b => b
  | _ => []

/-- The bytes channel `n` has queued, in submission order. -/
def queuedOn (c : Conn) (n : Nat) : Bytes :=
  match lookupN n c.slots with
  | some slot => ((getLink c slot.lid).fifo.map Msg.sendBytes).flatten
  | none => []

/-- The bytes all open channels have queued: ascending channel ids, each queue in FIFO order. -/
def queuedAll (c : Conn) : Bytes :=
  (((c.slots.map (·.1)).mergeSort (· ≤ ·)).map (queuedOn c)).flatten

theorem eq_of_nodup_map {α β : Type} {f : α → β} {l : List α} (h : (l.map f).Nodup) {a b : α}
    (ha : a ∈ l) (hb : b ∈ l) (e : f a = f b) : a = b := by
  induction l with
  | nil => cases ha
  | cons x r ih =>
    simp only [List.map_cons, List.nodup_cons] at h
    rcases List.mem_cons.mp ha with ea | ha'
    · rcases List.mem_cons.mp hb with eb | hb'
      · rw [ea, eb]
      · exact absurd (List.mem_map.mpr ⟨b, hb', by rw [← e, ea]⟩) h.1
    · rcases List.mem_cons.mp hb with eb | hb'
      · exact absurd (List.mem_map.mpr ⟨a, ha', by rw [e, eb]⟩) h.1
      · exact ih h.2 ha' hb'

theorem lookupN_of_mem_nodup_keys {α : Type} {k : Nat} {v : α} {m : List (Nat × α)}
    (hn : (m.map (·.1)).Nodup) (h : (k, v) ∈ m) : lookupN k m = some v := by
  induction m with
  | nil => cases h
  | cons p r ih =>
    obtain ⟨k', v'⟩ := p
    simp only [List.map_cons, List.nodup_cons] at hn
    rcases List.mem_cons.mp h with e | h
    · cases e; rw [lookupN_cons, if_pos rfl]
    · have : k' ≠ k := by
        intro e; subst e
        exact hn.1 (List.mem_map.mpr ⟨(k', v), h, rfl⟩)
      rw [lookupN_cons, if_neg this]; exact ih hn.2 h

/-- One channel: a queue of `.send`s is appended to the outbound data in order and emptied;
    nothing else changes. -/
theorem takeQueued_sends (fifo : List Msg) (c : Conn) (n : Nat) (slot : Slot)
    (hslot : lookupN n c.slots = some slot) (hseal : c.sealed = false)
    (hf : (getLink c slot.lid).fifo = fifo) (hsend : ∀ m ∈ fifo, ∃ b, m = .send b) :
    ∃ c', takeQueued (fifo.length + 1) c n = (c', none) ∧
      c'.out = c.out ++ (fifo.map Msg.sendBytes).flatten ∧
      c'.sealed = false ∧ c'.slots = c.slots ∧ (getLink c' slot.lid).fifo = [] ∧
      ∀ lid, lid ≠ slot.lid → getLink c' lid = getLink c lid := by
  induction fifo generalizing c with
  | nil =>
    refine ⟨c, ?_, by simp, hseal, rfl, hf, fun _ _ => rfl⟩
    rw [List.length_nil]
    unfold takeQueued
    simp only [hslot, popFifo_nil hf]
  | cons m rest ih =>
    obtain ⟨b, rfl⟩ := hsend m List.mem_cons_self
    generalize hc2 : pushOut (setLink c slot.lid
      { (getLink c slot.lid) with fifo := rest, src := (getLink c slot.lid).src.dec }) b = c2
    have hslot2 : lookupN n c2.slots = some slot := by rw [← hc2, pushOut_slots]; exact hslot
    have hseal2 : c2.sealed = false := by rw [← hc2, pushOut_sealed]; exact hseal
    have hl2 : getLink c2 slot.lid =
        { (getLink c slot.lid) with fifo := rest, src := (getLink c slot.lid).src.dec } := by
      rw [← hc2, getLink_pushOut, getLink_setLink_self]
    have hout2 : c2.out = c.out ++ b := by
      rw [← hc2, pushOut_of_not_sealed (show (setLink c slot.lid _).sealed = false from hseal)]
      rfl
    have hsl2 : c2.slots = c.slots := by rw [← hc2, pushOut_slots]; rfl
    obtain ⟨c', g1, g2, g3, g4, g5, g6⟩ := ih c2 hslot2 hseal2 (by rw [hl2])
      (fun x hx => hsend x (List.mem_cons_of_mem _ hx))
    refine ⟨c', ?_, ?_, g3, g4.trans hsl2, g5, fun lid hne => ?_⟩
    · rw [List.length_cons]
      unfold takeQueued
      simp only [hslot, popFifo_cons hf]
      have e : processPlainMessage (setLink c slot.lid
          { (getLink c slot.lid) with fifo := rest, src := (getLink c slot.lid).src.dec }) n
          (.send b) = (c2, none) := by rw [← hc2]; rfl
      rw [e]
      exact g1
    · rw [g2, hout2, List.map_cons, List.flatten_cons, List.append_assoc]; rfl
    · rw [g6 lid hne, ← hc2, getLink_pushOut, getLink_setLink_ne _ (fun e => hne e.symm)]

/-- All channels of a list of distinct ids whose queues hold only `.send`s: the queues are
    appended in the order of the list and emptied; nothing else changes. -/
theorem takeAllQueued_sends (ids : List Nat) (c : Conn) (hseal : c.sealed = false) (hnd : ids.Nodup)
    (hinj : ∀ n n' s s', lookupN n c.slots = some s → lookupN n' c.slots = some s' →
      s.lid = s'.lid → n = n')
    (hsend : ∀ n ∈ ids, ∀ s, lookupN n c.slots = some s →
      ∀ m ∈ (getLink c s.lid).fifo, ∃ b, m = .send b) :
    ∃ c', takeAllQueued c ids = (c', none) ∧ c'.out = c.out ++ (ids.map (queuedOn c)).flatten ∧
      c'.sealed = false ∧ c'.slots = c.slots ∧
      (∀ n ∈ ids, ∀ s, lookupN n c.slots = some s → (getLink c' s.lid).fifo = []) ∧
      (∀ lid, (∀ n ∈ ids, ∀ s, lookupN n c.slots = some s → s.lid ≠ lid) →
        getLink c' lid = getLink c lid) := by
  induction ids generalizing c with
  | nil => exact ⟨c, rfl, by simp, hseal, rfl, (fun _ hn => nomatch hn), fun _ _ => rfl⟩
  | cons n more ih =>
    have hnm : n ∉ more := (List.nodup_cons.mp hnd).1
    have hnd' : more.Nodup := (List.nodup_cons.mp hnd).2
    rw [takeAllQueued_cons]
    cases hk : lookupN n c.slots with
    | none =>
      have e1 : takeQueued (qlen c n + 1) c n = (c, none) := by
        unfold takeQueued; simp only [hk]
      have e2 : queuedOn c n = [] := by unfold queuedOn; rw [hk]
      obtain ⟨c', g1, g2, g3, g4, g5, g6⟩ := ih c hseal hnd' hinj
        (fun n' hn' => hsend n' (List.mem_cons_of_mem _ hn'))
      refine ⟨c', by rw [e1]; exact g1, ?_, g3, g4, fun n' hn' s hs => ?_, fun lid hl => ?_⟩
      · rw [g2, List.map_cons, List.flatten_cons, e2, List.nil_append]
      · rcases List.mem_cons.mp hn' with e | hn'
        · subst e; rw [hk] at hs; cases hs
        · exact g5 n' hn' s hs
      · exact g6 lid (fun n' hn' => hl n' (List.mem_cons_of_mem _ hn'))
    | some s =>
      obtain ⟨c1, t1, t2, t3, t4, t5, t6⟩ := takeQueued_sends (getLink c s.lid).fifo c n s hk hseal rfl
        (hsend n List.mem_cons_self s hk)
      rw [qlen_of_slot hk, t1]
      have hne : ∀ n' ∈ more, ∀ s', lookupN n' c.slots = some s' → s'.lid ≠ s.lid := by
        intro n' hn' s' hs' e
        have := hinj n' n s' s hs' hk e
        subst this; exact hnm hn'
      obtain ⟨c', g1, g2, g3, g4, g5, g6⟩ := ih c1 t3 hnd'
        (fun a a' x x' => by rw [t4]; exact hinj a a' x x')
        (fun n' hn' s' hs' => by
          rw [t4] at hs'
          rw [t6 _ (hne n' hn' s' hs')]
          exact hsend n' (List.mem_cons_of_mem _ hn') s' hs')
      have hq : more.map (queuedOn c1) = more.map (queuedOn c) := by
        apply List.map_congr_left
        intro n' hn'
        unfold queuedOn
        rw [t4]
        cases hs' : lookupN n' c.slots with
        | none => rfl
        | some s' => dsimp only; rw [t6 _ (hne n' hn' s' hs')]
      refine ⟨c', g1, ?_, g3, g4.trans t4, fun n' hn' s' hs' => ?_, fun lid hl => ?_⟩
      · rw [g2, t2, hq, List.map_cons, List.flatten_cons, List.append_assoc]
        congr 2
        unfold queuedOn; rw [hk]
      · rcases List.mem_cons.mp hn' with e | hn'
        · subst e; rw [hk] at hs'; cases hs'
          rw [g6 s.lid (fun n'' hn'' s'' hs'' => hne n'' hn'' s'' (t4 ▸ hs''))]
          exact t5
        · exact g5 n' hn' s' (by rw [t4]; exact hs')
      · rw [g6 lid (fun n' hn' s' hs' => hl n' (List.mem_cons_of_mem _ hn') s' (t4 ▸ hs'))]
        exact t6 lid (fun e => hl n List.mem_cons_self s hk e.symm)

/-- The client's close request, with writes open, distinct channel ids and links, and only
    `.send`s waiting: everything queued goes out first (ascending ids, FIFO order), then the Close;
    writes are sealed; no error; every queue is empty afterwards. -/
theorem close_writes_queued_first (c : Conn) (n : Nat) (buf : Bytes) (hseal : c.sealed = false)
    (hkeys : (c.slots.map (·.1)).Nodup) (hlid : (c.slots.map (·.2.lid)).Nodup)
    (hsend : ∀ p ∈ c.slots, ∀ m ∈ (getLink c p.2.lid).fifo, ∃ b, m = .send b) :
    (processChannelMessage c n (.connectionClose buf)).2 = none ∧
    (processChannelMessage c n (.connectionClose buf)).1.out = c.out ++ queuedAll c ++ buf ∧
    (processChannelMessage c n (.connectionClose buf)).1.sealed = true ∧
    ∀ p ∈ c.slots, (getLink (processChannelMessage c n (.connectionClose buf)).1 p.2.lid).fifo = [] := by
  obtain ⟨c1, g1, g2, g3, _, g5, _⟩ := takeAllQueued_sends ((c.slots.map (·.1)).mergeSort (· ≤ ·)) c hseal
    ((List.mergeSort_perm _ _).nodup_iff.mpr hkeys)
    (fun a a' x x' hx hx' e => by
      have := eq_of_nodup_map hlid (mem_of_lookupN hx) (mem_of_lookupN hx') e
      exact congrArg Prod.fst this)
    (fun a _ x hx => hsend (a, x) (mem_of_lookupN hx))
  rw [processChannelMessage_close, g1]
  refine ⟨rfl, ?_, rfl, fun p hp => ?_⟩
  · show (sealOut (pushOut c1 buf)).out = _
    rw [sealOut_out, pushOut_of_not_sealed g3, g2]; rfl
  · obtain ⟨k, x⟩ := p
    have := g5 k (List.mem_mergeSort.mpr (List.mem_map.mpr ⟨(k, x), hp, rfl⟩)) x
      (lookupN_of_mem_nodup_keys hkeys hp)
    show (getLink (sealOut (pushOut c1 buf)) x.lid).fifo = []
    rw [show getLink (sealOut (pushOut c1 buf)) x.lid = getLink (pushOut c1 buf) x.lid from
      getLink_congr rfl _, getLink_pushOut]
    exact this

end AmqModel.Conn
