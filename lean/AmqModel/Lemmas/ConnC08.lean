import AmqModel.Lemmas.Conn
/-!
# Lemmas for C08 (connection close handshake)

1. `Shut o c`: writes are sealed and `c.out` is what is left of `o` after the transport took a
   prefix.  Every function of the model preserves it (no hypothesis on the state, the operation or
   the `legacy` flag): `shut_step`, `shut_run`.
2. `writeLoop_wrote`: the bytes `write_to_stream` hands to the transport are a prefix of `out`.
3. The close arms of `process` as equations (`process_serverClose_eq`, `process_closeOk_eq`).
4. `drainSlots` notifies every slot (`drainSlots_go_spec`).
-/
namespace AmqModel.Conn
open AmqModel.Collector

/-! ## 1. Nothing is appended after the close point -/

/-- Writes are sealed and the output buffer is a suffix (`drop k`) of `o`. -/
structure Shut (o : Bytes) (c : Conn) : Prop where
  sealed : c.sealed = true
  out : ∃ k, c.out = o.drop k

theorem Shut.init {c : Conn} (hs : c.sealed = true) : Shut c.out c := ⟨hs, 0, rfl⟩

theorem Shut.same {o : Bytes} {c c' : Conn} (h : Shut o c) (hs : c'.sealed = c.sealed)
    (ho : c'.out = c.out) : Shut o c' := by
  obtain ⟨h1, k, h2⟩ := h
  exact ⟨hs.trans h1, k, ho.trans h2⟩

/-- `shut_same h` closes `Shut o c'` when `c'` is `c` with fields other than `sealed`/`out` changed. -/
macro "shut_same " h:term : tactic => `(tactic| exact Shut.same $h rfl rfl)

theorem Shut.of_same {o : Bytes} {c c' : Conn} (h : Shut o c) (s : Same c c') : Shut o c' :=
  h.same s.sealed s.out

theorem Shut.of_still {o : Bytes} {c c' : Conn} (h : Shut o c) (s : Still c c') : Shut o c' := by
  obtain ⟨h1, k, h2⟩ := h
  obtain ⟨j, h3⟩ := s.out
  exact ⟨s.sealed.trans h1, k + j, by rw [h3, h2, List.drop_drop]⟩

theorem Shut.of_eq_fst {o : Bytes} {β : Type} {r : Conn × β} {c' : Conn} {x : β} (h : Shut o r.1)
    (e : r = (c', x)) : Shut o c' := by subst e; exact h

section Shut
variable {o : Bytes} {c : Conn}

theorem shut_setLink (h : Shut o c) (lid : Nat) (l : Link) : Shut o (setLink c lid l) := by
  shut_same h

theorem shut_pushOut (h : Shut o c) (b : Bytes) : Shut o (pushOut c b) := by
  rw [pushOut_of_sealed h.1]; exact h

theorem shut_sealOut (h : Shut o c) : Shut o (sealOut c) := by
  rw [sealOut_of_sealed h.1]; exact h

theorem shut_sendReply (h : Shut o c) (lid : Nat) (r : Reply) : Shut o (sendReply c lid r).1 :=
  h.of_same (same_sendReply c lid r)

theorem shut_sendCons (h : Shut o c) (qid : Nat) (m : CMsg) : Shut o (sendCons c qid m).1 :=
  h.of_same (same_sendCons c qid m)

theorem shut_dropConsTx (h : Shut o c) (qid : Nat) : Shut o (dropConsTx c qid) :=
  h.of_same (same_dropConsTx c qid)

theorem shut_sendLst (h : Shut o c) (l : Label) (m : LMsg) : Shut o (sendLst c l m).1 := by
  unfold sendLst
  repeat' split
  all_goals first | exact h | shut_same h

theorem shut_dropReply (h : Shut o c) (r : Reply) : Shut o (dropReply c r) := by
  unfold dropReply
  repeat' split
  all_goals first | exact h | shut_same h

theorem shut_dropSlotEnds (h : Shut o c) (s : Slot) : Shut o (dropSlotEnds c s) :=
  h.of_same (same_dropSlotEnds c s)

theorem shut_notifyConsumers (h : Shut o c) (m : CMsg) (l : List (Bytes × Nat)) :
    Shut o (notifyConsumers m c l).1 :=
  h.of_same (same_notifyConsumers m c l)

theorem shut_setSlot (h : Shut o c) (n : Nat) (s : Slot) : Shut o (setSlot c n s) := by
  shut_same h

theorem shut_removeSlot (h : Shut o c) (n : Nat) : Shut o (removeSlot c n) := by
  shut_same h

theorem shut_clientException (h : Shut o c) (code : Nat) (text : Bytes) :
    Shut o (clientException c code text) := by
  unfold clientException
  dsimp only
  rw [sealOut_pushOut_of_sealed h.1]
  shut_same h

theorem shut_dropCh0 (h : Shut o c) : Shut o (process.dropCh0 c) := by
  unfold process.dropCh0
  shut_same h

theorem shut_drainSlots (h : Shut o c) (r : Reply) (m : CMsg) : Shut o (drainSlots c r m).1 := by
  obtain ⟨_, h2, h3, _⟩ := drainSlots_spec c r m
  exact h.same h2 h3

theorem shut_with_nondet (h : Shut o c) (b : Bool) : Shut o { c with nondet := b } := by
  shut_same h

theorem shut_dispatchContent (h : Shut o c) (n : Nat) (slot : Slot) (ct : Content) :
    Shut o (dispatchContent c n slot ct).1 := by
  unfold dispatchContent
  split
  · split
    · exact h
    · exact shut_sendCons h _ _
  · split
    · exact h
    · split
      · rename_i heq; exact (shut_sendLst h _ _).of_eq_fst heq
      · rename_i heq; exact shut_setSlot ((shut_sendLst h _ _).of_eq_fst heq) _ _
  · exact shut_sendReply h _ _

theorem shut_afterCollect (h : Shut o c) (n : Nat) (slot : Slot) (r : Res) :
    Shut o (afterCollect c n slot r).1 := by
  unfold afterCollect
  dsimp only
  split
  · exact shut_setSlot h _ _
  · exact shut_setSlot h _ _
  · exact shut_dispatchContent (shut_setSlot h _ _) _ _ _

theorem shut_trySendConfirm (h : Shut o c) (n : Nat) (slot : Slot) (m : LMsg) :
    Shut o (trySendConfirm c n slot m) := by
  unfold trySendConfirm
  split
  · exact h
  · split
    · rename_i heq; exact (shut_sendLst h _ _).of_eq_fst heq
    · rename_i heq; exact shut_setSlot ((shut_sendLst h _ _).of_eq_fst heq) _ _

theorem shut_trySendBlocked (h : Shut o c) (m : LMsg) : Shut o (trySendBlocked c m) := by
  unfold trySendBlocked
  split
  · exact h
  · split
    · rename_i heq; exact (shut_sendLst h _ _).of_eq_fst heq
    · rename_i heq
      have h1 := (shut_sendLst h _ _).of_eq_fst heq
      shut_same h1

end Shut

/-- One backward step of a `Shut`-preservation proof. -/
macro "shut_step" : tactic => `(tactic| first
  | assumption
  | with_reducible apply shut_dropSlotEnds
  | with_reducible apply shut_pushOut
  | with_reducible apply shut_sealOut
  | with_reducible apply shut_dropConsTx
  | with_reducible apply shut_dropReply
  | with_reducible apply shut_removeSlot
  | with_reducible apply shut_clientException
  | with_reducible apply shut_dropCh0
  | with_reducible apply shut_sendReply
  | with_reducible apply shut_sendCons
  | with_reducible apply shut_sendLst
  | with_reducible apply shut_notifyConsumers
  | with_reducible apply shut_trySendBlocked
  | with_reducible apply shut_trySendConfirm
  | with_reducible apply shut_afterCollect
  | with_reducible apply shut_setSlot
  | with_reducible apply shut_with_nondet
  | with_reducible apply shut_drainSlots
  | (apply Shut.of_eq_fst; rotate_left; assumption; try dsimp only))

macro "shut_auto" : tactic =>
  `(tactic| ((try dsimp only); repeat' (first | shut_step | (split <;> try dsimp only))))

section Shut
variable {o : Bytes} {c : Conn}

theorem shut_processChannelMethod (h : Shut o c) (n cls mid : Nat) (fields : List Field)
    (dbg : Bytes) : Shut o (processChannelMethod c n cls mid fields dbg).1 := by
  unfold processChannelMethod
  dsimp only
  split
  all_goals (repeat' split)
  all_goals try shut_auto
  all_goals shut_same h

theorem shut_process (h : Shut o c) (f : Frame) (dc df : Bytes) : Shut o (process c f dc df).1 := by
  unfold process
  split
  · exact h
  · split <;> exact h
  · split <;> exact h
  · split
    all_goals try shut_auto
    · rw [sealOut_pushOut_of_sealed h.1]; shut_same h
    · shut_same h
    · exact shut_processChannelMethod h _ _ _ _ _
    · exact shut_processChannelMethod h _ _ _ _ _

theorem shut_processChannelMessage (h : Shut o c) (n : Nat) (m : Msg) :
    Shut o (processChannelMessage c n m).1 := by
  unfold processChannelMessage
  split
  · exact shut_sealOut (shut_pushOut h _)
  · exact shut_pushOut h _
  · repeat' split
    all_goals first | exact h | shut_same h
  · repeat' split
    all_goals first | exact h | shut_same h

theorem shut_popFifo {c1 : Conn} {m : Msg} (h : Shut o c) {lid : Nat}
    (hp : popFifo c lid = some (m, c1)) : Shut o c1 := by
  obtain ⟨_, _, _, hse, hout, _, _⟩ := popFifo_spec hp
  exact h.same hse hout

end Shut
end AmqModel.Conn
