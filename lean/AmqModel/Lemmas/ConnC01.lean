import AmqModel.Lemmas.Conn
import AmqModel.Lemmas.ConnC07
import AmqModel.Lemmas.ConnC08
import AmqModel.Lemmas.ConnC13
import AmqModel.Lemmas.FrameBuffer
/-!
# Lemmas for C01 (the outbound byte stream is whole frames, in order)

1. `WholeB bs`: the peer's splitter consumes `bs` entirely (`Props.C01.Whole` is this predicate);
   closure under concatenation, the frames the I/O thread builds itself.
2. `Ws P lg o d c`: relative to a class `P` of byte strings (`Good P lg`: closed under
   concatenation, contains the I/O thread's own frames), `c.out` is `o` followed by a `P` string,
   every buffer waiting in a FIFO is in `P`, every declared frame only makes the I/O thread answer
   with `P` strings.  Every function of the model except the write loop preserves it.
   Instances: `P = WholeB` (wire invariant) and `P = fun _ => True` (shape of `out` only).
3. One step of the I/O thread / of a client as seen from the wire (`ioStep_wire`, `WireInv`).
-/
namespace AmqModel.Conn
open AmqModel.Collector AmqModel.FrameBuffer

/-! ## 1. Whole-frame byte strings -/

/-- The splitter (`framesOf`, accepting every envelope) leaves nothing over. -/
def WholeB (bs : Bytes) : Prop := (framesOf (fun _ => true) bs).2.1 = []

theorem framesOf_true_ok (buf : Bytes) : (framesOf (fun _ => true) buf).2.2 = true := by
  induction buf using frames_induction (fun _ => true) with
  | inc buf hc => rw [framesOf_incomplete _ hc]
  | bad buf hc hp => cases hp
  | good buf hc hp ih => rw [framesOf_good _ hc hp]; exact ih

theorem framesOf_nil (parse : Bytes → Bool) : framesOf parse [] = ([], [], true) := rfl

theorem wholeB_nil : WholeB [] := rfl

theorem framesOf_append_whole (a b : Bytes) (ha : WholeB a) :
    framesOf (fun _ => true) (a ++ b) =
      ((framesOf (fun _ => true) a).1 ++ (framesOf (fun _ => true) b).1,
        (framesOf (fun _ => true) b).2.1, (framesOf (fun _ => true) b).2.2) := by
  rw [framesOf_append', if_pos (framesOf_true_ok a), ha, List.nil_append]

theorem wholeB_append {a b : Bytes} (ha : WholeB a) (hb : WholeB b) : WholeB (a ++ b) := by
  unfold WholeB
  rw [framesOf_append_whole a b ha]
  exact hb

/-- A single envelope whose size field is its own length. -/
theorem wholeB_of_frameSize {buf : Bytes} (h : frameSize? buf = some buf.length) : WholeB buf := by
  obtain ⟨hc, hf⟩ := complete_of h (Nat.le_refl _)
  unfold WholeB
  rw [framesOf_good _ hc rfl, hf, List.drop_length]
  rfl

theorem wholeB_encMethod (ch cls mid : Nat) (args : Bytes) (h : 4 + args.length < 4294967296) :
    WholeB (encMethod ch cls mid args) := by
  apply wholeB_of_frameSize
  simp only [encMethod, be16, be32, List.cons_append, List.nil_append, frameSize?, List.length_cons,
    List.length_append, List.length_nil]
  congr 1
  omega

theorem wholeB_heartbeat : WholeB heartbeatFrame := wholeB_of_frameSize (by decide)

theorem wholeB_connectionCloseOk : WholeB connectionCloseOk := wholeB_of_frameSize (by decide)

theorem wholeB_channelCloseOk (n : Nat) : WholeB (channelCloseOk n) :=
  wholeB_encMethod n 20 41 [] (by simp)

theorem wholeB_basicCancelOk (n : Nat) (tag : Bytes) (h : tag.length ≤ 255) :
    WholeB (basicCancelOk n tag) :=
  wholeB_encMethod n 60 31 _ (by simp [encShortStr]; omega)

theorem wholeB_connectionClose (code : Nat) (text : Bytes) (h : text.length ≤ 255) :
    WholeB (connectionClose code text) :=
  wholeB_encMethod 0 10 50 _ (by simp [encShortStr, be16]; omega)

/-! ## 2. What may be appended to the output buffer -/

/-- A class of byte strings closed under concatenation that contains the frames the I/O thread
    builds on its own (`lg` = the `legacy` flag: the repaired code cuts the exception text). -/
class Good (P : Bytes → Prop) (lg : Bool) : Prop where
  nil : P []
  app : ∀ {a b}, P a → P b → P (a ++ b)
  closeOk : P connectionCloseOk
  close : ∀ code text, (lg = false → text.length ≤ 255) → P (connectionClose code text)

instance good_whole : Good WholeB false where
  nil := wholeB_nil
  app := wholeB_append
  closeOk := wholeB_connectionCloseOk
  close := fun code text h => wholeB_connectionClose code text (h rfl)

instance good_any (lg : Bool) : Good (fun _ => True) lg where
  nil := trivial
  app := fun _ _ => trivial
  closeOk := trivial
  close := fun _ _ _ => trivial

/-- A client submission carries a `P` buffer. -/
def MsgOk (P : Bytes → Prop) : Msg → Prop
  | .send b => P b
  | .connectionClose b => P b
  | _ => True

/-- The frames the I/O thread answers a method frame with are in `P`. -/
def MethodOk (P : Bytes → Prop) (n : Nat) (fields : List Field) : Prop :=
  P (channelCloseOk n) ∧ ∀ tag, Field.bytes tag ∈ fields → P (basicCancelOk n tag)

def FrameOk (P : Bytes → Prop) : Frame → Prop
  | .method n _ _ fields => MethodOk P n fields
  | _ => True

theorem frameOk_any (f : Frame) : FrameOk (fun _ => True) f := by
  cases f <;> first | trivial | exact ⟨trivial, fun _ _ => trivial⟩

/-- `c.out` is `o` followed by a `P` string; every queued buffer is in `P`; the declared frames are
    answered in `P`. -/
structure Ws (P : Bytes → Prop) (lg : Bool) (o : Bytes) (d : Bool) (c : Conn) : Prop where
  out : ∃ t, P t ∧ c.out = o ++ t
  dead : c.dead = d
  legacy : c.legacy = lg
  fifo : ∀ p ∈ c.links, ∀ m ∈ p.2.fifo, MsgOk P m
  table : ∀ e ∈ c.table, ∀ f, e.frame = some f → FrameOk P f

section Ws
variable {P : Bytes → Prop} {lg : Bool} [G : Good P lg] {o : Bytes} {d : Bool} {c : Conn}

theorem Ws.init (hl : c.legacy = lg)
    (hf : ∀ p ∈ c.links, ∀ m ∈ p.2.fifo, MsgOk P m)
    (ht : ∀ e ∈ c.table, ∀ f, e.frame = some f → FrameOk P f) : Ws P lg c.out c.dead c :=
  ⟨⟨[], G.nil, (List.append_nil _).symm⟩, rfl, hl, hf, ht⟩

theorem Ws.rebase {c' : Conn} (h : Ws P lg o d c) (hlinks : c'.links = c.links)
    (htable : c'.table = c.table) (hlegacy : c'.legacy = c.legacy) : Ws P lg c'.out c'.dead c' :=
  Ws.init (hlegacy.trans h.legacy) (hlinks ▸ h.fifo) (htable ▸ h.table)

omit G in
theorem Ws.same {c' : Conn} (h : Ws P lg o d c) (hout : c'.out = c.out) (hdead : c'.dead = c.dead)
    (hlegacy : c'.legacy = c.legacy) (hlinks : c'.links = c.links) (htable : c'.table = c.table) :
    Ws P lg o d c' := by
  obtain ⟨⟨t, h1, h2⟩, h3, h4, h5, h6⟩ := h
  exact ⟨⟨t, h1, hout.trans h2⟩, hdead.trans h3, hlegacy.trans h4, hlinks ▸ h5, htable ▸ h6⟩

omit G in
theorem Ws.of_eq_fst {β : Type} {r : Conn × β} {c' : Conn} {x : β} (h : Ws P lg o d r.1)
    (e : r = (c', x)) : Ws P lg o d c' := by subst e; exact h

omit G in
theorem Ws.getLink_fifo (h : Ws P lg o d c) (lid : Nat) : ∀ m ∈ (getLink c lid).fifo, MsgOk P m := by
  unfold getLink
  cases hk : lookupN lid c.links with
  | none => intro m hm; cases hm
  | some l => exact h.fifo _ (mem_of_lookupN hk)

end Ws

/-- `ws_same h` closes `Ws … c'` when `c'` is `c` with only fields changed that `Ws` does not read. -/
macro "ws_same " h:term : tactic => `(tactic| exact Ws.same $h rfl rfl rfl rfl rfl)

section Ws
variable {P : Bytes → Prop} {lg : Bool} [G : Good P lg] {o : Bytes} {d : Bool} {c : Conn}

omit G in
theorem ws_setLink (h : Ws P lg o d c) (lid : Nat) (l : Link) (hl : ∀ m ∈ l.fifo, MsgOk P m) :
    Ws P lg o d (setLink c lid l) := by
  refine ⟨h.out, h.dead, h.legacy, fun p hp => ?_, h.table⟩
  rcases mem_setN (show p ∈ setN lid l c.links from hp) with e | e
  · subst e; exact hl
  · exact h.fifo p e

omit G in
theorem ws_setLink_sub (h : Ws P lg o d c) (lid : Nat) (l : Link)
    (hl : ∀ m ∈ l.fifo, m ∈ (getLink c lid).fifo) : Ws P lg o d (setLink c lid l) :=
  ws_setLink h lid l (fun m hm => h.getLink_fifo lid m (hl m hm))

theorem ws_pushOut (h : Ws P lg o d c) {b : Bytes} (hb : P b) : Ws P lg o d (pushOut c b) := by
  unfold pushOut
  split
  · exact h
  · obtain ⟨t, h1, h2⟩ := h.out
    refine ⟨⟨t ++ b, G.app h1 hb, ?_⟩, h.dead, h.legacy, h.fifo, h.table⟩
    show c.out ++ b = o ++ (t ++ b)
    rw [h2, List.append_assoc]

omit G in
theorem ws_sealOut (h : Ws P lg o d c) : Ws P lg o d (sealOut c) := by
  unfold sealOut; ws_same h

omit G in
theorem ws_sendReply (h : Ws P lg o d c) (lid : Nat) (r : Reply) : Ws P lg o d (sendReply c lid r).1 := by
  unfold sendReply
  dsimp only
  repeat' split
  · exact h
  · exact h
  · exact ws_setLink_sub h _ _ (fun _ hm => hm)

omit G in
theorem ws_sendCons (h : Ws P lg o d c) (qid : Nat) (m : CMsg) : Ws P lg o d (sendCons c qid m).1 := by
  unfold sendCons
  repeat' split
  all_goals first | exact h | ws_same h

omit G in
theorem ws_dropConsTx (h : Ws P lg o d c) (qid : Nat) : Ws P lg o d (dropConsTx c qid) := by
  unfold dropConsTx
  split
  · ws_same h
  · exact h

omit G in
theorem ws_sendLst (h : Ws P lg o d c) (l : Label) (m : LMsg) : Ws P lg o d (sendLst c l m).1 := by
  unfold sendLst
  repeat' split
  all_goals first | exact h | ws_same h

omit G in
theorem ws_dropReply (h : Ws P lg o d c) (r : Reply) : Ws P lg o d (dropReply c r) := by
  unfold dropReply
  repeat' split
  all_goals first | exact h | ws_same h

omit G in
theorem ws_foldl_dropConsTx (h : Ws P lg o d c) (l : List (Bytes × Nat)) :
    Ws P lg o d (l.foldl (fun acc (x : Bytes × Nat) => dropConsTx acc x.2) c) :=
  foldl_invariant (Ws P lg o d) _ (fun _ x ha => ws_dropConsTx ha x.2) _ _ h

omit G in
theorem ws_dropSlotEnds (h : Ws P lg o d c) (s : Slot) : Ws P lg o d (dropSlotEnds c s) := by
  unfold dropSlotEnds
  dsimp only
  exact ws_foldl_dropConsTx (ws_setLink h _ _ (fun _ hm => by cases hm)) _

omit G in
theorem ws_foldl_dropSlotEnds (h : Ws P lg o d c) (l : List Slot) :
    Ws P lg o d (l.foldl dropSlotEnds c) :=
  foldl_invariant (Ws P lg o d) _ (fun _ x ha => ws_dropSlotEnds ha x) _ _ h

omit G in
theorem ws_notifyConsumers (h : Ws P lg o d c) (m : CMsg) (l : List (Bytes × Nat)) :
    Ws P lg o d (notifyConsumers m c l).1 := by
  induction l generalizing c with
  | nil => exact h
  | cons x rest ih =>
    obtain ⟨tag, qid⟩ := x
    unfold notifyConsumers
    split
    · rename_i heq; exact (ws_sendCons h qid m).of_eq_fst heq
    · rename_i heq; exact ih (ws_dropConsTx ((ws_sendCons h qid m).of_eq_fst heq) qid)

omit G in
theorem ws_setSlot (h : Ws P lg o d c) (n : Nat) (s : Slot) : Ws P lg o d (setSlot c n s) := by
  unfold setSlot; ws_same h

omit G in
theorem ws_removeSlot (h : Ws P lg o d c) (n : Nat) : Ws P lg o d (removeSlot c n) := by
  unfold removeSlot; ws_same h

theorem ws_clientException (h : Ws P lg o d c) (code : Nat) (text : Bytes) :
    Ws P lg o d (clientException c code text) := by
  unfold clientException
  dsimp only
  have hb : P (connectionClose code (if c.legacy = true then text else truncUtf8 255 text)) := by
    apply G.close
    intro hlg
    rw [h.legacy, hlg]
    exact truncUtf8_length_le 255 text
  have h1 := ws_sealOut (ws_pushOut h hb)
  ws_same h1

omit G in
theorem ws_dropCh0 (h : Ws P lg o d c) : Ws P lg o d (process.dropCh0 c) := by
  unfold process.dropCh0
  have h1 := ws_setLink h 0 { (getLink c 0) with ioAlive := false, fifo := [] } (fun _ hm => by cases hm)
  ws_same h1

omit G in
theorem ws_with_nondet (h : Ws P lg o d c) (b : Bool) : Ws P lg o d { c with nondet := c.nondet || b } := by
  ws_same h

omit G in
theorem ws_drainSlots_go (h : Ws P lg o d c) (r : Reply) (m : CMsg) (all l : List (Nat × Slot)) :
    Ws P lg o d (drainSlots.go r m all c l).1 := by
  induction l generalizing c with
  | nil => exact h
  | cons x rest ih =>
    obtain ⟨k, s⟩ := x
    unfold drainSlots.go
    dsimp only
    split
    · rename_i heq
      have h1 := (ws_notifyConsumers h m s.consumers).of_eq_fst heq
      have h2 := ws_foldl_dropSlotEnds h1 (s :: rest.map (·.2))
      ws_same h2
    · rename_i heq
      have h1 := (ws_notifyConsumers h m s.consumers).of_eq_fst heq
      split
      · rename_i heq2
        have h2 := (ws_sendReply h1 s.lid r).of_eq_fst heq2
        have h3 := ws_foldl_dropSlotEnds h2 (s :: rest.map (·.2))
        ws_same h3
      · rename_i heq2
        have h2 := (ws_sendReply h1 s.lid r).of_eq_fst heq2
        exact ih (ws_dropSlotEnds h2 s)

omit G in
theorem ws_drainSlots (h : Ws P lg o d c) (r : Reply) (m : CMsg) : Ws P lg o d (drainSlots c r m).1 := by
  unfold drainSlots
  apply ws_drainSlots_go
  ws_same h

omit G in
theorem ws_dispatchContent (h : Ws P lg o d c) (n : Nat) (slot : Slot) (ct : Content) :
    Ws P lg o d (dispatchContent c n slot ct).1 := by
  unfold dispatchContent
  split
  · split
    · exact h
    · exact ws_sendCons h _ _
  · split
    · exact h
    · split
      · rename_i heq; exact (ws_sendLst h _ _).of_eq_fst heq
      · rename_i heq; exact ws_setSlot ((ws_sendLst h _ _).of_eq_fst heq) _ _
  · exact ws_sendReply h _ _

omit G in
theorem ws_afterCollect (h : Ws P lg o d c) (n : Nat) (slot : Slot) (r : Res) :
    Ws P lg o d (afterCollect c n slot r).1 := by
  unfold afterCollect
  dsimp only
  split
  · exact ws_setSlot h _ _
  · exact ws_setSlot h _ _
  · exact ws_dispatchContent (ws_setSlot h _ _) _ _ _

omit G in
theorem ws_trySendConfirm (h : Ws P lg o d c) (n : Nat) (slot : Slot) (m : LMsg) :
    Ws P lg o d (trySendConfirm c n slot m) := by
  unfold trySendConfirm
  split
  · exact h
  · split
    · rename_i heq; exact (ws_sendLst h _ _).of_eq_fst heq
    · rename_i heq; exact ws_setSlot ((ws_sendLst h _ _).of_eq_fst heq) _ _

omit G in
theorem ws_trySendBlocked (h : Ws P lg o d c) (m : LMsg) : Ws P lg o d (trySendBlocked c m) := by
  unfold trySendBlocked
  split
  · exact h
  · split
    · rename_i heq; exact (ws_sendLst h _ _).of_eq_fst heq
    · rename_i heq
      have h1 := (ws_sendLst h _ _).of_eq_fst heq
      ws_same h1

end Ws

/-- One backward step of a `Ws`-preservation proof (side goals `P b` are left for later). -/
macro "ws_step" : tactic => `(tactic| first
  | assumption
  | with_reducible apply ws_dropSlotEnds
  | with_reducible apply ws_pushOut
  | with_reducible apply ws_sealOut
  | with_reducible apply ws_dropConsTx
  | with_reducible apply ws_dropReply
  | with_reducible apply ws_removeSlot
  | with_reducible apply ws_clientException
  | with_reducible apply ws_dropCh0
  | with_reducible apply ws_sendReply
  | with_reducible apply ws_sendCons
  | with_reducible apply ws_sendLst
  | with_reducible apply ws_notifyConsumers
  | with_reducible apply ws_trySendBlocked
  | with_reducible apply ws_trySendConfirm
  | with_reducible apply ws_afterCollect
  | with_reducible apply ws_setSlot
  | with_reducible apply ws_with_nondet
  | with_reducible apply ws_drainSlots
  | (apply Ws.of_eq_fst; rotate_left; assumption; try dsimp only))

macro "ws_auto" : tactic =>
  `(tactic| ((try dsimp only); repeat' (first | ws_step | (split <;> try dsimp only))))

section Ws
variable {P : Bytes → Prop} {lg : Bool} [G : Good P lg] {o : Bytes} {d : Bool} {c : Conn}

theorem ws_processChannelMethod (h : Ws P lg o d c) (n cls mid : Nat) (fields : List Field)
    (dbg : Bytes) (hm : MethodOk P n fields) :
    Ws P lg o d (processChannelMethod c n cls mid fields dbg).1 := by
  obtain ⟨hn, htag⟩ := hm
  unfold processChannelMethod
  dsimp only
  split
  all_goals (repeat' split)
  all_goals try ws_auto
  all_goals first
    | exact htag _ (List.mem_cons_self ..)
    | ws_same h

omit G in
theorem ws_closeState (h : Ws P lg o d c) (st' : CSt) : Ws P lg o d (closeState c st') := by
  unfold closeState
  have h0 : Ws P lg o d { c with st := st' } := by ws_same h
  have h1 := ws_setLink h0 0 { (getLink { c with st := st' } 0) with ioAlive := false, fifo := [] }
    (fun _ hm => by cases hm)
  ws_same h1

theorem ws_process (h : Ws P lg o d c) (f : Frame) (dc df : Bytes) (hf : FrameOk P f) :
    Ws P lg o d (process c f dc df).1 := by
  unfold process
  split
  · exact h
  · split <;> exact h
  · split <;> exact h
  · split
    all_goals try ws_auto
    all_goals first
      | exact G.closeOk
      | exact ws_processChannelMethod h _ _ _ _ _ hf
      | exact ws_closeState (ws_sealOut (ws_pushOut h G.closeOk)) _
      | exact ws_closeState (ws_setLink_sub h 0
          { (getLink c 0) with replies := (getLink c 0).replies ++ [.method 10 51 []] }
          (fun _ hm => hm)) _

theorem ws_processPlainMessage (h : Ws P lg o d c) (n : Nat) (m : Msg) (hm : MsgOk P m) :
    Ws P lg o d (processPlainMessage c n m).1 := by
  unfold processPlainMessage
  split
  · exact ws_sealOut (ws_pushOut h hm)
  · exact ws_pushOut h hm
  · repeat' split
    all_goals first | exact h | ws_same h
  · repeat' split
    all_goals first | exact h | ws_same h

omit G in
theorem ws_popFifo {c1 : Conn} {m : Msg} (h : Ws P lg o d c) {lid : Nat}
    (hp : popFifo c lid = some (m, c1)) : Ws P lg o d c1 ∧ MsgOk P m := by
  unfold popFifo at hp
  dsimp only at hp
  split at hp
  · cases hp
  · rename_i m' rest hf
    cases hp
    refine ⟨ws_setLink_sub h _ _ (fun x hx => by rw [hf]; exact List.mem_cons_of_mem _ hx), ?_⟩
    exact h.getLink_fifo lid m (by rw [hf]; exact List.mem_cons_self)

theorem ws_processChannelMessage (h : Ws P lg o d c) (n : Nat) (m : Msg) (hm : MsgOk P m) :
    Ws P lg o d (processChannelMessage c n m).1 :=
  processChannelMessage_ind (P := Ws P lg o d)
    (fun _ n _ m _ h _ hp => ws_processPlainMessage (ws_popFifo h hp).1 n m (ws_popFifo h hp).2)
    (fun _ h' => ws_processPlainMessage h' n m hm) h

theorem ws_drainFifo (h : Ws P lg o d c) (fuel n : Nat) : Ws P lg o d (drainFifo fuel c n).1 := by
  induction fuel generalizing c with
  | zero => exact h
  | succ fuel ih =>
    unfold drainFifo
    dsimp only
    split
    · exact h
    · split
      · rename_i hp
        obtain ⟨h1, hm⟩ := ws_popFifo h hp
        split
        · rename_i heq; exact (ws_processChannelMessage h1 n _ hm).of_eq_fst heq
        · rename_i heq; exact ih ((ws_processChannelMessage h1 n _ hm).of_eq_fst heq)
      · split <;> exact h

omit G in
theorem ws_setBlockedLoop (h : Ws P lg o d c) (fuel : Nat) : Ws P lg o d (setBlockedLoop fuel c).1 := by
  induction fuel generalizing c with
  | zero => exact h
  | succ fuel ih =>
    unfold setBlockedLoop
    split
    · split <;> exact h
    · exact ih (by ws_same h)

omit G in
theorem ws_ite {α : Type} {p : Prop} [Decidable p] {a b : Conn × α} (ha : Ws P lg o d a.1)
    (hb : Ws P lg o d b.1) : Ws P lg o d (if p then a else b).1 := by
  split <;> assumption

omit G in
/-- Links may be added as long as their FIFO is empty. -/
theorem Ws.sub {c' : Conn} (h : Ws P lg o d c) (hout : c'.out = c.out) (hdead : c'.dead = c.dead)
    (hlegacy : c'.legacy = c.legacy) (htable : c'.table = c.table)
    (hlinks : ∀ p ∈ c'.links, p ∈ c.links ∨ p.2.fifo = []) : Ws P lg o d c' := by
  obtain ⟨⟨t, h1, h2⟩, h3, h4, h5, h6⟩ := h
  refine ⟨⟨t, h1, hout.trans h2⟩, hdead.trans h3, hlegacy.trans h4, fun p hp m hm => ?_, htable ▸ h6⟩
  rcases hlinks p hp with e | e
  · exact h5 p e m hm
  · rw [e] at hm; cases hm

omit G in
theorem ws_newChannel (h : Ws P lg o d c) (a : Slots.Slots) (r : List (Option Nat)) (x : Src)
    (nl : Nat) (l : Link) (hl : l.fifo = []) (sl : List (Nat × Slot)) :
    Ws P lg o d { c with alloc := a, allocReq := r, allocSrc := x, nextLid := nl,
                         links := c.links ++ [(c.nextLid, l)], slots := sl } := by
  refine Ws.sub h rfl rfl rfl rfl (fun p hp => ?_)
  rcases List.mem_append.mp hp with hp | hp
  · exact Or.inl hp
  · rw [List.mem_singleton.mp hp]; exact Or.inr hl

omit G in
theorem ws_allocateLoop (h : Ws P lg o d c) (fuel : Nat) : Ws P lg o d (allocateLoop fuel c).1 := by
  induction fuel generalizing c with
  | zero => exact h
  | succ fuel ih =>
    unfold allocateLoop
    split
    · split <;> exact h
    · rename_i req rest hreq
      dsimp only
      cases req
      case' none =>
        dsimp only
        generalize Slots.insertNone c.alloc = p
      case' some id =>
        dsimp only
        generalize Slots.insertSome c.alloc id = p
      all_goals
        split
        · ws_same h
        · rename_i i hi
          have h3 := ws_newChannel h p.1 rest c.allocSrc.dec (c.nextLid + 1)
            { chan := i, src := if c.registered = true then ({} : Src).register
                                else (({} : Src).register).deregister } rfl
            (insertSorted i { lid := c.nextLid } c.slots)
          exact ws_ite
            (ih (ws_setLink_sub (ws_removeSlot h3 _) _ _ (fun _ hm => hm)))
            (ws_ite h3 (ih (by ws_same h3)))
        · exact ws_ite (ih (by ws_same h)) (ws_ite (by ws_same h) (ih (by ws_same h)))

theorem ws_processBytes (h : Ws P lg o d c) (bytes : Bytes) : Ws P lg o d (processBytes c bytes).1 := by
  unfold processBytes
  split
  · rename_i e he
    split
    · rename_i f hf
      exact ws_process h _ _ _ (h.table e (List.mem_of_find?_eq_some he) f hf)
    · exact h
  · exact h

theorem ws_readFromStream_go (h : Ws P lg o d c) (l : List Bytes) :
    Ws P lg o d (readFromStream.go c l).1 := by
  induction l generalizing c with
  | nil => exact h
  | cons fr rest ih =>
    unfold readFromStream.go
    split
    · rename_i heq; exact (ws_processBytes h fr).of_eq_fst heq
    · rename_i heq; exact ih ((ws_processBytes h fr).of_eq_fst heq)

theorem ws_readFromStream (h : Ws P lg o d c) : Ws P lg o d (readFromStream c).1 := by
  unfold readFromStream
  dsimp only
  split
  · rename_i heq
    exact (ws_readFromStream_go (by ws_same h) _).of_eq_fst heq
  · rename_i heq
    have h1 := (ws_readFromStream_go (c := { c with fb := _, reads := _ }) (by ws_same h) _).of_eq_fst heq
    split <;> exact h1

omit G in
theorem writeLoop_links (fuel : Nat) (c : Conn) (pos : Nat) (w : Bytes) :
    (writeLoop fuel c pos w).1.links = c.links := by
  induction fuel generalizing c pos w with
  | zero => rfl
  | succ fuel ih =>
    unfold writeLoop
    split
    · split
      · rfl
      · rfl
      · rfl
      · exact ih _ _ _
    · rfl

/-- The write loop: the buffer is re-based on what is left. -/
theorem ws_writeToStream (h : Ws P lg o d c) :
    Ws P lg (writeToStream c).1.out c.dead (writeToStream c).1 := by
  obtain ⟨_, _, h3, _, h5, h6, _⟩ := writeToStream_spec c
  have h1 := h.rebase (c' := (writeToStream c).1) (writeLoop_links _ _ _ _) h6 h3
  rw [h5] at h1
  exact h1

omit G in
theorem ws_kill (h : Ws P lg o d c) : Ws P lg o true (kill c) := by
  unfold kill
  dsimp only
  have h1 := foldl_invariant (Ws P lg o d) (fun acc (x : Nat × Slot) => dropSlotEnds acc x.2)
    (fun _ x ha => ws_dropSlotEnds ha x.2) c.slots c h
  have h2 := ws_setLink h1 0
    { (getLink (c.slots.foldl (fun acc (x : Nat × Slot) => dropSlotEnds acc x.2) c) 0) with
      ioAlive := false, fifo := [] } (fun _ hm => by cases hm)
  exact ⟨h2.out, rfl, h2.legacy, h2.fifo, h2.table⟩

omit G in
theorem ws_deregisterAll (h : Ws P lg o d c) : Ws P lg o d (deregisterAll c) := by
  unfold deregisterAll
  dsimp only
  have h1 := foldl_invariant (Ws P lg o d)
    (fun acc (x : Nat × Slot) =>
      setLink acc x.2.lid { (getLink acc x.2.lid) with src := (getLink acc x.2.lid).src.deregister })
    (fun a x ha => ws_setLink_sub ha _ _ (fun _ hm => hm)) c.slots c h
  ws_same h1

omit G in
theorem ws_reregisterAll (h : Ws P lg o d c) : Ws P lg o d (reregisterAll c) := by
  unfold reregisterAll
  dsimp only
  have h1 := foldl_invariant (Ws P lg o d)
    (fun acc (x : Nat × Slot) =>
      setLink acc x.2.lid { (getLink acc x.2.lid) with src := (getLink acc x.2.lid).src.reregister })
    (fun a x ha => ws_setLink_sub ha _ _ (fun _ hm => hm)) c.slots c h
  ws_same h1

omit G in
theorem ws_pollAll (h : Ws P lg o d c) : Ws P lg o d (pollAll c).1 := by
  unfold pollAll
  dsimp only
  have h1 := foldl_invariant (fun (a : Conn × List PTok) => Ws P lg o d a.1)
    (fun (acc : Conn × List PTok) (x : Nat × Nat) =>
      (setLink acc.1 x.2 { (getLink acc.1 x.2) with src := ((getLink acc.1 x.2).src.pollOne).1 },
        if ((getLink acc.1 x.2).src.pollOne).2 then acc.2 ++ [PTok.chan x.1] else acc.2))
    (fun a x ha => ws_setLink_sub ha _ _ (fun _ hm => hm))
    ((if (getLink c 0).ioAlive then [(0, 0)] else []) ++ c.slots.map (fun (x : Nat × Slot) => (x.1, x.2.lid)))
    (c, []) h
  ws_same h1

/-! ### One handler run as seen from the wire -/

/-- A handler run took `wrote` from the front of the buffer and left a state whose buffer is what
    remains followed by a `P` string (on a write error the buffer is left as it was). -/
def HStep (P : Bytes → Prop) (lg : Bool) (c c1 : Conn) (wrote : Bytes) (e : Option Err) (d : Bool) : Prop :=
  ∃ k o', wrote = c.out.take k ∧ (o' = c.out.drop k ∨ (e ≠ none ∧ o' = c.out)) ∧ Ws P lg o' d c1

omit G in
theorem HStep.plain {c c1 : Conn} {d : Bool} (h : Ws P lg c.out d c1) (e : Option Err) :
    HStep P lg c c1 [] e d :=
  ⟨0, c.out, rfl, Or.inl rfl, h⟩

theorem hstep_write (h : Ws P lg c.out c.dead c) :
    HStep P lg c (writeToStream c).1 (writeToStream c).2.1 (writeToStream c).2.2 c.dead := by
  obtain ⟨k, h1, h2, h3⟩ := writeToStream_wrote c
  have hw := ws_writeToStream h
  cases he : (writeToStream c).2.2 with
  | none => exact ⟨k, _, h1, Or.inl (h2 he), hw⟩
  | some e =>
    have hne : (writeToStream c).2.2 ≠ none := by rw [he]; exact fun x => nomatch x
    exact ⟨k, _, h1, Or.inr ⟨(fun x => nomatch x), (h3 hne).2⟩, hw⟩

theorem ws_handleEvent_nostream (h : Ws P lg o d c) (t : Token) (ht : ∀ r w, t ≠ .stream r w) :
    Ws P lg o d (handleEvent c t).1 ∧ (handleEvent c t).2.1 = [] := by
  unfold handleEvent
  split
  · exact absurd rfl (ht _ _)
  · exact ⟨h, rfl⟩
  · split
    · exact ⟨ws_setBlockedLoop h _, rfl⟩
    · split <;> exact ⟨h, rfl⟩
  · split
    · exact ⟨ws_allocateLoop h _, rfl⟩
    · split <;> exact ⟨h, rfl⟩
  · split
    · exact ⟨ws_drainFifo h _ _, rfl⟩
    · split <;> exact ⟨h, rfl⟩
  · exact ⟨ws_drainFifo h _ _, rfl⟩

theorem hstep_handleEvent (h : Ws P lg c.out c.dead c) (t : Token) :
    HStep P lg c (handleEvent c t).1 (handleEvent c t).2.1 (handleEvent c t).2.2 c.dead := by
  cases t with
  | stream r w =>
    have hw := hstep_write h
    have hw1 := ws_writeToStream h
    unfold handleEvent
    cases w <;> cases r <;> simp only [Bool.false_eq_true, ↓reduceIte]
    · exact HStep.plain h _
    · split
      · exact HStep.plain (ws_readFromStream h) _
      · exact HStep.plain (ws_readFromStream h) _
    · cases he : (writeToStream c).2.2 with
      | none => rw [he] at hw; exact hw
      | some e => rw [he] at hw; exact hw
    · cases he : (writeToStream c).2.2 with
      | some e => rw [he] at hw; exact hw
      | none =>
        rw [he] at hw
        obtain ⟨k, o', h1, h2, h3⟩ := hw
        have h2' : o' = c.out.drop k := by
          rcases h2 with h2 | h2
          · exact h2
          · exact absurd rfl h2.1
        dsimp only
        split
        · exact ⟨k, o', h1, Or.inl h2', ws_readFromStream h3⟩
        · exact ⟨k, o', h1, Or.inl h2', ws_readFromStream h3⟩
  | heartbeat => exact HStep.plain h _
  | setBlocked =>
    obtain ⟨h1, h2⟩ := ws_handleEvent_nostream h .setBlocked (fun _ _ x => nomatch x)
    rw [h2]; exact HStep.plain h1 _
  | alloc =>
    obtain ⟨h1, h2⟩ := ws_handleEvent_nostream h .alloc (fun _ _ x => nomatch x)
    rw [h2]; exact HStep.plain h1 _
  | chan n =>
    obtain ⟨h1, h2⟩ := ws_handleEvent_nostream h (.chan n) (fun _ _ x => nomatch x)
    rw [h2]; exact HStep.plain h1 _

/-- One I/O-thread step as seen from the wire: `wrote` is a prefix of the buffer; the new buffer is
    the rest followed by a `P` string — or, if the loop died on a write error, the old buffer. -/
def IStep (P : Bytes → Prop) (lg : Bool) (c c' : Conn) (wrote : Bytes) : Prop :=
  ∃ k o', wrote = c.out.take k ∧ (o' = c.out.drop k ∨ (c'.dead = true ∧ o' = c.out)) ∧
    Ws P lg o' c'.dead c'

omit G in
theorem IStep.plain {c c' : Conn} (h : Ws P lg c.out c'.dead c') : IStep P lg c c' [] :=
  ⟨0, c.out, rfl, Or.inl rfl, h⟩

omit G in
theorem ioFin_wire {c c1 : Conn} {w : Bytes} {e : Option Err} (hs : HStep P lg c c1 w e c.dead)
    (wo : Option Bytes) (hwo : wo.getD [] = w) :
    IStep P lg c (ioFin c1 wo e).1 ((ioFin c1 wo e).2.wrote.getD []) := by
  obtain ⟨k, o', h1, h2, h3⟩ := hs
  cases e with
  | none =>
    refine ⟨k, o', hwo.trans h1, Or.inl (h2.resolve_right (fun x => x.1 rfl)), ?_⟩
    show Ws P lg o' c1.dead c1
    rw [h3.dead]; exact h3
  | some e =>
    have hk : (kill c1).dead = true := (kill_spec c1).2.2.2.2.2
    refine ⟨k, o', hwo.trans h1, ?_, ?_⟩
    · rcases h2 with h2 | h2
      · exact Or.inl h2
      · exact Or.inr ⟨hk, h2.2⟩
    · show Ws P lg o' (kill c1).dead (kill c1)
      rw [hk]; exact ws_kill h3

omit G in
theorem handleEvent_stream_nowrite (c : Conn) (r : Bool) : (handleEvent c (.stream r false)).2.1 = [] := by
  unfold handleEvent
  cases r <;> simp only [Bool.false_eq_true, ↓reduceIte]
  split <;> rfl

omit G in
theorem ioStep_dead_wrote {c : Conn} (hd : c.dead = true) (op : IoOp) :
    (ioStep c op).1 = c ∧ (ioStep c op).2.wrote = none := by
  unfold ioStep
  rw [if_pos hd]
  split <;> exact ⟨rfl, rfl⟩

theorem ioStep_wire (h : Ws P lg c.out c.dead c) (op : IoOp) :
    IStep P lg c (ioStep c op).1 ((ioStep c op).2.wrote.getD []) := by
  cases hd : c.dead with
  | true =>
    obtain ⟨e1, e2⟩ := ioStep_dead_wrote hd op
    rw [e1, e2]
    exact IStep.plain h
  | false =>
    have hk : (kill c).dead = true := (kill_spec c).2.2.2.2.2
    cases op with
    | frame bytes =>
      rw [ioStep_frame hd]
      exact ioFin_wire (HStep.plain (ws_processBytes h bytes) _) none rfl
    | event t =>
      rw [ioStep_event hd]
      refine ioFin_wire (hstep_handleEvent h t) _ ?_
      cases t with
      | stream r w =>
        cases w
        · exact (handleEvent_stream_nowrite c r).symm
        · rfl
      | heartbeat => exact (ws_handleEvent_nostream h .heartbeat (fun _ _ x => nomatch x)).2.symm
      | setBlocked => exact (ws_handleEvent_nostream h .setBlocked (fun _ _ x => nomatch x)).2.symm
      | alloc => exact (ws_handleEvent_nostream h .alloc (fun _ _ x => nomatch x)).2.symm
      | chan n => exact (ws_handleEvent_nostream h (.chan n) (fun _ _ x => nomatch x)).2.symm
    | write =>
      rw [ioStep_write hd]
      exact ioFin_wire (hstep_write h) _ rfl
    | done =>
      rw [ioStep_done hd]
      cases isDone c with
      | some b => exact IStep.plain h
      | none =>
        refine IStep.plain ?_
        show Ws P lg c.out (kill c).dead (kill c)
        rw [hk]; exact ws_kill h
    | dereg =>
      rw [ioStep_dereg hd]
      refine IStep.plain ?_
      have h1 := ws_deregisterAll h
      rw [← h1.dead] at h1; exact h1
    | rereg =>
      rw [ioStep_rereg hd]
      refine IStep.plain ?_
      have h1 := ws_reregisterAll h
      rw [← h1.dead] at h1; exact h1
    | poll =>
      rw [ioStep_poll hd]
      refine IStep.plain ?_
      have h1 := ws_pollAll h
      rw [← h1.dead] at h1; exact h1
    | kill =>
      rw [ioStep_kill hd]
      refine IStep.plain ?_
      show Ws P lg c.out (kill c).dead (kill c)
      rw [hk]; exact ws_kill h

/-! ### Client operations -/

omit G in
theorem ws_newListener (h : Ws P lg o d c) (l : Label) : Ws P lg o d (newListener c l) := by
  unfold newListener; ws_same h

omit G in
theorem ws_allocRequest (h : Ws P lg o d c) (req : Option Nat) : Ws P lg o d (allocRequest c req).1 := by
  unfold allocRequest
  repeat' split
  all_goals first | exact h | ws_same h

omit G in
theorem ws_setBlockedRequest (h : Ws P lg o d c) (l : Label) : Ws P lg o d (setBlockedRequest c l).1 := by
  unfold setBlockedRequest
  repeat' split
  all_goals first | exact h | ws_same h

omit G in
theorem ws_allocReply (h : Ws P lg o d c) (label : Label) : Ws P lg o d (allocReply c label).1 := by
  unfold allocReply
  repeat' split
  all_goals first | exact h | ws_same h

omit G in
theorem ws_clientSend (h : Ws P lg o d c) (label : Label) (m : Msg) (hm : MsgOk P m) :
    Ws P lg o d (clientSend c label m).1 := by
  unfold clientSend
  split
  · exact h
  · rename_i lid _
    dsimp only
    repeat' split
    · exact h
    · exact h
    · refine ws_setLink h _ _ (fun x hx => ?_)
      rcases List.mem_append.mp hx with hx | hx
      · exact h.getLink_fifo lid x hx
      · rw [List.mem_singleton.mp hx]; exact hm

omit G in
theorem ws_clientRecv (h : Ws P lg o d c) (label cl : Label) : Ws P lg o d (clientRecv c label cl).1 := by
  unfold clientRecv
  split
  · exact h
  · rename_i lid _
    dsimp only
    have h1 : ∀ rest, Ws P lg o d (setLink c lid { (getLink c lid) with replies := rest }) :=
      fun rest => ws_setLink_sub h _ _ (fun _ hm => hm)
    repeat' split
    all_goals first | exact h | exact h1 _ | (rename_i rest _ _ _ _; have h2 := h1 rest; ws_same h2)

omit G in
theorem ws_consRecv (h : Ws P lg o d c) (cl : Label) : Ws P lg o d (consRecv c cl).1 := by
  unfold consRecv
  repeat' split
  all_goals first | exact h | ws_same h

omit G in
theorem ws_lstRecv (h : Ws P lg o d c) (l : Label) : Ws P lg o d (lstRecv c l).1 := by
  unfold lstRecv
  repeat' split
  all_goals first | exact h | ws_same h

omit G in
theorem ws_dropCons (h : Ws P lg o d c) (cl : Label) : Ws P lg o d (dropCons c cl) := by
  unfold dropCons
  repeat' split
  all_goals first | exact h | ws_same h

omit G in
theorem ws_dropListener (h : Ws P lg o d c) (l : Label) : Ws P lg o d (dropListener c l) := by
  unfold dropListener
  repeat' split
  all_goals first | exact h | ws_same h

omit G in
theorem ws_dropHandle (h : Ws P lg o d c) (label : Label) : Ws P lg o d (dropHandle c label) := by
  unfold dropHandle
  split
  · exact h
  · rename_i lid _
    dsimp only
    have h1 : Ws P lg o d ((getLink c lid).replies.foldl dropReply c) :=
      foldl_invariant (Ws P lg o d) _ (fun a x ha => ws_dropReply ha x) _ _ h
    have h2 := ws_setLink h1 lid
      { (getLink c lid) with clientAlive := false, replies := [], src := (getLink c lid).src.inc }
      (h.getLink_fifo lid)
    split <;> ws_same h2

/-- What the environment must respect, per operation. -/
def OpOk (P : Bytes → Prop) : Op → Prop
  | .client (.send _ m) => MsgOk P m
  | .decl e => ∀ f, e.frame = some f → FrameOk P f
  | _ => True

omit G in
theorem ws_clientStep (h : Ws P lg o d c) (op : ClientOp) (hop : OpOk P (.client op)) :
    Ws P lg o d (clientStep c op).1 := by
  cases op with
  | allocReq req => exact ws_allocRequest h req
  | allocRep label => exact ws_allocReply h label
  | send label m =>
    unfold clientStep
    dsimp only
    split
    · exact ws_clientSend (ws_newListener h _) label m hop
    · exact ws_clientSend h label m hop
  | setBlocked l => exact ws_setBlockedRequest (ws_newListener h l) l
  | recv label cl => exact ws_clientRecv h label cl
  | crecv cl => exact ws_consRecv h cl
  | lrecv l => exact ws_lstRecv h l
  | dropHandle label => exact ws_dropHandle h label
  | dropCons cl => exact ws_dropCons h cl
  | dropLst l => exact ws_dropListener h l

omit G in
/-- Every operation other than an I/O-thread step leaves the buffer as it is. -/
theorem ws_step_env (h : Ws P lg o d c) (op : Op) (hio : ∀ io, op ≠ .io io) (hop : OpOk P op) :
    Ws P lg o d (step c op) := by
  cases op with
  | io io => exact absurd rfl (hio io)
  | client op => exact ws_clientStep h op hop
  | decl e =>
    show Ws P lg o d { c with table := c.table ++ [e] }
    refine ⟨h.out, h.dead, h.legacy, h.fifo, fun x hx => ?_⟩
    rcases List.mem_append.mp hx with hx | hx
    · exact h.table x hx
    · rw [List.mem_singleton.mp hx]; exact hop
  | feed evs => show Ws P lg o d { c with reads := c.reads ++ evs }; ws_same h
  | wscript ws => show Ws P lg o d { c with writes := c.writes ++ ws }; ws_same h

end Ws

/-! ## 3. The wire invariant over a run -/

theorem msgOk_any (m : Msg) : MsgOk (fun _ => True) m := by cases m <;> trivial

theorem opOk_any (op : Op) : OpOk (fun _ => True) op := by
  cases op with
  | client o => cases o <;> first | trivial | exact msgOk_any _
  | decl e => exact fun f _ => frameOk_any f
  | _ => trivial

/-- Every step changes the outbound buffer only by dropping a prefix and appending a suffix
    (no hypothesis on the state). -/
theorem step_out_shape (c : Conn) (op : Op) : ∃ k t, (step c op).out = c.out.drop k ++ t := by
  have h : Ws (fun _ => True) c.legacy c.out c.dead c :=
    Ws.init rfl (fun _ _ m _ => msgOk_any m) (fun _ _ f _ => frameOk_any f)
  cases op with
  | io io =>
    obtain ⟨k, o', _, h2, h3⟩ := ioStep_wire h io
    obtain ⟨t, _, ht⟩ := h3.out
    rcases h2 with h2 | h2
    · exact ⟨k, t, by rw [← h2]; exact ht⟩
    · exact ⟨0, t, by rw [List.drop_zero, ← h2.2]; exact ht⟩
  | client o =>
    obtain ⟨t, _, ht⟩ := (ws_step_env h (.client o) (fun _ x => nomatch x) (opOk_any _)).out
    exact ⟨0, t, ht⟩
  | decl e => exact ⟨0, [], (List.append_nil _).symm⟩
  | feed evs => exact ⟨0, [], (List.append_nil _).symm⟩
  | wscript ws => exact ⟨0, [], (List.append_nil _).symm⟩

/-- The bytes handed to the transport so far (`wire`) extend to a whole-frame string; while the
    loop is alive the extension is exactly the buffer. -/
structure WireInv (wire : Bytes) (c : Conn) : Prop where
  rest : ∃ rest, WholeB (wire ++ rest) ∧ (c.dead = false → rest = c.out)
  base : Ws WholeB false c.out c.dead c

theorem wireInv_init (cm b : Nat) : WireInv [] (init cm b) := by
  refine ⟨⟨[], wholeB_nil, fun _ => rfl⟩, Ws.init rfl (fun p hp m hm => ?_) (fun e he => nomatch he)⟩
  have hp' : p ∈ [((0 : Nat), ({ chan := 0, src := { registered := true, interest := true } } : Link))] := hp
  rw [List.mem_singleton.mp hp'] at hm
  cases hm

theorem wire_step_io {wire : Bytes} {c : Conn} (hw : WireInv wire c) (io : IoOp) :
    WireInv (wire ++ (ioStep c io).2.wrote.getD []) (ioStep c io).1 := by
  obtain ⟨k, o', h1, h2, h3⟩ := ioStep_wire hw.base io
  obtain ⟨t, ht, hout⟩ := h3.out
  refine ⟨?_, Ws.init h3.legacy h3.fifo h3.table⟩
  cases hd : c.dead with
  | true =>
    obtain ⟨e1, e2⟩ := ioStep_dead_wrote hd io
    rw [e1, e2]
    show ∃ rest, WholeB (wire ++ [] ++ rest) ∧ (c.dead = false → rest = c.out)
    rw [List.append_nil]
    exact hw.rest
  | false =>
    obtain ⟨rest, hr1, hr2⟩ := hw.rest
    rw [hr2 hd] at hr1
    rw [h1]
    rcases h2 with h2 | h2
    · refine ⟨(ioStep c io).1.out, ?_, fun _ => rfl⟩
      have e : wire ++ c.out.take k ++ (ioStep c io).1.out = (wire ++ c.out) ++ t := by
        rw [hout, h2, List.append_assoc, List.append_assoc,
          ← List.append_assoc (c.out.take k), List.take_append_drop]
      rw [e]
      exact wholeB_append hr1 ht
    · refine ⟨c.out.drop k, ?_, fun hf => ?_⟩
      · rw [List.append_assoc, List.take_append_drop]; exact hr1
      · rw [h2.1] at hf; cases hf

theorem wire_step_env {wire : Bytes} {c : Conn} (hw : WireInv wire c) (op : Op)
    (hio : ∀ io, op ≠ .io io) (hop : OpOk WholeB op) : WireInv wire (step c op) := by
  have h := ws_step_env hw.base op hio hop
  obtain ⟨t, ht, hout⟩ := h.out
  obtain ⟨rest, hr1, hr2⟩ := hw.rest
  refine ⟨⟨rest ++ t, ?_, fun hd => ?_⟩, Ws.init h.legacy h.fifo h.table⟩
  · rw [← List.append_assoc]; exact wholeB_append hr1 ht
  · rw [hout, hr2 (h.dead ▸ hd)]

/-- The stream handed to the transport, accumulated over a run. -/
def wstep (s : Conn × Bytes) (o : Op) : Conn × Bytes :=
  match o with
  | .io io => ((ioStep s.1 io).1, s.2 ++ ((ioStep s.1 io).2.wrote.getD []))
  | other => (step s.1 other, s.2)

theorem wire_wstep {s : Conn × Bytes} (hw : WireInv s.2 s.1) (op : Op) (hop : OpOk WholeB op) :
    WireInv (wstep s op).2 (wstep s op).1 := by
  cases op with
  | io io => exact wire_step_io hw io
  | client o => exact wire_step_env hw (.client o) (fun _ x => nomatch x) hop
  | decl e => exact wire_step_env hw (.decl e) (fun _ x => nomatch x) hop
  | feed evs => exact wire_step_env hw (.feed evs) (fun _ x => nomatch x) hop
  | wscript ws => exact wire_step_env hw (.wscript ws) (fun _ x => nomatch x) hop

theorem wire_wrun (ops : List Op) (s : Conn × Bytes) (hw : WireInv s.2 s.1)
    (hops : ∀ o ∈ ops, OpOk WholeB o) :
    WireInv (ops.foldl wstep s).2 (ops.foldl wstep s).1 := by
  induction ops generalizing s with
  | nil => exact hw
  | cons op rest ih =>
    exact ih (wstep s op) (wire_wstep hw op (hops op List.mem_cons_self))
      (fun o ho => hops o (List.mem_cons_of_mem _ ho))

/-- The answers to a method frame whose channel id and strings are AMQP-sized are whole frames. -/
theorem frameOk_of_short (f : Frame)
    (h : ∀ ch cls mid fs, f = .method ch cls mid fs → ∀ x ∈ fs, ∀ bs, x = Field.bytes bs → bs.length ≤ 255) :
    FrameOk WholeB f := by
  cases f with
  | method ch cls mid fs =>
    exact ⟨wholeB_channelCloseOk ch, fun tag htag => wholeB_basicCancelOk ch tag (h ch cls mid fs rfl _ htag tag rfl)⟩
  | _ => trivial

/-! ## 4. Per-handle order -/

theorem drain_sends (bufs : List Bytes) (c : Conn) (n : Nat) (slot : Slot) (hn : n ≠ 0)
    (hslot : lookupN n c.slots = some slot) (hseal : c.sealed = false)
    (hf : (getLink c slot.lid).fifo = bufs.map Msg.send)
    (hca : (getLink c slot.lid).clientAlive = true) :
    (drainFifo (bufs.length + 1) c n).2 = none ∧
    (drainFifo (bufs.length + 1) c n).1.out = c.out ++ bufs.flatten ∧
    (getLink (drainFifo (bufs.length + 1) c n).1 slot.lid).fifo = [] := by
  induction bufs generalizing c with
  | nil =>
    rw [List.length_nil, drainFifo_succ_slot hn hslot, popFifo_nil hf]
    dsimp only
    rw [hca]
    exact ⟨rfl, (List.append_nil _).symm, hf⟩
  | cons b rest ih =>
    have hf' : (getLink c slot.lid).fifo = Msg.send b :: rest.map Msg.send := hf
    rw [List.length_cons, drainFifo_succ_slot hn hslot, popFifo_cons hf']
    dsimp only
    generalize hc2 : pushOut (setLink c slot.lid
      { (getLink c slot.lid) with fifo := rest.map Msg.send, src := (getLink c slot.lid).src.dec }) b = c2
    have e : processChannelMessage (setLink c slot.lid
        { (getLink c slot.lid) with fifo := rest.map Msg.send, src := (getLink c slot.lid).src.dec }) n
        (.send b) = (c2, none) := by rw [← hc2]; rfl
    rw [e]
    dsimp only
    have hslot2 : lookupN n c2.slots = some slot := by rw [← hc2, pushOut_slots]; exact hslot
    have hseal2 : c2.sealed = false := by rw [← hc2, pushOut_sealed]; exact hseal
    have hl2 : getLink c2 slot.lid =
        { (getLink c slot.lid) with fifo := rest.map Msg.send, src := (getLink c slot.lid).src.dec } := by
      rw [← hc2, getLink_pushOut, getLink_setLink_self]
    have hout2 : c2.out = c.out ++ b := by
      rw [← hc2, pushOut_of_not_sealed (show (setLink c slot.lid _).sealed = false from hseal)]
      rfl
    obtain ⟨g1, g2, g3⟩ := ih c2 hslot2 hseal2 (by rw [hl2]) (by rw [hl2]; exact hca)
    refine ⟨g1, ?_, g3⟩
    rw [g2, hout2, List.flatten_cons, List.append_assoc]

end AmqModel.Conn
