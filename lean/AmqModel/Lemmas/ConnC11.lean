import AmqModel.Lemmas.Conn
import AmqModel.Lemmas.ConnC13
/-!
# Helper lemmas for C11 (`AmqModel/Props/C11.lean`): the consumer lifecycle

1. association-list helpers for consumer tables (`lookupB` / `eraseB`) and the flattened table `tbl`;
2. the queue-level invariant `QI` (parameterised by the set `P` of registered queue ids) and the
   one-step relation `Mono` ("a dropped sender stays dropped, its queue only shrinks");
3. the reachable-state invariant `InvC` and its preservation by every operation (`Pres`);
4. computation lemmas for the table of causes (cancel-ok, server cancel, channel close-ok,
   `notifyConsumers`).
-/
namespace AmqModel.Conn
open AmqModel.Collector

/-! ## 1. Lists -/

/-- A terminal consumer message (everything but a delivery). -/
def CMsg.isTerm : CMsg → Bool
  | .delivery .. => false
  | _ => true

/-- The queue ids of a consumer table. -/
def qids (l : List (Bytes × Nat)) : List Nat := l.map (·.2)

/-- All queue ids registered in some slot, in table order. -/
def tbl (slots : List (Nat × Slot)) : List Nat := slots.flatMap (fun p => qids p.2.consumers)

@[simp] theorem tbl_nil : tbl [] = [] := rfl

theorem tbl_cons (p : Nat × Slot) (r : List (Nat × Slot)) :
    tbl (p :: r) = qids p.2.consumers ++ tbl r := by
  simp [tbl]

theorem mem_tbl {x : Nat} {slots : List (Nat × Slot)} :
    x ∈ tbl slots ↔ ∃ p ∈ slots, ∃ e ∈ p.2.consumers, e.2 = x := by
  simp [tbl, qids, List.mem_flatMap]

section B
variable {α : Type}

theorem lookupB_cons (k k' : Bytes) (v : α) (r : List (Bytes × α)) :
    lookupB k ((k', v) :: r) = if k' = k then some v else lookupB k r := rfl

theorem mem_of_lookupB {k : Bytes} {v : α} {m : List (Bytes × α)} (h : lookupB k m = some v) :
    (k, v) ∈ m := by
  induction m with
  | nil => cases h
  | cons p r ih =>
    obtain ⟨k', v'⟩ := p
    rw [lookupB_cons] at h
    split at h
    · rename_i e; cases h; subst e; exact List.mem_cons_self
    · exact List.mem_cons_of_mem _ (ih h)

theorem lookupB_none_iff {k : Bytes} {m : List (Bytes × α)} :
    lookupB k m = none ↔ k ∉ m.map (·.1) := by
  induction m with
  | nil => simp [lookupB]
  | cons p r ih =>
    obtain ⟨k', v'⟩ := p
    rw [lookupB_cons]
    by_cases e : k' = k
    · simp [e]
    · have e' : ¬ k = k' := fun h => e h.symm
      simp [e, e', ih]

theorem lookupB_eraseB_self (k : Bytes) (m : List (Bytes × α)) : lookupB k (eraseB k m) = none := by
  induction m with
  | nil => rfl
  | cons p r ih =>
    obtain ⟨k', v'⟩ := p
    unfold eraseB
    split
    · exact ih
    · rename_i e; rw [lookupB_cons, if_neg e]; exact ih

theorem eraseB_of_not_mem {k : Bytes} {m : List (Bytes × α)} (h : k ∉ m.map (·.1)) :
    eraseB k m = m := by
  induction m with
  | nil => rfl
  | cons p r ih =>
    obtain ⟨k', v'⟩ := p
    simp only [List.map_cons, List.mem_cons, not_or] at h
    unfold eraseB
    rw [if_neg (fun e => h.1 e.symm), ih h.2]

/-- With distinct tags, `eraseB` removes exactly the entry `lookupB` finds. -/
theorem eraseB_decomp {k : Bytes} {v : α} {m : List (Bytes × α)} (hn : (m.map (·.1)).Nodup)
    (h : lookupB k m = some v) : ∃ l1 l2, m = l1 ++ (k, v) :: l2 ∧ eraseB k m = l1 ++ l2 := by
  induction m with
  | nil => cases h
  | cons p r ih =>
    obtain ⟨k', v'⟩ := p
    simp only [List.map_cons, List.nodup_cons] at hn
    rw [lookupB_cons] at h
    split at h
    · rename_i e
      cases h; subst e
      refine ⟨[], r, rfl, ?_⟩
      unfold eraseB
      rw [if_pos rfl, eraseB_of_not_mem hn.1]; rfl
    · rename_i e
      obtain ⟨l1, l2, h1, h2⟩ := ih hn.2 h
      refine ⟨(k', v') :: l1, l2, by rw [h1]; rfl, ?_⟩
      unfold eraseB
      rw [if_neg e, h2]; rfl

end B

theorem eraseN_of_not_mem {α : Type} {k : Nat} {m : List (Nat × α)} (h : k ∉ m.map (·.1)) :
    eraseN k m = m := by
  induction m with
  | nil => rfl
  | cons p r ih =>
    obtain ⟨k', v'⟩ := p
    simp only [List.map_cons, List.mem_cons, not_or] at h
    unfold eraseN
    rw [if_neg (fun e => h.1 e.symm), ih h.2]

theorem lookupN_none_of_not_mem {α : Type} {k : Nat} {m : List (Nat × α)} (h : k ∉ m.map (·.1)) :
    lookupN k m = none := by
  induction m with
  | nil => rfl
  | cons p r ih =>
    obtain ⟨k', v'⟩ := p
    simp only [List.map_cons, List.mem_cons, not_or] at h
    rw [lookupN_cons, if_neg (fun e => h.1 e.symm)]; exact ih h.2

theorem lookupN_of_mem_nodup {α : Type} {k : Nat} {v : α} {m : List (Nat × α)}
    (hn : (m.map (·.1)).Nodup) (h : (k, v) ∈ m) : lookupN k m = some v := by
  induction m with
  | nil => cases h
  | cons p r ih =>
    obtain ⟨k', v'⟩ := p
    simp only [List.map_cons, List.nodup_cons] at hn
    rcases List.mem_cons.mp h with e | h
    · cases e; rw [lookupN_cons, if_pos rfl]
    · have : k' ≠ k := by
        intro e; subst e
        exact hn.1 (List.mem_map.mpr ⟨(k', v), h, rfl⟩)
      rw [lookupN_cons, if_neg this]; exact ih hn.2 h

theorem keys_setN {α : Type} {k : Nat} {v0 : α} {m : List (Nat × α)} (h : lookupN k m = some v0)
    (v : α) : (setN k v m).map (·.1) = m.map (·.1) := by
  induction m with
  | nil => cases h
  | cons p r ih =>
    obtain ⟨k', v'⟩ := p
    rw [lookupN_cons] at h
    unfold setN
    split
    · rename_i e; simp [e]
    · rename_i e; rw [if_neg e] at h; simp [ih h]

theorem keys_eraseN_sublist {α : Type} (k : Nat) (m : List (Nat × α)) :
    ((eraseN k m).map (·.1)).Sublist (m.map (·.1)) := by
  induction m with
  | nil => exact List.Sublist.refl _
  | cons p r ih =>
    obtain ⟨k', v'⟩ := p
    unfold eraseN
    split
    · exact ih.trans (List.sublist_cons_self _ _)
    · exact ih.cons_cons _

theorem key_ne_of_mem_eraseN {α : Type} {k : Nat} {p : Nat × α} {m : List (Nat × α)}
    (h : p ∈ eraseN k m) : p.1 ≠ k := by
  induction m with
  | nil => cases h
  | cons q r ih =>
    obtain ⟨k', v'⟩ := q
    unfold eraseN at h
    split at h
    · exact ih h
    · rename_i e
      rcases List.mem_cons.mp h with h | h
      · subst h; exact e
      · exact ih h

theorem lookupN_insertSorted {α : Type} (j k : Nat) (v : α) (m : List (Nat × α)) :
    lookupN j (insertSorted k v m) = if k = j then some v else lookupN j m := by
  induction m with
  | nil => simp [insertSorted, lookupN_cons]
  | cons p r ih =>
    obtain ⟨k', v'⟩ := p
    unfold insertSorted
    split
    · simp [lookupN_cons]
    · split
      · rename_i e; subst e
        simp only [lookupN_cons]
        split <;> rfl
      · rename_i e1 e2
        simp only [lookupN_cons, ih]
        by_cases hj : k' = j
        · subst hj; simp [e2]
        · simp [hj]

theorem keys_insertSorted_nodup {α : Type} {k : Nat} (v : α) {m : List (Nat × α)}
    (hn : (m.map (·.1)).Nodup) (hk : k ∉ m.map (·.1)) : ((insertSorted k v m).map (·.1)).Nodup := by
  induction m with
  | nil => simp [insertSorted]
  | cons p r ih =>
    obtain ⟨k', v'⟩ := p
    simp only [List.map_cons, List.nodup_cons, List.mem_cons, not_or] at hn hk
    unfold insertSorted
    split
    · simp only [List.map_cons, List.nodup_cons, List.mem_cons, not_or]
      exact ⟨⟨hk.1, hk.2⟩, hn.1, hn.2⟩
    · split
      · rename_i e; exact absurd e hk.1
      · simp only [List.map_cons, List.nodup_cons]
        refine ⟨?_, ih hn.2 hk.2⟩
        intro hmem
        obtain ⟨q, hq, e⟩ := List.mem_map.mp hmem
        rcases mem_insertSorted hq with h | h
        · subst h; exact hk.1 e
        · exact hn.1 (List.mem_map.mpr ⟨q, h, e⟩)

/-- Inserting a slot without consumers under a fresh key leaves the flattened table unchanged. -/
theorem tbl_insertSorted {k : Nat} {s : Slot} (hs : s.consumers = []) {m : List (Nat × Slot)}
    (hk : k ∉ m.map (·.1)) : tbl (insertSorted k s m) = tbl m := by
  induction m with
  | nil => simp [insertSorted, tbl, qids, hs]
  | cons p r ih =>
    obtain ⟨k', v'⟩ := p
    simp only [List.map_cons, List.mem_cons, not_or] at hk
    unfold insertSorted
    split
    · rw [tbl_cons]; simp [qids, hs]
    · split
      · rename_i e; exact absurd e hk.1
      · rw [tbl_cons, tbl_cons, ih hk.2]

/-- Where a slot sits in the flattened table, and what replacing / removing it does. -/
theorem tbl_decomp {n : Nat} {s : Slot} {m : List (Nat × Slot)} (h : lookupN n m = some s) :
    ∃ A B, tbl m = A ++ qids s.consumers ++ B ∧
      (∀ s', tbl (setN n s' m) = A ++ qids s'.consumers ++ B) ∧
      ((m.map (·.1)).Nodup → tbl (eraseN n m) = A ++ B) := by
  induction m with
  | nil => cases h
  | cons p r ih =>
    obtain ⟨k', v'⟩ := p
    rw [lookupN_cons] at h
    split at h
    · rename_i e
      cases h; subst e
      refine ⟨[], tbl r, by rw [tbl_cons]; rfl, fun s' => ?_, fun hn => ?_⟩
      · unfold setN; rw [if_pos rfl, tbl_cons]; rfl
      · simp only [List.map_cons, List.nodup_cons] at hn
        unfold eraseN; rw [if_pos rfl, eraseN_of_not_mem hn.1]; rfl
    · rename_i e
      obtain ⟨A, B, h1, h2, h3⟩ := ih h
      refine ⟨qids v'.consumers ++ A, B, ?_, fun s' => ?_, fun hn => ?_⟩
      · rw [tbl_cons, h1]; simp
      · unfold setN; rw [if_neg e, tbl_cons, h2]; simp
      · simp only [List.map_cons, List.nodup_cons] at hn
        unfold eraseN; rw [if_neg e, tbl_cons, h3 hn.2]; simp

theorem append_singleton_last {α : Type} {l pre post : List α} {m x : α}
    (h : l ++ [m] = pre ++ x :: post) (hx : x ∉ l) : post = [] := by
  induction l generalizing pre with
  | nil =>
    cases pre with
    | nil => simp at h; exact h.2
    | cons b pre' =>
      simp at h
  | cons a l' ih =>
    cases pre with
    | nil =>
      simp only [List.cons_append, List.nil_append, List.cons.injEq] at h
      exact absurd (h.1 ▸ List.mem_cons_self) hx
    | cons b pre' =>
      simp only [List.cons_append, List.cons.injEq] at h
      exact ih h.2 (fun hm => hx (List.mem_cons_of_mem _ hm))

/-- If only the last element may satisfy `p`, at most one element does. -/
theorem filter_length_le_one {α : Type} (p : α → Bool) (l : List α)
    (h : ∀ pre m post, l = pre ++ m :: post → p m = true → post = []) :
    (l.filter p).length ≤ 1 := by
  induction l with
  | nil => simp
  | cons a r ih =>
    by_cases ha : p a = true
    · have := h [] a r rfl ha
      subst this
      simp [ha]
    · have hf : (a :: r).filter p = r.filter p := by simp [ha]
      rw [hf]
      apply ih
      intro pre m post e hm
      exact h (a :: pre) m post (by rw [e]; rfl) hm

/-! ## 2. The queue-level invariant -/

/-- While the sender lives no terminal message has been sent; in any case only the last message
    can be terminal. -/
def TermOK (q : CQ) : Prop :=
  (q.txAlive = true → ∀ m ∈ q.msgs, m.isTerm = false) ∧
  (∀ pre m post, q.msgs = pre ++ m :: post → m.isTerm = true → post = [])

theorem termOK_new : TermOK ({} : CQ) := by
  refine ⟨fun _ m hm => (by cases hm), fun pre m post h _ => ?_⟩
  cases pre <;> cases h

theorem TermOK.push {q : CQ} (h : TermOK q) (ha : q.txAlive = true) {m : CMsg} (hm : m.isTerm = false) :
    TermOK { q with msgs := q.msgs ++ [m] } := by
  have hall : ∀ x ∈ q.msgs ++ [m], x.isTerm = false := by
    intro x hx
    rcases List.mem_append.mp hx with hx | hx
    · exact h.1 ha x hx
    · rw [List.mem_singleton.mp hx]; exact hm
  refine ⟨fun _ => hall, fun pre x post e hx => ?_⟩
  have : x ∈ q.msgs ++ [m] := by
    show x ∈ ({ q with msgs := q.msgs ++ [m] } : CQ).msgs
    rw [e]; simp
  rw [hall x this] at hx; cases hx

theorem TermOK.push_drop {q : CQ} (h : TermOK q) (ha : q.txAlive = true) (m : CMsg) :
    TermOK { q with msgs := q.msgs ++ [m], txAlive := false } := by
  refine ⟨fun e => (by cases e), fun pre x post e hx => ?_⟩
  refine append_singleton_last (l := q.msgs) (m := m) e (fun hmem => ?_)
  rw [h.1 ha x hmem] at hx; cases hx

theorem TermOK.drop_tx {q : CQ} (h : TermOK q) : TermOK { q with txAlive := false } :=
  ⟨fun e => (by cases e), h.2⟩

theorem TermOK.drop_rx {q : CQ} (h : TermOK q) : TermOK { q with rxAlive := false } := h

theorem TermOK.clear {q : CQ} : TermOK { q with rxAlive := false, msgs := [] } := by
  refine ⟨fun _ m hm => (by cases hm), fun pre m post h _ => ?_⟩
  cases pre <;> cases h

theorem TermOK.pop {q : CQ} (h : TermOK q) {m : CMsg} {rest : List CMsg} (hm : q.msgs = m :: rest) :
    TermOK { q with msgs := rest } := by
  refine ⟨fun ha x hx => h.1 ha x (by rw [hm]; exact List.mem_cons_of_mem _ hx),
    fun pre x post e hx => h.2 (m :: pre) x post ?_ hx⟩
  rw [hm]
  show m :: rest = m :: (pre ++ x :: post)
  rw [show rest = pre ++ x :: post from e]

/-- The invariant on the consumer queues, relative to the set `P` of registered queue ids. -/
structure QI (cqs : List (Nat × CQ)) (next : Nat) (P : Nat → Prop) : Prop where
  reg_alive : ∀ qid, P qid → ∃ q, lookupN qid cqs = some q ∧ q.txAlive = true
  alive_reg : ∀ qid q, lookupN qid cqs = some q → q.txAlive = true → P qid
  lt_next : ∀ qid q, lookupN qid cqs = some q → qid < next
  term_ok : ∀ qid q, lookupN qid cqs = some q → TermOK q

/-- Queues never disappear; a queue whose sender is gone stays so and only loses messages from
    its front. -/
def Mono (cqs cqs' : List (Nat × CQ)) : Prop :=
  ∀ qid q, lookupN qid cqs = some q → ∃ q', lookupN qid cqs' = some q' ∧
    (q.txAlive = false → q'.txAlive = false ∧ ∃ k, q'.msgs = q.msgs.drop k)

theorem Mono.refl (cqs : List (Nat × CQ)) : Mono cqs cqs :=
  fun _ q h => ⟨q, h, fun hd => ⟨hd, 0, rfl⟩⟩

theorem Mono.trans {a b c : List (Nat × CQ)} (h1 : Mono a b) (h2 : Mono b c) : Mono a c := by
  intro qid q hq
  obtain ⟨q1, hq1, m1⟩ := h1 qid q hq
  obtain ⟨q2, hq2, m2⟩ := h2 qid q1 hq1
  refine ⟨q2, hq2, fun hd => ?_⟩
  obtain ⟨d1, k1, e1⟩ := m1 hd
  obtain ⟨d2, k2, e2⟩ := m2 d1
  exact ⟨d2, k1 + k2, by rw [e2, e1, List.drop_drop]⟩

theorem QI.iff {cqs : List (Nat × CQ)} {next : Nat} {P P' : Nat → Prop} (h : QI cqs next P)
    (hP : ∀ x, P' x ↔ P x) : QI cqs next P' :=
  ⟨fun qid hp => h.reg_alive qid ((hP qid).mp hp), fun qid q hq ha => (hP qid).mpr (h.alive_reg qid q hq ha),
   h.lt_next, h.term_ok⟩

/-- Replacing one queue. -/
theorem qi_setN {cqs : List (Nat × CQ)} {next : Nat} {P : Nat → Prop} (h : QI cqs next P)
    {qid : Nat} {q : CQ} (hq : lookupN qid cqs = some q) (q' : CQ) (hterm : TermOK q')
    (hmono : q.txAlive = false → q'.txAlive = false ∧ ∃ k, q'.msgs = q.msgs.drop k)
    (P' : Nat → Prop) (hP : ∀ x, x ≠ qid → (P' x ↔ P x)) (hP2 : P' qid ↔ q'.txAlive = true) :
    QI (setN qid q' cqs) next P' ∧ Mono cqs (setN qid q' cqs) := by
  refine ⟨⟨fun x hx => ?_, fun x r hr ha => ?_, fun x r hr => ?_, fun x r hr => ?_⟩, fun x r hr => ?_⟩
  · by_cases e : x = qid
    · subst e; exact ⟨q', lookupN_setN_self _ _ _, hP2.mp hx⟩
    · rw [lookupN_setN_ne (fun e' => e e'.symm)]
      exact h.reg_alive x ((hP x e).mp hx)
  · by_cases e : x = qid
    · subst e
      rw [lookupN_setN_self] at hr; cases hr
      exact hP2.mpr ha
    · rw [lookupN_setN_ne (fun e' => e e'.symm)] at hr
      exact (hP x e).mpr (h.alive_reg x r hr ha)
  · by_cases e : x = qid
    · subst e; exact h.lt_next x q hq
    · rw [lookupN_setN_ne (fun e' => e e'.symm)] at hr
      exact h.lt_next x r hr
  · by_cases e : x = qid
    · subst e
      rw [lookupN_setN_self] at hr; cases hr
      exact hterm
    · rw [lookupN_setN_ne (fun e' => e e'.symm)] at hr
      exact h.term_ok x r hr
  · by_cases e : x = qid
    · subst e
      rw [hq] at hr; cases hr
      exact ⟨q', lookupN_setN_self _ _ _, hmono⟩
    · refine ⟨r, ?_, fun hd => ⟨hd, 0, rfl⟩⟩
      rw [lookupN_setN_ne (fun e' => e e'.symm)]; exact hr

/-- A fresh queue is appended under the next id and registered. -/
theorem qi_append {cqs : List (Nat × CQ)} {next : Nat} {P : Nat → Prop} (h : QI cqs next P)
    (P' : Nat → Prop) (hP : ∀ x, P' x ↔ (P x ∨ x = next)) :
    QI (cqs ++ [(next, ({} : CQ))]) (next + 1) P' ∧ Mono cqs (cqs ++ [(next, ({} : CQ))]) := by
  have hnone : lookupN next cqs = none := by
    cases hl : lookupN next cqs with
    | none => rfl
    | some q => exact absurd (h.lt_next next q hl) (Nat.lt_irrefl _)
  have hnew : lookupN next (cqs ++ [(next, ({} : CQ))]) = some {} := by
    rw [lookupN_append, hnone]; simp [lookupN_cons]
  have hold : ∀ x, x ≠ next → lookupN x (cqs ++ [(next, ({} : CQ))]) = lookupN x cqs :=
    fun x hx => lookupN_append_ne (fun e => hx e.symm) _ _
  refine ⟨⟨fun x hx => ?_, fun x r hr ha => ?_, fun x r hr => ?_, fun x r hr => ?_⟩, fun x r hr => ?_⟩
  · by_cases e : x = next
    · subst e; exact ⟨({} : CQ), hnew, rfl⟩
    · rw [hold x e]
      rcases (hP x).mp hx with hx | hx
      · exact h.reg_alive x hx
      · exact absurd hx e
  · by_cases e : x = next
    · exact (hP x).mpr (Or.inr e)
    · rw [hold x e] at hr
      exact (hP x).mpr (Or.inl (h.alive_reg x r hr ha))
  · by_cases e : x = next
    · subst e; exact Nat.lt_succ_self _
    · rw [hold x e] at hr
      exact Nat.lt_succ_of_lt (h.lt_next x r hr)
  · by_cases e : x = next
    · subst e; rw [hnew] at hr; cases hr; exact termOK_new
    · rw [hold x e] at hr
      exact h.term_ok x r hr
  · have e : x ≠ next := by
      intro e; subst e; rw [hnone] at hr; cases hr
    exact ⟨r, by rw [hold x e]; exact hr, fun hd => ⟨hd, 0, rfl⟩⟩

/-! ## 3. Queue steps of the machine -/

theorem setN_setN {α : Type} (k : Nat) (v w : α) (m : List (Nat × α)) :
    setN k v (setN k w m) = setN k v m := by
  induction m with
  | nil => simp [setN]
  | cons p r ih =>
    obtain ⟨k', v'⟩ := p
    by_cases e : k' = k
    · simp [setN, e]
    · simp [setN, e, ih]

/-- `c'` has the slot table, the allocator and the queue-id counter of `c`. -/
structure Keep (c c' : Conn) : Prop where
  slots : c'.slots = c.slots
  alloc : c'.alloc = c.alloc
  nextQid : c'.nextQid = c.nextQid

theorem Keep.refl (c : Conn) : Keep c c := ⟨rfl, rfl, rfl⟩

theorem Keep.trans {a b c : Conn} (h1 : Keep a b) (h2 : Keep b c) : Keep a c :=
  ⟨h2.slots.trans h1.slots, h2.alloc.trans h1.alloc, h2.nextQid.trans h1.nextQid⟩

/-- … and its consumer queues too: nothing the consumer invariant reads has changed. -/
structure Core (c c' : Conn) : Prop where
  slots : c'.slots = c.slots
  alloc : c'.alloc = c.alloc
  nextQid : c'.nextQid = c.nextQid
  cqs : c'.cqs = c.cqs

theorem Core.refl (c : Conn) : Core c c := ⟨rfl, rfl, rfl, rfl⟩

theorem Core.trans {a b c : Conn} (h1 : Core a b) (h2 : Core b c) : Core a c :=
  ⟨h2.slots.trans h1.slots, h2.alloc.trans h1.alloc, h2.nextQid.trans h1.nextQid, h2.cqs.trans h1.cqs⟩

theorem Core.keep {c c' : Conn} (h : Core c c') : Keep c c' := ⟨h.slots, h.alloc, h.nextQid⟩

/-- One step at queue level: from the invariant relative to `P` to the invariant relative to `P'`. -/
def QStep (c c' : Conn) (P P' : Nat → Prop) : Prop :=
  QI c.cqs c.nextQid P → QI c'.cqs c'.nextQid P' ∧ Mono c.cqs c'.cqs

theorem QStep.refl (c : Conn) (P : Nat → Prop) : QStep c c P P := fun h => ⟨h, Mono.refl _⟩

theorem QStep.trans {a b c : Conn} {P P' P'' : Nat → Prop} (h1 : QStep a b P P')
    (h2 : QStep b c P' P'') : QStep a c P P'' := fun h =>
  let ⟨q1, m1⟩ := h1 h
  let ⟨q2, m2⟩ := h2 q1
  ⟨q2, m1.trans m2⟩

theorem QStep.of_core {c c' : Conn} (h : Core c c') (P : Nat → Prop) : QStep c c' P P := by
  intro hq
  rw [h.cqs, h.nextQid]
  exact ⟨hq, Mono.refl _⟩

theorem QStep.iff_right {c c' : Conn} {P P' P'' : Nat → Prop} (h : QStep c c' P P')
    (hP : ∀ x, P'' x ↔ P' x) : QStep c c' P P'' := fun hq =>
  let ⟨q1, m1⟩ := h hq
  ⟨q1.iff hP, m1⟩

theorem QStep.of_eq {c c' c'' : Conn} {P P' : Nat → Prop} (h : QStep c c' P P') (e : c' = c'') :
    QStep c c'' P P' := e ▸ h

/-! ### Frame facts -/

theorem core_setLink (c : Conn) (lid : Nat) (l : Link) : Core c (setLink c lid l) := ⟨rfl, rfl, rfl, rfl⟩

theorem core_pushOut (c : Conn) (b : Bytes) : Core c (pushOut c b) :=
  ⟨pushOut_slots c b, pushOut_alloc c b, pushOut_nextQid c b, pushOut_cqs c b⟩

theorem core_sealOut (c : Conn) : Core c (sealOut c) := ⟨rfl, rfl, rfl, rfl⟩

theorem core_sendReply (c : Conn) (lid : Nat) (r : Reply) : Core c (sendReply c lid r).1 := by
  unfold sendReply
  dsimp only
  repeat' split
  all_goals first | exact Core.refl c | exact core_setLink c _ _

theorem core_sendLst (c : Conn) (l : Label) (m : LMsg) : Core c (sendLst c l m).1 := by
  unfold sendLst
  repeat' split
  all_goals first | exact Core.refl c | exact ⟨rfl, rfl, rfl, rfl⟩

theorem core_clientException (c : Conn) (code : Nat) (text : Bytes) :
    Core c (clientException c code text) := by
  unfold clientException
  have h := (core_pushOut c (connectionClose code (if c.legacy then text else truncUtf8 255 text))).trans
    (core_sealOut _)
  exact ⟨h.slots, h.alloc, h.nextQid, h.cqs⟩

theorem core_dropCh0 (c : Conn) : Core c (process.dropCh0 c) := ⟨rfl, rfl, rfl, rfl⟩

theorem core_trySendBlocked (c : Conn) (m : LMsg) : Core c (trySendBlocked c m) := by
  unfold trySendBlocked
  split
  · exact Core.refl c
  · have h := core_sendLst c ‹_› m
    split
    · rename_i heq; rw [heq] at h; exact h
    · rename_i heq; rw [heq] at h; exact ⟨h.slots, h.alloc, h.nextQid, h.cqs⟩

theorem keep_sendCons (c : Conn) (qid : Nat) (m : CMsg) : Keep c (sendCons c qid m).1 := by
  unfold sendCons
  repeat' split
  all_goals first | exact Keep.refl c | exact ⟨rfl, rfl, rfl⟩

theorem keep_dropConsTx (c : Conn) (qid : Nat) : Keep c (dropConsTx c qid) := by
  unfold dropConsTx
  split
  · exact ⟨rfl, rfl, rfl⟩
  · exact Keep.refl c

theorem keep_dropReply (c : Conn) (r : Reply) : Keep c (dropReply c r) := by
  unfold dropReply
  repeat' split
  all_goals first | exact Keep.refl c | exact ⟨rfl, rfl, rfl⟩

theorem keep_dropSlotEnds (c : Conn) (s : Slot) : Keep c (dropSlotEnds c s) := by
  unfold dropSlotEnds
  dsimp only
  apply foldl_invariant (Keep c)
  · exact fun a x ha => ha.trans (keep_dropConsTx a _)
  · exact (core_setLink c _ _).keep

theorem keep_foldl_dropSlotEnds (c : Conn) (l : List Slot) : Keep c (l.foldl dropSlotEnds c) :=
  foldl_invariant (Keep c) _ (fun a x ha => ha.trans (keep_dropSlotEnds a x)) l c (Keep.refl c)

theorem keep_notifyConsumers (m : CMsg) (c : Conn) (l : List (Bytes × Nat)) :
    Keep c (notifyConsumers m c l).1 := by
  induction l generalizing c with
  | nil => exact Keep.refl c
  | cons x r ih =>
    obtain ⟨t, qid⟩ := x
    unfold notifyConsumers
    have h1 := keep_sendCons c qid m
    split
    · rename_i heq; rw [heq] at h1; exact h1
    · rename_i heq; rw [heq] at h1
      exact h1.trans ((keep_dropConsTx _ qid).trans (ih _))

/-! ### Queue primitives -/

/-- `sendCons` either fails and changes nothing, or appends to a queue whose receiver lives. -/
theorem sendCons_spec (c : Conn) (qid : Nat) (m : CMsg) :
    ((sendCons c qid m).2 ≠ none ∧ (sendCons c qid m).1 = c) ∨
    (∃ q, lookupN qid c.cqs = some q ∧ q.rxAlive = true ∧
      sendCons c qid m = ({ c with cqs := setN qid { q with msgs := q.msgs ++ [m] } c.cqs }, none)) := by
  unfold sendCons
  split
  · rename_i q hq
    split
    · exact Or.inl ⟨by simp, rfl⟩
    · rename_i hr
      exact Or.inr ⟨q, hq, by simpa using hr, rfl⟩
  · exact Or.inl ⟨by simp, rfl⟩

theorem sendCons_ok {c : Conn} {qid : Nat} {q : CQ} (hq : lookupN qid c.cqs = some q)
    (hrx : q.rxAlive = true) (m : CMsg) :
    sendCons c qid m = ({ c with cqs := setN qid { q with msgs := q.msgs ++ [m] } c.cqs }, none) := by
  unfold sendCons; rw [hq]; simp [hrx]

/-- A delivery to a registered queue. -/
theorem qstep_sendCons {c : Conn} {P : Nat → Prop} {qid : Nat} (hP : P qid) {m : CMsg}
    (hm : m.isTerm = false) : QStep c (sendCons c qid m).1 P P := by
  intro h
  rcases sendCons_spec c qid m with ⟨_, e⟩ | ⟨q, hq, _, e⟩
  · rw [e]; exact ⟨h, Mono.refl _⟩
  · rw [e]
    obtain ⟨q0, hq0, ha⟩ := h.reg_alive qid hP
    rw [hq] at hq0; cases hq0
    exact qi_setN h hq _ ((h.term_ok qid q hq).push ha hm)
      (fun hd => by rw [ha] at hd; cases hd) P (fun _ _ => Iff.rfl) ⟨fun _ => ha, fun _ => hP⟩

theorem qstep_dropConsTx (c : Conn) (P : Nat → Prop) (qid : Nat) :
    QStep c (dropConsTx c qid) P (fun x => P x ∧ x ≠ qid) := by
  intro h
  unfold dropConsTx
  split
  · rename_i q hq
    exact qi_setN h hq _ (h.term_ok qid q hq).drop_tx (fun hd => ⟨rfl, 0, rfl⟩) _
      (fun x hx => ⟨fun hp => hp.1, fun hp => ⟨hp, hx⟩⟩)
      ⟨fun hp => absurd rfl hp.2, fun e => by cases e⟩
  · rename_i hq
    refine ⟨⟨fun x hx => h.reg_alive x hx.1, fun x r hr ha => ⟨h.alive_reg x r hr ha, ?_⟩, h.lt_next,
      h.term_ok⟩, Mono.refl _⟩
    intro e; subst e; rw [hq] at hr; cases hr

/-- A (possibly terminal) message followed by dropping the sender. -/
theorem qstep_send_drop {c : Conn} {P : Nat → Prop} {qid : Nat} (hP : P qid) (m : CMsg) :
    QStep c (dropConsTx (sendCons c qid m).1 qid) P (fun x => P x ∧ x ≠ qid) := by
  rcases sendCons_spec c qid m with ⟨_, e⟩ | ⟨q, hq, _, e⟩
  · rw [e]; exact qstep_dropConsTx c P qid
  · rw [e]
    intro h
    obtain ⟨q0, hq0, ha⟩ := h.reg_alive qid hP
    rw [hq] at hq0; cases hq0
    unfold dropConsTx
    dsimp only
    rw [lookupN_setN_self]
    dsimp only
    rw [setN_setN]
    exact qi_setN h hq _ ((h.term_ok qid q hq).push_drop ha m)
      (fun hd => by rw [ha] at hd; cases hd) _
      (fun x hx => ⟨fun hp => hp.1, fun hp => ⟨hp, hx⟩⟩)
      ⟨fun hp => absurd rfl hp.2, fun e => by cases e⟩

theorem qstep_dropReply (c : Conn) (P : Nat → Prop) (r : Reply) : QStep c (dropReply c r) P P := by
  intro h
  unfold dropReply
  split
  · split
    · rename_i q hq
      exact qi_setN h hq _ (h.term_ok _ q hq).drop_rx (fun hd => ⟨hd, 0, rfl⟩) P (fun _ _ => Iff.rfl)
        ⟨fun hp => (h.reg_alive _ hp).elim (fun q0 hq0 => by rw [hq] at hq0; cases hq0.1; exact hq0.2),
         fun ha => h.alive_reg _ q hq ha⟩
    · exact ⟨h, Mono.refl _⟩
  · exact ⟨h, Mono.refl _⟩

theorem qstep_dropAll (L : List (Bytes × Nat)) (c : Conn) (P : Nat → Prop) :
    QStep c (L.foldl (fun acc (x : Bytes × Nat) => dropConsTx acc x.2) c) P
      (fun x => P x ∧ x ∉ qids L) := by
  induction L generalizing c P with
  | nil => exact (QStep.refl c P).iff_right (fun x => by simp [qids])
  | cons p r ih =>
    rw [List.foldl_cons]
    refine ((qstep_dropConsTx c P p.2).trans (ih _ _)).iff_right (fun x => ?_)
    simp only [qids, List.map_cons, List.mem_cons, not_or]
    exact ⟨fun ⟨a, b, d⟩ => ⟨⟨a, b⟩, d⟩, fun ⟨⟨a, b⟩, d⟩ => ⟨a, b, d⟩⟩

theorem qstep_dropSlotEnds (c : Conn) (P : Nat → Prop) (s : Slot) :
    QStep c (dropSlotEnds c s) P (fun x => P x ∧ x ∉ qids s.consumers) := by
  unfold dropSlotEnds
  exact (QStep.of_core (core_setLink c _ _) P).trans (qstep_dropAll s.consumers _ P)

theorem qstep_foldl_dropSlotEnds (L : List Slot) (c : Conn) (P : Nat → Prop) :
    QStep c (L.foldl dropSlotEnds c) P (fun x => P x ∧ ∀ s ∈ L, x ∉ qids s.consumers) := by
  induction L generalizing c P with
  | nil => exact (QStep.refl c P).iff_right (fun x => by simp)
  | cons s r ih =>
    rw [List.foldl_cons]
    refine ((qstep_dropSlotEnds c P s).trans (ih _ _)).iff_right (fun x => ?_)
    simp only [List.mem_cons, forall_eq_or_imp]
    exact ⟨fun ⟨a, b, d⟩ => ⟨⟨a, b⟩, d⟩, fun ⟨⟨a, b⟩, d⟩ => ⟨a, b, d⟩⟩

/-- `notifyConsumers`: every consumer of the list that was reached has its message and is released;
    on success that is all of them. -/
theorem notify_q (msg : CMsg) (L : List (Bytes × Nat)) (c : Conn) (P : Nat → Prop)
    (hn : (qids L).Nodup) (hL : ∀ x ∈ qids L, P x) (h : QI c.cqs c.nextQid P) :
    ∃ P' : Nat → Prop, QI (notifyConsumers msg c L).1.cqs (notifyConsumers msg c L).1.nextQid P' ∧
      Mono c.cqs (notifyConsumers msg c L).1.cqs ∧ (∀ x, P' x → P x) ∧
      (∀ x, P x → x ∉ qids L → P' x) ∧
      ((notifyConsumers msg c L).2 = none → ∀ x, P' x → x ∉ qids L) := by
  induction L generalizing c P with
  | nil => exact ⟨P, h, Mono.refl _, fun _ hx => hx, fun _ hx _ => hx, fun _ _ _ hm => by cases hm⟩
  | cons p r ih =>
    obtain ⟨t, qid⟩ := p
    simp only [qids, List.map_cons, List.nodup_cons, List.mem_cons, forall_eq_or_imp] at hn hL
    unfold notifyConsumers
    split
    · rename_i c2 e heq
      have hne : (sendCons c qid msg).2 ≠ none := by rw [heq]; simp
      have hc2 : c2 = c := by
        rcases sendCons_spec c qid msg with ⟨_, e1⟩ | ⟨_, _, _, e1⟩
        · rw [heq] at e1; exact e1
        · rw [e1] at hne; exact absurd rfl hne
      subst hc2
      exact ⟨P, h, Mono.refl _, fun _ hx => hx, fun _ hx _ => hx, fun hm => by cases hm⟩
    · rename_i c2 heq
      have hc2 : c2 = (sendCons c qid msg).1 := by rw [heq]
      subst hc2
      obtain ⟨h1, m1⟩ := qstep_send_drop hL.1 msg h
      obtain ⟨P', a1, a2, a3, a4, a5⟩ := ih (dropConsTx (sendCons c qid msg).1 qid)
        (fun x => P x ∧ x ≠ qid) hn.2
        (fun x hx => ⟨hL.2 x hx, fun e => hn.1 (e ▸ hx)⟩) h1
      refine ⟨P', a1, m1.trans a2, fun x hx => (a3 x hx).1, fun x hx hnm => ?_, fun hs x hx => ?_⟩
      · simp only [qids, List.map_cons, List.mem_cons, not_or] at hnm
        exact a4 x ⟨hx, hnm.1⟩ hnm.2
      · simp only [qids, List.map_cons, List.mem_cons, not_or]
        exact ⟨(a3 x hx).2, a5 hs x hx⟩

/-! ## 4. The reachable-state invariant -/

/-- Structure of the slot table: distinct channel ids, all of them open in the allocator; in each
    consumer table distinct tags; no queue id registered twice anywhere. -/
structure SOK (slots : List (Nat × Slot)) (open_ : List Nat) : Prop where
  keys_nodup : (slots.map (·.1)).Nodup
  keys_open : ∀ p ∈ slots, p.1 ∈ open_
  tags_nodup : ∀ p ∈ slots, (p.2.consumers.map (·.1)).Nodup
  tbl_nodup : (tbl slots).Nodup

/-- Invariant of every reachable state about consumer queues:
    * a queue id in some slot's consumer table names a queue whose sender is alive and which holds
      no terminal message; conversely a queue whose sender is alive is in a table (`QI`);
    * no queue id occurs twice in the tables (`SOK.tbl_nodup`), tags are distinct per table;
    * every queue id in use is below `nextQid`;
    * a queue whose sender is gone holds at most one terminal message, at its end (`TermOK`). -/
structure InvC (c : Conn) : Prop where
  open_nodup : c.alloc.open_.Nodup
  sok : SOK c.slots c.alloc.open_
  qi : QI c.cqs c.nextQid (fun x => x ∈ tbl c.slots)

/-- The operation leading from `c` to `c'` preserves the invariant and never revives a queue. -/
def Pres (c c' : Conn) : Prop := InvC c → InvC c' ∧ Mono c.cqs c'.cqs

theorem Pres.refl (c : Conn) : Pres c c := fun h => ⟨h, Mono.refl _⟩

theorem Pres.trans {a b c : Conn} (h1 : Pres a b) (h2 : Pres b c) : Pres a c := fun h =>
  let ⟨i1, m1⟩ := h1 h
  let ⟨i2, m2⟩ := h2 i1
  ⟨i2, m1.trans m2⟩

theorem Pres.of_core {c c' : Conn} (h : Core c c') : Pres c c' := by
  intro hi
  refine ⟨⟨?_, ?_, ?_⟩, ?_⟩
  · rw [h.alloc]; exact hi.open_nodup
  · rw [h.alloc, h.slots]; exact hi.sok
  · rw [h.cqs, h.nextQid, h.slots]; exact hi.qi
  · rw [h.cqs]; exact Mono.refl _

theorem Pres.of_eq {c c' c'' : Conn} (h : Pres c c') (e : c' = c'') : Pres c c'' := e ▸ h

/-- Pull a `Pres` goal through a pattern match on a result pair. -/
theorem Pres.of_eq_fst {β : Type} {c : Conn} {r : Conn × β} {c' : Conn} {x : β} (h : Pres c r.1)
    (e : r = (c', x)) : Pres c c' := by subst e; exact h

theorem Pres.of_eq_fst3 {β γ : Type} {c : Conn} {r : Conn × β × γ} {c' : Conn} {x : β} {y : γ}
    (h : Pres c r.1) (e : r = (c', x, y)) : Pres c c' := by subst e; exact h

/-- Only queues moved, and the registered set is the same. -/
theorem Pres.of_keep {c c' : Conn} (hk : Keep c c')
    (hq : QStep c c' (fun x => x ∈ tbl c.slots) (fun x => x ∈ tbl c.slots)) : Pres c c' := by
  intro hi
  obtain ⟨q, m⟩ := hq hi.qi
  refine ⟨⟨?_, ?_, ?_⟩, m⟩
  · rw [hk.alloc]; exact hi.open_nodup
  · rw [hk.alloc, hk.slots]; exact hi.sok
  · rw [hk.slots]; exact q

theorem QStep.of_q {c c' : Conn} (h1 : c'.cqs = c.cqs) (h2 : c'.nextQid = c.nextQid) (P : Nat → Prop) :
    QStep c c' P P := by
  intro hq
  rw [h1, h2]
  exact ⟨hq, Mono.refl _⟩

/-! ### The slot table -/

theorem tbl_eraseN_sublist (n : Nat) (m : List (Nat × Slot)) : (tbl (eraseN n m)).Sublist (tbl m) := by
  induction m with
  | nil => exact List.Sublist.refl _
  | cons p r ih =>
    obtain ⟨k, v⟩ := p
    unfold eraseN
    split
    · rw [tbl_cons]; exact ih.trans (List.sublist_append_right _ _)
    · rw [tbl_cons, tbl_cons]; exact (List.Sublist.refl _).append ih

theorem SOK.nil (o : List Nat) : SOK [] o :=
  ⟨List.nodup_nil, fun _ h => (by cases h), fun _ h => (by cases h), List.nodup_nil⟩

theorem SOK.set {slots : List (Nat × Slot)} {o : List Nat} (h : SOK slots o) {n : Nat} {s0 : Slot}
    (hs : lookupN n slots = some s0) (s : Slot) (ht : (s.consumers.map (·.1)).Nodup)
    (htbl : (tbl (setN n s slots)).Nodup) : SOK (setN n s slots) o := by
  refine ⟨?_, fun p hp => ?_, fun p hp => ?_, htbl⟩
  · rw [keys_setN hs]; exact h.keys_nodup
  · rcases mem_setN hp with e | hp
    · subst e; exact h.keys_open (n, s0) (mem_of_lookupN hs)
    · exact h.keys_open p hp
  · rcases mem_setN hp with e | hp
    · subst e; exact ht
    · exact h.tags_nodup p hp

/-- Overwriting a slot without touching its consumer table. -/
theorem tbl_setN_same {slots : List (Nat × Slot)} {n : Nat} {s0 : Slot}
    (hs : lookupN n slots = some s0) (s : Slot) (hc : s.consumers = s0.consumers) :
    tbl (setN n s slots) = tbl slots := by
  obtain ⟨A, B, h1, h2, _⟩ := tbl_decomp hs
  rw [h2, h1, hc]

theorem SOK.set_same {slots : List (Nat × Slot)} {o : List Nat} (h : SOK slots o) {n : Nat} {s0 : Slot}
    (hs : lookupN n slots = some s0) (s : Slot) (hc : s.consumers = s0.consumers) :
    SOK (setN n s slots) o :=
  h.set hs s (hc ▸ h.tags_nodup (n, s0) (mem_of_lookupN hs)) (by rw [tbl_setN_same hs s hc]; exact h.tbl_nodup)

theorem SOK.erase {slots : List (Nat × Slot)} {a : Slots.Slots} (h : SOK slots a.open_)
    (n : Nat) : SOK (eraseN n slots) (Slots.remove a n).1.open_ := by
  refine ⟨h.keys_nodup.sublist (keys_eraseN_sublist n slots), fun p hp => ?_,
    fun p hp => h.tags_nodup p (mem_eraseN hp), h.tbl_nodup.sublist (tbl_eraseN_sublist n slots)⟩
  have h1 := h.keys_open p (mem_eraseN hp)
  have h2 := key_ne_of_mem_eraseN hp
  unfold Slots.remove
  split
  · exact (List.mem_erase_of_ne h2).mpr h1
  · exact h1

theorem remove_open_nodup {a : Slots.Slots} (h : a.open_.Nodup) (n : Nat) :
    (Slots.remove a n).1.open_.Nodup := by
  unfold Slots.remove
  split
  · exact h.erase n
  · exact h

theorem mem_keys_of_lookupN {α : Type} {k : Nat} {v : α} {m : List (Nat × α)}
    (h : lookupN k m = some v) : k ∈ m.map (·.1) :=
  List.mem_map.mpr ⟨(k, v), mem_of_lookupN h, rfl⟩

theorem SOK.insert {slots : List (Nat × Slot)} {o : List Nat} (h : SOK slots o) {id : Nat}
    (hid : id ∉ o) (s : Slot) (hs : s.consumers = []) : SOK (insertSorted id s slots) (id :: o) := by
  have hk : id ∉ slots.map (·.1) := by
    intro hm
    obtain ⟨p, hp, e⟩ := List.mem_map.mp hm
    exact hid (e ▸ h.keys_open p hp)
  refine ⟨keys_insertSorted_nodup s h.keys_nodup hk, fun p hp => ?_, fun p hp => ?_, ?_⟩
  · rcases mem_insertSorted hp with e | hp
    · subst e; exact List.mem_cons_self
    · exact List.mem_cons_of_mem _ (h.keys_open p hp)
  · rcases mem_insertSorted hp with e | hp
    · subst e; rw [hs]; exact List.nodup_nil
    · exact h.tags_nodup p hp
  · rw [tbl_insertSorted hs hk]; exact h.tbl_nodup

theorem mem_tbl_of_lookup {slots : List (Nat × Slot)} {n : Nat} {s : Slot} {tag : Bytes} {qid : Nat}
    (hs : lookupN n slots = some s) (hc : lookupB tag s.consumers = some qid) : qid ∈ tbl slots :=
  mem_tbl.mpr ⟨(n, s), mem_of_lookupN hs, (tag, qid), mem_of_lookupB hc, rfl⟩

theorem mem_tbl_of_mem {slots : List (Nat × Slot)} {n : Nat} {s : Slot} {x : Nat}
    (hs : lookupN n slots = some s) (hx : x ∈ qids s.consumers) : x ∈ tbl slots := by
  obtain ⟨e, he, hx⟩ := List.mem_map.mp hx
  exact mem_tbl.mpr ⟨(n, s), mem_of_lookupN hs, e, he, hx⟩

/-! ### Templates for the three ways the table changes -/

theorem mem_mid {A M B : List Nat} (h : (A ++ M ++ B).Nodup) (x : Nat) :
    x ∈ A ++ B ↔ (x ∈ A ++ M ++ B ∧ x ∉ M) := by grind

/-- A slot leaves the table and all its consumers are released. -/
theorem invC_release {c c' : Conn} (h : InvC c) {n : Nat} {slot : Slot}
    (hslot : lookupN n c.slots = some slot)
    (hslots : c'.slots = eraseN n c.slots) (halloc : c'.alloc = (Slots.remove c.alloc n).1)
    (hq : QStep c c' (fun x => x ∈ tbl c.slots)
      (fun x => x ∈ tbl c.slots ∧ x ∉ qids slot.consumers)) :
    InvC c' ∧ Mono c.cqs c'.cqs := by
  obtain ⟨q, m⟩ := hq h.qi
  refine ⟨⟨?_, ?_, ?_⟩, m⟩
  · rw [halloc]; exact remove_open_nodup h.open_nodup n
  · rw [halloc, hslots]; exact h.sok.erase n
  · rw [hslots]
    refine q.iff (fun x => ?_)
    obtain ⟨A, B, h1, _, h3⟩ := tbl_decomp hslot
    rw [h3 h.sok.keys_nodup, h1]
    exact mem_mid (h1 ▸ h.sok.tbl_nodup) x

theorem cancel_lists {A B : List Nat} {l1 l2 : List (Bytes × Nat)} {tag : Bytes} {qid : Nat}
    (h : (A ++ qids (l1 ++ (tag, qid) :: l2) ++ B).Nodup) :
    (A ++ qids (l1 ++ l2) ++ B).Nodup ∧
    ∀ x, x ∈ A ++ qids (l1 ++ l2) ++ B ↔ (x ∈ A ++ qids (l1 ++ (tag, qid) :: l2) ++ B ∧ x ≠ qid) := by
  simp only [qids, List.map_append, List.map_cons] at h ⊢
  constructor
  · grind
  · intro x; grind

/-- One entry leaves a consumer table and its queue is released. -/
theorem invC_cancel {c c' : Conn} (h : InvC c) {n : Nat} {slot : Slot} {tag : Bytes} {qid : Nat}
    (hslot : lookupN n c.slots = some slot) (hc : lookupB tag slot.consumers = some qid)
    (hslots : c'.slots = setN n { slot with consumers := eraseB tag slot.consumers } c.slots)
    (halloc : c'.alloc = c.alloc)
    (hq : QStep c c' (fun x => x ∈ tbl c.slots) (fun x => x ∈ tbl c.slots ∧ x ≠ qid)) :
    InvC c' ∧ Mono c.cqs c'.cqs := by
  obtain ⟨q, m⟩ := hq h.qi
  have htags := h.sok.tags_nodup _ (mem_of_lookupN hslot)
  obtain ⟨l1, l2, e1, e2⟩ := eraseB_decomp htags hc
  obtain ⟨A, B, h1, h2, _⟩ := tbl_decomp hslot
  have hnd := h.sok.tbl_nodup
  rw [h1, e1] at hnd
  obtain ⟨g1, g2⟩ := cancel_lists hnd
  have htbl : tbl (setN n { slot with consumers := eraseB tag slot.consumers } c.slots) =
      A ++ qids (l1 ++ l2) ++ B := by rw [h2, e2]
  refine ⟨⟨?_, ?_, ?_⟩, m⟩
  · rw [halloc]; exact h.open_nodup
  · rw [halloc, hslots]
    refine h.sok.set hslot _ ?_ (htbl ▸ g1)
    show ((eraseB tag slot.consumers).map (·.1)).Nodup
    rw [e2]
    rw [e1] at htags
    refine htags.sublist ?_
    simp only [List.map_append, List.map_cons]
    exact (List.Sublist.refl _).append (List.sublist_cons_self _ _)
  · rw [hslots, htbl]
    refine q.iff (fun x => ?_)
    rw [g2 x, h1, e1]

theorem consume_lists {A M B : List Nat} {y : Nat} (h : (A ++ M ++ B).Nodup) (hy : y ∉ A ++ M ++ B) :
    (A ++ (M ++ [y]) ++ B).Nodup ∧
    ∀ x, x ∈ A ++ (M ++ [y]) ++ B ↔ (x ∈ A ++ M ++ B ∨ x = y) := by
  constructor
  · grind
  · intro x; grind

/-- A new consumer: fresh queue, fresh table entry. -/
theorem invC_consume {c c' : Conn} (h : InvC c) {n : Nat} {slot : Slot} {tag : Bytes}
    (hslot : lookupN n c.slots = some slot) (hc : lookupB tag slot.consumers = none)
    (hslots : c'.slots = setN n { slot with consumers := slot.consumers ++ [(tag, c.nextQid)] } c.slots)
    (halloc : c'.alloc = c.alloc)
    (hq : QStep c c' (fun x => x ∈ tbl c.slots) (fun x => x ∈ tbl c.slots ∨ x = c.nextQid)) :
    InvC c' ∧ Mono c.cqs c'.cqs := by
  obtain ⟨q, m⟩ := hq h.qi
  have htags := h.sok.tags_nodup _ (mem_of_lookupN hslot)
  obtain ⟨A, B, h1, h2, _⟩ := tbl_decomp hslot
  have hfresh : c.nextQid ∉ tbl c.slots := by
    intro hm
    obtain ⟨q0, hq0, _⟩ := h.qi.reg_alive _ hm
    exact Nat.lt_irrefl _ (h.qi.lt_next _ q0 hq0)
  have hnd := h.sok.tbl_nodup
  rw [h1] at hnd hfresh
  obtain ⟨g1, g2⟩ := consume_lists hnd hfresh
  have htbl : tbl (setN n { slot with consumers := slot.consumers ++ [(tag, c.nextQid)] } c.slots) =
      A ++ (qids slot.consumers ++ [c.nextQid]) ++ B := by
    rw [h2]; simp [qids]
  refine ⟨⟨?_, ?_, ?_⟩, m⟩
  · rw [halloc]; exact h.open_nodup
  · rw [halloc, hslots]
    refine h.sok.set hslot _ ?_ (htbl ▸ g1)
    show ((slot.consumers ++ [(tag, c.nextQid)]).map (·.1)).Nodup
    simp only [List.map_append, List.map_cons, List.map_nil]
    refine List.nodup_append.mpr ⟨htags, by simp, fun a ha b hb => ?_⟩
    rw [List.mem_singleton.mp hb]
    intro e; subst e
    exact lookupB_none_iff.mp hc ha
  · rw [hslots, htbl]
    refine q.iff (fun x => ?_)
    rw [g2 x, h1]

/-! ## 5. Preservation by `process` -/

theorem Core.of_eq_fst {β : Type} {c : Conn} {r : Conn × β} {c' : Conn} {x : β} (h : Core c r.1)
    (e : r = (c', x)) : Core c c' := by subst e; exact h

theorem Keep.of_eq_fst {β : Type} {c : Conn} {r : Conn × β} {c' : Conn} {x : β} (h : Keep c r.1)
    (e : r = (c', x)) : Keep c c' := by subst e; exact h

theorem pres_setSlot_same {c : Conn} {n : Nat} {s0 : Slot} (hs : lookupN n c.slots = some s0)
    (s : Slot) (hc : s.consumers = s0.consumers) : Pres c (setSlot c n s) := by
  intro hi
  refine ⟨⟨hi.open_nodup, hi.sok.set_same hs s hc, ?_⟩, Mono.refl _⟩
  show QI c.cqs c.nextQid (fun x => x ∈ tbl (setN n s c.slots))
  rw [tbl_setN_same hs s hc]; exact hi.qi

theorem pres_sendCons {c : Conn} {qid : Nat} (hq : qid ∈ tbl c.slots) {m : CMsg}
    (hm : m.isTerm = false) : Pres c (sendCons c qid m).1 :=
  Pres.of_keep (keep_sendCons c qid m) (qstep_sendCons hq hm)

theorem pres_dropReply (c : Conn) (r : Reply) : Pres c (dropReply c r) :=
  Pres.of_keep (keep_dropReply c r) (qstep_dropReply c _ r)

theorem pres_dispatchContent {c : Conn} {n : Nat} {s0 : Slot} (hk : lookupN n c.slots = some s0)
    (slot : Slot) (hc : slot.consumers = s0.consumers) (ct : Content) :
    Pres c (dispatchContent c n slot ct).1 := by
  unfold dispatchContent
  split
  · split
    · exact Pres.refl c
    · rename_i qid hq
      exact pres_sendCons (mem_tbl_of_lookup hk (hc ▸ hq)) rfl
  · split
    · exact Pres.refl c
    · rename_i l _
      split
      · rename_i heq; exact Pres.of_core ((core_sendLst c l _).of_eq_fst heq)
      · rename_i c1 heq
        have h1 := (core_sendLst c l _).of_eq_fst heq
        exact (Pres.of_core h1).trans (pres_setSlot_same (s0 := s0) (h1.slots ▸ hk) _ hc)
  · exact Pres.of_core (core_sendReply _ _ _)

theorem pres_afterCollect {c : Conn} {n : Nat} {slot : Slot} (hk : lookupN n c.slots = some slot)
    (r : Res) : Pres c (afterCollect c n slot r).1 := by
  unfold afterCollect
  have h1 : Pres c (setSlot c n { slot with coll := r.state }) := pres_setSlot_same hk _ rfl
  dsimp only
  split
  · exact h1
  · exact h1
  · exact h1.trans (pres_dispatchContent (lookupN_setN_self _ _ _) _ rfl _)

theorem pres_trySendConfirm {c : Conn} {n : Nat} {slot : Slot} (hk : lookupN n c.slots = some slot)
    (m : LMsg) : Pres c (trySendConfirm c n slot m) := by
  unfold trySendConfirm
  split
  · exact Pres.refl c
  · rename_i l _
    have h1 := core_sendLst c l m
    split
    · rename_i heq; rw [heq] at h1; exact Pres.of_core h1
    · rename_i c1 heq
      rw [heq] at h1
      exact (Pres.of_core h1).trans (pres_setSlot_same (s0 := slot) (h1.slots ▸ hk) _ rfl)

/-! ### Closing a channel -/

theorem qids_nodup_of_lookup {slots : List (Nat × Slot)} {n : Nat} {s : Slot}
    (hs : lookupN n slots = some s) (hn : (tbl slots).Nodup) : (qids s.consumers).Nodup := by
  obtain ⟨A, B, h1, _, _⟩ := tbl_decomp hs
  rw [h1] at hn
  exact hn.sublist ((List.sublist_append_right A _).trans (List.sublist_append_left _ B))

/-- Notify the consumers of a slot, then drop the slot: all of them are released whether or not
    the notification loop failed half-way. -/
theorem qstep_notify_drop (m : CMsg) (c : Conn) (s : Slot) (P : Nat → Prop)
    (hn : (qids s.consumers).Nodup) (hL : ∀ x ∈ qids s.consumers, P x)
    (f : Conn → Conn) (hf : ∀ x, Core x (f x)) :
    QStep c (dropSlotEnds (f (notifyConsumers m c s.consumers).1) s) P
      (fun x => P x ∧ x ∉ qids s.consumers) := by
  intro h
  obtain ⟨P', a1, a2, a3, a4, _⟩ := notify_q m s.consumers c P hn hL h
  obtain ⟨b1, b2⟩ := ((QStep.of_core (hf _) P').trans (qstep_dropSlotEnds _ P' s)) a1
  exact ⟨b1.iff (fun x => ⟨fun ⟨p, q⟩ => ⟨a4 x p q, q⟩, fun ⟨p, q⟩ => ⟨a3 x p, q⟩⟩), a2.trans b2⟩

/-- The common shape of the two channel-close arms of `processChannelMethod`. -/
def closeSlot (c : Conn) (n : Nat) (slot : Slot) (r : Reply) (m : CMsg) (fin : Conn → Conn) :
    Conn × Option Err :=
  match sendReply (removeSlot c n) slot.lid r with
  | (c2, some e) => (dropSlotEnds c2 slot, some e)
  | (c2, none) =>
    match notifyConsumers m c2 slot.consumers with
    | (c3, some e) =>
      let c4 := dropSlotEnds c3 slot
      ({ c4 with nondet := c4.nondet || decide (slot.consumers.length > 1) }, some e)
    | (c3, none) => (dropSlotEnds (fin c3) slot, none)

theorem keep_closeSlot (c : Conn) (n : Nat) (slot : Slot) (r : Reply) (m : CMsg) (fin : Conn → Conn)
    (hf : ∀ x, Core x (fin x)) : Keep (removeSlot c n) (closeSlot c n slot r m fin).1 := by
  unfold closeSlot
  have h1 := (core_sendReply (removeSlot c n) slot.lid r).keep
  split
  · rename_i heq; rw [heq] at h1
    exact h1.trans (keep_dropSlotEnds _ _)
  · rename_i c2 heq; rw [heq] at h1
    have h2 := keep_notifyConsumers m c2 slot.consumers
    split
    · rename_i heq2; rw [heq2] at h2
      have h3 := h1.trans (h2.trans (keep_dropSlotEnds _ slot))
      exact ⟨h3.slots, h3.alloc, h3.nextQid⟩
    · rename_i heq2; rw [heq2] at h2
      exact h1.trans (h2.trans ((hf _).keep.trans (keep_dropSlotEnds _ slot)))

theorem pres_closeSlot {c : Conn} {n : Nat} {slot : Slot} (hslot : lookupN n c.slots = some slot)
    (r : Reply) (m : CMsg) (fin : Conn → Conn) (hf : ∀ x, Core x (fin x)) :
    Pres c (closeSlot c n slot r m fin).1 := by
  intro h
  have hk := keep_closeSlot c n slot r m fin hf
  refine invC_release h hslot hk.slots hk.alloc ?_
  have hn := qids_nodup_of_lookup hslot h.sok.tbl_nodup
  have hL : ∀ x ∈ qids slot.consumers, x ∈ tbl c.slots := fun x hx => mem_tbl_of_mem hslot hx
  have q1 : QStep c (removeSlot c n) (fun x => x ∈ tbl c.slots) (fun x => x ∈ tbl c.slots) :=
    QStep.of_q rfl rfl _
  have q2 := q1.trans (QStep.of_core (core_sendReply (removeSlot c n) slot.lid r) _)
  unfold closeSlot
  split
  · rename_i heq; rw [heq] at q2
    exact q2.trans (qstep_dropSlotEnds _ _ slot)
  · rename_i c2 heq; rw [heq] at q2
    split
    · rename_i c3 e heq2
      have q3 := qstep_notify_drop m c2 slot _ hn hL id (fun x => Core.refl x)
      rw [heq2] at q3
      exact q2.trans (q3.trans (QStep.of_q rfl rfl _))
    · rename_i c3 heq2
      have q3 := qstep_notify_drop m c2 slot _ hn hL fin hf
      rw [heq2] at q3
      exact q2.trans q3

/-- The shape of the server-initiated channel-close arm of `processChannelMethod`: the consumers
    first, then the channel's caller. -/
def closeSlotN (c : Conn) (n : Nat) (slot : Slot) (r : Reply) (m : CMsg) (fin : Conn → Conn) :
    Conn × Option Err :=
  match notifyConsumers m (removeSlot c n) slot.consumers with
  | (c2, some e) =>
    let c4 := dropSlotEnds c2 slot
    ({ c4 with nondet := c4.nondet || decide (slot.consumers.length > 1) }, some e)
  | (c2, none) =>
    match sendReply c2 slot.lid r with
    | (c3, some e) => (dropSlotEnds c3 slot, some e)
    | (c3, none) => (dropSlotEnds (fin c3) slot, none)

theorem keep_closeSlotN (c : Conn) (n : Nat) (slot : Slot) (r : Reply) (m : CMsg) (fin : Conn → Conn)
    (hf : ∀ x, Core x (fin x)) : Keep (removeSlot c n) (closeSlotN c n slot r m fin).1 := by
  unfold closeSlotN
  have h1 := keep_notifyConsumers m (removeSlot c n) slot.consumers
  split
  · rename_i heq; rw [heq] at h1
    have h3 := h1.trans (keep_dropSlotEnds _ slot)
    exact ⟨h3.slots, h3.alloc, h3.nextQid⟩
  · rename_i c2 heq; rw [heq] at h1
    have h2 := (core_sendReply c2 slot.lid r).keep
    split
    · rename_i heq2; rw [heq2] at h2
      exact h1.trans (h2.trans (keep_dropSlotEnds _ slot))
    · rename_i heq2; rw [heq2] at h2
      exact h1.trans (h2.trans ((hf _).keep.trans (keep_dropSlotEnds _ slot)))

theorem pres_closeSlotN {c : Conn} {n : Nat} {slot : Slot} (hslot : lookupN n c.slots = some slot)
    (r : Reply) (m : CMsg) (fin : Conn → Conn) (hf : ∀ x, Core x (fin x)) :
    Pres c (closeSlotN c n slot r m fin).1 := by
  intro h
  have hk := keep_closeSlotN c n slot r m fin hf
  refine invC_release h hslot hk.slots hk.alloc ?_
  have hn := qids_nodup_of_lookup hslot h.sok.tbl_nodup
  have hL : ∀ x ∈ qids slot.consumers, x ∈ tbl c.slots := fun x hx => mem_tbl_of_mem hslot hx
  have q1 : QStep c (removeSlot c n) (fun x => x ∈ tbl c.slots) (fun x => x ∈ tbl c.slots) :=
    QStep.of_q rfl rfl _
  unfold closeSlotN
  split
  · rename_i c2 e heq
    have q3 : QStep (removeSlot c n)
        (dropSlotEnds (notifyConsumers m (removeSlot c n) slot.consumers).1 slot) _ _ :=
      qstep_notify_drop m (removeSlot c n) slot _ hn hL id (fun x => Core.refl x)
    rw [heq] at q3
    exact q1.trans (q3.trans (QStep.of_q rfl rfl _))
  · rename_i c2 heq
    split
    · rename_i c3 e heq2
      have q3 : QStep (removeSlot c n)
          (dropSlotEnds (sendReply (notifyConsumers m (removeSlot c n) slot.consumers).1 slot.lid r).1
            slot) _ _ :=
        qstep_notify_drop m (removeSlot c n) slot _ hn hL (fun x => (sendReply x slot.lid r).1)
          (fun x => core_sendReply x slot.lid r)
      rw [heq] at q3; dsimp only at q3; rw [heq2] at q3
      exact q1.trans q3
    · rename_i c3 heq2
      have q3 : QStep (removeSlot c n)
          (dropSlotEnds (fin (sendReply (notifyConsumers m (removeSlot c n) slot.consumers).1 slot.lid
            r).1) slot) _ _ :=
        qstep_notify_drop m (removeSlot c n) slot _ hn hL (fun x => fin (sendReply x slot.lid r).1)
          (fun x => (core_sendReply x slot.lid r).trans (hf _))
      rw [heq] at q3; dsimp only at q3; rw [heq2] at q3
      exact q1.trans q3

theorem pcm_close_eq (c : Conn) (n code : Nat) (text dbg : Bytes) :
    processChannelMethod c n 20 40 [.nat code, .bytes text] dbg =
      match slotGet c n with
      | .ok slot => closeSlotN c n slot (.err (.serverClosedChannel n code text))
          (.serverClosedChannel n code text) (fun x => pushOut x (channelCloseOk n))
      | .error e => (c, some e) := rfl

theorem pcm_closeOk_eq (c : Conn) (n : Nat) (fields : List Field) (dbg : Bytes) :
    processChannelMethod c n 20 41 fields dbg =
      match lookupN n c.slots with
      | none => (c, none)
      | some slot => closeSlot c n slot (.method 20 41 []) .clientClosedChannel id := rfl

/-! ### Consume-ok -/

theorem pcm_consumeOk_eq (c : Conn) (n : Nat) (tag dbg : Bytes) :
    processChannelMethod c n 60 21 [.bytes tag] dbg =
      match slotGet c n with
      | .ok slot =>
        match lookupB tag slot.consumers with
        | some _ => (c, some (.duplicateConsumerTag n tag))
        | none =>
          let qid := c.nextQid
          let c1 := { c with cqs := c.cqs ++ [(qid, {})], nextQid := qid + 1 }
          let c2 := setSlot c1 n { slot with consumers := slot.consumers ++ [(tag, qid)] }
          match sendReply c2 slot.lid (.consumeOk tag qid) with
          | (c3, some e) => (dropReply c3 (.consumeOk tag qid), some e)
          | (c3, none) => (c3, none)
      | .error e => (c, some e) := rfl

theorem pres_consumeOk (c : Conn) (n : Nat) (tag dbg : Bytes) :
    Pres c (processChannelMethod c n 60 21 [.bytes tag] dbg).1 := by
  rw [pcm_consumeOk_eq]
  split
  · rename_i slot hs
    have hslot := slotGet_ok hs
    split
    · exact Pres.refl c
    · rename_i hc
      dsimp only
      intro h
      -- the state after the queue was created and the entry added
      have q2 : QStep c (setSlot { c with cqs := c.cqs ++ [(c.nextQid, {})], nextQid := c.nextQid + 1 } n
            { slot with consumers := slot.consumers ++ [(tag, c.nextQid)] })
          (fun x => x ∈ tbl c.slots) (fun x => x ∈ tbl c.slots ∨ x = c.nextQid) :=
        fun hq => qi_append hq _ (fun _ => Iff.rfl)
      have q3 := q2.trans (QStep.of_core (core_sendReply _ slot.lid (.consumeOk tag c.nextQid)) _)
      have k3 := (core_sendReply (setSlot { c with cqs := c.cqs ++ [(c.nextQid, {})], nextQid := c.nextQid + 1 } n
            { slot with consumers := slot.consumers ++ [(tag, c.nextQid)] }) slot.lid
            (.consumeOk tag c.nextQid)).keep
      split
      · rename_i heq
        rw [heq] at q3 k3
        have k4 := k3.trans (keep_dropReply _ (.consumeOk tag c.nextQid))
        exact invC_consume h hslot hc k4.slots k4.alloc (q3.trans (qstep_dropReply _ _ _))
      · rename_i heq
        rw [heq] at q3 k3
        exact invC_consume h hslot hc k3.slots k3.alloc q3
  · exact Pres.refl c

/-! ### Cancel (server-initiated) and cancel-ok -/

theorem pcm_cancel_eq (c : Conn) (n : Nat) (tag dbg : Bytes) (nowait : Bool) :
    processChannelMethod c n 60 30 [.bytes tag, .bool nowait] dbg =
      match slotGet c n with
      | .ok slot =>
        let r : Conn × Option Err :=
          match lookupB tag slot.consumers with
          | some qid =>
            let c1 := setSlot c n { slot with consumers := eraseB tag slot.consumers }
            match sendCons c1 qid .serverCancelled with
            | (c2, some e) => (dropConsTx c2 qid, some e)
            | (c2, none) => (dropConsTx c2 qid, none)
          | none => (c, none)
        match r with
        | (c2, some e) => (c2, some e)
        | (c2, none) => (if nowait then c2 else pushOut c2 (basicCancelOk n tag), none)
      | .error e => (c, some e) := rfl

/-- Both outcomes of the send leave the same state. -/
theorem send_then_drop (c : Conn) (qid : Nat) (m : CMsg) :
    (match sendCons c qid m with
      | (c2, some e) => (dropConsTx c2 qid, some e)
      | (c2, none) => (dropConsTx c2 qid, none) : Conn × Option Err) =
    (dropConsTx (sendCons c qid m).1 qid, (sendCons c qid m).2) := by
  split <;> (rename_i heq; rw [heq])

/-- The entry `tag ↦ qid` leaves the table of slot `n`, a last message goes to its queue and the
    sender is dropped. -/
theorem pres_cancel_core {c : Conn} {n : Nat} {slot : Slot} {tag : Bytes} {qid : Nat}
    (hslot : lookupN n c.slots = some slot) (hc : lookupB tag slot.consumers = some qid)
    (f : Conn → Conn) (hf : ∀ x, Core x (f x)) (m : CMsg) :
    Pres c (dropConsTx (sendCons (f (setSlot c n { slot with consumers := eraseB tag slot.consumers }))
      qid m).1 qid) := by
  intro h
  have hk := ((hf (setSlot c n { slot with consumers := eraseB tag slot.consumers })).keep.trans
    (keep_sendCons _ qid m)).trans (keep_dropConsTx _ qid)
  refine invC_cancel h hslot hc hk.slots hk.alloc ?_
  have q1 : QStep c (setSlot c n { slot with consumers := eraseB tag slot.consumers })
      (fun x => x ∈ tbl c.slots) (fun x => x ∈ tbl c.slots) := QStep.of_q rfl rfl _
  exact (q1.trans (QStep.of_core (hf _) _)).trans (qstep_send_drop (mem_tbl_of_lookup hslot hc) m)

theorem pres_cancel (c : Conn) (n : Nat) (tag dbg : Bytes) (nowait : Bool) :
    Pres c (processChannelMethod c n 60 30 [.bytes tag, .bool nowait] dbg).1 := by
  rw [pcm_cancel_eq]
  split
  · rename_i slot hs
    have hslot := slotGet_ok hs
    dsimp only
    have hr : Pres c (match lookupB tag slot.consumers with
        | some qid =>
          match sendCons (setSlot c n { slot with consumers := eraseB tag slot.consumers }) qid
              .serverCancelled with
          | (c2, some e) => (dropConsTx c2 qid, some e)
          | (c2, none) => (dropConsTx c2 qid, none)
        | none => (c, none) : Conn × Option Err).1 := by
      split
      · rename_i qid hc
        rw [send_then_drop]
        exact pres_cancel_core hslot hc id (fun x => Core.refl x) _
      · exact Pres.refl c
    split
    · rename_i heq; rw [heq] at hr; exact hr
    · rename_i heq; rw [heq] at hr
      dsimp only
      split
      · exact hr
      · exact hr.trans (Pres.of_core (core_pushOut _ _))
  · exact Pres.refl c

theorem pcm_cancelOk_eq (c : Conn) (n : Nat) (tag dbg : Bytes) :
    processChannelMethod c n 60 31 [.bytes tag] dbg =
      match slotGet c n with
      | .ok slot =>
        let consumer := lookupB tag slot.consumers
        let c1 := setSlot c n { slot with consumers := eraseB tag slot.consumers }
        let r : Conn × Option Err :=
          match consumer with
          | some qid =>
            match sendCons c1 qid .clientCancelled with
            | (c2, some e) => (dropConsTx c2 qid, some e)
            | (c2, none) => (dropConsTx c2 qid, none)
          | none => (c1, none)
        match r with
        | (c2, some e) => (c2, some e)
        | (c2, none) => sendReply c2 slot.lid (.method 60 31 [.bytes tag])
      | .error e => (c, some e) := rfl

/-- Dropping the sender of a registered queue whose entry just left the table. -/
theorem pres_cancel_drop {c : Conn} {n : Nat} {slot : Slot} {tag : Bytes} {qid : Nat}
    (hslot : lookupN n c.slots = some slot) (hc : lookupB tag slot.consumers = some qid)
    (f : Conn → Conn) (hf : ∀ x, Core x (f x)) :
    Pres c (dropConsTx (f (setSlot c n { slot with consumers := eraseB tag slot.consumers })) qid) := by
  intro h
  have hk := (hf (setSlot c n { slot with consumers := eraseB tag slot.consumers })).keep.trans
    (keep_dropConsTx _ qid)
  refine invC_cancel h hslot hc hk.slots hk.alloc ?_
  have q1 : QStep c (setSlot c n { slot with consumers := eraseB tag slot.consumers })
      (fun x => x ∈ tbl c.slots) (fun x => x ∈ tbl c.slots) := QStep.of_q rfl rfl _
  exact (q1.trans (QStep.of_core (hf _) _)).trans (qstep_dropConsTx _ _ qid)

theorem pres_cancelOk (c : Conn) (n : Nat) (tag dbg : Bytes) :
    Pres c (processChannelMethod c n 60 31 [.bytes tag] dbg).1 := by
  rw [pcm_cancelOk_eq]
  split
  · rename_i slot hs
    have hslot := slotGet_ok hs
    dsimp only
    have hr : Pres c (match lookupB tag slot.consumers with
        | some qid =>
          match sendCons (setSlot c n { slot with consumers := eraseB tag slot.consumers }) qid
              .clientCancelled with
          | (c2, some e) => (dropConsTx c2 qid, some e)
          | (c2, none) => (dropConsTx c2 qid, none)
        | none => (setSlot c n { slot with consumers := eraseB tag slot.consumers }, none) :
          Conn × Option Err).1 := by
      split
      · rename_i qid hc
        rw [send_then_drop]
        exact pres_cancel_core hslot hc id (fun x => Core.refl x) _
      · rename_i hc
        exact pres_setSlot_same hslot _ (eraseB_of_not_mem (lookupB_none_iff.mp hc))
    split
    · rename_i heq; rw [heq] at hr; exact hr
    · rename_i heq; rw [heq] at hr
      exact hr.trans (Pres.of_core (core_sendReply _ _ _))
  · exact Pres.refl c

theorem pres_close (c : Conn) (n code : Nat) (text dbg : Bytes) :
    Pres c (processChannelMethod c n 20 40 [.nat code, .bytes text] dbg).1 := by
  rw [pcm_close_eq]
  split
  · rename_i hs
    exact pres_closeSlotN (slotGet_ok hs) _ _ _ (fun x => core_pushOut x _)
  · exact Pres.refl c

theorem pres_closeOk (c : Conn) (n : Nat) (fields : List Field) (dbg : Bytes) :
    Pres c (processChannelMethod c n 20 41 fields dbg).1 := by
  rw [pcm_closeOk_eq]
  split
  · exact Pres.refl c
  · rename_i hs
    exact pres_closeSlot hs _ _ _ (fun x => Core.refl x)

macro "pres_leaf" : tactic => `(tactic| first
  | exact Pres.refl _
  | exact Pres.of_core (core_sendReply _ _ _)
  | exact Pres.of_core (core_clientException _ _ _)
  | exact pres_afterCollect (slotGet_ok (by assumption)) _
  | exact pres_trySendConfirm (slotGet_ok (by assumption)) _)

theorem pres_processChannelMethod (c : Conn) (n cls mid : Nat) (fields : List Field) (dbg : Bytes) :
    Pres c (processChannelMethod c n cls mid fields dbg).1 := by
  unfold processChannelMethod
  dsimp only
  split
  · exact pres_close c n _ _ dbg
  · exact pres_closeOk c n [] dbg
  · exact pres_consumeOk c n _ dbg
  · exact pres_cancel c n _ dbg _
  · exact pres_cancelOk c n _ dbg
  all_goals (repeat' split)
  all_goals pres_leaf

/-! ### Draining every slot; the end of the loop -/

theorem not_mem_tbl_of_forall {L : List (Nat × Slot)} {x : Nat}
    (h : ∀ s ∈ L.map (·.2), x ∉ qids s.consumers) : x ∉ tbl L := by
  intro hx
  obtain ⟨p, hp, e, he, hxe⟩ := mem_tbl.mp hx
  exact h p.2 (List.mem_map.mpr ⟨p, hp, rfl⟩) (List.mem_map.mpr ⟨e, he, hxe⟩)

/-- Dropping every slot of a list releases everything registered in it. -/
theorem qstep_dropAllSlots (L : List (Nat × Slot)) (c : Conn) (P : Nat → Prop)
    (hP : ∀ x, P x → x ∈ tbl L) :
    QStep c ((L.map (·.2)).foldl dropSlotEnds c) P (fun _ => False) :=
  (qstep_foldl_dropSlotEnds (L.map (·.2)) c P).iff_right
    (fun x => ⟨fun h => h.elim, fun ⟨hp, hall⟩ => not_mem_tbl_of_forall hall (hP x hp)⟩)

theorem keep_drain_go (r : Reply) (m : CMsg) (all : List (Nat × Slot)) (c : Conn)
    (l : List (Nat × Slot)) : Keep c (drainSlots.go r m all c l).1 := by
  induction l generalizing c with
  | nil => exact Keep.refl c
  | cons x rest ih =>
    obtain ⟨k, s⟩ := x
    unfold drainSlots.go
    dsimp only
    have h1 := keep_notifyConsumers m c s.consumers
    split
    · rename_i heq; rw [heq] at h1
      have h2 := h1.trans (keep_foldl_dropSlotEnds _ (s :: rest.map (·.2)))
      exact ⟨h2.slots, h2.alloc, h2.nextQid⟩
    · rename_i c1 heq; rw [heq] at h1
      have h2 := (core_sendReply c1 s.lid r).keep
      split
      · rename_i heq2; rw [heq2] at h2
        have h3 := h1.trans (h2.trans (keep_foldl_dropSlotEnds _ (s :: rest.map (·.2))))
        exact ⟨h3.slots, h3.alloc, h3.nextQid⟩
      · rename_i heq2; rw [heq2] at h2
        exact h1.trans (h2.trans ((keep_dropSlotEnds _ s).trans (ih _)))

theorem qstep_drain_go (r : Reply) (m : CMsg) (all : List (Nat × Slot)) (l : List (Nat × Slot))
    (c : Conn) (hn : (tbl l).Nodup) :
    QStep c (drainSlots.go r m all c l).1 (fun x => x ∈ tbl l) (fun _ => False) := by
  induction l generalizing c with
  | nil =>
    exact (QStep.refl c _).iff_right (fun x => by simp)
  | cons x rest ih =>
    obtain ⟨k, s⟩ := x
    rw [tbl_cons] at hn
    have hns : (qids s.consumers).Nodup := (List.nodup_append.mp hn).1
    have hnr : (tbl rest).Nodup := (List.nodup_append.mp hn).2.1
    have hdis : ∀ x, x ∈ tbl rest → x ∉ qids s.consumers :=
      fun x hx hs => (List.nodup_append.mp hn).2.2 x hs x hx rfl
    have hall : QStep c c (fun x => x ∈ tbl ((k, s) :: rest)) (fun x => x ∈ tbl ((k, s) :: rest)) :=
      QStep.refl _ _
    unfold drainSlots.go
    dsimp only
    have hLs : ∀ x ∈ qids s.consumers, x ∈ tbl ((k, s) :: rest) :=
      fun x hx => by rw [tbl_cons]; exact List.mem_append_left _ hx
    split
    · rename_i c1 e heq
      -- the notification loop failed: whatever it reached is released, the rest is dropped
      intro h
      obtain ⟨P', a1, a2, a3, _, _⟩ := notify_q m s.consumers c _ hns hLs h
      rw [heq] at a1 a2
      obtain ⟨b1, b2⟩ := qstep_dropAllSlots ((k, s) :: rest) c1 P' a3 a1
      exact ⟨b1, a2.trans b2⟩
    · rename_i c1 heq
      split
      · rename_i c2 e heq2
        -- the caller is gone: every slot still in the iterator is dropped
        intro h
        obtain ⟨P', a1, a2, a3, _, _⟩ := notify_q m s.consumers c _ hns hLs h
        rw [heq] at a1 a2
        have q2 := QStep.of_core (core_sendReply c1 s.lid r) P'
        rw [heq2] at q2
        obtain ⟨a1', a2'⟩ := q2 a1
        obtain ⟨b1, b2⟩ := qstep_dropAllSlots ((k, s) :: rest) c2 P' a3 a1'
        exact ⟨b1, a2.trans (a2'.trans b2)⟩
      · rename_i c2 heq2
        intro h
        have q3 : QStep c (dropSlotEnds (sendReply (notifyConsumers m c s.consumers).1 s.lid r).1 s)
            _ _ :=
          qstep_notify_drop m c s (fun x => x ∈ tbl ((k, s) :: rest)) hns hLs
            (fun x => (sendReply x s.lid r).1) (fun x => core_sendReply x s.lid r)
        rw [heq] at q3; dsimp only at q3; rw [heq2] at q3
        obtain ⟨h3, m3⟩ := q3 h
        have h3' : QI (dropSlotEnds c2 s).cqs (dropSlotEnds c2 s).nextQid (fun x => x ∈ tbl rest) := by
          refine h3.iff (fun x => ?_)
          rw [tbl_cons, List.mem_append]
          exact ⟨fun hx => ⟨Or.inr hx, hdis x hx⟩, fun ⟨hx, hnx⟩ => hx.resolve_left hnx⟩
        obtain ⟨h4, m4⟩ := ih (dropSlotEnds c2 s) hnr h3'
        exact ⟨h4, m3.trans m4⟩

theorem drain_open_nil (a : Slots.Slots) : (Slots.drain a).1.open_ = [] := rfl

theorem pres_drainSlots (c : Conn) (r : Reply) (m : CMsg) : Pres c (drainSlots c r m).1 := by
  intro h
  unfold drainSlots
  have hk := keep_drain_go r m c.slots { c with slots := [], alloc := (Slots.drain c.alloc).1 } c.slots
  have q1 : QStep c { c with slots := [], alloc := (Slots.drain c.alloc).1 }
      (fun x => x ∈ tbl c.slots) (fun x => x ∈ tbl c.slots) := QStep.of_q rfl rfl _
  obtain ⟨h2, m2⟩ := (q1.trans (qstep_drain_go r m c.slots c.slots _ h.sok.tbl_nodup)) h.qi
  refine ⟨⟨?_, ?_, ?_⟩, m2⟩
  · rw [hk.alloc]; exact List.nodup_nil
  · rw [hk.alloc, hk.slots]; exact SOK.nil _
  · rw [hk.slots]
    exact h2.iff (fun x => by simp)

theorem pres_kill (c : Conn) : Pres c (kill c) := by
  intro h
  unfold kill
  dsimp only
  have e : c.slots.foldl (fun acc (x : Nat × Slot) => dropSlotEnds acc x.2) c =
      (c.slots.map (·.2)).foldl dropSlotEnds c := (List.foldl_map ..).symm
  have q1 : QStep c (c.slots.foldl (fun acc (x : Nat × Slot) => dropSlotEnds acc x.2) c)
      (fun x => x ∈ tbl c.slots) (fun _ => False) :=
    e ▸ qstep_dropAllSlots c.slots c _ (fun _ hx => hx)
  obtain ⟨h2, m2⟩ := q1 h.qi
  have k := keep_foldl_dropSlotEnds c (c.slots.map (·.2))
  rw [← e] at k
  refine ⟨⟨?_, SOK.nil _, h2.iff (fun x => by simp)⟩, m2⟩
  show (c.slots.foldl (fun acc (x : Nat × Slot) => dropSlotEnds acc x.2) c).alloc.open_.Nodup
  rw [k.alloc]; exact h.open_nodup

/-! ### `process` -/

theorem pres_closeDrain {c0 c : Conn} (hp : Pres c0 c) (st' : CSt) (r : Reply) (m : CMsg) :
    Pres c0 (drainSlots
      { (setLink { c with st := st' } 0
          { (getLink { c with st := st' } 0) with ioAlive := false, fifo := [] }) with
        blockedL := none, allocReq := [], blockedFifo := [] } r m).1 := by
  refine hp.trans (Pres.trans ?_ (pres_drainSlots _ r m))
  exact Pres.of_core ⟨rfl, rfl, rfl, rfl⟩

theorem pres_process (c : Conn) (f : Frame) (dc df : Bytes) : Pres c (process c f dc df).1 := by
  unfold process
  split
  · exact Pres.refl c
  · split <;> exact Pres.refl c
  · split <;> exact Pres.refl c
  · split
    · exact Pres.refl c
    · exact Pres.refl c
    · exact pres_closeDrain (Pres.of_core ((core_pushOut c connectionCloseOk).trans (core_sealOut _))) _ _ _
    · dsimp only
      split
      · exact Pres.refl c
      · split
        · exact Pres.refl c
        · exact pres_closeDrain (Pres.of_core (core_setLink c 0 _)) _ _ _
    · exact Pres.of_core (core_trySendBlocked c _)
    · exact Pres.of_core (core_trySendBlocked c _)
    · exact Pres.of_core ((core_clientException c _ _).trans (core_dropCh0 _))
    · exact Pres.of_core ((core_clientException c _ _).trans (core_dropCh0 _))
    · exact Pres.of_core ((core_clientException c _ _).trans (core_dropCh0 _))
    · split
      rename_i c1 e heq
      have h1 := (pres_processChannelMethod c _ _ _ _ _).of_eq_fst heq
      dsimp only
      split
      · exact h1.trans (Pres.of_core (core_dropCh0 _))
      · exact h1
    · split
      · exact Pres.refl c
      · rename_i hs; exact pres_afterCollect (slotGet_ok hs) _
    · split
      · exact Pres.refl c
      · rename_i hs; exact pres_afterCollect (slotGet_ok hs) _

/-! ## 6. Preservation by the event handlers -/

theorem pres_processPlainMessage (c : Conn) (n : Nat) (m : Msg) :
    Pres c (processPlainMessage c n m).1 := by
  unfold processPlainMessage
  split
  · exact Pres.of_core ((core_pushOut c _).trans (core_sealOut _))
  · exact Pres.of_core (core_pushOut c _)
  · split
    · exact Pres.refl c
    · split
      · rename_i hk; exact pres_setSlot_same hk _ rfl
      · exact Pres.refl c
  · split
    · exact Pres.refl c
    · split
      · rename_i hk; exact pres_setSlot_same hk _ rfl
      · exact Pres.refl c

theorem core_popFifo {c c1 : Conn} {m : Msg} {lid : Nat} (hp : popFifo c lid = some (m, c1)) :
    Core c c1 := by
  unfold popFifo at hp
  dsimp only at hp
  split at hp
  · cases hp
  · cases hp; exact core_setLink c _ _

theorem pres_processChannelMessage (c : Conn) (n : Nat) (m : Msg) :
    Pres c (processChannelMessage c n m).1 :=
  processChannelMessage_ind (P := Pres c)
    (fun _ n _ m _ h _ hp =>
      (h.trans (Pres.of_core (core_popFifo hp))).trans (pres_processPlainMessage _ n m))
    (fun _ h => h.trans (pres_processPlainMessage _ n m)) (Pres.refl c)

theorem pres_drainFifo (fuel : Nat) (c : Conn) (n : Nat) : Pres c (drainFifo fuel c n).1 := by
  induction fuel generalizing c with
  | zero => exact Pres.refl c
  | succ fuel ih =>
    unfold drainFifo
    dsimp only
    split
    · exact Pres.refl c
    · split
      · rename_i hp
        have h1 := Pres.of_core (core_popFifo hp)
        split
        · rename_i heq; exact h1.trans ((pres_processChannelMessage _ n _).of_eq_fst heq)
        · rename_i heq; exact (h1.trans ((pres_processChannelMessage _ n _).of_eq_fst heq)).trans (ih _)
      · split <;> exact Pres.refl c

theorem core_setBlockedLoop (fuel : Nat) (c : Conn) : Core c (setBlockedLoop fuel c).1 := by
  induction fuel generalizing c with
  | zero => exact Core.refl c
  | succ fuel ih =>
    unfold setBlockedLoop
    split
    · split <;> exact Core.refl c
    · refine Core.trans ?_ (ih _)
      exact ⟨rfl, rfl, rfl, rfl⟩

theorem core_writeLoop (fuel : Nat) (c : Conn) (pos : Nat) (w : Bytes) :
    Core c (writeLoop fuel c pos w).1 := by
  induction fuel generalizing c pos w with
  | zero => exact Core.refl c
  | succ fuel ih =>
    unfold writeLoop
    split
    · split
      · exact ⟨rfl, rfl, rfl, rfl⟩
      · exact ⟨rfl, rfl, rfl, rfl⟩
      · exact ⟨rfl, rfl, rfl, rfl⟩
      · refine Core.trans ?_ (ih _ _ _)
        exact ⟨rfl, rfl, rfl, rfl⟩
    · exact ⟨rfl, rfl, rfl, rfl⟩

theorem core_writeToStream (c : Conn) : Core c (writeToStream c).1 := core_writeLoop _ _ _ _

theorem pres_processBytes (c : Conn) (bytes : Bytes) : Pres c (processBytes c bytes).1 := by
  unfold processBytes
  split
  · split
    · exact pres_process c _ _ _
    · exact Pres.refl c
  · exact Pres.refl c

theorem pres_readFromStream_go (c : Conn) (l : List Bytes) : Pres c (readFromStream.go c l).1 := by
  induction l generalizing c with
  | nil => exact Pres.refl c
  | cons fr rest ih =>
    unfold readFromStream.go
    split
    · rename_i heq; exact (pres_processBytes c fr).of_eq_fst heq
    · rename_i heq; exact ((pres_processBytes c fr).of_eq_fst heq).trans (ih _)

theorem pres_readFromStream (c : Conn) : Pres c (readFromStream c).1 := by
  unfold readFromStream
  dsimp only
  have h0 : ∀ (b : Bytes) (r : List FrameBuffer.ReadEv), Pres c { c with fb := b, reads := r } :=
    fun b r => Pres.of_core ⟨rfl, rfl, rfl, rfl⟩
  split
  · rename_i heq
    exact (h0 _ _).trans ((pres_readFromStream_go _ _).of_eq_fst heq)
  · rename_i heq
    have h1 := (h0 _ _).trans ((pres_readFromStream_go _ _).of_eq_fst heq)
    split <;> exact h1

/-! ### `allocate_channel` -/

theorem counterLoop_none_open {n : Nat} {s s' : Slots.Slots}
    (h : Slots.counterLoop n s = (s', none)) : s'.open_ = s.open_ := by
  induction n generalizing s with
  | zero => simp only [Slots.counterLoop, Prod.mk.injEq, and_true] at h; rw [← h]
  | succ n ih =>
    simp only [Slots.counterLoop] at h
    split at h
    · split at h
      · have := ih h; exact this
      · simp at h
    · simp only [Prod.mk.injEq, and_true] at h; rw [← h]

/-- What an allocation does to the set of open ids: a granted id was not open and becomes open;
    otherwise nothing changes. -/
def AllocSpec (s : Slots.Slots) (p : Slots.Slots × Slots.Res) : Prop :=
  (∀ i, p.2 = .ok i → i ∉ s.open_ ∧ p.1.open_ = i :: s.open_) ∧
  ((∀ i, p.2 ≠ .ok i) → p.1.open_ = s.open_)

theorem insertSome_open (s : Slots.Slots) (id : Nat) : AllocSpec s (Slots.insertSome s id) := by
  by_cases hc : 1 ≤ id ∧ id ≤ s.max ∧ id ∉ s.open_
  · obtain ⟨h1, h2, h3⟩ := hc
    rw [Slots.insertSome_ok h1 h2 h3]
    refine ⟨fun i hi => ?_, fun hn => absurd rfl (hn id)⟩
    cases hi; exact ⟨h3, rfl⟩
  · rw [Slots.insertSome_unavailable hc]
    exact ⟨fun i hi => (by cases hi), fun _ => rfl⟩

theorem insertNone_open (s : Slots.Slots) : AllocSpec s (Slots.insertNone s) := by
  simp only [Slots.insertNone, Slots.insertNoneG]
  split
  · rename_i s' id hc
    obtain ⟨_, _, c3, c4, _⟩ := Slots.counterLoop_some hc
    refine ⟨fun i hi => ?_, fun hn => absurd rfl (hn id)⟩
    cases hi; exact ⟨c3, c4⟩
  · rename_i s' hc
    have ho := counterLoop_none_open hc
    simp only [Bool.false_eq_true, if_false]
    split
    · rename_i f id hp
      obtain ⟨p1, _⟩ := Slots.popLoop_some hp
      refine ⟨fun i hi => ?_, fun hn => absurd rfl (hn id)⟩
      cases hi
      rw [ho] at p1
      exact ⟨p1, by show id :: s'.open_ = _; rw [ho]⟩
    · exact ⟨fun i hi => (by cases hi), fun _ => ho⟩

/-- The allocator moved without opening an id. -/
theorem pres_with_alloc {c : Conn} {a : Slots.Slots} (ha : a.open_ = c.alloc.open_)
    (r : List (Option Nat)) (x : Src) : Pres c { c with alloc := a, allocReq := r, allocSrc := x } := by
  intro h
  exact ⟨⟨ha ▸ h.open_nodup, ha ▸ h.sok, h.qi⟩, Mono.refl _⟩

/-- A freshly allocated channel: its slot has no consumers yet. -/
theorem pres_newChannel {c : Conn} {a : Slots.Slots} {id : Nat} (hid : id ∉ c.alloc.open_)
    (ha : a.open_ = id :: c.alloc.open_) (l : Link) (r : List (Option Nat)) (x : Src) :
    Pres c { c with alloc := a, allocReq := r, allocSrc := x, nextLid := c.nextLid + 1,
                    links := c.links ++ [(c.nextLid, l)],
                    slots := insertSorted id { lid := c.nextLid } c.slots } := by
  intro h
  have hk : id ∉ c.slots.map (·.1) := by
    intro hm
    obtain ⟨p, hp, e⟩ := List.mem_map.mp hm
    exact hid (e ▸ h.sok.keys_open p hp)
  refine ⟨⟨?_, ?_, ?_⟩, Mono.refl _⟩
  · show a.open_.Nodup
    rw [ha]; exact List.nodup_cons.mpr ⟨hid, h.open_nodup⟩
  · show SOK (insertSorted id { lid := c.nextLid } c.slots) a.open_
    rw [ha]; exact h.sok.insert hid _ rfl
  · show QI c.cqs c.nextQid (fun x => x ∈ tbl (insertSorted id { lid := c.nextLid } c.slots))
    rw [tbl_insertSorted rfl hk]; exact h.qi

/-- Removing a slot that has no consumers. -/
theorem pres_removeSlot_empty {c : Conn} {n : Nat} {s : Slot} (hs : lookupN n c.slots = some s)
    (he : s.consumers = []) : Pres c (removeSlot c n) := by
  intro h
  refine invC_release h hs rfl rfl ?_
  exact (QStep.of_q rfl rfl _).iff_right (fun x => by simp [he, qids])

theorem Pres.then_core {c b c' : Conn} (h : Pres c b) (hc : Core b c') : Pres c c' :=
  h.trans (Pres.of_core hc)

/-- `Pres.trans` with the last step first (so that elaboration learns the middle state from it). -/
theorem Pres.after {a b c : Conn} (h2 : Pres b c) (h1 : Pres a b) : Pres a c := h1.trans h2

theorem Pres.after_core {c b c' : Conn} (hc : Core b c') (h : Pres c b) : Pres c c' := h.then_core hc

theorem Pres.with_allocRep {c b : Conn} (h : Pres c b) (x : Except Err Nat) :
    Pres c { b with allocRep := b.allocRep ++ [x] } := h.then_core ⟨rfl, rfl, rfl, rfl⟩

theorem pres_ite {α : Type} {p : Prop} [Decidable p] {c : Conn} {a b : Conn × α}
    (ha : Pres c a.1) (hb : Pres c b.1) : Pres c (if p then a else b).1 := by
  split <;> assumption

theorem pres_allocateLoop (fuel : Nat) (c : Conn) : Pres c (allocateLoop fuel c).1 := by
  induction fuel generalizing c with
  | zero => exact Pres.refl c
  | succ fuel ih =>
    unfold allocateLoop
    split
    · split <;> exact Pres.refl c
    · rename_i req rest hreq
      dsimp only
      cases req
      case' none =>
        have hsp := insertNone_open c.alloc
        dsimp only
        generalize Slots.insertNone c.alloc = p at hsp ⊢
      case' some id =>
        have hsp := insertSome_open c.alloc id
        dsimp only
        generalize Slots.insertSome c.alloc id = p at hsp ⊢
      all_goals
        obtain ⟨hok, hno⟩ := hsp
        split
        · rename_i hp
          exact pres_with_alloc (hno (fun i hi => by rw [hp] at hi; cases hi)) _ _
        · rename_i i hi
          obtain ⟨hid, hopen⟩ := hok i hi
          have h3 := fun l => pres_newChannel hid hopen l rest c.allocSrc.dec
          exact pres_ite
            (Pres.after (ih _) (Pres.after_core (core_setLink _ _ _)
              (Pres.after (pres_removeSlot_empty (s := { lid := c.nextLid })
                ((lookupN_insertSorted i i _ _).trans (if_pos rfl)) rfl) (h3 _))))
            (pres_ite (h3 _) (Pres.after (ih _) ((h3 _).with_allocRep _)))
        · rename_i hp1 hp2
          have h2 : Pres c { c with alloc := p.1, allocReq := rest, allocSrc := c.allocSrc.dec } :=
            pres_with_alloc (hno (fun i hi => hp2 i hi)) _ _
          exact pres_ite (Pres.after (ih _) h2)
            (pres_ite h2 (Pres.after (ih _) (h2.with_allocRep _)))

theorem pres_handleEvent (c : Conn) (t : Token) : Pres c (handleEvent c t).1 := by
  have hw := Pres.of_core (core_writeToStream c)
  unfold handleEvent
  split
  · rename_i r w
    cases w <;> cases r <;> simp only [Bool.false_eq_true, ↓reduceIte]
    all_goals (repeat' split)
    all_goals first
      | exact Pres.refl c
      | exact pres_readFromStream c
      | exact hw
      | exact hw.trans (pres_readFromStream _)
  · exact Pres.refl c
  · split
    · exact Pres.of_core (core_setBlockedLoop _ _)
    · split <;> exact Pres.refl c
  · split
    · exact pres_allocateLoop _ _
    · split <;> exact Pres.refl c
  · split
    · exact pres_drainFifo _ _ _
    · split <;> exact Pres.refl c
  · exact pres_drainFifo _ _ _

theorem core_foldl {β : Type} (g : Conn → β → Conn) (hg : ∀ a x, Core a (g a x)) (l : List β) (c : Conn) :
    Core c (l.foldl g c) :=
  foldl_invariant (Core c) g (fun a x ha => ha.trans (hg a x)) l c (Core.refl c)

theorem core_deregisterAll (c : Conn) : Core c (deregisterAll c) := by
  unfold deregisterAll
  dsimp only
  refine Core.trans (core_foldl _ (fun a x => core_setLink a _ _) c.slots c) ⟨rfl, rfl, rfl, rfl⟩

theorem core_reregisterAll (c : Conn) : Core c (reregisterAll c) := by
  unfold reregisterAll
  dsimp only
  refine Core.trans (core_foldl _ (fun a x => core_setLink a _ _) c.slots c) ⟨rfl, rfl, rfl, rfl⟩

theorem core_pollAll (c : Conn) : Core c (pollAll c).1 := by
  unfold pollAll
  dsimp only
  have h1 := foldl_invariant (fun (a : Conn × List PTok) => Core c a.1)
    (fun (acc : Conn × List PTok) (x : Nat × Nat) =>
      (setLink acc.1 x.2 { (getLink acc.1 x.2) with src := ((getLink acc.1 x.2).src.pollOne).1 },
        if ((getLink acc.1 x.2).src.pollOne).2 then acc.2 ++ [PTok.chan x.1] else acc.2))
    (fun a x ha => ha.trans (core_setLink a.1 _ _))
    ((if (getLink c 0).ioAlive then [(0, 0)] else []) ++ c.slots.map (fun (x : Nat × Slot) => (x.1, x.2.lid)))
    (c, []) (Core.refl c)
  exact ⟨h1.slots, h1.alloc, h1.nextQid, h1.cqs⟩

theorem pres_ioFin (c c1 : Conn) (w : Option Bytes) (e : Option Err) (h : Pres c c1) :
    Pres c (ioFin c1 w e).1 := by
  cases e with
  | none => exact h
  | some e => exact h.trans (pres_kill c1)

theorem pres_ioStep (c : Conn) (o : IoOp) : Pres c (ioStep c o).1 := by
  cases hd : c.dead with
  | true => rw [(ioStep_dead hd o).1]; exact Pres.refl c
  | false =>
    cases o with
    | frame bytes => rw [ioStep_frame hd]; exact pres_ioFin _ _ _ _ (pres_processBytes c bytes)
    | event t => rw [ioStep_event hd]; exact pres_ioFin _ _ _ _ (pres_handleEvent c t)
    | write => rw [ioStep_write hd]; exact pres_ioFin _ _ _ _ (Pres.of_core (core_writeToStream c))
    | done =>
      rw [ioStep_done hd]
      split
      · exact Pres.refl c
      · exact pres_kill c
    | dereg => rw [ioStep_dereg hd]; exact Pres.of_core (core_deregisterAll c)
    | rereg => rw [ioStep_rereg hd]; exact Pres.of_core (core_reregisterAll c)
    | poll => rw [ioStep_poll hd]; exact Pres.of_core (core_pollAll c)
    | kill => rw [ioStep_kill hd]; exact pres_kill c

/-! ## 7. Preservation by the client operations -/

theorem core_allocRequest (c : Conn) (req : Option Nat) : Core c (allocRequest c req).1 := by
  unfold allocRequest
  repeat' split
  all_goals first | exact Core.refl c | exact ⟨rfl, rfl, rfl, rfl⟩

theorem core_setBlockedRequest (c : Conn) (l : Label) : Core c (setBlockedRequest c l).1 := by
  unfold setBlockedRequest
  repeat' split
  all_goals first | exact Core.refl c | exact ⟨rfl, rfl, rfl, rfl⟩

theorem core_newListener (c : Conn) (l : Label) : Core c (newListener c l) := ⟨rfl, rfl, rfl, rfl⟩

theorem core_allocReply (c : Conn) (label : Label) : Core c (allocReply c label).1 := by
  unfold allocReply
  repeat' split
  all_goals first | exact Core.refl c | exact ⟨rfl, rfl, rfl, rfl⟩

theorem core_clientSend (c : Conn) (label : Label) (m : Msg) : Core c (clientSend c label m).1 := by
  unfold clientSend
  dsimp only
  repeat' split
  all_goals first | exact Core.refl c | exact core_setLink c _ _

theorem core_clientRecv (c : Conn) (label cl : Label) : Core c (clientRecv c label cl).1 := by
  unfold clientRecv
  dsimp only
  repeat' split
  all_goals first | exact Core.refl c | exact core_setLink c _ _ | exact ⟨rfl, rfl, rfl, rfl⟩

theorem core_lstRecv (c : Conn) (l : Label) : Core c (lstRecv c l).1 := by
  unfold lstRecv
  repeat' split
  all_goals first | exact Core.refl c | exact ⟨rfl, rfl, rfl, rfl⟩

theorem core_dropListener (c : Conn) (l : Label) : Core c (dropListener c l) := by
  unfold dropListener
  repeat' split
  all_goals first | exact Core.refl c | exact ⟨rfl, rfl, rfl, rfl⟩

/-- A client-side change of one queue that keeps the sender's state: receiving, or dropping the
    receiver. -/
theorem pres_setCq {c c' : Conn} {qid : Nat} {q : CQ} (hq : lookupN qid c.cqs = some q) (q' : CQ)
    (ha : q'.txAlive = q.txAlive) (ht : TermOK q → TermOK q') (hk : ∃ k, q'.msgs = q.msgs.drop k)
    (hc : c'.cqs = setN qid q' c.cqs) (hkeep : Keep c c') : Pres c c' := by
  refine Pres.of_keep hkeep ?_
  intro h
  rw [hc, hkeep.nextQid]
  refine qi_setN h hq q' (ht (h.term_ok qid q hq)) (fun hd => ⟨ha.trans hd, hk⟩) _ (fun _ _ => Iff.rfl) ?_
  rw [ha]
  exact ⟨fun hp => (h.reg_alive _ hp).elim (fun q0 hq0 => by rw [hq] at hq0; cases hq0.1; exact hq0.2),
    fun hal => h.alive_reg _ q hq hal⟩

theorem pres_consRecv (c : Conn) (cl : Label) : Pres c (consRecv c cl).1 := by
  unfold consRecv
  split
  · exact Pres.refl c
  · split
    · exact Pres.refl c
    · rename_i q hq
      split
      · rename_i m rest hm
        exact pres_setCq hq { q with msgs := rest } rfl (fun h => h.pop hm) ⟨1, by rw [hm]; rfl⟩ rfl
          ⟨rfl, rfl, rfl⟩
      · split <;> exact Pres.refl c

theorem pres_dropCons (c : Conn) (cl : Label) : Pres c (dropCons c cl) := by
  unfold dropCons
  split
  · exact Pres.refl c
  · split
    · rename_i q hq
      exact pres_setCq hq { q with rxAlive := false, msgs := [] } rfl (fun _ => TermOK.clear)
        ⟨q.msgs.length, by simp⟩ rfl ⟨rfl, rfl, rfl⟩
    · exact Pres.refl c

theorem pres_dropHandle (c : Conn) (label : Label) : Pres c (dropHandle c label) := by
  unfold dropHandle
  split
  · exact Pres.refl c
  · rename_i lid _
    dsimp only
    have h1 : Pres c ((getLink c lid).replies.foldl dropReply c) :=
      foldl_invariant (Pres c) _ (fun a x ha => ha.trans (pres_dropReply a x)) _ _ (Pres.refl c)
    have h2 := (h1.then_core (core_setLink _ lid
      { (getLink c lid) with clientAlive := false, replies := [], src := (getLink c lid).src.inc })).then_core
      (c' := { (setLink ((getLink c lid).replies.foldl dropReply c) lid
        { (getLink c lid) with clientAlive := false, replies := [], src := (getLink c lid).src.inc }) with
        handles := eraseS label (setLink ((getLink c lid).replies.foldl dropReply c) lid
          { (getLink c lid) with clientAlive := false, replies := [], src := (getLink c lid).src.inc }).handles })
      ⟨rfl, rfl, rfl, rfl⟩
    split
    · exact h2.then_core ⟨rfl, rfl, rfl, rfl⟩
    · exact h2

theorem pres_clientStep (c : Conn) (o : ClientOp) : Pres c (clientStep c o).1 := by
  cases o with
  | allocReq req => exact Pres.of_core (core_allocRequest c req)
  | allocRep label => exact Pres.of_core (core_allocReply c label)
  | send label m =>
    unfold clientStep
    dsimp only
    split
    · exact Pres.of_core ((core_newListener c _).trans (core_clientSend _ label m))
    · exact Pres.of_core (core_clientSend c label m)
  | setBlocked l => exact Pres.of_core ((core_newListener c l).trans (core_setBlockedRequest _ l))
  | recv label cl => exact Pres.of_core (core_clientRecv c label cl)
  | crecv cl => exact pres_consRecv c cl
  | lrecv l => exact Pres.of_core (core_lstRecv c l)
  | dropHandle label => exact pres_dropHandle c label
  | dropCons cl => exact pres_dropCons c cl
  | dropLst l => exact Pres.of_core (core_dropListener c l)

/-! ## 8. `step`, `run` -/

theorem pres_step (c : Conn) (o : Op) : Pres c (step c o) := by
  cases o with
  | io o => exact pres_ioStep c o
  | client o => exact pres_clientStep c o
  | decl d => exact Pres.of_core (c' := { c with table := c.table ++ [d] }) ⟨rfl, rfl, rfl, rfl⟩
  | feed evs => exact Pres.of_core (c' := { c with reads := c.reads ++ evs }) ⟨rfl, rfl, rfl, rfl⟩
  | wscript ws => exact Pres.of_core (c' := { c with writes := c.writes ++ ws }) ⟨rfl, rfl, rfl, rfl⟩

theorem invC_init (cm b : Nat) : InvC (init cm b) :=
  ⟨List.nodup_nil, SOK.nil _,
   ⟨fun _ h => (by cases h), fun _ _ h => (by cases h), fun _ _ h => (by cases h),
    fun _ _ h => (by cases h)⟩⟩

theorem invC_step {c : Conn} (h : InvC c) (o : Op) : InvC (step c o) := (pres_step c o h).1

theorem invC_run {c : Conn} (h : InvC c) (ops : List Op) : InvC (run c ops) :=
  foldl_invariant InvC step (fun _ o ha => invC_step ha o) ops c h

/-- Every reachable state satisfies the consumer invariant (no legality assumption is needed). -/
theorem invC_reachable (cm b : Nat) (ops : List Op) : InvC (run (init cm b) ops) :=
  invC_run (invC_init cm b) ops

/-! ## 9. The table of causes: computation lemmas -/

theorem dropConsTx_of_lookup {c : Conn} {qid : Nat} {q : CQ} (hq : lookupN qid c.cqs = some q) :
    dropConsTx c qid = { c with cqs := setN qid { q with txAlive := false } c.cqs } := by
  unfold dropConsTx; rw [hq]

/-- A message to a live receiver followed by dropping the sender. -/
theorem send_drop_eq {c : Conn} {qid : Nat} {q : CQ} (hq : lookupN qid c.cqs = some q)
    (hrx : q.rxAlive = true) (m : CMsg) :
    dropConsTx (sendCons c qid m).1 qid =
      { c with cqs := setN qid { q with msgs := q.msgs ++ [m], txAlive := false } c.cqs } ∧
    (sendCons c qid m).2 = none := by
  rw [sendCons_ok hq hrx]
  refine ⟨?_, rfl⟩
  dsimp only
  rw [dropConsTx_of_lookup (q := { q with msgs := q.msgs ++ [m] }) (lookupN_setN_self _ _ _)]
  dsimp only
  rw [setN_setN]

theorem notify_cons_ok {c : Conn} {qid : Nat} {msg : CMsg} (h : (sendCons c qid msg).2 = none)
    (t : Bytes) (more : List (Bytes × Nat)) :
    notifyConsumers msg c ((t, qid) :: more) =
      notifyConsumers msg (dropConsTx (sendCons c qid msg).1 qid) more := by
  rw [notifyConsumers]
  split
  · rename_i heq; rw [heq] at h; cases h
  · rename_i heq; rw [heq]

theorem notifyConsumers_spec (msg : CMsg) (c : Conn) (consumers : List (Bytes × Nat))
    (hcons : ∀ p ∈ consumers, ∃ q, lookupN p.2 c.cqs = some q ∧ q.rxAlive = true)
    (hnodup : (consumers.map (·.2)).Nodup) :
    (notifyConsumers msg c consumers).2 = none ∧
    (∀ p ∈ consumers, ∀ q, lookupN p.2 c.cqs = some q →
      lookupN p.2 (notifyConsumers msg c consumers).1.cqs =
        some { q with msgs := q.msgs ++ [msg], txAlive := false }) ∧
    (∀ qid, qid ∉ consumers.map (·.2) →
      lookupN qid (notifyConsumers msg c consumers).1.cqs = lookupN qid c.cqs) := by
  induction consumers generalizing c with
  | nil => exact ⟨rfl, fun p hp => (by cases hp), fun _ _ => rfl⟩
  | cons x rest ih =>
    obtain ⟨t, qid⟩ := x
    simp only [List.map_cons, List.nodup_cons] at hnodup
    obtain ⟨q0, hq0, hrx0⟩ := hcons (t, qid) List.mem_cons_self
    obtain ⟨e1, e2⟩ := send_drop_eq hq0 hrx0 msg
    rw [notify_cons_ok e2, e1]
    have hlk : ∀ x, lookupN x ({ c with cqs := setN qid { q0 with msgs := q0.msgs ++ [msg], txAlive := false } c.cqs } : Conn).cqs =
        if qid = x then some { q0 with msgs := q0.msgs ++ [msg], txAlive := false } else lookupN x c.cqs :=
      fun x => lookupN_setN x qid _ c.cqs
    have hne : ∀ p ∈ rest, qid ≠ p.2 := fun p hp e =>
      hnodup.1 (List.mem_map.mpr ⟨p, hp, e.symm⟩)
    obtain ⟨a1, a2, a3⟩ := ih { c with cqs := setN qid { q0 with msgs := q0.msgs ++ [msg], txAlive := false } c.cqs }
      (fun p hp => by
        obtain ⟨q, hq, hrx⟩ := hcons p (List.mem_cons_of_mem _ hp)
        exact ⟨q, by rw [hlk, if_neg (hne p hp)]; exact hq, hrx⟩) hnodup.2
    refine ⟨a1, fun p hp q hq => ?_, fun x hx => ?_⟩
    · rcases List.mem_cons.mp hp with e | hp
      · subst e
        rw [hq0] at hq; cases hq
        rw [a3 qid hnodup.1, hlk, if_pos rfl]
      · exact a2 p hp q (by rw [hlk, if_neg (hne p hp)]; exact hq)
    · simp only [List.map_cons, List.mem_cons, not_or] at hx
      rw [a3 x hx.2, hlk, if_neg (fun e => hx.1 e.symm)]

theorem sendReply_ok {c : Conn} {lid : Nat} (ha : (getLink c lid).clientAlive = true)
    (hr : (getLink c lid).replies.length < 2) (r : Reply) :
    sendReply c lid r =
      (setLink c lid { (getLink c lid) with replies := (getLink c lid).replies ++ [r] }, none) := by
  unfold sendReply
  dsimp only
  have h2 : ¬ (getLink c lid).replies.length ≥ 2 := by omega
  simp [ha, h2]

theorem lookup_dropConsTx_dead {c : Conn} {x : Nat} {q : CQ} (hq : lookupN x c.cqs = some q)
    (hd : q.txAlive = false) (y : Nat) : lookupN x (dropConsTx c y).cqs = some q := by
  unfold dropConsTx
  split
  · rename_i q' hq'
    show lookupN x (setN y { q' with txAlive := false } c.cqs) = some q
    rw [lookupN_setN]
    split
    · rename_i e; subst e
      rw [hq] at hq'; cases hq'
      cases q; simp only at hd; subst hd; rfl
    · exact hq
  · exact hq

theorem lookup_dropSlotEnds_dead {c : Conn} {x : Nat} {q : CQ} (hq : lookupN x c.cqs = some q)
    (hd : q.txAlive = false) (s : Slot) : lookupN x (dropSlotEnds c s).cqs = some q := by
  unfold dropSlotEnds
  dsimp only
  apply foldl_invariant (fun a : Conn => lookupN x a.cqs = some q)
  · intro a p ha; exact lookup_dropConsTx_dead ha hd _
  · exact hq

/-- In `Steady`, a channel method whose handling stays in `Steady` is exactly
    `processChannelMethod`. -/
theorem process_chan_steady {c : Conn} (hs : c.st = .steady) {n : Nat} (hn : n ≠ 0) (cls mid : Nat)
    (fields : List Field) (dc df : Bytes)
    (hst : (processChannelMethod c n cls mid fields dc).1.st = .steady) :
    process c (.method n cls mid fields) dc df = processChannelMethod c n cls mid fields dc := by
  rw [process_chan hs hn, hst]
  simp

theorem same_closeSlot (c : Conn) (n : Nat) (slot : Slot) (r : Reply) (m : CMsg) (fin : Conn → Conn)
    (hf : ∀ x, (fin x).st = x.st) : (closeSlot c n slot r m fin).1.st = c.st := by
  unfold closeSlot
  have h1 := same_sendReply (removeSlot c n) slot.lid r
  split
  · rename_i heq; rw [heq] at h1
    exact ((same_dropSlotEnds _ slot).st).trans h1.st
  · rename_i c2 heq; rw [heq] at h1
    have h2 := same_notifyConsumers m c2 slot.consumers
    split
    · rename_i heq2; rw [heq2] at h2
      exact ((same_dropSlotEnds _ slot).st).trans (h2.st.trans h1.st)
    · rename_i heq2; rw [heq2] at h2
      exact ((same_dropSlotEnds _ slot).st).trans ((hf _).trans (h2.st.trans h1.st))

/-- Channel.CloseOk with a live caller and live consumers. -/
theorem process_closeOk_spec (c : Conn) (n : Nat) (fields : List Field) (dc df : Bytes) (slot : Slot)
    (hs : c.st = .steady) (hn : n ≠ 0) (hslot : lookupN n c.slots = some slot)
    (halive : (getLink c slot.lid).clientAlive = true) (hroom : (getLink c slot.lid).replies.length < 2)
    (hcons : ∀ p ∈ slot.consumers, ∃ q, lookupN p.2 c.cqs = some q ∧ q.rxAlive = true)
    (hnodup : (slot.consumers.map (·.2)).Nodup) :
    (process c (.method n 20 41 fields) dc df).2 = none ∧
    ∀ p ∈ slot.consumers, ∀ q, lookupN p.2 c.cqs = some q →
      lookupN p.2 (process c (.method n 20 41 fields) dc df).1.cqs =
        some { q with msgs := q.msgs ++ [.clientClosedChannel], txAlive := false } := by
  have hst : (processChannelMethod c n 20 41 fields dc).1.st = .steady := by
    rw [pcm_closeOk_eq, hslot]
    exact (same_closeSlot c n slot _ _ id (fun _ => rfl)).trans hs
  rw [process_chan_steady hs hn _ _ _ _ _ hst, pcm_closeOk_eq, hslot]
  dsimp only
  unfold closeSlot
  rw [sendReply_ok (c := removeSlot c n) halive hroom]
  dsimp only
  obtain ⟨a1, a2, _⟩ := notifyConsumers_spec .clientClosedChannel
    (setLink (removeSlot c n) slot.lid
      { (getLink (removeSlot c n) slot.lid) with
        replies := (getLink (removeSlot c n) slot.lid).replies ++ [.method 20 41 []] })
    slot.consumers hcons hnodup
  split
  · rename_i heq; rw [heq] at a1; cases a1
  · rename_i c3 heq
    rw [heq] at a2
    refine ⟨rfl, fun p hp q hq => ?_⟩
    exact lookup_dropSlotEnds_dead (a2 p hp q hq) rfl slot

theorem pcm_cancelOk_spec (c : Conn) (n : Nat) (slot : Slot) (tag dc : Bytes) (qid : Nat) (q : CQ)
    (hslot : lookupN n c.slots = some slot)
    (hc : lookupB tag slot.consumers = some qid) (hq : lookupN qid c.cqs = some q) (hrx : q.rxAlive = true)
    (halive : (getLink c slot.lid).clientAlive = true) (hroom : (getLink c slot.lid).replies.length < 2) :
    processChannelMethod c n 60 31 [.bytes tag] dc =
      ({ (setLink (setSlot c n { slot with consumers := eraseB tag slot.consumers }) slot.lid
            { (getLink c slot.lid) with replies := (getLink c slot.lid).replies ++ [.method 60 31 [.bytes tag]] }) with
          cqs := setN qid { q with msgs := q.msgs ++ [.clientCancelled], txAlive := false } c.cqs }, none) := by
  rw [pcm_cancelOk_eq, slotGet_of_lookup hslot]
  dsimp only
  rw [hc]
  dsimp only
  rw [send_then_drop]
  obtain ⟨e1, e2⟩ := send_drop_eq (c := setSlot c n { slot with consumers := eraseB tag slot.consumers })
    hq hrx .clientCancelled
  rw [e1, e2]
  dsimp only
  refine Eq.trans (sendReply_ok (by exact halive) (by exact hroom) _) ?_
  rfl

theorem pcm_cancel_spec (c : Conn) (n : Nat) (slot : Slot) (tag dc : Bytes) (nowait : Bool) (qid : Nat) (q : CQ)
    (hslot : lookupN n c.slots = some slot)
    (hc : lookupB tag slot.consumers = some qid) (hq : lookupN qid c.cqs = some q) (hrx : q.rxAlive = true) :
    processChannelMethod c n 60 30 [.bytes tag, .bool nowait] dc =
      ((if nowait then id else fun x => pushOut x (basicCancelOk n tag))
        { (setSlot c n { slot with consumers := eraseB tag slot.consumers }) with
          cqs := setN qid { q with msgs := q.msgs ++ [.serverCancelled], txAlive := false } c.cqs }, none) := by
  rw [pcm_cancel_eq, slotGet_of_lookup hslot]
  dsimp only
  rw [hc]
  dsimp only
  rw [send_then_drop]
  obtain ⟨e1, e2⟩ := send_drop_eq (c := setSlot c n { slot with consumers := eraseB tag slot.consumers })
    hq hrx .serverCancelled
  rw [e1, e2]
  cases nowait <;> rfl

theorem pcm_cancel_unknown (c : Conn) (n : Nat) (slot : Slot) (tag dc : Bytes) (nowait : Bool)
    (hslot : lookupN n c.slots = some slot) (hc : lookupB tag slot.consumers = none) :
    processChannelMethod c n 60 30 [.bytes tag, .bool nowait] dc =
      (if nowait then c else pushOut c (basicCancelOk n tag), none) := by
  rw [pcm_cancel_eq, slotGet_of_lookup hslot]
  dsimp only
  rw [hc]

theorem process_cancelOk_spec (c : Conn) (n : Nat) (slot : Slot) (tag dc df : Bytes) (qid : Nat) (q : CQ)
    (hs : c.st = .steady) (hn : n ≠ 0) (hslot : lookupN n c.slots = some slot)
    (hc : lookupB tag slot.consumers = some qid) (hq : lookupN qid c.cqs = some q) (hrx : q.rxAlive = true)
    (halive : (getLink c slot.lid).clientAlive = true) (hroom : (getLink c slot.lid).replies.length < 2) :
    (process c (.method n 60 31 [.bytes tag]) dc df).2 = none ∧
    lookupN qid (process c (.method n 60 31 [.bytes tag]) dc df).1.cqs =
      some { q with msgs := q.msgs ++ [.clientCancelled], txAlive := false } ∧
    (∃ s', lookupN n (process c (.method n 60 31 [.bytes tag]) dc df).1.slots = some s' ∧
      lookupB tag s'.consumers = none) ∧
    (getLink (process c (.method n 60 31 [.bytes tag]) dc df).1 slot.lid).replies =
      (getLink c slot.lid).replies ++ [.method 60 31 [.bytes tag]] := by
  have e := pcm_cancelOk_spec c n slot tag dc qid q hslot hc hq hrx halive hroom
  have hst : (processChannelMethod c n 60 31 [.bytes tag] dc).1.st = .steady := by rw [e]; exact hs
  rw [process_chan_steady hs hn _ _ _ _ _ hst, e]
  refine ⟨rfl, lookupN_setN_self _ _ _, ⟨_, lookupN_setN_self _ _ _, lookupB_eraseB_self _ _⟩, ?_⟩
  show (getLink (setLink (setSlot c n { slot with consumers := eraseB tag slot.consumers }) slot.lid _) slot.lid).replies = _
  rw [getLink_setLink_self]

theorem process_cancel_spec (c : Conn) (n : Nat) (slot : Slot) (tag dc df : Bytes) (nowait : Bool) (qid : Nat) (q : CQ)
    (hs : c.st = .steady) (hn : n ≠ 0) (hslot : lookupN n c.slots = some slot)
    (hc : lookupB tag slot.consumers = some qid) (hq : lookupN qid c.cqs = some q) (hrx : q.rxAlive = true) :
    (process c (.method n 60 30 [.bytes tag, .bool nowait]) dc df).2 = none ∧
    lookupN qid (process c (.method n 60 30 [.bytes tag, .bool nowait]) dc df).1.cqs =
      some { q with msgs := q.msgs ++ [.serverCancelled], txAlive := false } ∧
    (∃ s', lookupN n (process c (.method n 60 30 [.bytes tag, .bool nowait]) dc df).1.slots = some s' ∧
      lookupB tag s'.consumers = none) ∧
    (process c (.method n 60 30 [.bytes tag, .bool nowait]) dc df).1.out =
      (if c.sealed || nowait then c.out else c.out ++ basicCancelOk n tag) := by
  have e := pcm_cancel_spec c n slot tag dc nowait qid q hslot hc hq hrx
  have hst : (processChannelMethod c n 60 30 [.bytes tag, .bool nowait] dc).1.st = .steady := by
    rw [e]; cases nowait
    · exact (pushOut_st _ _).trans hs
    · exact hs
  rw [process_chan_steady hs hn _ _ _ _ _ hst, e]
  cases nowait
  · refine ⟨rfl, ?_, ⟨{ slot with consumers := eraseB tag slot.consumers }, ?_, lookupB_eraseB_self _ _⟩, ?_⟩
    · show lookupN qid (pushOut _ _).cqs = _
      rw [pushOut_cqs]; exact lookupN_setN_self _ _ _
    · show lookupN n (pushOut _ _).slots = _
      rw [pushOut_slots]; exact lookupN_setN_self _ _ _
    · show (pushOut _ _).out = _
      rw [pushOut_out]
      show (if c.sealed = true then c.out else c.out ++ basicCancelOk n tag) = _
      cases c.sealed <;> rfl
  · refine ⟨rfl, lookupN_setN_self _ _ _, ⟨_, lookupN_setN_self _ _ _, lookupB_eraseB_self _ _⟩, ?_⟩
    show c.out = _
    simp

theorem process_cancel_unknown_spec (c : Conn) (n : Nat) (slot : Slot) (tag dc df : Bytes) (nowait : Bool)
    (hs : c.st = .steady) (hn : n ≠ 0) (hslot : lookupN n c.slots = some slot)
    (hc : lookupB tag slot.consumers = none) :
    (process c (.method n 60 30 [.bytes tag, .bool nowait]) dc df).2 = none ∧
    (process c (.method n 60 30 [.bytes tag, .bool nowait]) dc df).1.cqs = c.cqs ∧
    (process c (.method n 60 30 [.bytes tag, .bool nowait]) dc df).1.out =
      (if c.sealed || nowait then c.out else c.out ++ basicCancelOk n tag) := by
  have e := pcm_cancel_unknown c n slot tag dc nowait hslot hc
  have hst : (processChannelMethod c n 60 30 [.bytes tag, .bool nowait] dc).1.st = .steady := by
    rw [e]; cases nowait
    · exact (pushOut_st _ _).trans hs
    · exact hs
  rw [process_chan_steady hs hn _ _ _ _ _ hst, e]
  cases nowait
  · refine ⟨rfl, pushOut_cqs _ _, ?_⟩
    show (pushOut _ _).out = _
    rw [pushOut_out]
    cases c.sealed <;> rfl
  · refine ⟨rfl, rfl, ?_⟩
    show c.out = _
    simp

theorem pcm_send_keeps (c : Conn) (n : Nat) (bytes : Bytes) :
    (processChannelMessage c n (.send bytes)).1.slots = c.slots ∧
    (processChannelMessage c n (.send bytes)).1.cqs = c.cqs :=
  ⟨pushOut_slots c bytes, pushOut_cqs c bytes⟩

/-! ## 10. Over every history -/

/-- Registered in the table of some channel (the definition used by `Props/C11.lean`). -/
def InTable (c : Conn) (qid : Nat) : Prop :=
  ∃ n slot tag, lookupN n c.slots = some slot ∧ (tag, qid) ∈ slot.consumers

theorem InvC.inTable_iff {c : Conn} (h : InvC c) (qid : Nat) : InTable c qid ↔ qid ∈ tbl c.slots := by
  constructor
  · rintro ⟨n, slot, tag, hs, hm⟩
    exact mem_tbl.mpr ⟨(n, slot), mem_of_lookupN hs, (tag, qid), hm, rfl⟩
  · intro hm
    obtain ⟨⟨n, slot⟩, hp, ⟨tag, q'⟩, he, e⟩ := mem_tbl.mp hm
    cases e
    exact ⟨n, slot, tag, lookupN_of_mem_nodup h.sok.keys_nodup hp, he⟩

theorem InvC.alive_iff {c : Conn} (h : InvC c) {qid : Nat} {q : CQ} (hq : lookupN qid c.cqs = some q) :
    q.txAlive = true ↔ InTable c qid := by
  rw [h.inTable_iff]
  constructor
  · exact h.qi.alive_reg qid q hq
  · intro hm
    obtain ⟨q0, hq0, ha⟩ := h.qi.reg_alive qid hm
    rw [hq] at hq0; cases hq0; exact ha

theorem InvC.no_terminal {c : Conn} (h : InvC c) {qid : Nat} {q : CQ} (hq : lookupN qid c.cqs = some q)
    (ha : q.txAlive = true) : ∀ m ∈ q.msgs, m.isTerm = false :=
  (h.qi.term_ok qid q hq).1 ha

theorem InvC.terminal_last {c : Conn} (h : InvC c) {qid : Nat} {q : CQ} (hq : lookupN qid c.cqs = some q) :
    ((q.msgs.filter CMsg.isTerm).length ≤ 1) ∧
    (∀ pre m post, q.msgs = pre ++ m :: post → m.isTerm = true → post = []) :=
  ⟨filter_length_le_one _ _ (h.qi.term_ok qid q hq).2, (h.qi.term_ok qid q hq).2⟩

theorem InvC.dead_stays {c : Conn} (h : InvC c) (o : Op) {qid : Nat} {q : CQ}
    (hq : lookupN qid c.cqs = some q) (hd : q.txAlive = false) :
    ∃ q', lookupN qid (step c o).cqs = some q' ∧ q'.txAlive = false ∧ ∃ k, q'.msgs = q.msgs.drop k := by
  obtain ⟨q', hq', hm⟩ := (pres_step c o h).2 qid q hq
  exact ⟨q', hq', hm hd⟩

end AmqModel.Conn
