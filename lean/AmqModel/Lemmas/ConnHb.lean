import AmqModel.Model.ConnHb
import AmqModel.Lemmas.Conn
/-!
# Lemmas about the timed layer (Model/ConnHb.lean)

1. `fire` / `fireRx` / `fireTx` projections;
2. the unfolding equation of `fireDue` and what it can do to the `Conn`, the timers, the verdict;
3. `hbEvent` case equations;
4. every step other than `start` keeps `hb = none`;
5. the clock invariant `Timely` (no recorded activity lies in the future) of reachable states.
-/
namespace AmqModel.ConnHb
open AmqModel.Conn AmqModel.Heartbeat

/-! ## 1. `fire`, `fireRx`, `fireTx` -/

theorem fire_expired_iff (h : Hb) (now : Nat) :
    (fire h now).2 = .expired ↔ h.interval ≤ (now - h.last) + FUDGE := by
  unfold fire
  dsimp only
  split <;> simp [*]

@[simp] theorem fire_last (h : Hb) (now : Nat) : (fire h now).1.last = h.last := by
  unfold fire
  dsimp only
  split <;> rfl

@[simp] theorem fire_interval (h : Hb) (now : Nat) : (fire h now).1.interval = h.interval := by
  unfold fire
  dsimp only
  split <;> rfl

/-- A fired timer with a positive interval is re-armed strictly in the future. -/
theorem fire_dueAt_gt (h : Hb) (now : Nat) (hi : 0 < h.interval) : now < (fire h now).1.dueAt := by
  unfold fire
  dsimp only
  split
  · dsimp only; omega
  · dsimp only; simp only [FUDGE] at *; omega

/-- A timer that is still running is re-armed strictly in the future, whatever its interval. -/
theorem fire_dueAt_gt_of_running (h : Hb) (now : Nat) (hr : ¬ h.interval ≤ (now - h.last) + FUDGE) :
    now < (fire h now).1.dueAt := by
  unfold fire
  dsimp only
  rw [if_neg hr]
  dsimp only; simp only [FUDGE] at *; omega

@[simp] theorem fireTx_rx (p : RxTx) (now : Nat) (e : Bool) : (fireTx p now e).1.rx = p.rx := by
  unfold fireTx
  split <;> rfl

theorem fireTx_tx (p : RxTx) (now : Nat) (e : Bool) : (fireTx p now e).1.tx = (fire p.tx now).1 := by
  unfold fireTx
  split <;> (rename_i h; rw [h])

theorem fireTx_push_iff (p : RxTx) (now : Nat) (e : Bool) :
    (fireTx p now e).2 = .pushHeartbeat ↔ (p.tx.interval ≤ (now - p.tx.last) + FUDGE ∧ e = true) := by
  rw [← fire_expired_iff]
  unfold fireTx
  split <;> (rename_i h; rw [h]; cases e <;> simp)

@[simp] theorem fireRx_tx (p : RxTx) (now : Nat) : (fireRx p now).1.tx = p.tx := by
  unfold fireRx
  split <;> rfl

theorem fireRx_rx (p : RxTx) (now : Nat) : (fireRx p now).1.rx = (fire p.rx now).1 := by
  unfold fireRx
  split <;> (rename_i h; rw [h])

theorem fireRx_missed_iff (p : RxTx) (now : Nat) :
    (fireRx p now).2 = .missedServerHeartbeats ↔ p.rx.interval ≤ (now - p.rx.last) + FUDGE := by
  rw [← fire_expired_iff]
  unfold fireRx
  split <;> (rename_i h; rw [h]; simp)

/-! ## 2. `fireDue` -/

theorem fireDue_zero (c : Conn) (p : RxTx) (now : Nat) : fireDue 0 c p now = (c, p, false) := rfl

/-- One round of `process_heartbeat_timers`. -/
theorem fireDue_succ (fuel : Nat) (c : Conn) (p : RxTx) (now : Nat) :
    fireDue (fuel + 1) c p now =
      if (decide (p.tx.dueAt ≤ now) && (!decide (p.rx.dueAt ≤ now) || decide (p.tx.dueAt ≤ p.rx.dueAt))) = true then
        fireDue fuel
          (if (fireTx p now c.out.isEmpty).2 = .pushHeartbeat then pushOut c heartbeatFrame else c)
          (fireTx p now c.out.isEmpty).1 now
      else if decide (p.rx.dueAt ≤ now) = true then
        if (fireRx p now).2 = .missedServerHeartbeats then (c, (fireRx p now).1, true)
        else fireDue fuel c (fireRx p now).1 now
      else (c, p, false) := rfl

/-- The tx timer fires first: it is due, and the rx timer is not or is due later. -/
theorem fireDue_tx (fuel : Nat) (c : Conn) (p : RxTx) (now : Nat) (ht : p.tx.dueAt ≤ now)
    (hr : now < p.rx.dueAt ∨ p.tx.dueAt ≤ p.rx.dueAt) :
    fireDue (fuel + 1) c p now =
      fireDue fuel
        (if (fireTx p now c.out.isEmpty).2 = .pushHeartbeat then pushOut c heartbeatFrame else c)
        (fireTx p now c.out.isEmpty).1 now := by
  rw [fireDue_succ, if_pos]
  simp only [Bool.and_eq_true, Bool.or_eq_true, Bool.not_eq_true', decide_eq_true_eq, decide_eq_false_iff_not]
  omega

/-- The rx timer fires first: it is due, and the tx timer is not or is due strictly later. -/
theorem fireDue_rx (fuel : Nat) (c : Conn) (p : RxTx) (now : Nat) (hr : p.rx.dueAt ≤ now)
    (ht : now < p.tx.dueAt ∨ p.rx.dueAt < p.tx.dueAt) :
    fireDue (fuel + 1) c p now =
      if (fireRx p now).2 = .missedServerHeartbeats then (c, (fireRx p now).1, true)
      else fireDue fuel c (fireRx p now).1 now := by
  rw [fireDue_succ, if_neg, if_pos]
  · simpa using hr
  · simp only [Bool.and_eq_true, Bool.or_eq_true, Bool.not_eq_true', decide_eq_true_eq, decide_eq_false_iff_not]
    omega

/-- Nothing is due. -/
theorem fireDue_idle (fuel : Nat) (c : Conn) (p : RxTx) (now : Nat) (hr : now < p.rx.dueAt)
    (ht : now < p.tx.dueAt) : fireDue fuel c p now = (c, p, false) := by
  cases fuel with
  | zero => rfl
  | succ fuel =>
    rw [fireDue_succ, if_neg, if_neg]
    · simp only [decide_eq_true_eq]; omega
    · simp only [Bool.and_eq_true, Bool.or_eq_true, Bool.not_eq_true', decide_eq_true_eq, decide_eq_false_iff_not]
      omega

/-- The only thing the timers ever do to the connection: at most one heartbeat frame, pushed into
    an empty output buffer. -/
theorem fireDue_conn (fuel : Nat) (c : Conn) (p : RxTx) (now : Nat) :
    (fireDue fuel c p now).1 = c ∨
      (c.out = [] ∧ (fireDue fuel c p now).1 = pushOut c heartbeatFrame) := by
  induction fuel generalizing c p with
  | zero => exact Or.inl rfl
  | succ fuel ih =>
    rw [fireDue_succ]
    split
    · split
      · rename_i hp
        have he : c.out = [] := by
          have := ((fireTx_push_iff p now c.out.isEmpty).mp hp).2
          simpa using this
        rcases ih (pushOut c heartbeatFrame) (fireTx p now c.out.isEmpty).1 with h1 | ⟨h1, h2⟩
        · exact Or.inr ⟨he, h1⟩
        · -- a second push can only happen when the buffer is sealed, and then does nothing
          rw [pushOut_out] at h1
          cases hs : c.sealed
          · rw [hs, he] at h1
            simp [heartbeatFrame] at h1
          · simp only [pushOut_of_sealed hs] at h2 ⊢
            exact Or.inl h2
      · exact ih c _
    · split
      · split
        · exact Or.inl rfl
        · exact ih c _
      · exact Or.inl rfl

/-- Fields other than `out` are never touched. -/
theorem fireDue_fields (fuel : Nat) (c : Conn) (p : RxTx) (now : Nat) :
    (fireDue fuel c p now).1.slots = c.slots ∧ (fireDue fuel c p now).1.links = c.links ∧
    (fireDue fuel c p now).1.st = c.st ∧ (fireDue fuel c p now).1.sealed = c.sealed ∧
    (fireDue fuel c p now).1.dead = c.dead := by
  rcases fireDue_conn fuel c p now with h | ⟨_, h⟩ <;> rw [h] <;> simp

theorem fireDue_out (fuel : Nat) (c : Conn) (p : RxTx) (now : Nat) :
    (fireDue fuel c p now).1.out = c.out ∨
      (c.out = [] ∧ (fireDue fuel c p now).1.out = heartbeatFrame) := by
  rcases fireDue_conn fuel c p now with h | ⟨he, h⟩
  · exact Or.inl (by rw [h])
  · rw [h, pushOut_out]
    cases c.sealed
    · exact Or.inr ⟨he, by simp [he]⟩
    · exact Or.inl rfl

theorem fireDue_out_of_sealed (fuel : Nat) (c : Conn) (p : RxTx) (now : Nat) (hs : c.sealed = true) :
    (fireDue fuel c p now).1.out = c.out := by
  rcases fireDue_conn fuel c p now with h | ⟨_, h⟩
  · rw [h]
  · rw [h, pushOut_of_sealed hs]

/-- Once the tx timer is not due, the connection is left alone. -/
theorem fireDue_conn_of_tx_not_due (fuel : Nat) (c : Conn) (p : RxTx) (now : Nat)
    (ht : now < p.tx.dueAt) : (fireDue fuel c p now).1 = c := by
  induction fuel generalizing p with
  | zero => rfl
  | succ fuel ih =>
    by_cases hr : p.rx.dueAt ≤ now
    · rw [fireDue_rx fuel c p now hr (Or.inl ht)]
      split
      · rfl
      · exact ih _ (by rw [fireRx_tx]; exact ht)
    · rw [fireDue_idle _ c p now (by omega) ht]

/-- Firing never moves `last` or `interval` of either timer. -/
theorem fireDue_timers (fuel : Nat) (c : Conn) (p : RxTx) (now : Nat) :
    (fireDue fuel c p now).2.1.rx.last = p.rx.last ∧
    (fireDue fuel c p now).2.1.rx.interval = p.rx.interval ∧
    (fireDue fuel c p now).2.1.tx.last = p.tx.last ∧
    (fireDue fuel c p now).2.1.tx.interval = p.tx.interval := by
  induction fuel generalizing c p with
  | zero => exact ⟨rfl, rfl, rfl, rfl⟩
  | succ fuel ih =>
    rw [fireDue_succ]
    split
    · obtain ⟨h1, h2, h3, h4⟩ := ih
        (if (fireTx p now c.out.isEmpty).2 = .pushHeartbeat then pushOut c heartbeatFrame else c)
        (fireTx p now c.out.isEmpty).1
      rw [h1, h2, h3, h4]
      simp [fireTx_tx]
    · split
      · split
        · simp [fireRx_rx]
        · obtain ⟨h1, h2, h3, h4⟩ := ih c (fireRx p now).1
          rw [h1, h2, h3, h4]
          simp [fireRx_rx]
      · exact ⟨rfl, rfl, rfl, rfl⟩

/-- NOT BEFORE: the verdict "missed" needs `interval − 5 ms` of (truncated) rx silence. -/
theorem fireDue_missed (fuel : Nat) (c : Conn) (p : RxTx) (now : Nat)
    (hm : (fireDue fuel c p now).2.2 = true) : p.rx.interval ≤ (now - p.rx.last) + FUDGE := by
  induction fuel generalizing c p with
  | zero => cases hm
  | succ fuel ih =>
    rw [fireDue_succ] at hm
    split at hm
    · have := ih _ _ hm
      simpa using this
    · split at hm
      · split at hm
        · rename_i he
          exact (fireRx_missed_iff p now).mp he
        · have := ih _ _ hm
          simpa [fireRx_rx] using this
      · cases hm

/-- ENFORCED: a due rx timer with a whole interval of silence gives "missed" within two rounds. -/
theorem fireDue_silent (fuel : Nat) (c : Conn) (p : RxTx) (now : Nat) (hdue : p.rx.dueAt ≤ now)
    (hs : p.rx.interval ≤ (now - p.rx.last) + FUDGE) (htx : 0 < p.tx.interval) :
    (fireDue (fuel + 2) c p now).2.2 = true := by
  have rxfirst : ∀ (c : Conn) (q : RxTx) (n : Nat), q.rx = p.rx → (now < q.tx.dueAt ∨ q.rx.dueAt < q.tx.dueAt) →
      (fireDue (n + 1) c q now).2.2 = true := by
    intro c q n hq ht
    rw [fireDue_rx n c q now (by rw [hq]; exact hdue) ht, if_pos]
    exact (fireRx_missed_iff q now).mpr (by rw [hq]; exact hs)
  by_cases ht : now < p.tx.dueAt ∨ p.rx.dueAt < p.tx.dueAt
  · exact rxfirst c p _ rfl ht
  · rw [fireDue_tx (fuel + 1) c p now (by omega) (by omega)]
    refine rxfirst _ _ fuel (fireTx_rx p now _) (Or.inl ?_)
    rw [fireTx_tx]
    exact fire_dueAt_gt p.tx now htx

/-- SENT WHEN IDLE: a due, idle tx timer over an empty unsealed buffer, with an rx side that is not
    expiring, leaves exactly one heartbeat frame in the buffer. -/
theorem fireDue_idle_push (fuel : Nat) (c : Conn) (p : RxTx) (now : Nat) (hdue : p.tx.dueAt ≤ now)
    (hidle : p.tx.interval ≤ (now - p.tx.last) + FUDGE) (hempty : c.out = []) (hseal : c.sealed = false)
    (hrx : ¬ p.rx.interval ≤ (now - p.rx.last) + FUDGE) (hiv : 0 < p.tx.interval) :
    (fireDue (fuel + 2) c p now).1.out = heartbeatFrame := by
  have txfirst : ∀ (q : RxTx) (n : Nat), q.tx = p.tx → (now < q.rx.dueAt ∨ q.tx.dueAt ≤ q.rx.dueAt) →
      (fireDue (n + 1) c q now).1.out = heartbeatFrame := by
    intro q n hq hr
    rw [fireDue_tx n c q now (by rw [hq]; exact hdue) hr]
    have hp : (fireTx q now c.out.isEmpty).2 = .pushHeartbeat :=
      (fireTx_push_iff q now _).mpr ⟨by rw [hq]; exact hidle, by simp [hempty]⟩
    rw [if_pos hp, fireDue_conn_of_tx_not_due]
    · rw [pushOut_out, hseal, hempty]; rfl
    · rw [fireTx_tx, hq]
      exact fire_dueAt_gt p.tx now hiv
  by_cases hr : now < p.rx.dueAt ∨ p.tx.dueAt ≤ p.rx.dueAt
  · exact txfirst p _ rfl hr
  · rw [fireDue_rx (fuel + 1) c p now (by omega) (by omega), if_neg]
    · refine txfirst _ fuel (fireRx_tx p now) (Or.inl ?_)
      rw [fireRx_rx]
      exact fire_dueAt_gt_of_running p.rx now hrx
    · rw [fireRx_missed_iff]; exact hrx

/-! ## 3. `hbEvent` -/

theorem hbEvent_dead (s : St) (hd : s.c.dead = true) : hbEvent s = (s, .dead) := by
  unfold hbEvent
  rw [if_pos hd]

theorem hbEvent_none (s : St) (hd : s.c.dead = false) (h : s.hb = none) : hbEvent s = (s, .ok) := by
  unfold hbEvent
  rw [if_neg (by simp [hd]), h]

theorem hbEvent_some (s : St) (p : RxTx) (hd : s.c.dead = false) (h : s.hb = some p) :
    hbEvent s =
      if (fireDue 4 s.c p s.now).2.2 = true then
        ({ s with c := kill (fireDue 4 s.c p s.now).1, hb := some (fireDue 4 s.c p s.now).2.1 },
          .missedServerHeartbeats)
      else ({ s with c := (fireDue 4 s.c p s.now).1, hb := some (fireDue 4 s.c p s.now).2.1 }, .ok) := by
  unfold hbEvent
  rw [if_neg (by simp [hd]), h]

theorem kill_out (c : Conn) : (kill c).out = c.out := (kill_spec c).2.2.2.1
theorem kill_dead (c : Conn) : (kill c).dead = true := (kill_spec c).2.2.2.2.2

/-- The event keeps `hb = none`, and keeps it `some`. -/
theorem hbEvent_hb_none (s : St) (h : s.hb = none) : (hbEvent s).1.hb = none := by
  cases hd : s.c.dead
  · rw [hbEvent_none s hd h]; exact h
  · rw [hbEvent_dead s hd]; exact h

theorem hbEvent_now (s : St) : (hbEvent s).1.now = s.now := by
  cases hd : s.c.dead
  · cases h : s.hb with
    | none => rw [hbEvent_none s hd h]
    | some p => rw [hbEvent_some s p hd h]; split <;> rfl
  · rw [hbEvent_dead s hd]

/-! ## 4. Off stays off -/

theorem recordActivity_none (now : Nat) (r w : Bool) : recordActivity none now r w = none := rfl

theorem ioStep_hb (s : St) (o : IoOp) :
    (ioStep s o).1.hb =
      recordActivity s.hb s.now (decide (bytesIn (Conn.ioStep s.c o).1.reads < bytesIn s.c.reads))
        (wroteSome (Conn.ioStep s.c o).2) := rfl

theorem ioStep_now (s : St) (o : IoOp) : (ioStep s o).1.now = s.now := rfl

theorem step_hb_none (s : St) (o : Op) (h : s.hb = none) (ho : ∀ k, o ≠ .start k) :
    (step s o).hb = none := by
  cases o with
  | base b =>
    cases b with
    | io o => show (ioStep s o).1.hb = none; rw [ioStep_hb, h]; rfl
    | client o => exact h
    | decl d => exact h
    | feed evs => exact h
    | wscript ws => exact h
  | start k => exact absurd rfl (ho k)
  | sleep ms => exact h
  | hbEvent => exact hbEvent_hb_none s h

theorem run_hb_none (s : St) (ops : List Op) (h : s.hb = none) (hops : ∀ o ∈ ops, ∀ k, o ≠ .start k) :
    (run s ops).hb = none := by
  induction ops generalizing s with
  | nil => exact h
  | cons o ops ih =>
    show (run (step s o) ops).hb = none
    exact ih _ (step_hb_none s o h (hops o (List.mem_cons_self ..)))
      (fun o' ho' => hops o' (List.mem_cons_of_mem _ ho'))

/-! ## 5. The clock invariant -/

/-- No recorded activity lies in the future.  Holds in every state reachable from `init`. -/
def Timely (s : St) : Prop := ∀ p, s.hb = some p → p.rx.last ≤ s.now ∧ p.tx.last ≤ s.now

theorem timely_init (channelMax bound : Nat) : Timely (init channelMax bound) := by
  intro p h; cases h

theorem timely_recordActivity (hb : Option RxTx) (now : Nat) (r w : Bool)
    (h : ∀ p, hb = some p → p.rx.last ≤ now ∧ p.tx.last ≤ now) :
    ∀ p, recordActivity hb now r w = some p → p.rx.last ≤ now ∧ p.tx.last ≤ now := by
  intro p hp
  cases hb with
  | none => cases hp
  | some q =>
    obtain ⟨h1, h2⟩ := h q rfl
    simp only [recordActivity, Option.map_some, Option.some.injEq] at hp
    subst hp
    cases r <;> cases w <;> simp [record, h1, h2]

theorem timely_hbEvent (s : St) (ht : Timely s) : Timely (hbEvent s).1 := by
  cases hd : s.c.dead
  · cases h : s.hb with
    | none => rw [hbEvent_none s hd h]; exact ht
    | some p =>
      obtain ⟨h1, h2⟩ := ht p h
      obtain ⟨e1, _, e3, _⟩ := fireDue_timers 4 s.c p s.now
      rw [hbEvent_some s p hd h]
      split <;>
      · intro q hq
        simp only [Option.some.injEq] at hq
        subst hq
        show _ ≤ s.now ∧ _ ≤ s.now
        rw [e1, e3]
        exact ⟨h1, h2⟩
  · rw [hbEvent_dead s hd]; exact ht

theorem timely_step (s : St) (o : Op) (ht : Timely s) : Timely (step s o) := by
  cases o with
  | base b =>
    cases b with
    | io o =>
      show Timely (ioStep s o).1
      intro p hp
      rw [ioStep_hb] at hp
      exact timely_recordActivity s.hb s.now _ _ ht p hp
    | client o => exact ht
    | decl d => exact ht
    | feed evs => exact ht
    | wscript ws => exact ht
  | start k =>
    show Timely (startHeartbeats s k)
    unfold startHeartbeats
    split
    · exact ht
    · intro p hp
      simp only [Option.some.injEq] at hp
      subst hp
      exact ⟨Nat.le_refl _, Nat.le_refl _⟩
  | sleep ms =>
    intro p hp
    obtain ⟨h1, h2⟩ := ht p hp
    show p.rx.last ≤ s.now + ms ∧ p.tx.last ≤ s.now + ms
    omega
  | hbEvent => exact timely_hbEvent s ht

theorem timely_run (s : St) (ops : List Op) (ht : Timely s) : Timely (run s ops) := by
  induction ops generalizing s with
  | nil => exact ht
  | cons o ops ih => exact ih _ (timely_step s o ht)

end AmqModel.ConnHb
