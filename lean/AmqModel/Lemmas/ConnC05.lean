import AmqModel.Model.ConnRun
import AmqModel.Model.Api
import AmqModel.Lemmas.Conn
import AmqModel.Lemmas.ConnC07
import AmqModel.Lemmas.ConnC11
import AmqModel.Lemmas.ConnC13
import AmqModel.Lemmas.ConnC18
/-!
# Helper lemmas for C05 (`AmqModel/Props/C05.lean`): a dead connection releases everybody

1. the transport faults (`writeToStream`, `readFromStream`) and `processBytes` on a bad frame;
2. association-list helpers;
3. the reachable-state invariant `InvD d X c` about the I/O ends of the links:
   * link keys are distinct;
   * a link whose I/O end is alive is link 0, the link of a current slot, or one of the links `X`
     whose slot has just left the table (`X = []` between operations);
   * a link whose I/O end is gone has an empty FIFO;
   * `c.dead = d`, and a dead state owns nothing: no slot, no channel-0 I/O end, no pending
     allocation / blocked-listener request, no blocked listener (`DeadOK`);
4. its preservation by every primitive, by `process`, by every event handler, by `kill`, by the
   client operations; `di_reachable` (`DI c := InvD c.dead [] c`);
5. what a dead state looks like (`dead_links`, `dead_cqs`, `dead_lst`);
6. the channel-0 reply queue under `process` (`R0`), and "never `.hang`" for every I/O step.

Everything lives in the namespace `AmqModel.Conn.C05` (no clash with the other lemma files).
-/
namespace AmqModel.Conn.C05
open AmqModel.Collector AmqModel.Conn

/-! ## 1. Transport faults -/

theorem writeToStream_err {c : Conn} {rest : List WriteStep} (hne : c.out ≠ [])
    (hw : c.writes = .err :: rest) : (writeToStream c).2.2 = some .ioErrorWritingSocket := by
  have hpos : 0 < c.out.length := List.length_pos_iff.mpr hne
  unfold writeToStream
  rw [show c.out.length + c.writes.length + 2 = (c.out.length + c.writes.length + 1) + 1 from rfl]
  unfold writeLoop
  rw [if_pos hpos, hw]

theorem readLoop_fault {parse : Bytes → Bool} {failAt : Option Nat} (fuel : Nat) {buf : Bytes}
    (rest : List FrameBuffer.ReadEv) (seen nread : Nat) (acc : List Bytes)
    (hfb : FrameBuffer.frameSize? buf = none) :
    FrameBuffer.readLoop parse failAt (fuel + 1) buf (.eof :: rest) seen nread acc =
      ⟨buf, rest, acc.reverse, .unexpectedSocketClose⟩ ∧
    FrameBuffer.readLoop parse failAt (fuel + 1) buf (.ioErr :: rest) seen nread acc =
      ⟨buf, rest, acc.reverse, .ioErrorReadingSocket⟩ ∧
    FrameBuffer.readLoop parse failAt (fuel + 1) buf (.chunk [] :: rest) seen nread acc =
      ⟨buf, rest, acc.reverse, .unexpectedSocketClose⟩ := by
  refine ⟨?_, ?_, ?_⟩ <;>
  · rw [FrameBuffer.readLoop]
    simp only [hfb, Bool.false_eq_true, if_false]
    try rfl

/-- With fewer than 7 bytes buffered, a transport fault on the first `read()` is what
    `read_from_stream` reports (no frame is handed on before). -/
theorem readFromStream_fault {c : Conn} (hfb : FrameBuffer.frameSize? c.fb = none)
    {ev : FrameBuffer.ReadEv} {rest : List FrameBuffer.ReadEv} (hr : c.reads = ev :: rest)
    {res : FrameBuffer.RdRes} {e : Err}
    (hev : ev = .eof ∧ res = .unexpectedSocketClose ∨ ev = .ioErr ∧ res = .ioErrorReadingSocket ∨
      ev = .chunk [] ∧ res = .unexpectedSocketClose)
    (he : (match res with
      | .ok _ => none
      | .unexpectedSocketClose => some Err.unexpectedSocketClose
      | .ioErrorReadingSocket => some .ioErrorReadingSocket
      | .malformedFrame => some .malformedFrame
      | .handlerErr => some .modelBadInput) = some e) :
    (readFromStream c).2 = some e := by
  have key : ∀ parse, FrameBuffer.readFrom parse none c.fb c.reads 0 = ⟨c.fb, rest, [], res⟩ := by
    intro parse
    unfold FrameBuffer.readFrom FrameBuffer.readFuel
    rw [show 2 * (c.fb.length + FrameBuffer.scriptBytes c.reads) + 2 =
      (2 * (c.fb.length + FrameBuffer.scriptBytes c.reads) + 1) + 1 from rfl,
      hr]
    obtain ⟨k1, k2, k3⟩ := readLoop_fault (parse := parse) (failAt := none)
      (2 * (c.fb.length + FrameBuffer.scriptBytes (ev :: rest)) + 1) rest 0 0 [] hfb
    rcases hev with ⟨h1, h2⟩ | ⟨h1, h2⟩ | ⟨h1, h2⟩ <;> subst h1 <;> subst h2
    · exact k1
    · exact k2
    · exact k3
  unfold readFromStream
  simp only [key, readFromStream.go]
  rcases hev with ⟨_, h2⟩ | ⟨_, h2⟩ | ⟨_, h2⟩ <;> subst h2 <;> exact he

theorem processBytes_malformed {c : Conn} {bytes : Bytes} {d : Decl} (hd : declOf c bytes = some d)
    (hf : d.frame = none) : (processBytes c bytes).2 = some .malformedFrame := by
  unfold processBytes
  rw [hd]
  dsimp only
  rw [hf]

/-! ## 2. Lists -/

theorem keys_setN_nodup {α : Type} (k : Nat) (v : α) {m : List (Nat × α)}
    (h : (m.map (·.1)).Nodup) : ((setN k v m).map (·.1)).Nodup := by
  induction m with
  | nil => simp [setN]
  | cons p r ih =>
    obtain ⟨k', v'⟩ := p
    simp only [List.map_cons, List.nodup_cons] at h
    unfold setN
    split
    · rename_i e
      simp only [List.map_cons, List.nodup_cons]
      exact ⟨e ▸ h.1, h.2⟩
    · rename_i e
      simp only [List.map_cons, List.nodup_cons]
      refine ⟨fun hm => ?_, ih h.2⟩
      obtain ⟨p, hp, ep⟩ := List.mem_map.mp hm
      rcases mem_setN hp with e' | hp
      · subst e'; exact e ep.symm
      · exact h.1 (List.mem_map.mpr ⟨p, hp, ep⟩)

theorem mem_eraseN_of_ne {α : Type} {k : Nat} {p : Nat × α} {m : List (Nat × α)} (hp : p ∈ m)
    (hk : p.1 ≠ k) : p ∈ eraseN k m := by
  induction m with
  | nil => cases hp
  | cons q r ih =>
    obtain ⟨k', v'⟩ := q
    unfold eraseN
    rcases List.mem_cons.mp hp with e | hp
    · subst e
      rw [if_neg hk]; exact List.mem_cons_self
    · split
      · exact ih hp
      · exact List.mem_cons_of_mem _ (ih hp)

/-- With distinct keys every entry of `links` is the one `getLink` finds. -/
theorem getLink_of_mem {c : Conn} (hn : (c.links.map (·.1)).Nodup) {p : Nat × Link}
    (hp : p ∈ c.links) : getLink c p.1 = p.2 :=
  getLink_of_lookup (lookupN_of_mem_nodup hn (show (p.1, p.2) ∈ c.links from hp))

theorem foldl_dropConsTx_links' (l : List (Bytes × Nat)) (c : Conn) :
    (l.foldl (fun acc (x : Bytes × Nat) => dropConsTx acc x.2) c).links = c.links := by
  induction l generalizing c with
  | nil => rfl
  | cons x r ih =>
    rw [List.foldl_cons, ih]
    unfold dropConsTx; split <;> rfl

/-! ## 3. The invariant -/

/-- What a dead I/O thread has let go of. -/
def DeadOK (c : Conn) : Prop :=
  c.slots = [] ∧ (getLink c 0).ioAlive = false ∧ c.allocReq = [] ∧ c.blockedFifo = [] ∧
    c.blockedL = none

/-- Invariant about the I/O ends of the links (`X` = links whose slot has just left the table and
    whose ends are about to be dropped; `X = []` between operations). -/
structure InvD (d : Bool) (X : List Nat) (c : Conn) : Prop where
  dead : c.dead = d
  nodup : (c.links.map (·.1)).Nodup
  own : ∀ lid, (getLink c lid).ioAlive = true → lid = 0 ∨ lid ∈ X ∨ lid ∈ c.slots.map (·.2.lid)
  ff : ∀ lid, (getLink c lid).ioAlive = false → (getLink c lid).fifo = []
  dz : d = true → DeadOK c

/-- Transport to a state that agrees on everything the invariant reads. -/
theorem InvD.same {d : Bool} {X : List Nat} {c c' : Conn} (h : InvD d X c)
    (hdead : c'.dead = c.dead) (hlinks : c'.links = c.links) (hslots : c'.slots = c.slots)
    (hreq : c'.allocReq = c.allocReq) (hbf : c'.blockedFifo = c.blockedFifo)
    (hbl : c'.blockedL = c.blockedL) : InvD d X c' where
  dead := hdead.trans h.dead
  nodup := hlinks ▸ h.nodup
  own := fun lid hl => by
    rw [getLink_congr hlinks] at hl; rw [hslots]; exact h.own lid hl
  ff := fun lid hl => by
    rw [getLink_congr hlinks] at hl ⊢; exact h.ff lid hl
  dz := fun hd => by
    obtain ⟨a, b, e, f, g⟩ := h.dz hd
    exact ⟨hslots ▸ a, by rw [getLink_congr hlinks]; exact b, hreq ▸ e, hbf ▸ f, hbl ▸ g⟩

/-- … for a live I/O thread only links and slots matter. -/
theorem InvD.same0 {X : List Nat} {c c' : Conn} (h : InvD false X c)
    (hdead : c'.dead = c.dead) (hlinks : c'.links = c.links) (hslots : c'.slots = c.slots) :
    InvD false X c' where
  dead := hdead.trans h.dead
  nodup := hlinks ▸ h.nodup
  own := fun lid hl => by
    rw [getLink_congr hlinks] at hl; rw [hslots]; exact h.own lid hl
  ff := fun lid hl => by
    rw [getLink_congr hlinks] at hl ⊢; exact h.ff lid hl
  dz := fun hd => by cases hd

/-- `d_same h` closes `InvD d X c'` when `c'` is `c` with only fields changed that the invariant
    does not read. -/
macro "d_same " h:term : tactic =>
  `(tactic| first
    | exact InvD.same $h rfl rfl rfl rfl rfl rfl
    | exact InvD.same0 $h rfl rfl rfl)

theorem InvD.of_eq_fst {d : Bool} {X : List Nat} {β : Type} {r : Conn × β} {c' : Conn} {x : β}
    (h : InvD d X r.1) (e : r = (c', x)) : InvD d X c' := by subst e; exact h

theorem InvD.mono {d : Bool} {X Y : List Nat} {c : Conn} (h : InvD d X c) (hXY : ∀ x ∈ X, x ∈ Y) :
    InvD d Y c where
  dead := h.dead
  nodup := h.nodup
  own := fun lid hl => by
    rcases h.own lid hl with e | e | e
    · exact Or.inl e
    · exact Or.inr (Or.inl (hXY _ e))
    · exact Or.inr (Or.inr e)
  ff := h.ff
  dz := h.dz

/-! ## 4. Preservation

### Primitives -/

/-- Replacing a link: no I/O end comes back, a dropped I/O end leaves an empty FIFO; a link of
    `Y` whose I/O end is dropped here leaves the set. -/
theorem invD_setLink' {d : Bool} {X Y : List Nat} {c : Conn} (h : InvD d Y c) (lid : Nat) (l : Link)
    (hio : l.ioAlive = true → (getLink c lid).ioAlive = true)
    (hff : l.ioAlive = false → l.fifo = [])
    (hY : ∀ y ∈ Y, y ∈ X ∨ (y = lid ∧ l.ioAlive = false)) : InvD d X (setLink c lid l) where
  dead := h.dead
  nodup := keys_setN_nodup lid l h.nodup
  own := fun j hj => by
    rw [getLink_setLink] at hj
    have hc : (getLink c j).ioAlive = true := by
      split at hj
      · rename_i e; subst e; exact hio hj
      · exact hj
    rcases h.own j hc with e | e | e
    · exact Or.inl e
    · rcases hY j e with e' | ⟨e1, e2⟩
      · exact Or.inr (Or.inl e')
      · subst e1; rw [if_pos rfl, e2] at hj; cases hj
    · exact Or.inr (Or.inr e)
  ff := fun j hj => by
    rw [getLink_setLink] at hj ⊢
    split
    · rename_i e; rw [if_pos e] at hj; exact hff hj
    · rename_i e; rw [if_neg e] at hj; exact h.ff j hj
  dz := fun hd => by
    obtain ⟨a, b, e, f, g⟩ := h.dz hd
    refine ⟨a, ?_, e, f, g⟩
    rw [getLink_setLink]
    split
    · rename_i e0; subst e0
      cases hl : l.ioAlive with
      | false => rfl
      | true => rw [hio hl] at b; cases b
    · exact b

theorem invD_setLink {d : Bool} {X : List Nat} {c : Conn} (h : InvD d X c) (lid : Nat) (l : Link)
    (hio : l.ioAlive = true → (getLink c lid).ioAlive = true)
    (hff : l.ioAlive = false → l.fifo = []) : InvD d X (setLink c lid l) :=
  invD_setLink' h lid l hio hff (fun _ hy => Or.inl hy)

/-- Only the reply queue / the readiness node / the client end of the link change. -/
theorem invD_setLink_keep {d : Bool} {X : List Nat} {c : Conn} (h : InvD d X c) (lid : Nat) (l : Link)
    (hio : l.ioAlive = (getLink c lid).ioAlive) (hf : l.fifo = (getLink c lid).fifo) :
    InvD d X (setLink c lid l) :=
  invD_setLink h lid l (fun hl => hio ▸ hl) (fun hl => by rw [hf]; exact h.ff lid (hio ▸ hl))

theorem invD_pushOut {d : Bool} {X : List Nat} {c : Conn} (h : InvD d X c) (b : Bytes) :
    InvD d X (pushOut c b) := by
  unfold pushOut
  split
  · exact h
  · d_same h

theorem invD_sealOut {d : Bool} {X : List Nat} {c : Conn} (h : InvD d X c) : InvD d X (sealOut c) := by
  d_same h

theorem invD_sendReply {d : Bool} {X : List Nat} {c : Conn} (h : InvD d X c) (lid : Nat) (r : Reply) :
    InvD d X (sendReply c lid r).1 := by
  unfold sendReply
  dsimp only
  split
  · exact h
  · split
    · exact h
    · exact invD_setLink_keep h _ _ rfl rfl

theorem invD_sendCons {d : Bool} {X : List Nat} {c : Conn} (h : InvD d X c) (qid : Nat) (m : CMsg) :
    InvD d X (sendCons c qid m).1 := by
  unfold sendCons
  split
  · split
    · exact h
    · d_same h
  · exact h

theorem invD_dropConsTx {d : Bool} {X : List Nat} {c : Conn} (h : InvD d X c) (qid : Nat) :
    InvD d X (dropConsTx c qid) := by
  unfold dropConsTx
  split
  · d_same h
  · exact h

theorem invD_sendLst {d : Bool} {X : List Nat} {c : Conn} (h : InvD d X c) (l : Label) (m : LMsg) :
    InvD d X (sendLst c l m).1 := by
  unfold sendLst
  split
  · split
    · d_same h
    · exact h
  · exact h

theorem invD_dropReply {d : Bool} {X : List Nat} {c : Conn} (h : InvD d X c) (r : Reply) :
    InvD d X (dropReply c r) := by
  unfold dropReply
  split
  · split
    · d_same h
    · exact h
  · exact h

theorem invD_foldl_dropConsTx {d : Bool} {X : List Nat} {c : Conn} (h : InvD d X c)
    (l : List (Bytes × Nat)) :
    InvD d X (l.foldl (fun acc (x : Bytes × Nat) => dropConsTx acc x.2) c) := by
  induction l generalizing c with
  | nil => exact h
  | cons x r ih => exact ih (invD_dropConsTx h x.2)

/-- Dropping the ends of a slot that has left the table. -/
theorem invD_dropSlotEnds' {d : Bool} {X Y : List Nat} {c : Conn} (h : InvD d Y c) (s : Slot)
    (hY : ∀ y ∈ Y, y ∈ X ∨ y = s.lid) : InvD d X (dropSlotEnds c s) := by
  unfold dropSlotEnds
  exact invD_foldl_dropConsTx (invD_setLink' h _ _ (fun hl => by cases hl) (fun _ => rfl)
    (fun y hy => (hY y hy).imp id (fun e => ⟨e, rfl⟩))) _

theorem invD_dropSlotEnds {d : Bool} {X : List Nat} {c : Conn} (h : InvD d (s.lid :: X) c) :
    InvD d X (dropSlotEnds c s) :=
  invD_dropSlotEnds' h s (fun y hy => by
    rcases List.mem_cons.mp hy with e | e
    · exact Or.inr e
    · exact Or.inl e)

theorem invD_dropSlotEnds_same {d : Bool} {X : List Nat} {c : Conn} (h : InvD d X c) (s : Slot) :
    InvD d X (dropSlotEnds c s) :=
  invD_dropSlotEnds' h s (fun _ hy => Or.inl hy)

theorem invD_notifyConsumers {d : Bool} {X : List Nat} {c : Conn} (h : InvD d X c) (m : CMsg)
    (l : List (Bytes × Nat)) : InvD d X (notifyConsumers m c l).1 := by
  induction l generalizing c with
  | nil => exact h
  | cons x r ih =>
    obtain ⟨t, qid⟩ := x
    unfold notifyConsumers
    split
    · rename_i heq; exact (invD_sendCons h qid m).of_eq_fst heq
    · rename_i heq; exact ih (invD_dropConsTx ((invD_sendCons h qid m).of_eq_fst heq) qid)

/-- Overwriting an existing slot, keeping its link. -/
theorem invD_setSlot {X : List Nat} {c : Conn} (h : InvD false X c) {n : Nat} {s0 : Slot}
    (hk : lookupN n c.slots = some s0) (s : Slot) (hl : s.lid = s0.lid) :
    InvD false X (setSlot c n s) where
  dead := h.dead
  nodup := h.nodup
  own := fun lid hj => by
    show lid = 0 ∨ lid ∈ X ∨ lid ∈ (setN n s c.slots).map (·.2.lid)
    rw [lids_setN hk hl]; exact h.own lid hj
  ff := h.ff
  dz := fun hd => by cases hd

/-- The slot leaves the table; its link joins the links to be dropped. -/
theorem invD_removeSlot {X : List Nat} {c : Conn} (h : InvD false X c)
    (hkeys : (c.slots.map (·.1)).Nodup) {n : Nat} {s : Slot} (hk : lookupN n c.slots = some s) :
    InvD false (s.lid :: X) (removeSlot c n) where
  dead := h.dead
  nodup := h.nodup
  own := fun lid hj => by
    rcases h.own lid hj with e | e | e
    · exact Or.inl e
    · exact Or.inr (Or.inl (List.mem_cons_of_mem _ e))
    · obtain ⟨p, hp, ep⟩ := List.mem_map.mp e
      by_cases hpn : p.1 = n
      · have : lookupN n c.slots = some p.2 :=
          lookupN_of_mem_nodup hkeys (show (n, p.2) ∈ c.slots from hpn ▸ hp)
        rw [hk] at this
        injection this with this
        subst this
        exact Or.inr (Or.inl (ep ▸ List.mem_cons_self))
      · exact Or.inr (Or.inr (List.mem_map.mpr ⟨p, mem_eraseN_of_ne hp hpn, ep⟩))
  ff := h.ff
  dz := fun hd => by cases hd

theorem invD_clientException {X : List Nat} {c : Conn} (h : InvD false X c) (code : Nat) (text : Bytes) :
    InvD false X (clientException c code text) := by
  have h1 := invD_sealOut (invD_pushOut h (connectionClose code (if c.legacy then text else truncUtf8 255 text)))
  exact h1.same0 rfl rfl rfl

theorem invD_dropLink0 {d : Bool} {X : List Nat} {c : Conn} (h : InvD d X c) :
    InvD d X (setLink c 0 { (getLink c 0) with ioAlive := false, fifo := [] }) :=
  invD_setLink h _ _ (fun hl => by cases hl) (fun _ => rfl)

theorem invD_dropCh0 {X : List Nat} {c : Conn} (h : InvD false X c) : InvD false X (process.dropCh0 c) := by
  unfold process.dropCh0
  exact (invD_dropLink0 h).same0 rfl rfl rfl

theorem invD_with_nondet {d : Bool} {X : List Nat} {c : Conn} (h : InvD d X c) (b : Bool) :
    InvD d X { c with nondet := c.nondet || b } := by
  d_same h

/-! ### `process` -/

/-- The two channel-close arms: the slot leaves the table, then its link is dropped. -/
theorem invD_closeSlot {c : Conn} (h : InvD false [] c) (hkeys : (c.slots.map (·.1)).Nodup)
    {n : Nat} {slot : Slot} (hslot : lookupN n c.slots = some slot) (r : Reply) (m : CMsg)
    (fin : Conn → Conn) (hf : ∀ X x, InvD false X x → InvD false X (fin x)) :
    InvD false [] (closeSlot c n slot r m fin).1 := by
  have h2 := invD_sendReply (invD_removeSlot h hkeys hslot) slot.lid r
  unfold closeSlot
  split
  · rename_i heq; rw [heq] at h2
    exact invD_dropSlotEnds h2
  · rename_i c2 heq; rw [heq] at h2
    have h3 := invD_notifyConsumers h2 m slot.consumers
    split
    · rename_i heq2; rw [heq2] at h3
      exact invD_with_nondet (invD_dropSlotEnds h3) _
    · rename_i heq2; rw [heq2] at h3
      exact invD_dropSlotEnds (hf _ _ h3)

/-- The server-initiated close arm (consumers first, then the channel's caller). -/
theorem invD_closeSlotN {c : Conn} (h : InvD false [] c) (hkeys : (c.slots.map (·.1)).Nodup)
    {n : Nat} {slot : Slot} (hslot : lookupN n c.slots = some slot) (r : Reply) (m : CMsg)
    (fin : Conn → Conn) (hf : ∀ X x, InvD false X x → InvD false X (fin x)) :
    InvD false [] (closeSlotN c n slot r m fin).1 := by
  have h2 := invD_notifyConsumers (invD_removeSlot h hkeys hslot) m slot.consumers
  unfold closeSlotN
  split
  · rename_i heq; rw [heq] at h2
    exact invD_with_nondet (invD_dropSlotEnds h2) _
  · rename_i c2 heq; rw [heq] at h2
    have h3 := invD_sendReply h2 slot.lid r
    split
    · rename_i heq2; rw [heq2] at h3
      exact invD_dropSlotEnds h3
    · rename_i heq2; rw [heq2] at h3
      exact invD_dropSlotEnds (hf _ _ h3)

theorem invD_close {c : Conn} (h : InvD false [] c) (hkeys : (c.slots.map (·.1)).Nodup)
    (n code : Nat) (text dbg : Bytes) :
    InvD false [] (processChannelMethod c n 20 40 [.nat code, .bytes text] dbg).1 := by
  rw [pcm_close_eq]
  split
  · rename_i hs
    exact invD_closeSlotN h hkeys (slotGet_ok hs) _ _ _ (fun _ _ hx => invD_pushOut hx _)
  · exact h

theorem invD_closeOk {c : Conn} (h : InvD false [] c) (hkeys : (c.slots.map (·.1)).Nodup)
    (n : Nat) (fields : List Field) (dbg : Bytes) :
    InvD false [] (processChannelMethod c n 20 41 fields dbg).1 := by
  rw [pcm_closeOk_eq]
  split
  · exact h
  · rename_i hs
    exact invD_closeSlot h hkeys hs _ _ _ (fun _ _ hx => hx)

theorem invD_foldl_dropSlotEnds {d : Bool} {X : List Nat} {c : Conn} (L : List Slot)
    (h : InvD d (L.map (·.lid) ++ X) c) : InvD d X (L.foldl dropSlotEnds c) := by
  induction L generalizing c with
  | nil => exact h
  | cons s r ih => exact ih (invD_dropSlotEnds (s := s) h)

theorem invD_drainSlots_go {c : Conn} (r : Reply) (m : CMsg) (all l : List (Nat × Slot))
    (h : InvD false (l.map (·.2.lid)) c) : InvD false [] (drainSlots.go r m all c l).1 := by
  induction l generalizing c with
  | nil => exact h
  | cons x rest ih =>
    obtain ⟨k, s⟩ := x
    have e : (s :: rest.map (·.2)).map (·.lid) ++ [] = ((k, s) :: rest).map (·.2.lid) := by
      simp
    unfold drainSlots.go
    dsimp only
    split
    · rename_i heq
      have h1 := (invD_notifyConsumers h m s.consumers).of_eq_fst heq
      exact invD_with_nondet (invD_foldl_dropSlotEnds (s :: rest.map (·.2)) (e ▸ h1)) _
    · rename_i heq
      have h1 := (invD_notifyConsumers h m s.consumers).of_eq_fst heq
      split
      · rename_i heq2
        have h2 := (invD_sendReply h1 s.lid r).of_eq_fst heq2
        exact invD_with_nondet (invD_foldl_dropSlotEnds (s :: rest.map (·.2)) (e ▸ h2)) _
      · rename_i heq2
        have h2 := (invD_sendReply h1 s.lid r).of_eq_fst heq2
        exact ih (invD_dropSlotEnds (s := s) h2)

theorem invD_drainSlots {c : Conn} (h : InvD false [] c) (r : Reply) (m : CMsg) :
    InvD false [] (drainSlots c r m).1 := by
  unfold drainSlots
  apply invD_drainSlots_go
  exact { dead := h.dead
          nodup := h.nodup
          own := fun lid hj => by
            rcases h.own lid hj with e | e | e
            · exact Or.inl e
            · cases e
            · exact Or.inr (Or.inl e)
          ff := h.ff
          dz := fun hd => by cases hd }

/-- Leaving `Steady` for a closed state. -/
theorem invD_closeDrain {c : Conn} (h : InvD false [] c) (st' : CSt) (r : Reply) (m : CMsg) :
    InvD false [] (drainSlots
      { (setLink { c with st := st' } 0
          { (getLink { c with st := st' } 0) with ioAlive := false, fifo := [] }) with
        blockedL := none, allocReq := [], blockedFifo := [] } r m).1 := by
  apply invD_drainSlots
  have h0 : InvD false [] { c with st := st' } := by d_same h
  exact (invD_dropLink0 h0).same0 rfl rfl rfl

theorem invD_dispatchContent {X : List Nat} {c : Conn} (h : InvD false X c) {n : Nat} {s0 : Slot}
    (hk : lookupN n c.slots = some s0) (slot : Slot) (hl : slot.lid = s0.lid) (ct : Content) :
    InvD false X (dispatchContent c n slot ct).1 := by
  unfold dispatchContent
  split
  · split
    · exact h
    · exact invD_sendCons h _ _
  · split
    · exact h
    · split
      · rename_i heq; exact (invD_sendLst h _ _).of_eq_fst heq
      · rename_i c1 heq
        have h1 := (invD_sendLst h _ _).of_eq_fst heq
        have e : c1.slots = c.slots := by
          have := congrArg (fun r => r.1.slots) heq
          simpa using this.symm
        exact invD_setSlot h1 (e ▸ hk) _ hl
  · exact invD_sendReply h _ _

theorem invD_afterCollect {X : List Nat} {c : Conn} (h : InvD false X c) {n : Nat} {slot : Slot}
    (hk : lookupN n c.slots = some slot) (r : Res) : InvD false X (afterCollect c n slot r).1 := by
  unfold afterCollect
  have h1 : InvD false X (setSlot c n { slot with coll := r.state }) := invD_setSlot h hk _ rfl
  dsimp only
  split
  · exact h1
  · exact h1
  · exact invD_dispatchContent h1 (lookupN_setN_self _ _ _) _ rfl _

theorem invD_trySendConfirm {X : List Nat} {c : Conn} (h : InvD false X c) {n : Nat} {slot : Slot}
    (hk : lookupN n c.slots = some slot) (m : LMsg) : InvD false X (trySendConfirm c n slot m) := by
  unfold trySendConfirm
  split
  · exact h
  · split
    · rename_i heq; exact (invD_sendLst h _ _).of_eq_fst heq
    · rename_i c1 heq
      have h1 := (invD_sendLst h _ _).of_eq_fst heq
      have e : c1.slots = c.slots := by
        have := congrArg (fun r => r.1.slots) heq
        simpa using this.symm
      exact invD_setSlot h1 (s0 := slot) (e ▸ hk) _ rfl

theorem invD_trySendBlocked {X : List Nat} {c : Conn} (h : InvD false X c) (m : LMsg) :
    InvD false X (trySendBlocked c m) := by
  unfold trySendBlocked
  split
  · exact h
  · split
    · rename_i heq; exact (invD_sendLst h _ _).of_eq_fst heq
    · rename_i heq
      have h1 := (invD_sendLst h _ _).of_eq_fst heq
      d_same h1

/-- One backward step of an `InvD`-preservation proof (cf. `inv_step`). -/
macro "d_step" : tactic => `(tactic| first
  | assumption
  | with_reducible apply invD_pushOut
  | with_reducible apply invD_sealOut
  | with_reducible apply invD_dropConsTx
  | with_reducible apply invD_dropReply
  | with_reducible apply invD_clientException
  | with_reducible apply invD_dropCh0
  | with_reducible apply invD_sendReply
  | with_reducible apply invD_sendCons
  | with_reducible apply invD_sendLst
  | with_reducible apply invD_notifyConsumers
  | with_reducible apply invD_trySendBlocked
  | with_reducible apply invD_with_nondet
  | (with_reducible refine invD_afterCollect ?_ (slotGet_ok (by assumption)) _)
  | (with_reducible refine invD_trySendConfirm ?_ (slotGet_ok (by assumption)) _)
  | (refine invD_setSlot ?_ (slotGet_ok (by assumption)) _ ?_; rotate_left; rfl)
  | (apply InvD.of_eq_fst; rotate_left; assumption; try dsimp only))

macro "d_auto" : tactic =>
  `(tactic| ((try dsimp only); repeat' (first | d_step | (split <;> try dsimp only))))

theorem invD_processChannelMethod {c : Conn} (h : InvD false [] c)
    (hkeys : (c.slots.map (·.1)).Nodup) (n cls mid : Nat) (fields : List Field) (dbg : Bytes) :
    InvD false [] (processChannelMethod c n cls mid fields dbg).1 := by
  unfold processChannelMethod
  dsimp only
  split
  · exact invD_close h hkeys n _ _ dbg
  · exact invD_closeOk h hkeys n [] dbg
  all_goals (repeat' split)
  all_goals try d_auto
  all_goals d_same h

theorem invD_process {c : Conn} (h : InvD false [] c) (hkeys : (c.slots.map (·.1)).Nodup)
    (f : Frame) (dc df : Bytes) : InvD false [] (process c f dc df).1 := by
  unfold process
  split
  · exact h
  · split <;> exact h
  · split <;> exact h
  · split
    all_goals try d_auto
    · exact invD_closeDrain (invD_sealOut (invD_pushOut h connectionCloseOk)) _ _ _
    · exact invD_closeDrain (invD_setLink_keep h 0
        { (getLink c 0) with replies := (getLink c 0).replies ++ [.method 10 51 []] } rfl rfl) _ _ _
    · exact invD_processChannelMethod h hkeys _ _ _ _ _
    · exact invD_processChannelMethod h hkeys _ _ _ _ _

/-! ### Event handlers -/

theorem invD_processPlainMessage {X : List Nat} {c : Conn} (h : InvD false X c) (n : Nat) (m : Msg) :
    InvD false X (processPlainMessage c n m).1 := by
  unfold processPlainMessage
  split
  · exact invD_sealOut (invD_pushOut h _)
  · exact invD_pushOut h _
  · split
    · exact h
    · split
      · rename_i hk; exact invD_setSlot h hk _ rfl
      · exact h
  · split
    · exact h
    · split
      · rename_i hk; exact invD_setSlot h hk _ rfl
      · exact h

theorem invD_popFifo {d : Bool} {X : List Nat} {c c1 : Conn} {m : Msg} (h : InvD d X c) {lid : Nat}
    (hp : popFifo c lid = some (m, c1)) : InvD d X c1 := by
  unfold popFifo at hp
  dsimp only at hp
  split at hp
  · cases hp
  · rename_i m' rest hf
    cases hp
    refine invD_setLink h _ _ (fun hl => hl) (fun hl => ?_)
    have := h.ff lid hl
    rw [hf] at this; cases this

theorem invD_processChannelMessage {X : List Nat} {c : Conn} (h : InvD false X c) (n : Nat) (m : Msg) :
    InvD false X (processChannelMessage c n m).1 :=
  processChannelMessage_ind (P := InvD false X)
    (fun _ n _ m _ h _ hp => invD_processPlainMessage (invD_popFifo h hp) n m)
    (fun _ h' => invD_processPlainMessage h' n m) h

theorem invD_drainFifo {X : List Nat} {c : Conn} (h : InvD false X c) (fuel n : Nat) :
    InvD false X (drainFifo fuel c n).1 := by
  induction fuel generalizing c with
  | zero => exact h
  | succ fuel ih =>
    unfold drainFifo
    dsimp only
    split
    · exact h
    · split
      · rename_i hp
        have h1 := invD_popFifo h hp
        split
        · rename_i heq; exact (invD_processChannelMessage h1 n _).of_eq_fst heq
        · rename_i heq; exact ih ((invD_processChannelMessage h1 n _).of_eq_fst heq)
      · split <;> exact h

theorem invD_setBlockedLoop {X : List Nat} {c : Conn} (h : InvD false X c) (fuel : Nat) :
    InvD false X (setBlockedLoop fuel c).1 := by
  induction fuel generalizing c with
  | zero => exact h
  | succ fuel ih =>
    unfold setBlockedLoop
    split
    · split <;> exact h
    · exact ih (by d_same h)

theorem invD_writeLoop {d : Bool} {X : List Nat} {c : Conn} (h : InvD d X c) (fuel pos : Nat) (w : Bytes) :
    InvD d X (writeLoop fuel c pos w).1 := by
  induction fuel generalizing c pos w with
  | zero => exact h
  | succ fuel ih =>
    unfold writeLoop
    split
    · split
      · d_same h
      · d_same h
      · d_same h
      · exact ih (by d_same h) _ _
    · d_same h

theorem invD_writeToStream {d : Bool} {X : List Nat} {c : Conn} (h : InvD d X c) :
    InvD d X (writeToStream c).1 :=
  invD_writeLoop h _ _ _

theorem invD_processBytes {c : Conn} (h : InvD false [] c) (hc : InvC c) (bytes : Bytes) :
    InvD false [] (processBytes c bytes).1 := by
  unfold processBytes
  split
  · split
    · exact invD_process h hc.sok.keys_nodup _ _ _
    · exact h
  · exact h

theorem invD_readFromStream_go {c : Conn} (h : InvD false [] c) (hc : InvC c) (l : List Bytes) :
    InvD false [] (readFromStream.go c l).1 := by
  induction l generalizing c with
  | nil => exact h
  | cons fr rest ih =>
    unfold readFromStream.go
    have hc1 := (pres_processBytes c fr hc).1
    split
    · rename_i heq; exact (invD_processBytes h hc fr).of_eq_fst heq
    · rename_i heq
      rw [heq] at hc1
      exact ih ((invD_processBytes h hc fr).of_eq_fst heq) hc1

theorem invC_with_fb {c : Conn} (hc : InvC c) (fb : Bytes) (rd : List FrameBuffer.ReadEv) :
    InvC { c with fb := fb, reads := rd } := ⟨hc.open_nodup, hc.sok, hc.qi⟩

theorem invD_readFromStream {c : Conn} (h : InvD false [] c) (hc : InvC c) :
    InvD false [] (readFromStream c).1 := by
  unfold readFromStream
  dsimp only
  split
  · rename_i heq
    exact (invD_readFromStream_go (by d_same h) (invC_with_fb hc _ _) _).of_eq_fst heq
  · rename_i heq
    have h1 := (invD_readFromStream_go (c := { c with fb := _, reads := _ }) (by d_same h)
      (invC_with_fb hc _ _) _).of_eq_fst heq
    split <;> exact h1

/-! ### Channel allocation -/

theorem self_mem_insertSorted {α : Type} (k : Nat) (v : α) (m : List (Nat × α)) :
    (k, v) ∈ insertSorted k v m := by
  induction m with
  | nil => simp [insertSorted]
  | cons q r ih =>
    obtain ⟨k', v'⟩ := q
    unfold insertSorted
    split
    · exact List.mem_cons_self
    · split
      · exact List.mem_cons_self
      · exact List.mem_cons_of_mem _ ih

theorem mem_insertSorted_of_mem {α : Type} {k : Nat} (v : α) {p : Nat × α} {m : List (Nat × α)}
    (hp : p ∈ m) (hk : p.1 ≠ k) : p ∈ insertSorted k v m := by
  induction m with
  | nil => cases hp
  | cons q r ih =>
    obtain ⟨k', v'⟩ := q
    unfold insertSorted
    split
    · exact List.mem_cons_of_mem _ hp
    · split
      · rename_i e
        rcases List.mem_cons.mp hp with e' | hp
        · subst e'; exact absurd e.symm hk
        · exact List.mem_cons_of_mem _ hp
      · rcases List.mem_cons.mp hp with e' | hp
        · subst e'; exact List.mem_cons_self
        · exact List.mem_cons_of_mem _ (ih hp)

/-- The state right after a channel was allocated (`newCh` of `ConnC18`): the new link is alive
    and owned by the new slot. -/
theorem invD_newCh {c : Conn} (h : InvD false [] c) (hlt : ∀ p ∈ c.links, p.1 < c.nextLid)
    {i : Nat} (hi : i ∉ c.slots.map (·.1)) (a : Slots.Slots) (rest : List (Option Nat)) :
    InvD false [] (newCh c a rest i) := by
  have e1 : ∀ j, j ≠ c.nextLid → getLink (newCh c a rest i) j = getLink c j :=
    fun j hj => getLink_app_ne (c := c) (c' := newCh c a rest i) rfl (fun e => hj e.symm)
  have e2 := getLink_app_self (c := c) (c' := newCh c a rest i) rfl hlt
  refine ⟨h.dead, ?_, fun j hj => ?_, fun j hj => ?_, fun hd => by cases hd⟩
  · show (List.map (fun p : Nat × Link => p.1) (c.links ++ [(c.nextLid, _)])).Nodup
    rw [List.map_append, List.nodup_append]
    refine ⟨h.nodup, by simp, fun x hx y hy => ?_⟩
    obtain ⟨p, hp, ep⟩ := List.mem_map.mp hx
    have hy' : y = c.nextLid := by simpa using hy
    have := hlt p hp
    intro exy
    rw [← ep, hy'] at exy
    omega
  · show j = 0 ∨ j ∈ [] ∨ j ∈ (insertSorted i { lid := c.nextLid } c.slots).map (·.2.lid)
    by_cases ej : j = c.nextLid
    · exact Or.inr (Or.inr (List.mem_map.mpr ⟨_, self_mem_insertSorted i _ _, ej.symm⟩))
    · rw [e1 j ej] at hj
      rcases h.own j hj with e | e | e
      · exact Or.inl e
      · cases e
      · obtain ⟨p, hp, ep⟩ := List.mem_map.mp e
        refine Or.inr (Or.inr (List.mem_map.mpr ⟨p, mem_insertSorted_of_mem _ hp (fun e => ?_), ep⟩))
        exact hi (List.mem_map.mpr ⟨p, hp, e⟩)
  · by_cases ej : j = c.nextLid
    · subst ej; rw [e2] at hj; cases hj
    · rw [e1 j ej] at hj ⊢; exact h.ff j hj

theorem invD_ite {d : Bool} {X : List Nat} {α : Type} {p : Prop} [Decidable p] {a b : Conn × α}
    (ha : p → InvD d X a.1) (hb : ¬ p → InvD d X b.1) : InvD d X (if p then a else b).1 := by
  split
  · exact ha ‹_›
  · exact hb ‹_›

theorem invD_allocateLoop {bd : Nat} {t : Bool} {c : Conn} (h : InvD false [] c) (hc : InvC c)
    (hl : InvL bd t c) (fuel : Nat) : InvD false [] (allocateLoop fuel c).1 := by
  induction fuel generalizing c with
  | zero => exact h
  | succ fuel ih =>
    unfold allocateLoop
    split
    · split <;> exact h
    · rename_i req rest hreq
      dsimp only
      cases req
      case' none =>
        have hsp := insertNone_open c.alloc
        dsimp only
        generalize Slots.insertNone c.alloc = p at hsp ⊢
      case' some id =>
        have hsp := insertSome_open c.alloc id
        dsimp only
        generalize Slots.insertSome c.alloc id = p at hsp ⊢
      all_goals
        obtain ⟨a, res⟩ := p
        obtain ⟨hok, hno⟩ := hsp
        dsimp only at hok hno ⊢
        have d2 : InvD false [] { c with allocReq := rest, allocSrc := c.allocSrc.dec, alloc := a } := by
          d_same h
        have l2 : InvL bd t { c with allocReq := rest, allocSrc := c.allocSrc.dec, alloc := a } := by
          invL_same hl
        have hfresh : ∀ label, lookupS label c.handles ≠ some c.nextLid := by
          intro label hl'
          exact Nat.lt_irrefl _ (hl.a.h_lt label _ hl')
        split
        · exact d2
        · rename_i i
          obtain ⟨hid, hopen⟩ := hok i rfl
          have hk : i ∉ c.slots.map (·.1) := by
            intro hm
            obtain ⟨p, hp, e⟩ := List.mem_map.mp hm
            exact hid (e ▸ hc.sok.keys_open p hp)
          have d3 := invD_newCh h hl.a.links_lt hk a rest
          have c3 : InvC (newCh c a rest i) := (pres_newChannel hid hopen _ rest c.allocSrc.dec hc).1
          have l3 := invL_newCh hl a rest i
          have hlook : lookupN i (newCh c a rest i).slots = some { lid := c.nextLid } :=
            (lookupN_insertSorted i i _ _).trans (if_pos rfl)
          refine invD_ite (fun _ => ?_) (fun _ => invD_ite (fun _ => d3) (fun hlen => ?_))
          · refine ih ?_ ?_ ?_
            · refine invD_setLink' (invD_removeSlot d3 c3.sok.keys_nodup hlook) _ _
                (fun hx => by cases hx) (fun _ => ?_) (fun y hy => ?_)
              · show (getLink (removeSlot (newCh c a rest i) i) c.nextLid).fifo = []
                rw [getLink_congr (c := newCh c a rest i) (c' := removeSlot (newCh c a rest i) i) rfl,
                  getLink_app_self (c := c) (c' := newCh c a rest i) rfl hl.a.links_lt]
              · rcases List.mem_cons.mp hy with e | e
                · exact Or.inr ⟨e, rfl⟩
                · cases e
            · exact ((pres_removeSlot_empty (s := { lid := c.nextLid }) hlook rfl).then_core
                (core_setLink _ _ _) c3).1
            · refine invL_allocFail l3 i c.nextLid (Nat.lt_succ_self _) ?_ hfresh ?_
              · intro p hp e
                rcases mem_insertSorted hp with e' | hp
                · subst e'; rfl
                · have := hl.b.lids_lt p hp; omega
              · intro hl'; exact Nat.lt_irrefl _ (hl.a.r_lt _ hl')
          · refine ih (by d_same d3) ⟨c3.open_nodup, c3.sok, c3.qi⟩
              (invL_with_allocRep l3 _ hlen (fun lid e => ?_))
            injection e with e
            subst e
            exact ⟨Nat.lt_succ_self _, newCh_link hl a rest i, hfresh⟩
        · rename_i hp1 hp2
          have c2 : InvC { c with allocReq := rest, allocSrc := c.allocSrc.dec, alloc := a } :=
            (pres_with_alloc (c := c) (a := a) (hno (fun i hi => hp2 i hi)) rest c.allocSrc.dec hc).1
          refine invD_ite (fun _ => ih d2 c2 l2) (fun _ => invD_ite (fun _ => d2) (fun hlen => ?_))
          exact ih (by d_same d2) ⟨c2.open_nodup, c2.sok, c2.qi⟩
            (invL_with_allocRep l2 _ hlen (fun lid e => by cases e))

/-! ### Events, (de/re)registration, poll -/

theorem invD_handleEvent {bd : Nat} {t : Bool} {c : Conn} (h : InvD false [] c) (hc : InvC c)
    (hl : InvL bd t c) (tk : Token) : InvD false [] (handleEvent c tk).1 := by
  have hcw : InvC (writeToStream c).1 := (Pres.of_core (core_writeToStream c) hc).1
  unfold handleEvent
  split
  · rename_i r w
    cases w <;> cases r <;> simp only [Bool.false_eq_true, ↓reduceIte]
    all_goals (repeat' split)
    all_goals first
      | exact h
      | exact invD_writeToStream h
      | exact invD_readFromStream h hc
      | exact invD_readFromStream (invD_writeToStream h) hcw
  · exact h
  · split
    · exact invD_setBlockedLoop h _
    · split <;> exact h
  · split
    · exact invD_allocateLoop h hc hl _
    · split <;> exact h
  · split
    · exact invD_drainFifo h _ _
    · split <;> exact h
  · exact invD_drainFifo h _ _

theorem invD_with_registered {d : Bool} {X : List Nat} {c : Conn} (h : InvD d X c) (b : Bool) :
    InvD d X { c with registered := b } := by
  d_same h

theorem invD_with_srcs {d : Bool} {X : List Nat} {c : Conn} (h : InvD d X c) (a b : Src) :
    InvD d X { c with allocSrc := a, blockedSrc := b } := by
  d_same h

theorem invD_deregisterAll {d : Bool} {X : List Nat} {c : Conn} (h : InvD d X c) :
    InvD d X (deregisterAll c) := by
  unfold deregisterAll
  dsimp only
  apply invD_with_registered
  apply foldl_invariant (InvD d X)
  · intro acc x ha
    exact invD_setLink_keep ha _ _ rfl rfl
  · exact h

theorem invD_reregisterAll {d : Bool} {X : List Nat} {c : Conn} (h : InvD d X c) :
    InvD d X (reregisterAll c) := by
  unfold reregisterAll
  dsimp only
  apply invD_with_registered
  apply foldl_invariant (InvD d X)
  · intro acc x ha
    exact invD_setLink_keep ha _ _ rfl rfl
  · exact h

theorem invD_pollAll {d : Bool} {X : List Nat} {c : Conn} (h : InvD d X c) :
    InvD d X (pollAll c).1 := by
  unfold pollAll
  dsimp only
  apply invD_with_srcs
  apply foldl_invariant (fun (a : Conn × List PTok) => InvD d X a.1)
  · intro acc x ha
    exact invD_setLink_keep ha _ _ rfl rfl
  · exact h

/-! ### The end of the loop -/

theorem getLink_dropSlotEnds' (c : Conn) (s : Slot) (lid : Nat) :
    getLink (dropSlotEnds c s) lid =
      if s.lid = lid then { (getLink c lid) with ioAlive := false, fifo := [] } else getLink c lid := by
  unfold dropSlotEnds
  dsimp only
  rw [getLink_congr (foldl_dropConsTx_links' _ _), getLink_setLink]
  split
  · rename_i e; subst e; rfl
  · rfl

/-- Dropping the ends of every slot: nothing comes back, and the link of each slot is dead. -/
theorem dropAll_dead (L : List (Nat × Slot)) (acc : Conn) :
    (∀ lid, (getLink (L.foldl (fun a (p : Nat × Slot) => dropSlotEnds a p.2) acc) lid).ioAlive = true →
      (getLink acc lid).ioAlive = true) ∧
    (∀ p ∈ L, (getLink (L.foldl (fun a (p : Nat × Slot) => dropSlotEnds a p.2) acc) p.2.lid).ioAlive
      = false) := by
  induction L generalizing acc with
  | nil => exact ⟨fun _ hl => hl, fun p hp => by cases hp⟩
  | cons q r ih =>
    obtain ⟨m1, m2⟩ := ih (dropSlotEnds acc q.2)
    have step : ∀ lid, (getLink (dropSlotEnds acc q.2) lid).ioAlive = true →
        (getLink acc lid).ioAlive = true ∧ q.2.lid ≠ lid := by
      intro lid hlid
      rw [getLink_dropSlotEnds'] at hlid
      split at hlid
      · cases hlid
      · exact ⟨hlid, ‹_›⟩
    refine ⟨fun lid hlid => (step lid (m1 lid hlid)).1, fun p hp => ?_⟩
    rcases List.mem_cons.mp hp with e | hp
    · subst e
      cases hx : (getLink (List.foldl (fun a (p : Nat × Slot) => dropSlotEnds a p.2) acc (p :: r)) p.2.lid).ioAlive with
      | false => rfl
      | true => exact absurd rfl (step _ (m1 _ hx)).2
    · exact m2 p hp

theorem invD_kill {c : Conn} (h : InvD false [] c) : InvD true [] (kill c) := by
  have h1 : InvD false [] (c.slots.foldl (fun acc (x : Nat × Slot) => dropSlotEnds acc x.2) c) :=
    foldl_invariant (InvD false []) _ (fun a x ha => invD_dropSlotEnds_same ha x.2) _ _ h
  have hs : (c.slots.foldl (fun acc (x : Nat × Slot) => dropSlotEnds acc x.2) c).slots = c.slots :=
    (foldl_invariant (KeepL c) (fun acc (x : Nat × Slot) => dropSlotEnds acc x.2)
      (fun a x ha => ha.trans (keepL_dropSlotEnds a _)) c.slots c (KeepL.refl c)).slots
  obtain ⟨_, m2⟩ := dropAll_dead c.slots c
  have h2 := invD_dropLink0 h1
  unfold kill
  dsimp only
  refine ⟨rfl, h2.nodup, fun lid hlid => ?_, h2.ff, fun _ => ⟨rfl, ?_, rfl, rfl, rfl⟩⟩
  · exfalso
    replace hlid : (getLink (setLink (c.slots.foldl (fun acc (x : Nat × Slot) => dropSlotEnds acc x.2) c) 0
      { (getLink (c.slots.foldl (fun acc (x : Nat × Slot) => dropSlotEnds acc x.2) c) 0) with
        ioAlive := false, fifo := [] }) lid).ioAlive = true := hlid
    rw [getLink_setLink] at hlid
    split at hlid
    · cases hlid
    · rename_i hne
      rcases h1.own lid hlid with e | e | e
      · exact hne e.symm
      · cases e
      · rw [hs] at e
        obtain ⟨p, hp, ep⟩ := List.mem_map.mp e
        have := m2 p hp
        rw [show p.2.lid = lid from ep, hlid] at this
        cases this
  · show (getLink (setLink (c.slots.foldl (fun acc (x : Nat × Slot) => dropSlotEnds acc x.2) c) 0
      { (getLink (c.slots.foldl (fun acc (x : Nat × Slot) => dropSlotEnds acc x.2) c) 0) with
        ioAlive := false, fifo := [] }) 0).ioAlive = false
    rw [getLink_setLink_self]

/-! ### `ioStep` -/

/-- The invariant between operations. -/
def DI (c : Conn) : Prop := InvD c.dead [] c

theorem InvD.di {d : Bool} {c : Conn} (h : InvD d [] c) : DI c := by
  unfold DI; rw [h.dead]; exact h

theorem di_ioFin {c1 : Conn} (h : InvD false [] c1) (w : Option Bytes) (e : Option Err) :
    DI (ioFin c1 w e).1 := by
  cases e with
  | none => exact h.di
  | some e => exact (invD_kill h).di

theorem di_ioStep {bd : Nat} {t : Bool} {c : Conn} (h : DI c) (hc : InvC c) (hl : InvL bd t c)
    (o : IoOp) : DI (ioStep c o).1 := by
  cases hd : c.dead with
  | true => rw [(ioStep_dead hd o).1]; exact h
  | false =>
    have h0 : InvD false [] c := by unfold DI at h; rw [hd] at h; exact h
    cases o with
    | frame bytes => rw [ioStep_frame hd]; exact di_ioFin (invD_processBytes h0 hc bytes) _ _
    | event tk => rw [ioStep_event hd]; exact di_ioFin (invD_handleEvent h0 hc hl tk) _ _
    | write => rw [ioStep_write hd]; exact di_ioFin (invD_writeToStream h0) _ _
    | done =>
      rw [ioStep_done hd]
      split
      · exact h
      · exact (invD_kill h0).di
    | dereg => rw [ioStep_dereg hd]; exact (invD_deregisterAll h0).di
    | rereg => rw [ioStep_rereg hd]; exact (invD_reregisterAll h0).di
    | poll => rw [ioStep_poll hd]; exact (invD_pollAll h0).di
    | kill => rw [ioStep_kill hd]; exact (invD_kill h0).di

/-! ### Client operations -/

theorem invD_newListener {d : Bool} {X : List Nat} {c : Conn} (h : InvD d X c) (l : Label) :
    InvD d X (newListener c l) := by
  unfold newListener; d_same h

theorem invD_allocRequest {d : Bool} {X : List Nat} {c : Conn} (h : InvD d X c) (req : Option Nat) :
    InvD d X (allocRequest c req).1 := by
  unfold allocRequest
  split
  · exact h
  · split
    · exact h
    · rename_i hio
      split
      · exact h
      · cases d with
        | false => d_same h
        | true =>
          have := (h.dz rfl).2.1
          rw [this] at hio; simp at hio

theorem invD_setBlockedRequest {d : Bool} {X : List Nat} {c : Conn} (h : InvD d X c) (l : Label) :
    InvD d X (setBlockedRequest c l).1 := by
  unfold setBlockedRequest
  split
  · exact h
  · split
    · exact h
    · rename_i hio
      split
      · exact h
      · cases d with
        | false => d_same h
        | true =>
          have := (h.dz rfl).2.1
          rw [this] at hio; simp at hio

theorem invD_allocReply {d : Bool} {X : List Nat} {c : Conn} (h : InvD d X c) (label : Label) :
    InvD d X (allocReply c label).1 := by
  unfold allocReply
  repeat' split
  all_goals first | exact h | d_same h

theorem invD_clientSend {d : Bool} {X : List Nat} {c : Conn} (h : InvD d X c) (label : Label) (m : Msg) :
    InvD d X (clientSend c label m).1 := by
  unfold clientSend
  split
  · exact h
  · dsimp only
    split
    · exact h
    · rename_i hio
      split
      · exact h
      · refine invD_setLink h _ _ (fun hx => hx) (fun hx => ?_)
        rw [show ({ (getLink c _) with fifo := _, src := _ } : Link).ioAlive = (getLink c _).ioAlive from rfl] at hx
        rw [hx] at hio; simp at hio

theorem invD_clientRecv {d : Bool} {X : List Nat} {c : Conn} (h : InvD d X c) (label cl : Label) :
    InvD d X (clientRecv c label cl).1 := by
  unfold clientRecv
  split
  · exact h
  · dsimp only
    split
    · split <;> exact h
    · rename_i lid _ _ _ _ _
      have h1 := fun r => invD_setLink_keep h lid { (getLink c lid) with replies := r } rfl rfl
      split
      · exact (h1 _).same rfl rfl rfl rfl rfl rfl
      · exact h1 _

theorem invD_consRecv {d : Bool} {X : List Nat} {c : Conn} (h : InvD d X c) (cl : Label) :
    InvD d X (consRecv c cl).1 := by
  unfold consRecv
  repeat' split
  all_goals first | exact h | d_same h

theorem invD_lstRecv {d : Bool} {X : List Nat} {c : Conn} (h : InvD d X c) (l : Label) :
    InvD d X (lstRecv c l).1 := by
  unfold lstRecv
  repeat' split
  all_goals first | exact h | d_same h

theorem invD_dropCons {d : Bool} {X : List Nat} {c : Conn} (h : InvD d X c) (cl : Label) :
    InvD d X (dropCons c cl) := by
  unfold dropCons
  repeat' split
  all_goals first | exact h | d_same h

theorem invD_dropListener {d : Bool} {X : List Nat} {c : Conn} (h : InvD d X c) (l : Label) :
    InvD d X (dropListener c l) := by
  unfold dropListener
  repeat' split
  all_goals first | exact h | d_same h

theorem invD_dropHandle {d : Bool} {X : List Nat} {c : Conn} (h : InvD d X c) (label : Label) :
    InvD d X (dropHandle c label) := by
  unfold dropHandle
  split
  · exact h
  · rename_i lid _
    dsimp only
    have h1 : InvD d X ((getLink c lid).replies.foldl dropReply c) :=
      foldl_invariant (InvD d X) _ (fun a x ha => invD_dropReply ha x) _ _ h
    have e : ∀ k, getLink ((getLink c lid).replies.foldl dropReply c) k = getLink c k := by
      intro k
      apply getLink_congr
      apply foldl_invariant (fun a : Conn => a.links = c.links)
      · intro a x ha
        rw [← ha]; unfold dropReply; split
        · split <;> rfl
        · rfl
      · rfl
    have h2 := invD_setLink_keep h1 lid
      { (getLink c lid) with clientAlive := false, replies := [], src := (getLink c lid).src.inc }
      (by rw [e]) (by rw [e])
    split
    · exact h2.same rfl rfl rfl rfl rfl rfl
    · exact h2.same rfl rfl rfl rfl rfl rfl

theorem invD_clientStep {d : Bool} {X : List Nat} {c : Conn} (h : InvD d X c) (o : ClientOp) :
    InvD d X (clientStep c o).1 := by
  cases o with
  | allocReq req => exact invD_allocRequest h req
  | allocRep label => exact invD_allocReply h label
  | send label m =>
    unfold clientStep
    dsimp only
    split
    · exact invD_clientSend (invD_newListener h _) label m
    · exact invD_clientSend h label m
  | setBlocked l => exact invD_setBlockedRequest (invD_newListener h l) l
  | recv label cl => exact invD_clientRecv h label cl
  | crecv cl => exact invD_consRecv h cl
  | lrecv l => exact invD_lstRecv h l
  | dropHandle label => exact invD_dropHandle h label
  | dropCons cl => exact invD_dropCons h cl
  | dropLst l => exact invD_dropListener h l

theorem dropReply_dead (c : Conn) (r : Reply) : (dropReply c r).dead = c.dead := by
  unfold dropReply
  repeat' split
  all_goals rfl

theorem clientSend_dead (c : Conn) (label : Label) (m : Msg) : (clientSend c label m).1.dead = c.dead := by
  unfold clientSend
  split
  · rfl
  · dsimp only
    repeat' split
    all_goals rfl

theorem clientRecv_dead (c : Conn) (label cl : Label) : (clientRecv c label cl).1.dead = c.dead := by
  unfold clientRecv
  split
  · rfl
  · dsimp only
    repeat' split
    all_goals rfl

theorem dropHandle_dead (c : Conn) (label : Label) : (dropHandle c label).dead = c.dead := by
  unfold dropHandle
  split
  · rfl
  · rename_i lid _
    dsimp only
    have h1 : ((getLink c lid).replies.foldl dropReply c).dead = c.dead :=
      foldl_invariant (fun a : Conn => a.dead = c.dead) _
        (fun a x ha => (dropReply_dead a x).trans ha) _ _ rfl
    split <;> exact h1

theorem clientStep_dead (c : Conn) (o : ClientOp) : (clientStep c o).1.dead = c.dead := by
  cases o with
  | allocReq req =>
    show (allocRequest c req).1.dead = c.dead
    unfold allocRequest; repeat' split
    all_goals rfl
  | allocRep label =>
    show (allocReply c label).1.dead = c.dead
    unfold allocReply; repeat' split
    all_goals rfl
  | send label m =>
    unfold clientStep
    dsimp only
    split
    · exact clientSend_dead (newListener c _) label m
    · exact clientSend_dead c label m
  | setBlocked l =>
    show (setBlockedRequest (newListener c l) l).1.dead = c.dead
    unfold setBlockedRequest; repeat' split
    all_goals rfl
  | recv label cl => exact clientRecv_dead c label cl
  | crecv cl =>
    show (consRecv c cl).1.dead = c.dead
    unfold consRecv; repeat' split
    all_goals rfl
  | lrecv l =>
    show (lstRecv c l).1.dead = c.dead
    unfold lstRecv; repeat' split
    all_goals rfl
  | dropHandle label => exact dropHandle_dead c label
  | dropCons cl =>
    show (dropCons c cl).dead = c.dead
    unfold dropCons; repeat' split
    all_goals rfl
  | dropLst l =>
    show (dropListener c l).dead = c.dead
    unfold dropListener; repeat' split
    all_goals rfl

/-! ### `step`, `run` -/

theorem di_step {bd : Nat} {c : Conn} (h : DI c) (hc : InvC c) (hl : InvL bd false c) (o : Op) :
    DI (step c o) := by
  cases o with
  | io o => exact di_ioStep h hc hl o
  | client o => exact (invD_clientStep h o).di
  | decl d => exact InvD.di (d := c.dead) (c := { c with table := c.table ++ [d] }) (by d_same h)
  | feed evs => exact InvD.di (d := c.dead) (c := { c with reads := c.reads ++ evs }) (by d_same h)
  | wscript ws => exact InvD.di (d := c.dead) (c := { c with writes := c.writes ++ ws }) (by d_same h)

theorem di_run {bd : Nat} {c : Conn} (h : DI c) (hc : InvC c) (hl : InvL bd false c) (ops : List Op) :
    DI (run c ops) := by
  induction ops generalizing c with
  | nil => exact h
  | cons o rest ih =>
    exact ih (di_step h hc hl o) (invC_step hc o) (invL_step hl o (fun ht => by cases ht))

theorem di_init (cm b : Nat) : DI (init cm b) := by
  have e0 : ∀ lid, lid ≠ 0 → getLink (init cm b) lid = { chan := 0, ioAlive := false, clientAlive := false } := by
    intro lid hl
    unfold getLink init
    simp only [lookupN_cons, lookupN_nil]
    rw [if_neg (fun e => hl e.symm)]; rfl
  refine ⟨rfl, by simp [init], fun lid hlid => ?_, fun lid hlid => ?_, fun hd => by cases hd⟩
  · by_cases e : lid = 0
    · exact Or.inl e
    · rw [e0 lid e] at hlid; cases hlid
  · by_cases e : lid = 0
    · subst e; cases hlid
    · rw [e0 lid e]

/-- Every reachable state satisfies the invariant. -/
theorem di_reachable (cm b : Nat) (ops : List Op) : DI (run (init cm b) ops) :=
  di_run (di_init cm b) (invC_init cm b) (invL_init cm b) ops

/-! ## 5. What a dead state looks like -/

theorem dead_ok {c : Conn} (h : DI c) (hd : c.dead = true) : DeadOK c := by
  unfold DI at h; rw [hd] at h; exact h.dz rfl

/-- Every I/O end of a link is gone. -/
theorem dead_links {c : Conn} (h : DI c) (hd : c.dead = true) (lid : Nat) :
    (getLink c lid).ioAlive = false := by
  obtain ⟨hs, h0, _⟩ := dead_ok h hd
  cases hx : (getLink c lid).ioAlive with
  | false => rfl
  | true =>
    rcases h.own lid hx with e | e | e
    · subst e; rw [h0] at hx; cases hx
    · cases e
    · rw [hs] at e; cases e

/-- Every FIFO towards the I/O thread is empty. -/
theorem dead_fifos {c : Conn} (h : DI c) (hd : c.dead = true) : ∀ p ∈ c.links, p.2.fifo = [] := by
  intro p hp
  have e := getLink_of_mem h.nodup hp
  rw [← e]
  exact h.ff p.1 (dead_links h hd p.1)

/-- Every consumer queue has lost its sender. -/
theorem dead_cqs {c : Conn} (hc : InvC c) (hs : c.slots = []) (qid : Nat) (q : CQ)
    (hq : lookupN qid c.cqs = some q) : q.txAlive = false := by
  cases hx : q.txAlive with
  | false => rfl
  | true =>
    have := hc.qi.alive_reg qid q hq hx
    rw [hs] at this; cases this

/-- Every listener queue has lost all its senders. -/
theorem dead_lst {c : Conn} (h : DI c) (hd : c.dead = true) (l : Label) : lstTxAlive c l = false := by
  obtain ⟨hs, _, _, hbf, hbl⟩ := dead_ok h hd
  apply lstTxAlive_false
  · rw [hbl]; intro e; cases e
  · rw [hbf]; intro e; cases e
  · rw [hs]; intro p hp; cases hp
  · intro p hp m hm
    rw [dead_fifos h hd p hp] at hm; cases hm

/-! ## 6. The I/O thread never blocks -/

/-! ### The reply queue of the connection's own handle under `process` -/

/-- `X` has the same channel-0 reply queue as `c`. -/
def R0 (c X : Conn) : Prop := (getLink X 0).replies = (getLink c 0).replies

theorem R0.refl (c : Conn) : R0 c c := rfl

theorem R0.of_links {c X X' : Conn} (h : R0 c X) (e : X'.links = X.links) : R0 c X' := by
  unfold R0 at *; rw [getLink_congr e]; exact h

theorem R0.of_eq_fst {β : Type} {c : Conn} {r : Conn × β} {c' : Conn} {x : β}
    (h : R0 c r.1) (e : r = (c', x)) : R0 c c' := by subst e; exact h

theorem sendCons_links' (c : Conn) (qid : Nat) (m : CMsg) : (sendCons c qid m).1.links = c.links := by
  unfold sendCons
  repeat' split
  all_goals rfl

theorem dropConsTx_links' (c : Conn) (qid : Nat) : (dropConsTx c qid).links = c.links := by
  unfold dropConsTx
  split <;> rfl

theorem sendLst_links' (c : Conn) (l : Label) (m : LMsg) : (sendLst c l m).1.links = c.links := by
  unfold sendLst
  repeat' split
  all_goals rfl

theorem dropReply_links' (c : Conn) (r : Reply) : (dropReply c r).links = c.links := by
  unfold dropReply
  repeat' split
  all_goals rfl

theorem clientException_links' (c : Conn) (code : Nat) (text : Bytes) :
    (clientException c code text).links = c.links := by
  unfold clientException
  simp [sealOut]

theorem notifyConsumers_links' (m : CMsg) (c : Conn) (l : List (Bytes × Nat)) :
    (notifyConsumers m c l).1.links = c.links := by
  induction l generalizing c with
  | nil => rfl
  | cons x r ih =>
    obtain ⟨t, qid⟩ := x
    unfold notifyConsumers
    have h1 := sendCons_links' c qid m
    split
    · rename_i heq; rw [heq] at h1; exact h1
    · rename_i heq; rw [heq] at h1
      rw [ih, dropConsTx_links', h1]

theorem trySendBlocked_links' (c : Conn) (m : LMsg) : (trySendBlocked c m).links = c.links := by
  unfold trySendBlocked
  split
  · rfl
  · have h1 := sendLst_links' c ‹_› m
    split
    · rename_i heq; rw [heq] at h1; exact h1
    · rename_i heq; rw [heq] at h1; exact h1

theorem r0_dropSlotEnds {c X : Conn} (h : R0 c X) (s : Slot) : R0 c (dropSlotEnds X s) := by
  unfold R0 at *
  rw [getLink_dropSlotEnds']
  split <;> exact h

theorem r0_pushOut {c X : Conn} (h : R0 c X) (b : Bytes) : R0 c (pushOut X b) :=
  h.of_links (pushOut_links X b)

theorem r0_dropConsTx {c X : Conn} (h : R0 c X) (q : Nat) : R0 c (dropConsTx X q) :=
  h.of_links (dropConsTx_links' X q)

theorem r0_dropReply {c X : Conn} (h : R0 c X) (r : Reply) : R0 c (dropReply X r) :=
  h.of_links (dropReply_links' X r)

theorem r0_removeSlot {c X : Conn} (h : R0 c X) (n : Nat) : R0 c (removeSlot X n) :=
  h.of_links rfl

theorem r0_setSlot {c X : Conn} (h : R0 c X) (n : Nat) (s : Slot) : R0 c (setSlot X n s) :=
  h.of_links rfl

theorem r0_clientException {c X : Conn} (h : R0 c X) (code : Nat) (text : Bytes) :
    R0 c (clientException X code text) :=
  h.of_links (clientException_links' X code text)

theorem r0_with_nondet {c X : Conn} (h : R0 c X) (b : Bool) :
    R0 c { X with nondet := X.nondet || b } :=
  h.of_links rfl

theorem r0_dropCh0 {c X : Conn} (h : R0 c X) : R0 c (process.dropCh0 X) := by
  unfold process.dropCh0
  dsimp only
  refine R0.of_links (X := setLink X 0 { (getLink X 0) with ioAlive := false, fifo := [] }) ?_ rfl
  unfold R0 at *
  rw [getLink_setLink_self]; exact h

theorem r0_sendCons {c X : Conn} (h : R0 c X) (q : Nat) (m : CMsg) : R0 c (sendCons X q m).1 :=
  h.of_links (sendCons_links' X q m)

theorem r0_sendLst {c X : Conn} (h : R0 c X) (l : Label) (m : LMsg) : R0 c (sendLst X l m).1 :=
  h.of_links (sendLst_links' X l m)

theorem r0_notifyConsumers {c X : Conn} (h : R0 c X) (m : CMsg) (l : List (Bytes × Nat)) :
    R0 c (notifyConsumers m X l).1 :=
  h.of_links (notifyConsumers_links' m X l)

theorem r0_sendReply {c X : Conn} {a : Nat} (ha : a ≠ 0) (h : R0 c X) (r : Reply) :
    R0 c (sendReply X a r).1 := by
  unfold sendReply
  dsimp only
  repeat' split
  all_goals first
    | exact h
    | (unfold R0 at *; rw [getLink_setLink_ne _ ha]; exact h)

theorem r0_trySendConfirm {c X : Conn} (h : R0 c X) (n : Nat) (slot : Slot) (m : LMsg) :
    R0 c (trySendConfirm X n slot m) := by
  unfold trySendConfirm
  split
  · exact h
  · split
    · rename_i heq; exact (r0_sendLst h _ _).of_eq_fst heq
    · rename_i heq; exact r0_setSlot ((r0_sendLst h _ _).of_eq_fst heq) _ _

theorem r0_dispatchContent {c X : Conn} (h : R0 c X) (n : Nat) (slot : Slot)
    (hs : slot.lid ≠ 0) (ct : Content) : R0 c (dispatchContent X n slot ct).1 := by
  unfold dispatchContent
  split
  · split
    · exact h
    · exact r0_sendCons h _ _
  · split
    · exact h
    · split
      · rename_i heq; exact (r0_sendLst h _ _).of_eq_fst heq
      · rename_i heq; exact r0_setSlot ((r0_sendLst h _ _).of_eq_fst heq) _ _
  · exact r0_sendReply hs h _

theorem r0_afterCollect {c X : Conn} {slot : Slot} (hs : slot.lid ≠ 0) (h : R0 c X) (n : Nat)
    (r : Res) : R0 c (afterCollect X n slot r).1 := by
  unfold afterCollect
  dsimp only
  split
  · exact r0_setSlot h _ _
  · exact r0_setSlot h _ _
  · refine r0_dispatchContent (r0_setSlot h _ _) _ _ ?_ _
    exact hs

/-- One backward step of a channel-0-reply-queue frame proof. `hne`/`hother` give `slot.lid ≠ 0`
    for the slot looked up with `slotGet` / `lookupN`. -/
macro "r0_step " hne:term ", " hother:term : tactic => `(tactic| first
  | assumption
  | with_reducible exact R0.refl _
  | with_reducible apply r0_dropSlotEnds
  | with_reducible apply r0_pushOut
  | with_reducible apply r0_dropConsTx
  | with_reducible apply r0_dropReply
  | with_reducible apply r0_removeSlot
  | with_reducible apply r0_setSlot
  | with_reducible apply r0_clientException
  | with_reducible apply r0_sendCons
  | with_reducible apply r0_sendLst
  | with_reducible apply r0_notifyConsumers
  | with_reducible apply r0_trySendConfirm
  | with_reducible apply r0_with_nondet
  | (with_reducible refine r0_sendReply ?_ ?_ _; first | exact $hne _ (by assumption) | exact $hother _ (by assumption))
  | (with_reducible refine r0_afterCollect ?_ ?_ _ _; first | exact $hne _ (by assumption) | exact $hother _ (by assumption))
  | (apply R0.of_eq_fst; rotate_left; assumption; try dsimp only))

macro "r0_auto " hne:term ", " hother:term : tactic =>
  `(tactic| ((try dsimp only); repeat' (first | r0_step $hne, $hother | (split <;> try dsimp only))))

theorem r0_processChannelMethod {c : Conn} {n : Nat}
    (hother : ∀ slot, lookupN n c.slots = some slot → slot.lid ≠ 0)
    (cls mid : Nat) (fields : List Field) (dbg : Bytes) :
    R0 c (processChannelMethod c n cls mid fields dbg).1 := by
  have hne : ∀ s, slotGet c n = .ok s → s.lid ≠ 0 := fun s h => hother s (slotGet_ok h)
  unfold processChannelMethod
  dsimp only
  split
  all_goals (repeat' split)
  all_goals try r0_auto hne, hother
  all_goals exact (R0.refl c).of_links rfl

theorem process_ch0_method_rep0 {c : Conn} (hs : c.st = .steady) (cls mid : Nat) (fs : List Field)
    (dc df : Bytes) : (process c (.method 0 cls mid fs) dc df).1.st = .steady →
    R0 c (process c (.method 0 cls mid fs) dc df).1 := by
  unfold process
  split
  all_goals first | (rename_i h; rw [hs] at h; cases h; done) | skip
  split
  all_goals first | (rename_i h; cases h; done) | skip
  · dsimp only
    intro hst
    rw [(drainSlots_spec _ _ _).1] at hst
    cases hst
  · dsimp only
    split
    · exact fun _ => R0.refl c
    · split
      · exact fun _ => R0.refl c
      · intro hst
        rw [(drainSlots_spec _ _ _).1] at hst
        cases hst
  · exact fun _ => (R0.refl c).of_links (trySendBlocked_links' c _)
  · exact fun _ => (R0.refl c).of_links (trySendBlocked_links' c _)
  · intro hst; cases hst
  · rename_i h0 heq
    injection heq with e
    exact absurd e.symm h0

/-- While the connection stays `Steady`, `process` leaves the reply queue of the connection's own
    handle alone (slots never use link 0). -/
theorem process_rep0 {c : Conn} (h : Inv c) (f : Frame) (dc df : Bytes)
    (hst : (process c f dc df).1.st = .steady) : R0 c (process c f dc df).1 := by
  by_cases hs : c.st = .steady
  · have hother : ∀ n slot, lookupN n c.slots = some slot → slot.lid ≠ 0 :=
      fun n slot hl => h.slot_lid_ne_zero hl
    cases f with
    | heartbeat n => rw [process_heartbeat hs]; exact R0.refl c
    | method n cls mid fields =>
      by_cases hn : n = 0
      · subst hn; exact process_ch0_method_rep0 hs cls mid fields dc df hst
      · rw [process_method_ne0 hs hn]
        have h1 := r0_processChannelMethod (hother n) cls mid fields dc
        dsimp only
        split
        · exact r0_dropCh0 h1
        · exact h1
    | header n cid size props =>
      by_cases hn : n = 0
      · subst hn; rw [process_header0 hs] at hst; cases hst
      · rw [process_header_ne0 hs hn]
        split
        · exact R0.refl c
        · rename_i slot heq
          exact r0_afterCollect (hother n slot (slotGet_ok heq)) (R0.refl c) _ _
    | body n payload =>
      by_cases hn : n = 0
      · subst hn; rw [process_body0 hs] at hst; cases hst
      · rw [process_body_ne0 hs hn]
        split
        · exact R0.refl c
        · rename_i slot heq
          exact r0_afterCollect (hother n slot (slotGet_ok heq)) (R0.refl c) _ _
  · rw [process_fst_nonsteady hs]; exact R0.refl c


/-! ### Never `.hang` -/

/-- The room the CloseOk arm needs on the reply queue of the connection's own handle. -/
def Room (c : Conn) : Prop := c.st = .steady → (getLink c 0).replies.length ≤ 1

theorem nh_process_closeOk {c : Conn} (hr : Room c) (fs : List Field) (dc df : Bytes) :
    (process c (.method 0 10 51 fs) dc df).2 ≠ some .hang := by
  by_cases hs : c.st = .steady
  · unfold process
    split
    all_goals first | (rename_i h; rw [hs] at h; cases h; done) | skip
    split
    all_goals first | (rename_i h; cases h; done) | skip
    · dsimp only
      split
      · simp
      · split
        · rename_i hge
          have := hr hs
          omega
        · exact nh_drainSlots _ _ _
    · rename_i _ h51 _ _ heq
      cases heq
      exact (h51 rfl rfl).elim
    · rename_i h0 heq
      injection heq with e
      exact absurd e.symm h0
  · rcases process_snd_nonsteady hs (.method 0 10 51 fs) dc df with e | e <;> rw [e] <;> simp

theorem nh_process_room (c : Conn) (f : Frame) (dc df : Bytes) (hr : Room c) :
    (process c f dc df).2 ≠ some .hang := by
  cases f with
  | method ch cls mid fs =>
    by_cases hck : ch = 0 ∧ cls = 10 ∧ mid = 51
    · obtain ⟨e1, e2, e3⟩ := hck
      subst e1; subst e2; subst e3
      exact nh_process_closeOk hr fs dc df
    · exact nh_process c _ dc df hck
  | heartbeat ch => exact nh_process c _ dc df trivial
  | header ch a b p => exact nh_process c _ dc df trivial
  | body ch p => exact nh_process c _ dc df trivial

theorem room_process {c : Conn} (h : Inv c) (hr : Room c) (f : Frame) (dc df : Bytes) :
    Room (process c f dc df).1 := by
  intro hst
  by_cases hs : c.st = .steady
  · rw [process_rep0 h f dc df hst]; exact hr hs
  · rw [process_fst_nonsteady hs] at hst; exact absurd hst hs

theorem room_processBytes {c : Conn} (h : Inv c) (hr : Room c) (bytes : Bytes) :
    Room (processBytes c bytes).1 := by
  unfold processBytes
  split
  · split
    · exact room_process h hr _ _ _
    · exact hr
  · exact hr

theorem nh_processBytes {c : Conn} (hr : Room c) (bytes : Bytes) :
    (processBytes c bytes).2 ≠ some .hang := by
  unfold processBytes
  split
  · split
    · exact nh_process_room c _ _ _ hr
    · simp
  · simp

theorem nh_readFromStream_go {c : Conn} (h : Inv c) (hr : Room c) (l : List Bytes) :
    (readFromStream.go c l).2 ≠ some .hang := by
  induction l generalizing c with
  | nil => simp [readFromStream.go]
  | cons fr rest ih =>
    unfold readFromStream.go
    split
    · rename_i heq; exact nh_of_eq (nh_processBytes hr fr) heq
    · rename_i heq
      have h1 := (inv_processBytes h fr).of_eq_fst heq
      have r1 := room_processBytes h hr fr
      rw [heq] at r1
      exact ih h1 r1

theorem nh_readFromStream {c : Conn} (h : Inv c) (hr : Room c) :
    (readFromStream c).2 ≠ some .hang := by
  unfold readFromStream
  dsimp only
  split
  · rename_i heq
    refine nh_of_eq ?_ heq
    apply nh_readFromStream_go
    · inv_same h
    · exact hr
  · split <;> simp

theorem writeLoop_links (fuel : Nat) (c : Conn) (pos : Nat) (w : Bytes) :
    (writeLoop fuel c pos w).1.links = c.links := by
  induction fuel generalizing c pos w with
  | zero => rfl
  | succ fuel ih =>
    unfold writeLoop
    split
    · split
      · rfl
      · rfl
      · rfl
      · rw [ih]
    · rfl

theorem room_writeToStream {c : Conn} (hr : Room c) : Room (writeToStream c).1 := by
  intro hst
  rw [(writeToStream_spec c).1] at hst
  have e : (writeToStream c).1.links = c.links := writeLoop_links _ _ _ _
  rw [getLink_congr e]; exact hr hst

theorem nh_handleEvent {c : Conn} (h : Inv c) (halloc : c.allocReq.length + c.allocRep.length ≤ 1)
    (hr : Room c) (t : Token) : (handleEvent c t).2.2 ≠ some .hang := by
  cases t with
  | chan n => exact handleEvent_chan_no_hang c n
  | setBlocked => exact handleEvent_setBlocked_no_hang c
  | heartbeat => rw [handleEvent_heartbeat]; simp
  | alloc =>
    unfold handleEvent
    split
    all_goals first | (rename_i he; cases he; done) | skip
    split
    · exact allocateLoop_no_hang _ _ (by omega) halloc
    · split <;> simp
  | stream r w =>
    unfold handleEvent
    split
    all_goals first | (rename_i he; cases he; done) | skip
    rename_i r' w' he
    cases he
    cases w <;> cases r <;> simp only [Bool.false_eq_true, ↓reduceIte]
    all_goals (repeat' split)
    all_goals first
      | (simp; done)
      | exact nh_readFromStream h hr
      | exact nh_readFromStream (inv_writeToStream h) (room_writeToStream hr)
      | (rename_i heq; rw [← heq]; exact writeToStream_no_hang _)

/-- No I/O step reports `hang`: reachable state, at most one allocation outstanding, room for one
    more reply on the connection's own handle. -/
theorem nh_ioStep {c : Conn} (h : Inv c) (halloc : c.allocReq.length + c.allocRep.length ≤ 1)
    (hrep : (getLink c 0).replies.length ≤ 1) (o : IoOp) : (ioStep c o).2.err ≠ some .hang := by
  have hr : Room c := fun _ => hrep
  cases hd : c.dead with
  | true => rw [(ioStep_dead hd o).2.1]; simp
  | false =>
    cases o with
    | frame bytes => rw [ioStep_frame hd, ioFin_err]; exact nh_processBytes hr bytes
    | event t => rw [ioStep_event hd, ioFin_err]; exact nh_handleEvent h halloc hr t
    | write => rw [ioStep_write hd, ioFin_err]; exact writeToStream_no_hang c
    | done => rw [ioStep_done hd]; split <;> simp
    | dereg => rw [ioStep_dereg hd]; simp
    | rereg => rw [ioStep_rereg hd]; simp
    | poll => rw [ioStep_poll hd]; simp
    | kill => rw [ioStep_kill hd]; simp

end AmqModel.Conn.C05
