import AmqModel.Model.ConnRun
import AmqModel.Model.Api
import AmqModel.Lemmas.Conn
import AmqModel.Lemmas.ConnC07
import AmqModel.Lemmas.ConnC11
import AmqModel.Lemmas.ConnC13
import AmqModel.Lemmas.ConnC18
/-!
# Helper lemmas for C05 (`AmqModel/Props/C05.lean`): a dead connection releases everybody

1. the transport faults (`writeToStream`, `readFromStream`) and `processBytes` on a bad frame;
2. association-list helpers;
3. the reachable-state invariant `InvD d X c` about the I/O ends of the links:
   * link keys are distinct;
   * a link whose I/O end is alive is link 0, the link of a current slot, or one of the links `X`
     whose slot has just left the table (`X = []` between operations);
   * a link whose I/O end is gone has an empty FIFO;
   * `c.dead = d`, and a dead state owns nothing: no slot, no channel-0 I/O end, no pending
     allocation / blocked-listener request, no blocked listener (`DeadOK`);
4. its preservation by every primitive, by `process`, by every event handler, by `kill`, by the
   client operations; `invD_reachable`;
5. what a dead state looks like (`dead_links`, `dead_cqs`, `dead_lst`);
6. the channel-0 reply queue under `process` (`R0`), and "never `.hang`" for every I/O step.

Everything lives in the namespace `AmqModel.Conn.C05` (no clash with the other lemma files).
-/
namespace AmqModel.Conn.C05
open AmqModel.Collector AmqModel.Conn

/-! ## 1. Transport faults -/

theorem writeToStream_err {c : Conn} {rest : List WriteStep} (hne : c.out ≠ [])
    (hw : c.writes = .err :: rest) : (writeToStream c).2.2 = some .ioErrorWritingSocket := by
  have hpos : 0 < c.out.length := List.length_pos_iff.mpr hne
  unfold writeToStream
  rw [show c.out.length + c.writes.length + 2 = (c.out.length + c.writes.length + 1) + 1 from rfl]
  unfold writeLoop
  rw [if_pos hpos, hw]

theorem readLoop_fault {parse : Bytes → Bool} {failAt : Option Nat} (fuel : Nat) {buf : Bytes}
    (rest : List FrameBuffer.ReadEv) (seen nread : Nat) (acc : List Bytes)
    (hfb : FrameBuffer.frameSize? buf = none) :
    FrameBuffer.readLoop parse failAt (fuel + 1) buf (.eof :: rest) seen nread acc =
      ⟨buf, rest, acc.reverse, .unexpectedSocketClose⟩ ∧
    FrameBuffer.readLoop parse failAt (fuel + 1) buf (.ioErr :: rest) seen nread acc =
      ⟨buf, rest, acc.reverse, .ioErrorReadingSocket⟩ ∧
    FrameBuffer.readLoop parse failAt (fuel + 1) buf (.chunk [] :: rest) seen nread acc =
      ⟨buf, rest, acc.reverse, .unexpectedSocketClose⟩ := by
  refine ⟨?_, ?_, ?_⟩ <;>
  · rw [FrameBuffer.readLoop]
    simp only [hfb, Bool.false_eq_true, if_false]
    try rfl

/-- With fewer than 7 bytes buffered, a transport fault on the first `read()` is what
    `read_from_stream` reports (no frame is handed on before). -/
theorem readFromStream_fault {c : Conn} (hfb : FrameBuffer.frameSize? c.fb = none)
    {ev : FrameBuffer.ReadEv} {rest : List FrameBuffer.ReadEv} (hr : c.reads = ev :: rest)
    {res : FrameBuffer.RdRes} {e : Err}
    (hev : ev = .eof ∧ res = .unexpectedSocketClose ∨ ev = .ioErr ∧ res = .ioErrorReadingSocket ∨
      ev = .chunk [] ∧ res = .unexpectedSocketClose)
    (he : (match res with
      | .ok _ => none
      | .unexpectedSocketClose => some Err.unexpectedSocketClose
      | .ioErrorReadingSocket => some .ioErrorReadingSocket
      | .malformedFrame => some .malformedFrame
      | .handlerErr => some .modelBadInput) = some e) :
    (readFromStream c).2 = some e := by
  have key : ∀ parse, FrameBuffer.readFrom parse none c.fb c.reads 0 = ⟨c.fb, rest, [], res⟩ := by
    intro parse
    unfold FrameBuffer.readFrom FrameBuffer.readFuel
    rw [show 2 * (c.fb.length + FrameBuffer.scriptBytes c.reads) + 2 =
      (2 * (c.fb.length + FrameBuffer.scriptBytes c.reads) + 1) + 1 from rfl,
      hr]
    obtain ⟨k1, k2, k3⟩ := readLoop_fault (parse := parse) (failAt := none)
      (2 * (c.fb.length + FrameBuffer.scriptBytes (ev :: rest)) + 1) rest 0 0 [] hfb
    rcases hev with ⟨h1, h2⟩ | ⟨h1, h2⟩ | ⟨h1, h2⟩ <;> subst h1 <;> subst h2
    · exact k1
    · exact k2
    · exact k3
  unfold readFromStream
  simp only [key, readFromStream.go]
  rcases hev with ⟨_, h2⟩ | ⟨_, h2⟩ | ⟨_, h2⟩ <;> subst h2 <;> exact he

theorem processBytes_malformed {c : Conn} {bytes : Bytes} {d : Decl} (hd : declOf c bytes = some d)
    (hf : d.frame = none) : (processBytes c bytes).2 = some .malformedFrame := by
  unfold processBytes
  rw [hd]
  dsimp only
  rw [hf]

/-! ## 2. Lists -/

theorem keys_setN_nodup {α : Type} (k : Nat) (v : α) {m : List (Nat × α)}
    (h : (m.map (·.1)).Nodup) : ((setN k v m).map (·.1)).Nodup := by
  induction m with
  | nil => simp [setN]
  | cons p r ih =>
    obtain ⟨k', v'⟩ := p
    simp only [List.map_cons, List.nodup_cons] at h
    unfold setN
    split
    · rename_i e
      simp only [List.map_cons, List.nodup_cons]
      exact ⟨e ▸ h.1, h.2⟩
    · rename_i e
      simp only [List.map_cons, List.nodup_cons]
      refine ⟨fun hm => ?_, ih h.2⟩
      obtain ⟨p, hp, ep⟩ := List.mem_map.mp hm
      rcases mem_setN hp with e' | hp
      · subst e'; exact e ep.symm
      · exact h.1 (List.mem_map.mpr ⟨p, hp, ep⟩)

theorem mem_eraseN_of_ne {α : Type} {k : Nat} {p : Nat × α} {m : List (Nat × α)} (hp : p ∈ m)
    (hk : p.1 ≠ k) : p ∈ eraseN k m := by
  induction m with
  | nil => cases hp
  | cons q r ih =>
    obtain ⟨k', v'⟩ := q
    unfold eraseN
    rcases List.mem_cons.mp hp with e | hp
    · subst e
      rw [if_neg hk]; exact List.mem_cons_self
    · split
      · exact ih hp
      · exact List.mem_cons_of_mem _ (ih hp)

/-- With distinct keys every entry of `links` is the one `getLink` finds. -/
theorem getLink_of_mem {c : Conn} (hn : (c.links.map (·.1)).Nodup) {p : Nat × Link}
    (hp : p ∈ c.links) : getLink c p.1 = p.2 :=
  getLink_of_lookup (lookupN_of_mem_nodup hn (show (p.1, p.2) ∈ c.links from hp))

theorem foldl_dropConsTx_links' (l : List (Bytes × Nat)) (c : Conn) :
    (l.foldl (fun acc (x : Bytes × Nat) => dropConsTx acc x.2) c).links = c.links := by
  induction l generalizing c with
  | nil => rfl
  | cons x r ih =>
    rw [List.foldl_cons, ih]
    unfold dropConsTx; split <;> rfl

/-! ## 3. The invariant -/

/-- What a dead I/O thread has let go of. -/
def DeadOK (c : Conn) : Prop :=
  c.slots = [] ∧ (getLink c 0).ioAlive = false ∧ c.allocReq = [] ∧ c.blockedFifo = [] ∧
    c.blockedL = none

/-- Invariant about the I/O ends of the links (`X` = links whose slot has just left the table and
    whose ends are about to be dropped; `X = []` between operations). -/
structure InvD (d : Bool) (X : List Nat) (c : Conn) : Prop where
  dead : c.dead = d
  nodup : (c.links.map (·.1)).Nodup
  own : ∀ lid, (getLink c lid).ioAlive = true → lid = 0 ∨ lid ∈ X ∨ lid ∈ c.slots.map (·.2.lid)
  ff : ∀ lid, (getLink c lid).ioAlive = false → (getLink c lid).fifo = []
  dz : d = true → DeadOK c

/-- Transport to a state that agrees on everything the invariant reads. -/
theorem InvD.same {d : Bool} {X : List Nat} {c c' : Conn} (h : InvD d X c)
    (hdead : c'.dead = c.dead) (hlinks : c'.links = c.links) (hslots : c'.slots = c.slots)
    (hreq : c'.allocReq = c.allocReq) (hbf : c'.blockedFifo = c.blockedFifo)
    (hbl : c'.blockedL = c.blockedL) : InvD d X c' where
  dead := hdead.trans h.dead
  nodup := hlinks ▸ h.nodup
  own := fun lid hl => by
    rw [getLink_congr hlinks] at hl; rw [hslots]; exact h.own lid hl
  ff := fun lid hl => by
    rw [getLink_congr hlinks] at hl ⊢; exact h.ff lid hl
  dz := fun hd => by
    obtain ⟨a, b, e, f, g⟩ := h.dz hd
    exact ⟨hslots ▸ a, by rw [getLink_congr hlinks]; exact b, hreq ▸ e, hbf ▸ f, hbl ▸ g⟩

/-- … for a live I/O thread only links and slots matter. -/
theorem InvD.same0 {X : List Nat} {c c' : Conn} (h : InvD false X c)
    (hdead : c'.dead = c.dead) (hlinks : c'.links = c.links) (hslots : c'.slots = c.slots) :
    InvD false X c' where
  dead := hdead.trans h.dead
  nodup := hlinks ▸ h.nodup
  own := fun lid hl => by
    rw [getLink_congr hlinks] at hl; rw [hslots]; exact h.own lid hl
  ff := fun lid hl => by
    rw [getLink_congr hlinks] at hl ⊢; exact h.ff lid hl
  dz := fun hd => by cases hd

/-- `d_same h` closes `InvD d X c'` when `c'` is `c` with only fields changed that the invariant
    does not read. -/
macro "d_same " h:term : tactic =>
  `(tactic| first
    | exact InvD.same $h rfl rfl rfl rfl rfl rfl
    | exact InvD.same0 $h rfl rfl rfl)

theorem InvD.of_eq_fst {d : Bool} {X : List Nat} {β : Type} {r : Conn × β} {c' : Conn} {x : β}
    (h : InvD d X r.1) (e : r = (c', x)) : InvD d X c' := by subst e; exact h

theorem InvD.mono {d : Bool} {X Y : List Nat} {c : Conn} (h : InvD d X c) (hXY : ∀ x ∈ X, x ∈ Y) :
    InvD d Y c where
  dead := h.dead
  nodup := h.nodup
  own := fun lid hl => by
    rcases h.own lid hl with e | e | e
    · exact Or.inl e
    · exact Or.inr (Or.inl (hXY _ e))
    · exact Or.inr (Or.inr e)
  ff := h.ff
  dz := h.dz

/-! ### Primitives -/

/-- Replacing a link: no I/O end comes back, a dropped I/O end leaves an empty FIFO; a link of
    `Y` whose I/O end is dropped here leaves the set. -/
theorem invD_setLink' {d : Bool} {X Y : List Nat} {c : Conn} (h : InvD d Y c) (lid : Nat) (l : Link)
    (hio : l.ioAlive = true → (getLink c lid).ioAlive = true)
    (hff : l.ioAlive = false → l.fifo = [])
    (hY : ∀ y ∈ Y, y ∈ X ∨ (y = lid ∧ l.ioAlive = false)) : InvD d X (setLink c lid l) where
  dead := h.dead
  nodup := keys_setN_nodup lid l h.nodup
  own := fun j hj => by
    rw [getLink_setLink] at hj
    have hc : (getLink c j).ioAlive = true := by
      split at hj
      · rename_i e; subst e; exact hio hj
      · exact hj
    rcases h.own j hc with e | e | e
    · exact Or.inl e
    · rcases hY j e with e' | ⟨e1, e2⟩
      · exact Or.inr (Or.inl e')
      · subst e1; rw [if_pos rfl, e2] at hj; cases hj
    · exact Or.inr (Or.inr e)
  ff := fun j hj => by
    rw [getLink_setLink] at hj ⊢
    split
    · rename_i e; rw [if_pos e] at hj; exact hff hj
    · rename_i e; rw [if_neg e] at hj; exact h.ff j hj
  dz := fun hd => by
    obtain ⟨a, b, e, f, g⟩ := h.dz hd
    refine ⟨a, ?_, e, f, g⟩
    rw [getLink_setLink]
    split
    · rename_i e0; subst e0
      cases hl : l.ioAlive with
      | false => rfl
      | true => rw [hio hl] at b; cases b
    · exact b

theorem invD_setLink {d : Bool} {X : List Nat} {c : Conn} (h : InvD d X c) (lid : Nat) (l : Link)
    (hio : l.ioAlive = true → (getLink c lid).ioAlive = true)
    (hff : l.ioAlive = false → l.fifo = []) : InvD d X (setLink c lid l) :=
  invD_setLink' h lid l hio hff (fun _ hy => Or.inl hy)

/-- Only the reply queue / the readiness node / the client end of the link change. -/
theorem invD_setLink_keep {d : Bool} {X : List Nat} {c : Conn} (h : InvD d X c) (lid : Nat) (l : Link)
    (hio : l.ioAlive = (getLink c lid).ioAlive) (hf : l.fifo = (getLink c lid).fifo) :
    InvD d X (setLink c lid l) :=
  invD_setLink h lid l (fun hl => hio ▸ hl) (fun hl => by rw [hf]; exact h.ff lid (hio ▸ hl))

theorem invD_pushOut {d : Bool} {X : List Nat} {c : Conn} (h : InvD d X c) (b : Bytes) :
    InvD d X (pushOut c b) := by
  unfold pushOut
  split
  · exact h
  · d_same h

theorem invD_sealOut {d : Bool} {X : List Nat} {c : Conn} (h : InvD d X c) : InvD d X (sealOut c) := by
  d_same h

theorem invD_sendReply {d : Bool} {X : List Nat} {c : Conn} (h : InvD d X c) (lid : Nat) (r : Reply) :
    InvD d X (sendReply c lid r).1 := by
  unfold sendReply
  dsimp only
  split
  · exact h
  · split
    · exact h
    · exact invD_setLink_keep h _ _ rfl rfl

theorem invD_sendCons {d : Bool} {X : List Nat} {c : Conn} (h : InvD d X c) (qid : Nat) (m : CMsg) :
    InvD d X (sendCons c qid m).1 := by
  unfold sendCons
  split
  · split
    · exact h
    · d_same h
  · exact h

theorem invD_dropConsTx {d : Bool} {X : List Nat} {c : Conn} (h : InvD d X c) (qid : Nat) :
    InvD d X (dropConsTx c qid) := by
  unfold dropConsTx
  split
  · d_same h
  · exact h

theorem invD_sendLst {d : Bool} {X : List Nat} {c : Conn} (h : InvD d X c) (l : Label) (m : LMsg) :
    InvD d X (sendLst c l m).1 := by
  unfold sendLst
  split
  · split
    · d_same h
    · exact h
  · exact h

theorem invD_dropReply {d : Bool} {X : List Nat} {c : Conn} (h : InvD d X c) (r : Reply) :
    InvD d X (dropReply c r) := by
  unfold dropReply
  split
  · split
    · d_same h
    · exact h
  · exact h

theorem invD_foldl_dropConsTx {d : Bool} {X : List Nat} {c : Conn} (h : InvD d X c)
    (l : List (Bytes × Nat)) :
    InvD d X (l.foldl (fun acc (x : Bytes × Nat) => dropConsTx acc x.2) c) := by
  induction l generalizing c with
  | nil => exact h
  | cons x r ih => exact ih (invD_dropConsTx h x.2)

/-- Dropping the ends of a slot that has left the table. -/
theorem invD_dropSlotEnds' {d : Bool} {X Y : List Nat} {c : Conn} (h : InvD d Y c) (s : Slot)
    (hY : ∀ y ∈ Y, y ∈ X ∨ y = s.lid) : InvD d X (dropSlotEnds c s) := by
  unfold dropSlotEnds
  exact invD_foldl_dropConsTx (invD_setLink' h _ _ (fun hl => by cases hl) (fun _ => rfl)
    (fun y hy => (hY y hy).imp id (fun e => ⟨e, rfl⟩))) _

theorem invD_dropSlotEnds {d : Bool} {X : List Nat} {c : Conn} (h : InvD d (s.lid :: X) c) :
    InvD d X (dropSlotEnds c s) :=
  invD_dropSlotEnds' h s (fun y hy => by
    rcases List.mem_cons.mp hy with e | e
    · exact Or.inr e
    · exact Or.inl e)

theorem invD_dropSlotEnds_same {d : Bool} {X : List Nat} {c : Conn} (h : InvD d X c) (s : Slot) :
    InvD d X (dropSlotEnds c s) :=
  invD_dropSlotEnds' h s (fun _ hy => Or.inl hy)

theorem invD_notifyConsumers {d : Bool} {X : List Nat} {c : Conn} (h : InvD d X c) (m : CMsg)
    (l : List (Bytes × Nat)) : InvD d X (notifyConsumers m c l).1 := by
  induction l generalizing c with
  | nil => exact h
  | cons x r ih =>
    obtain ⟨t, qid⟩ := x
    unfold notifyConsumers
    split
    · rename_i heq; exact (invD_sendCons h qid m).of_eq_fst heq
    · rename_i heq; exact ih (invD_dropConsTx ((invD_sendCons h qid m).of_eq_fst heq) qid)

/-- Overwriting an existing slot, keeping its link. -/
theorem invD_setSlot {X : List Nat} {c : Conn} (h : InvD false X c) {n : Nat} {s0 : Slot}
    (hk : lookupN n c.slots = some s0) (s : Slot) (hl : s.lid = s0.lid) :
    InvD false X (setSlot c n s) where
  dead := h.dead
  nodup := h.nodup
  own := fun lid hj => by
    show lid = 0 ∨ lid ∈ X ∨ lid ∈ (setN n s c.slots).map (·.2.lid)
    rw [lids_setN hk hl]; exact h.own lid hj
  ff := h.ff
  dz := fun hd => by cases hd

/-- The slot leaves the table; its link joins the links to be dropped. -/
theorem invD_removeSlot {X : List Nat} {c : Conn} (h : InvD false X c)
    (hkeys : (c.slots.map (·.1)).Nodup) {n : Nat} {s : Slot} (hk : lookupN n c.slots = some s) :
    InvD false (s.lid :: X) (removeSlot c n) where
  dead := h.dead
  nodup := h.nodup
  own := fun lid hj => by
    rcases h.own lid hj with e | e | e
    · exact Or.inl e
    · exact Or.inr (Or.inl (List.mem_cons_of_mem _ e))
    · obtain ⟨p, hp, ep⟩ := List.mem_map.mp e
      by_cases hpn : p.1 = n
      · have : lookupN n c.slots = some p.2 :=
          lookupN_of_mem_nodup hkeys (show (n, p.2) ∈ c.slots from hpn ▸ hp)
        rw [hk] at this
        injection this with this
        subst this
        exact Or.inr (Or.inl (ep ▸ List.mem_cons_self))
      · exact Or.inr (Or.inr (List.mem_map.mpr ⟨p, mem_eraseN_of_ne hp hpn, ep⟩))
  ff := h.ff
  dz := fun hd => by cases hd

theorem invD_clientException {X : List Nat} {c : Conn} (h : InvD false X c) (code : Nat) (text : Bytes) :
    InvD false X (clientException c code text) := by
  have h1 := invD_sealOut (invD_pushOut h (connectionClose code (if c.legacy then text else truncUtf8 255 text)))
  exact h1.same0 rfl rfl rfl

theorem invD_dropLink0 {d : Bool} {X : List Nat} {c : Conn} (h : InvD d X c) :
    InvD d X (setLink c 0 { (getLink c 0) with ioAlive := false, fifo := [] }) :=
  invD_setLink h _ _ (fun hl => by cases hl) (fun _ => rfl)

theorem invD_dropCh0 {X : List Nat} {c : Conn} (h : InvD false X c) : InvD false X (process.dropCh0 c) := by
  unfold process.dropCh0
  exact (invD_dropLink0 h).same0 rfl rfl rfl

theorem invD_with_nondet {d : Bool} {X : List Nat} {c : Conn} (h : InvD d X c) (b : Bool) :
    InvD d X { c with nondet := c.nondet || b } := by
  d_same h

/-! ### `process` -/

/-- The two channel-close arms: the slot leaves the table, then its link is dropped. -/
theorem invD_closeSlot {c : Conn} (h : InvD false [] c) (hkeys : (c.slots.map (·.1)).Nodup)
    {n : Nat} {slot : Slot} (hslot : lookupN n c.slots = some slot) (r : Reply) (m : CMsg)
    (fin : Conn → Conn) (hf : ∀ X x, InvD false X x → InvD false X (fin x)) :
    InvD false [] (closeSlot c n slot r m fin).1 := by
  have h2 := invD_sendReply (invD_removeSlot h hkeys hslot) slot.lid r
  unfold closeSlot
  split
  · rename_i heq; rw [heq] at h2
    exact invD_dropSlotEnds h2
  · rename_i c2 heq; rw [heq] at h2
    have h3 := invD_notifyConsumers h2 m slot.consumers
    split
    · rename_i heq2; rw [heq2] at h3
      exact invD_with_nondet (invD_dropSlotEnds h3) _
    · rename_i heq2; rw [heq2] at h3
      exact invD_dropSlotEnds (hf _ _ h3)

theorem invD_close {c : Conn} (h : InvD false [] c) (hkeys : (c.slots.map (·.1)).Nodup)
    (n code : Nat) (text dbg : Bytes) :
    InvD false [] (processChannelMethod c n 20 40 [.nat code, .bytes text] dbg).1 := by
  rw [pcm_close_eq]
  split
  · rename_i hs
    exact invD_closeSlot h hkeys (slotGet_ok hs) _ _ _ (fun _ _ hx => invD_pushOut hx _)
  · exact h

theorem invD_closeOk {c : Conn} (h : InvD false [] c) (hkeys : (c.slots.map (·.1)).Nodup)
    (n : Nat) (fields : List Field) (dbg : Bytes) :
    InvD false [] (processChannelMethod c n 20 41 fields dbg).1 := by
  rw [pcm_closeOk_eq]
  split
  · exact h
  · rename_i hs
    exact invD_closeSlot h hkeys hs _ _ _ (fun _ _ hx => hx)

theorem invD_foldl_dropSlotEnds {d : Bool} {X : List Nat} {c : Conn} (L : List Slot)
    (h : InvD d (L.map (·.lid) ++ X) c) : InvD d X (L.foldl dropSlotEnds c) := by
  induction L generalizing c with
  | nil => exact h
  | cons s r ih => exact ih (invD_dropSlotEnds (s := s) h)

theorem invD_drainSlots_go {c : Conn} (r : Reply) (m : CMsg) (all l : List (Nat × Slot))
    (h : InvD false (l.map (·.2.lid)) c) : InvD false [] (drainSlots.go r m all c l).1 := by
  induction l generalizing c with
  | nil => exact h
  | cons x rest ih =>
    obtain ⟨k, s⟩ := x
    have e : (s :: rest.map (·.2)).map (·.lid) ++ [] = ((k, s) :: rest).map (·.2.lid) := by
      simp
    unfold drainSlots.go
    dsimp only
    split
    · rename_i heq
      have h1 := (invD_sendReply h s.lid r).of_eq_fst heq
      exact invD_with_nondet (invD_foldl_dropSlotEnds (s :: rest.map (·.2)) (e ▸ h1)) _
    · rename_i heq
      have h1 := (invD_sendReply h s.lid r).of_eq_fst heq
      split
      · rename_i heq2
        have h2 := (invD_notifyConsumers h1 m s.consumers).of_eq_fst heq2
        exact invD_with_nondet (invD_foldl_dropSlotEnds (s :: rest.map (·.2)) (e ▸ h2)) _
      · rename_i heq2
        have h2 := (invD_notifyConsumers h1 m s.consumers).of_eq_fst heq2
        exact ih (invD_dropSlotEnds (s := s) h2)

theorem invD_drainSlots {c : Conn} (h : InvD false [] c) (r : Reply) (m : CMsg) :
    InvD false [] (drainSlots c r m).1 := by
  unfold drainSlots
  apply invD_drainSlots_go
  exact { dead := h.dead
          nodup := h.nodup
          own := fun lid hj => by
            rcases h.own lid hj with e | e | e
            · exact Or.inl e
            · cases e
            · exact Or.inr (Or.inl e)
          ff := h.ff
          dz := fun hd => by cases hd }

/-- Leaving `Steady` for a closed state. -/
theorem invD_closeDrain {c : Conn} (h : InvD false [] c) (st' : CSt) (r : Reply) (m : CMsg) :
    InvD false [] (drainSlots
      { (setLink { c with st := st' } 0
          { (getLink { c with st := st' } 0) with ioAlive := false, fifo := [] }) with
        blockedL := none, allocReq := [], blockedFifo := [] } r m).1 := by
  apply invD_drainSlots
  have h0 : InvD false [] { c with st := st' } := by d_same h
  exact (invD_dropLink0 h0).same0 rfl rfl rfl

theorem invD_dispatchContent {X : List Nat} {c : Conn} (h : InvD false X c) {n : Nat} {s0 : Slot}
    (hk : lookupN n c.slots = some s0) (slot : Slot) (hl : slot.lid = s0.lid) (ct : Content) :
    InvD false X (dispatchContent c n slot ct).1 := by
  unfold dispatchContent
  split
  · split
    · exact h
    · exact invD_sendCons h _ _
  · split
    · exact h
    · split
      · rename_i heq; exact (invD_sendLst h _ _).of_eq_fst heq
      · rename_i c1 heq
        have h1 := (invD_sendLst h _ _).of_eq_fst heq
        have e : c1.slots = c.slots := by
          have := congrArg (fun r => r.1.slots) heq
          simpa using this.symm
        exact invD_setSlot h1 (e ▸ hk) _ hl
  · exact invD_sendReply h _ _

theorem invD_afterCollect {X : List Nat} {c : Conn} (h : InvD false X c) {n : Nat} {slot : Slot}
    (hk : lookupN n c.slots = some slot) (r : Res) : InvD false X (afterCollect c n slot r).1 := by
  unfold afterCollect
  have h1 : InvD false X (setSlot c n { slot with coll := r.state }) := invD_setSlot h hk _ rfl
  dsimp only
  split
  · exact h1
  · exact h1
  · exact invD_dispatchContent h1 (lookupN_setN_self _ _ _) _ rfl _

theorem invD_trySendConfirm {X : List Nat} {c : Conn} (h : InvD false X c) {n : Nat} {slot : Slot}
    (hk : lookupN n c.slots = some slot) (m : LMsg) : InvD false X (trySendConfirm c n slot m) := by
  unfold trySendConfirm
  split
  · exact h
  · split
    · rename_i heq; exact (invD_sendLst h _ _).of_eq_fst heq
    · rename_i c1 heq
      have h1 := (invD_sendLst h _ _).of_eq_fst heq
      have e : c1.slots = c.slots := by
        have := congrArg (fun r => r.1.slots) heq
        simpa using this.symm
      exact invD_setSlot h1 (s0 := slot) (e ▸ hk) _ rfl

theorem invD_trySendBlocked {X : List Nat} {c : Conn} (h : InvD false X c) (m : LMsg) :
    InvD false X (trySendBlocked c m) := by
  unfold trySendBlocked
  split
  · exact h
  · split
    · rename_i heq; exact (invD_sendLst h _ _).of_eq_fst heq
    · rename_i heq
      have h1 := (invD_sendLst h _ _).of_eq_fst heq
      d_same h1

/-- One backward step of an `InvD`-preservation proof (cf. `inv_step`). -/
macro "d_step" : tactic => `(tactic| first
  | assumption
  | with_reducible apply invD_pushOut
  | with_reducible apply invD_sealOut
  | with_reducible apply invD_dropConsTx
  | with_reducible apply invD_dropReply
  | with_reducible apply invD_clientException
  | with_reducible apply invD_dropCh0
  | with_reducible apply invD_sendReply
  | with_reducible apply invD_sendCons
  | with_reducible apply invD_sendLst
  | with_reducible apply invD_notifyConsumers
  | with_reducible apply invD_trySendBlocked
  | with_reducible apply invD_with_nondet
  | (with_reducible refine invD_afterCollect ?_ (slotGet_ok (by assumption)) _)
  | (with_reducible refine invD_trySendConfirm ?_ (slotGet_ok (by assumption)) _)
  | (refine invD_setSlot ?_ (slotGet_ok (by assumption)) _ ?_; rotate_left; rfl)
  | (apply InvD.of_eq_fst; rotate_left; assumption; try dsimp only))

macro "d_auto" : tactic =>
  `(tactic| ((try dsimp only); repeat' (first | d_step | (split <;> try dsimp only))))

theorem invD_processChannelMethod {c : Conn} (h : InvD false [] c)
    (hkeys : (c.slots.map (·.1)).Nodup) (n cls mid : Nat) (fields : List Field) (dbg : Bytes) :
    InvD false [] (processChannelMethod c n cls mid fields dbg).1 := by
  unfold processChannelMethod
  dsimp only
  split
  · exact invD_close h hkeys n _ _ dbg
  · exact invD_closeOk h hkeys n [] dbg
  all_goals (repeat' split)
  all_goals try d_auto
  all_goals d_same h

theorem invD_process {c : Conn} (h : InvD false [] c) (hkeys : (c.slots.map (·.1)).Nodup)
    (f : Frame) (dc df : Bytes) : InvD false [] (process c f dc df).1 := by
  unfold process
  split
  · exact h
  · split <;> exact h
  · split <;> exact h
  · split
    all_goals try d_auto
    · exact invD_closeDrain (invD_sealOut (invD_pushOut h connectionCloseOk)) _ _ _
    · exact invD_closeDrain (invD_setLink_keep h 0
        { (getLink c 0) with replies := (getLink c 0).replies ++ [.method 10 51 []] } rfl rfl) _ _ _
    · exact invD_processChannelMethod h hkeys _ _ _ _ _
    · exact invD_processChannelMethod h hkeys _ _ _ _ _

/-! ### Event handlers -/

theorem invD_processChannelMessage {X : List Nat} {c : Conn} (h : InvD false X c) (n : Nat) (m : Msg) :
    InvD false X (processChannelMessage c n m).1 := by
  unfold processChannelMessage
  split
  · exact invD_sealOut (invD_pushOut h _)
  · exact invD_pushOut h _
  · split
    · exact h
    · split
      · rename_i hk; exact invD_setSlot h hk _ rfl
      · exact h
  · split
    · exact h
    · split
      · rename_i hk; exact invD_setSlot h hk _ rfl
      · exact h

theorem invD_popFifo {d : Bool} {X : List Nat} {c c1 : Conn} {m : Msg} (h : InvD d X c) {lid : Nat}
    (hp : popFifo c lid = some (m, c1)) : InvD d X c1 := by
  unfold popFifo at hp
  dsimp only at hp
  split at hp
  · cases hp
  · rename_i m' rest hf
    cases hp
    refine invD_setLink h _ _ (fun hl => hl) (fun hl => ?_)
    have := h.ff lid hl
    rw [hf] at this; cases this

theorem invD_drainFifo {X : List Nat} {c : Conn} (h : InvD false X c) (fuel n : Nat) :
    InvD false X (drainFifo fuel c n).1 := by
  induction fuel generalizing c with
  | zero => exact h
  | succ fuel ih =>
    unfold drainFifo
    dsimp only
    split
    · exact h
    · split
      · rename_i hp
        have h1 := invD_popFifo h hp
        split
        · rename_i heq; exact (invD_processChannelMessage h1 n _).of_eq_fst heq
        · rename_i heq; exact ih ((invD_processChannelMessage h1 n _).of_eq_fst heq)
      · split <;> exact h

theorem invD_setBlockedLoop {X : List Nat} {c : Conn} (h : InvD false X c) (fuel : Nat) :
    InvD false X (setBlockedLoop fuel c).1 := by
  induction fuel generalizing c with
  | zero => exact h
  | succ fuel ih =>
    unfold setBlockedLoop
    split
    · split <;> exact h
    · exact ih (by d_same h)

theorem invD_writeLoop {d : Bool} {X : List Nat} {c : Conn} (h : InvD d X c) (fuel pos : Nat) (w : Bytes) :
    InvD d X (writeLoop fuel c pos w).1 := by
  induction fuel generalizing c pos w with
  | zero => exact h
  | succ fuel ih =>
    unfold writeLoop
    split
    · split
      · d_same h
      · d_same h
      · d_same h
      · exact ih (by d_same h) _ _
    · d_same h

theorem invD_writeToStream {d : Bool} {X : List Nat} {c : Conn} (h : InvD d X c) :
    InvD d X (writeToStream c).1 :=
  invD_writeLoop h _ _ _

theorem invD_processBytes {c : Conn} (h : InvD false [] c) (hc : InvC c) (bytes : Bytes) :
    InvD false [] (processBytes c bytes).1 := by
  unfold processBytes
  split
  · split
    · exact invD_process h hc.sok.keys_nodup _ _ _
    · exact h
  · exact h

theorem invD_readFromStream_go {c : Conn} (h : InvD false [] c) (hc : InvC c) (l : List Bytes) :
    InvD false [] (readFromStream.go c l).1 := by
  induction l generalizing c with
  | nil => exact h
  | cons fr rest ih =>
    unfold readFromStream.go
    have hc1 := (pres_processBytes c fr hc).1
    split
    · rename_i heq; exact (invD_processBytes h hc fr).of_eq_fst heq
    · rename_i heq
      rw [heq] at hc1
      exact ih ((invD_processBytes h hc fr).of_eq_fst heq) hc1

theorem invC_with_fb {c : Conn} (hc : InvC c) (fb : Bytes) (rd : List FrameBuffer.ReadEv) :
    InvC { c with fb := fb, reads := rd } := ⟨hc.open_nodup, hc.sok, hc.qi⟩

theorem invD_readFromStream {c : Conn} (h : InvD false [] c) (hc : InvC c) :
    InvD false [] (readFromStream c).1 := by
  unfold readFromStream
  dsimp only
  split
  · rename_i heq
    exact (invD_readFromStream_go (by d_same h) (invC_with_fb hc _ _) _).of_eq_fst heq
  · rename_i heq
    have h1 := (invD_readFromStream_go (c := { c with fb := _, reads := _ }) (by d_same h)
      (invC_with_fb hc _ _) _).of_eq_fst heq
    split <;> exact h1

end AmqModel.Conn.C05
