import AmqModel.Model.Handshake
/-!
# Helper lemmas about the handshake model (`AmqModel.Model.Handshake`) for C16
-/
namespace AmqModel.Handshake
open AmqModel.Tune

/-! ## `runFrames` -/

@[simp] theorem runFrames_nil (o : Opts) (s : HState) (acc : List CFrame) :
    runFrames o s [] acc = (.ok s, acc) := rfl

@[simp] theorem runFrames_bad (o : Opts) (s : HState) (fs : List HFrame) (acc : List CFrame) :
    runFrames o s (.bad :: fs) acc = (.error .malformedFrame, acc) := rfl

theorem runFrames_cons (o : Opts) (s : HState) (f : HFrame) (fs : List HFrame) (acc : List CFrame)
    (hf : f ≠ .bad) :
    runFrames o s (f :: fs) acc =
      match hsStep o s f with
      | .error e => (.error e, acc)
      | .ok (s', out) => runFrames o s' fs (acc ++ out) := by
  cases f <;> first | exact absurd rfl hf | rfl

@[simp] theorem hsStep_heartbeat (o : Opts) (s : HState) : hsStep o s .heartbeat = .ok (s, []) := rfl

@[simp] theorem runFrames_heartbeat (o : Opts) (s : HState) (fs : List HFrame) (acc : List CFrame) :
    runFrames o s (.heartbeat :: fs) acc = runFrames o s fs acc := by
  rw [runFrames_cons _ _ _ _ _ (by decide)]
  simp

/-- Heartbeats are invisible to the machine. -/
theorem runFrames_filter (o : Opts) (fs : List HFrame) (s : HState) (acc : List CFrame) :
    runFrames o s (fs.filter (· ≠ .heartbeat)) acc = runFrames o s fs acc := by
  induction fs generalizing s acc with
  | nil => rfl
  | cons f fs ih =>
    by_cases hh : f = .heartbeat
    · subst hh
      have : (HFrame.heartbeat :: fs).filter (· ≠ .heartbeat) = fs.filter (· ≠ .heartbeat) := by
        simp
      rw [this, runFrames_heartbeat]; exact ih _ _
    · by_cases hb : f = .bad
      · subst hb; simp
      · have : (f :: fs).filter (· ≠ .heartbeat) = f :: fs.filter (· ≠ .heartbeat) := by
          simp [hh]
        rw [this, runFrames_cons _ _ _ _ _ hb, runFrames_cons _ _ _ _ _ hb]
        cases hsStep o s f with
        | error e => rfl
        | ok p => exact ih _ _

theorem runFrames_append (o : Opts) (fs1 fs2 : List HFrame) (s : HState) (acc : List CFrame) :
    runFrames o s (fs1 ++ fs2) acc =
      match runFrames o s fs1 acc with
      | (.ok s', acc') => runFrames o s' fs2 acc'
      | (.error e, a) => (.error e, a) := by
  induction fs1 generalizing s acc with
  | nil => rfl
  | cons f fs ih =>
    by_cases hb : f = .bad
    · subst hb; simp
    · rw [List.cons_append, runFrames_cons _ _ _ _ _ hb, runFrames_cons _ _ _ _ _ hb]
      cases hsStep o s f with
      | error e => rfl
      | ok p => exact ih _ _

/-- A state the machine never leaves (`serverClosing` accepts nothing but heartbeats; `done`
    accepts, since fix D18, everything that parses, and stays `done`). -/
def Final : HState → Prop
  | .done _ => True
  | .serverClosing _ _ => True
  | _ => False

theorem hsStep_final {o : Opts} {s s' : HState} {f : HFrame} {out : List CFrame}
    (hs : Final s) (h : hsStep o s f = .ok (s', out)) : s' = s ∧ out = [] := by
  cases s <;> simp [Final] at hs <;> cases f <;> simp_all [hsStep.eq_def]

/-- `done` and `serverClosing` are absorbing among accepted runs, and nothing is queued there. -/
theorem runFrames_final {o : Opts} {s s' : HState} {fs : List HFrame} {acc acc' : List CFrame}
    (hs : Final s) (h : runFrames o s fs acc = (.ok s', acc')) : s' = s ∧ acc' = acc := by
  induction fs generalizing acc with
  | nil => simp at h; exact ⟨h.1.symm, h.2.symm⟩
  | cons f fs ih =>
    by_cases hb : f = .bad
    · subst hb; simp at h
    · rw [runFrames_cons _ _ _ _ _ hb] at h
      cases hst : hsStep o s f with
      | error e => rw [hst] at h; simp at h
      | ok p =>
        obtain ⟨s1, out⟩ := p
        rw [hst] at h
        obtain ⟨rfl, rfl⟩ := hsStep_final hs hst
        simpa using ih h

/-- (fix D18) In `done` every frame that parses is accepted, and nothing is queued for it. -/
theorem hsStep_done (o : Opts) (t : Triple) (f : HFrame) : hsStep o (.done t) f = .ok (.done t, []) := by
  cases f <;> rfl

theorem runFrames_done (o : Opts) (t : Triple) (fs : List HFrame) (acc : List CFrame)
    (hb : ∀ f ∈ fs, f ≠ .bad) : runFrames o (.done t) fs acc = (.ok (.done t), acc) := by
  induction fs with
  | nil => rfl
  | cons f fs ih =>
    rw [runFrames_cons _ _ _ _ _ (hb f (by simp)), hsStep_done]
    simpa using ih (fun g hg => hb g (by simp [hg]))

/-! ## `runReads` unfolded one read at a time -/

@[simp] theorem runReads_nil (legacy : Bool) (o : Opts) (s : HState) (acc : List CFrame) :
    runReads legacy o s [] acc =
      ⟨.failed (mapErr legacy s (if o.timeout then .connectionTimeout else .hangs)), acc⟩ := by
  rw [runReads]

theorem runReads_cons_error {legacy : Bool} {o : Opts} {s : HState} {r : Read} {rs : List Read}
    {acc a : List CFrame} {e : HErr} (h : runFrames o s r.frames acc = (.error e, a)) :
    runReads legacy o s (r :: rs) acc =
      ⟨.failed (mapErr legacy (runReads.lastGood o s r.frames) e), acc⟩ := by
  rw [runReads, h]

theorem runReads_cons_ok {legacy : Bool} {o : Opts} {s s' : HState} {r : Read} {rs : List Read}
    {acc acc' : List CFrame} : runFrames o s r.frames acc = (.ok s', acc') →
    runReads legacy o s (r :: rs) acc =
      match r.ending with
      | .eof => ⟨.failed (mapErr legacy s' .unexpectedSocketClose), acc⟩
      | .reset => ⟨.failed (mapErr legacy s' .ioErrorReadingSocket), acc⟩
      | .silence => runReads.finish legacy o s' acc' true
      | .wouldBlock =>
        match s' with
        | .done t => ⟨.connected t, acc'⟩
        | .serverClosing code text => ⟨.failed (.serverClosedConnection code text), acc'⟩
        | _ => runReads legacy o s' rs acc' := by
  intro h
  rw [runReads, h]
  cases r.ending <;> rfl

theorem mapErr_false_of_not_drop {s : HState} {e : HErr}
    (h1 : e ≠ .unexpectedSocketClose) (h2 : e ≠ .ioErrorReadingSocket) : mapErr false s e = e := by
  cases s <;> cases e <;> simp_all [mapErr]


/-! ## The frames of a list of reads, heartbeats aside -/

/-- Same as `AmqModel.Props.C16.nonHbF` (restated here so that the lemmas can talk about it). -/
def nonHbF (reads : List Read) : List HFrame := (reads.flatMap (·.frames)).filter (· ≠ .heartbeat)

@[simp] theorem nonHbF_nil : nonHbF [] = [] := rfl

theorem nonHbF_cons (r : Read) (rs : List Read) :
    nonHbF (r :: rs) = r.frames.filter (· ≠ .heartbeat) ++ nonHbF rs := by
  simp [nonHbF]

/-! ## The invariant of accepted runs from `start` -/

/-- What is known when the machine, started in `start` with nothing queued, sits in state `s`
    with `acc` queued after having accepted the non-heartbeat frames `pre`. -/
def Inv (o : Opts) (s : HState) (acc : List CFrame) (pre : List HFrame) : Prop :=
  match s with
  | .start => acc = [] ∧ pre = []
  | .secure => ∃ m l, pre = [.start m l] ∧
      serverSupports m o.mechanism = true ∧ serverSupports l o.locale = true ∧
      acc = [.startOk o.mechanism o.response o.locale o.information]
  | .tune => False
  | .open_ t => ∃ m l st, pre = [.start m l, .tune st] ∧
      serverSupports m o.mechanism = true ∧ serverSupports l o.locale = true ∧
      makeTuneOk o.tuning st = .ok t ∧
      acc = [.startOk o.mechanism o.response o.locale o.information, .tuneOk t, .open_ o.vhost]
  -- (fix D18) whatever parses is accepted behind OpenOk, and nothing is queued for it
  | .done t => ∃ m l st extra, pre = [.start m l, .tune st, .openOk] ++ extra ∧
      (∀ f ∈ extra, f ≠ .bad) ∧
      serverSupports m o.mechanism = true ∧ serverSupports l o.locale = true ∧
      makeTuneOk o.tuning st = .ok t ∧
      acc = [.startOk o.mechanism o.response o.locale o.information, .tuneOk t, .open_ o.vhost]
  | .serverClosing code text => ∃ m l st t, pre = [.start m l, .tune st, .close code text] ∧
      serverSupports m o.mechanism = true ∧ serverSupports l o.locale = true ∧
      makeTuneOk o.tuning st = .ok t ∧
      acc = [.startOk o.mechanism o.response o.locale o.information, .tuneOk t, .open_ o.vhost,
             .closeOk]

theorem Inv.step {o : Opts} {s s' : HState} {acc out : List CFrame} {pre : List HFrame} {f : HFrame}
    (hi : Inv o s acc pre) (hf : f ≠ .heartbeat) (hb : f ≠ .bad) (h : hsStep o s f = .ok (s', out)) :
    Inv o s' (acc ++ out) (pre ++ [f]) := by
  by_cases hd : ∃ t, s = .done t
  · obtain ⟨t, rfl⟩ := hd
    obtain ⟨rfl, rfl⟩ := hsStep_final (s := .done t) trivial h
    obtain ⟨m, l, st, extra, rfl, hex, hm, hl, ht, rfl⟩ := hi
    refine ⟨m, l, st, extra ++ [f], by simp, ?_, hm, hl, ht, by simp⟩
    intro g hg
    rcases List.mem_append.mp hg with hg | hg
    · exact hex g hg
    · rw [List.mem_singleton.mp hg]; exact hb
  cases s <;> cases f <;> simp [hsStep.eq_def] at h hf hd
  case start.start m l =>
    obtain ⟨rfl, rfl⟩ := hi
    split at h
    · simp at h
    · split at h
      · simp at h
      · simp at h
        obtain ⟨rfl, rfl⟩ := h
        rename_i h1 h2
        exact ⟨m, l, rfl, by simpa using h1, by simpa using h2, rfl⟩
  case secure.tune st =>
    obtain ⟨m, l, rfl, hm, hl, rfl⟩ := hi
    split at h
    · simp at h
    · rename_i tok htok
      simp at h
      obtain ⟨rfl, rfl⟩ := h
      exact ⟨m, l, st, rfl, hm, hl, htok, rfl⟩
  case tune.tune st => exact hi.elim
  case open_.openOk t =>
    obtain ⟨m, l, st, rfl, hm, hl, ht, rfl⟩ := hi
    obtain ⟨rfl, rfl⟩ := h
    exact ⟨m, l, st, [], rfl, by simp, hm, hl, ht, rfl⟩
  case open_.close t code text =>
    obtain ⟨m, l, st, rfl, hm, hl, ht, rfl⟩ := hi
    obtain ⟨rfl, rfl⟩ := h
    exact ⟨m, l, st, t, rfl, hm, hl, ht, rfl⟩


theorem Inv.runFrames {o : Opts} {s s' : HState} {acc acc' : List CFrame} {pre fs : List HFrame}
    (hi : Inv o s acc pre) (h : runFrames o s fs acc = (.ok s', acc')) :
    Inv o s' acc' (pre ++ fs.filter (· ≠ .heartbeat)) := by
  induction fs generalizing s acc pre with
  | nil => simp at h; obtain ⟨rfl, rfl⟩ := h; simpa using hi
  | cons f fs ih =>
    by_cases hh : f = .heartbeat
    · subst hh
      rw [runFrames_heartbeat] at h
      have : (HFrame.heartbeat :: fs).filter (· ≠ .heartbeat) = fs.filter (· ≠ .heartbeat) := by
        simp
      rw [this]; exact ih hi h
    · by_cases hb : f = .bad
      · subst hb; simp at h
      · rw [runFrames_cons _ _ _ _ _ hb] at h
        cases hst : hsStep o s f with
        | error e => rw [hst] at h; simp at h
        | ok p =>
          obtain ⟨s1, out⟩ := p
          rw [hst] at h
          have : (f :: fs).filter (· ≠ .heartbeat) = f :: fs.filter (· ≠ .heartbeat) := by
            simp [hh]
          rw [this]
          have := ih (hi.step hh hb hst) h
          simpa using this

theorem Inv.finish_pushed {legacy : Bool} {o : Opts} {s : HState} {acc : List CFrame} {b : Bool} :
    (runReads.finish legacy o s acc b).pushed = acc := by
  cases s <;> rfl

/-- Whatever the server does, what has been written is what some accepted run had queued. -/
theorem Inv.pushed {legacy : Bool} {o : Opts} {s : HState} {acc : List CFrame} {pre : List HFrame}
    (reads : List Read) (hi : Inv o s acc pre) :
    ∃ s' pre', Inv o s' (runReads legacy o s reads acc).pushed pre' := by
  induction reads generalizing s acc pre with
  | nil => exact ⟨s, pre, by simpa using hi⟩
  | cons r rs ih =>
    rcases hrf : Handshake.runFrames o s r.frames acc with ⟨_ | s', acc'⟩
    · rw [runReads_cons_error hrf]; exact ⟨s, pre, hi⟩
    · rw [runReads_cons_ok hrf]
      have hi' := hi.runFrames hrf
      cases r.ending with
      | eof => exact ⟨s, pre, hi⟩
      | reset => exact ⟨s, pre, hi⟩
      | silence => exact ⟨s', _, by rw [Inv.finish_pushed]; exact hi'⟩
      | wouldBlock =>
        cases s' with
        | done t => exact ⟨_, _, hi'⟩
        | serverClosing c tx => exact ⟨_, _, hi'⟩
        | start => exact ih hi'
        | secure => exact ih hi'
        | tune => exact ih hi'
        | open_ t => exact ih hi'

theorem Inv.prefix {o : Opts} {s : HState} {acc : List CFrame} {pre : List HFrame}
    (hi : Inv o s acc pre) :
    ∃ t, acc <+: [.startOk o.mechanism o.response o.locale o.information, .tuneOk t,
                  .open_ o.vhost, .closeOk] := by
  cases s with
  | start => exact ⟨⟨0, 0, 0⟩, by simp [hi.1]⟩
  | secure => obtain ⟨m, l, -, -, -, rfl⟩ := hi; exact ⟨⟨0, 0, 0⟩, by simp⟩
  | tune => exact hi.elim
  | open_ t => obtain ⟨m, l, st, -, -, -, -, rfl⟩ := hi; exact ⟨t, by simp⟩
  | done t => obtain ⟨m, l, st, extra, -, -, -, -, -, rfl⟩ := hi; exact ⟨t, by simp⟩
  | serverClosing c tx => obtain ⟨m, l, st, t, -, -, -, -, rfl⟩ := hi; exact ⟨t, by simp⟩

theorem nonHbF_take_succ (reads : List Read) (k : Nat) :
    ∃ tail, nonHbF (reads.take (k + 1)) = nonHbF (reads.take k) ++ tail := by
  refine ⟨nonHbF reads[k]?.toList, ?_⟩
  rw [List.take_add_one]
  simp [nonHbF]

/-- Before the machine is `done` (or `serverClosing`) it has accepted at most Start and Tune. -/
theorem Inv.short {o : Opts} {s : HState} {acc : List CFrame} {pre : List HFrame}
    (hi : Inv o s acc pre) (hs : ¬ Final s) : pre.length ≤ 2 := by
  cases s with
  | start => simp [hi.2]
  | secure => obtain ⟨m, l, rfl, -⟩ := hi; simp
  | tune => exact hi.elim
  | open_ t => obtain ⟨m, l, st, rfl, -⟩ := hi; simp
  | done t => exact (hs trivial).elim
  | serverClosing c tx => exact (hs trivial).elim

theorem prefix_of_short {α : Type} {p tail extra : List α} {a b c : α}
    (h : p ++ tail = [a, b, c] ++ extra) (hl : p.length ≤ 2) : p <+: [a, b] := by
  match p, hl with
  | [], _ => exact List.nil_prefix
  | [x], _ =>
    simp at h
    rw [h.1]; exact ⟨[b], rfl⟩
  | [x, y], _ =>
    simp at h
    obtain ⟨rfl, rfl, -⟩ := h
    exact List.prefix_refl _
  | _ :: _ :: _ :: _, hl => simp at hl

/-- A connection comes only out of a `done` state reached over a prefix of the reads, none of
    which ended the stream; before the last read of that prefix (index `k`) the machine was not
    `done` yet. -/
theorem Inv.connected {o : Opts} {s : HState} {acc : List CFrame} {pre : List HFrame} {t : Triple}
    (reads : List Read) (hi : Inv o s acc pre) (hs : ¬ Final s)
    (h : (runReads false o s reads acc).result = .connected t) :
    ∃ k, Inv o (.done t) (runReads false o s reads acc).pushed (pre ++ nonHbF (reads.take (k + 1))) ∧
      (∃ s0 acc0, ¬ Final s0 ∧ Inv o s0 acc0 (pre ++ nonHbF (reads.take k))) ∧
      ∀ r ∈ reads.take (k + 1), r.ending = .wouldBlock ∨ r.ending = .silence := by
  induction reads generalizing s acc pre with
  | nil => simp at h
  | cons r rs ih =>
    rcases hrf : Handshake.runFrames o s r.frames acc with ⟨_ | s', acc'⟩
    · rw [runReads_cons_error hrf] at h; simp at h
    · rw [runReads_cons_ok hrf] at h ⊢
      have hi' := hi.runFrames hrf
      cases hend : r.ending with
      | eof => rw [hend] at h; simp at h
      | reset => rw [hend] at h; simp at h
      | silence =>
        rw [hend] at h
        cases s' <;> simp [runReads.finish] at h
        subst h
        refine ⟨0, ?_, ⟨s, acc, hs, by simpa using hi⟩, ?_⟩
        · simpa [nonHbF_cons, runReads.finish] using hi'
        · simp [hend]
      | wouldBlock =>
        rw [hend] at h
        cases s' with
        | done t' =>
          simp at h; subst h
          refine ⟨0, ?_, ⟨s, acc, hs, by simpa using hi⟩, ?_⟩
          · simpa [nonHbF_cons] using hi'
          · simp [hend]
        | serverClosing c tx => simp at h
        | tune => exact hi'.elim
        | start =>
          obtain ⟨k, hk, ⟨s0, acc0, hs0, hk0⟩, he⟩ := ih hi' (by simp [Final]) h
          refine ⟨k + 1, ?_, ⟨s0, acc0, hs0, ?_⟩, ?_⟩
          · simpa [nonHbF_cons, List.append_assoc] using hk
          · simpa [nonHbF_cons, List.append_assoc] using hk0
          · simpa [hend] using he
        | secure =>
          obtain ⟨k, hk, ⟨s0, acc0, hs0, hk0⟩, he⟩ := ih hi' (by simp [Final]) h
          refine ⟨k + 1, ?_, ⟨s0, acc0, hs0, ?_⟩, ?_⟩
          · simpa [nonHbF_cons, List.append_assoc] using hk
          · simpa [nonHbF_cons, List.append_assoc] using hk0
          · simpa [hend] using he
        | open_ t' =>
          obtain ⟨k, hk, ⟨s0, acc0, hs0, hk0⟩, he⟩ := ih hi' (by simp [Final]) h
          refine ⟨k + 1, ?_, ⟨s0, acc0, hs0, ?_⟩, ?_⟩
          · simpa [nonHbF_cons, List.append_assoc] using hk
          · simpa [nonHbF_cons, List.append_assoc] using hk0
          · simpa [hend] using he


/-! ## A run that is accepted as a whole, however it is cut into reads -/

theorem not_final_of_run_done {o : Opts} {s : HState} {fs : List HFrame} {acc acc' : List CFrame}
    {t : Triple} (h : runFrames o s fs acc = (.ok (.done t), acc')) :
    (∃ c tx, s = .serverClosing c tx) → False := by
  rintro ⟨c, tx, rfl⟩
  have := (runFrames_final (s := .serverClosing c tx) trivial h).1
  simp at this

/-- If the frames of the reads, taken together, drive the machine from a non-final `s` into
    `done t`, and every read ends in would-block, the attempt connects (at the first read after
    which the machine is in `done`) with exactly what that run queued. -/
theorem runReads_of_run_done {legacy : Bool} {o : Opts} {t : Triple} {final : List CFrame}
    (reads : List Read) (s : HState) (acc : List CFrame)
    (he : ∀ r ∈ reads, r.ending = .wouldBlock) (hs : ¬ Final s)
    (h : runFrames o s (nonHbF reads) acc = (.ok (.done t), final)) :
    runReads legacy o s reads acc = ⟨.connected t, final⟩ := by
  induction reads generalizing s acc with
  | nil =>
    simp at h
    rw [h.1] at hs
    exact (hs trivial).elim
  | cons r rs ih =>
    rw [nonHbF_cons, runFrames_append, runFrames_filter] at h
    have hend : r.ending = .wouldBlock := he r (by simp)
    have he' : ∀ r ∈ rs, r.ending = .wouldBlock := fun r hr => he r (by simp [hr])
    rcases hrf : Handshake.runFrames o s r.frames acc with ⟨_ | s', acc'⟩
    · rw [hrf] at h; simp at h
    · rw [hrf] at h
      simp only at h
      rw [runReads_cons_ok hrf, hend]
      cases s' with
      | done t' =>
        obtain ⟨h1, h2⟩ := runFrames_final (s := .done t') trivial h
        simp at h1
        simp [h1, h2]
      | serverClosing c tx => exact (not_final_of_run_done h ⟨c, tx, rfl⟩).elim
      | start => exact ih _ _ he' (by simp [Final]) h
      | secure => exact ih _ _ he' (by simp [Final]) h
      | tune => exact ih _ _ he' (by simp [Final]) h
      | open_ t' => exact ih _ _ he' (by simp [Final]) h

/-- …and if they leave it in a non-final state, the attempt waits for ever / until the timeout. -/
theorem runReads_of_run_open {o : Opts} {s' : HState} {final : List CFrame}
    (reads : List Read) (s : HState) (acc : List CFrame)
    (he : ∀ r ∈ reads, r.ending = .wouldBlock) (hs' : ¬ Final s')
    (h : runFrames o s (reads.flatMap (·.frames)) acc = (.ok s', final)) :
    runReads false o s reads acc =
      ⟨.failed (if o.timeout then .connectionTimeout else .hangs), final⟩ := by
  induction reads generalizing s acc with
  | nil =>
    simp at h
    obtain ⟨rfl, rfl⟩ := h
    rw [runReads_nil, mapErr_false_of_not_drop] <;> split <;> simp
  | cons r rs ih =>
    rw [List.flatMap_cons, runFrames_append] at h
    have hend : r.ending = .wouldBlock := he r (by simp)
    have he' : ∀ r ∈ rs, r.ending = .wouldBlock := fun r hr => he r (by simp [hr])
    rcases hrf : Handshake.runFrames o s r.frames acc with ⟨_ | s1, acc1⟩
    · rw [hrf] at h; simp at h
    · rw [hrf] at h
      simp only at h
      rw [runReads_cons_ok hrf, hend]
      cases s1 with
      | done t' =>
        have := (runFrames_final (s := .done t') trivial h).1
        subst this; exact (hs' trivial).elim
      | serverClosing c tx =>
        have := (runFrames_final (s := .serverClosing c tx) trivial h).1
        subst this; exact (hs' trivial).elim
      | start => exact ih _ _ he' h
      | secure => exact ih _ _ he' h
      | tune => exact ih _ _ he' h
      | open_ t' => exact ih _ _ he' h

/-! ## Nothing is written before a usable Start -/

theorem hsStep_start_error {o : Opts} {f : HFrame} (hh : f ≠ .heartbeat)
    (hbad : ∀ m l, f = .start m l →
      ¬(serverSupports m o.mechanism = true ∧ serverSupports l o.locale = true)) :
    ∃ e, hsStep o .start f = .error e := by
  cases f <;> simp [hsStep.eq_def] at hh ⊢
  case start m l =>
    have := hbad m l rfl
    by_cases h1 : serverSupports m o.mechanism = true
    · have h2 : serverSupports l o.locale = false := by
        cases h : serverSupports l o.locale <;> simp_all
      simp [h1, h2]
    · simp at h1; simp [h1]

theorem runReads_start_unusable {legacy : Bool} {o : Opts} {f : HFrame} {rest : List HFrame}
    (reads : List Read) (hf : nonHbF reads = f :: rest)
    (hbad : ∀ m l, f = .start m l →
      ¬(serverSupports m o.mechanism = true ∧ serverSupports l o.locale = true)) :
    (runReads legacy o .start reads []).pushed = [] ∧
      ∃ e, (runReads legacy o .start reads []).result = .failed e := by
  induction reads with
  | nil => simp at hf
  | cons r rs ih =>
    rw [nonHbF_cons] at hf
    rcases hrf : Handshake.runFrames o .start r.frames [] with ⟨_ | s', acc'⟩
    · rw [runReads_cons_error hrf]; exact ⟨rfl, _, rfl⟩
    · rw [runReads_cons_ok hrf]
      cases hfl : r.frames.filter (· ≠ .heartbeat) with
      | nil =>
        rw [hfl] at hf
        rw [← runFrames_filter, hfl] at hrf
        simp at hrf
        obtain ⟨rfl, rfl⟩ := hrf
        cases r.ending with
        | eof => exact ⟨rfl, _, rfl⟩
        | reset => exact ⟨rfl, _, rfl⟩
        | silence => exact ⟨rfl, _, rfl⟩
        | wouldBlock => exact ih hf
      | cons g gs =>
        rw [hfl] at hf
        simp at hf
        obtain ⟨rfl, -⟩ := hf
        have hg : g ≠ .heartbeat := by
          have : g ∈ r.frames.filter (· ≠ .heartbeat) := by rw [hfl]; simp
          simpa using (List.mem_filter.mp this).2
        rw [← runFrames_filter, hfl] at hrf
        by_cases hb : g = .bad
        · subst hb; simp at hrf
        · obtain ⟨e, he⟩ := hsStep_start_error hg hbad
          rw [runFrames_cons _ _ _ _ _ hb, he] at hrf
          simp at hrf

/-! ## ConnectionTimeout needs a configured timeout -/

theorem hsStep_ne_timeout {o : Opts} {s : HState} {f : HFrame} :
    hsStep o s f ≠ .error .connectionTimeout := by
  cases s <;> cases f <;> simp [hsStep.eq_def] <;> (repeat' split) <;> simp

theorem runFrames_ne_timeout {o : Opts} {s : HState} {fs : List HFrame} {acc a : List CFrame} :
    runFrames o s fs acc ≠ (.error .connectionTimeout, a) := by
  induction fs generalizing s acc with
  | nil => simp
  | cons f fs ih =>
    by_cases hb : f = .bad
    · subst hb; simp
    · rw [runFrames_cons _ _ _ _ _ hb]
      cases hst : hsStep o s f with
      | error e =>
        intro h
        simp at h
        exact hsStep_ne_timeout (hst.trans (by rw [h.1]))
      | ok p => exact ih

theorem mapErr_false_eq_timeout {s : HState} {e : HErr}
    (h : mapErr false s e = .connectionTimeout) : e = .connectionTimeout := by
  cases s <;> cases e <;> simp_all [mapErr]

theorem runReads_timeout {o : Opts} (reads : List Read) (s : HState) (acc : List CFrame)
    (h : (runReads false o s reads acc).result = .failed .connectionTimeout) : o.timeout = true := by
  induction reads generalizing s acc with
  | nil =>
    simp at h
    have := mapErr_false_eq_timeout h
    by_cases ht : o.timeout = true
    · exact ht
    · simp [ht] at this
  | cons r rs ih =>
    rcases hrf : Handshake.runFrames o s r.frames acc with ⟨e | s', acc'⟩
    · rw [runReads_cons_error hrf] at h
      simp at h
      have := mapErr_false_eq_timeout h
      subst this
      exact (runFrames_ne_timeout hrf).elim
    · rw [runReads_cons_ok hrf] at h
      cases hend : r.ending with
      | eof => rw [hend] at h; simp at h; cases mapErr_false_eq_timeout h
      | reset => rw [hend] at h; simp at h; cases mapErr_false_eq_timeout h
      | silence =>
        rw [hend] at h
        cases s' <;> simp [runReads.finish] at h <;>
          (have := mapErr_false_eq_timeout h
           by_cases ht : o.timeout = true
           · exact ht
           · simp [ht] at this)
      | wouldBlock =>
        rw [hend] at h
        cases s' with
        | done t => simp at h
        | serverClosing c tx => simp at h
        | start => exact ih _ _ h
        | secure => exact ih _ _ h
        | tune => exact ih _ _ h
        | open_ t => exact ih _ _ h

/-! ## `splitSpaces` on a space-joined list of space-free words -/

theorem splitSpaces_append_of_nospace (t rest cur : Bytes) (ht : 32 ∉ t) :
    splitSpaces (t ++ rest) cur = splitSpaces rest (t.reverse ++ cur) := by
  induction t generalizing cur with
  | nil => rfl
  | cons b t ih =>
    have hb : b ≠ 32 := fun h => ht (by simp [h])
    have ht' : 32 ∉ t := fun h => ht (by simp [h])
    rw [List.cons_append, splitSpaces.eq_3 _ _ _ hb, ih _ ht']
    simp

theorem splitSpaces_join (tokens : List Bytes) (hne : tokens ≠ []) (hns : ∀ t ∈ tokens, 32 ∉ t) :
    splitSpaces ((tokens.intersperse [32]).flatten) [] = tokens := by
  induction tokens with
  | nil => exact (hne rfl).elim
  | cons t ts ih =>
    cases ts with
    | nil =>
      have := splitSpaces_append_of_nospace t [] [] (hns t (by simp))
      simpa [splitSpaces] using this
    | cons t' ts' =>
      have h1 := splitSpaces_append_of_nospace t
        (32 :: ((t' :: ts').intersperse [32]).flatten) [] (hns t (by simp))
      have h2 := ih (by simp) (fun x hx => hns x (by simp [hx]))
      simp only [List.intersperse, List.flatten_cons] at h1 h2 ⊢
      rw [List.singleton_append, h1, splitSpaces.eq_2, h2]
      simp

end AmqModel.Handshake
