import AmqModel.Model.Split
import AmqModel.Model.Conn
import AmqModel.Lemmas.Split
import AmqModel.Lemmas.ConnC01
import AmqModel.Props.C02
/-!
# Sender ∘ receiver: what `send_content` frames, `FrameBuffer` un-frames (C02 × C06)

The body-splitting model (M3) and the frame-decoding model (M1) are two independent transcriptions
(of `channel_handle.rs` and of `frame_buffer.rs`). These theorems compose them: the body frames of
every publish, enveloped as AMQP body frames (type 3, channel, 4-byte big-endian payload size,
payload, 0xCE — the envelope is amq-protocol's, contract A1) and concatenated on the wire, are cut
by the decode loop into exactly those envelopes again, whose payloads concatenate to the body.

Property theorems only.
-/
namespace AmqModel.Props.RoundTrip
open AmqModel.Split AmqModel.FrameBuffer AmqModel.Conn

/-- The envelope of a body frame (amq-protocol `gen_frame`, `AMQPFrame::Body`). -/
def encBody (ch : Nat) (payload : Bytes) : Bytes :=
  [3] ++ be16 ch ++ be32 payload.length ++ payload ++ [206]

/-- The payload of an envelope: everything between the 7-byte header and the end marker. -/
def payloadOf (frame : Bytes) : Bytes := (frame.drop 7).take (frame.length - 8)

theorem payloadOf_encBody (ch : Nat) (p : Bytes) : payloadOf (encBody ch p) = p := by
  simp [payloadOf, encBody, be16, be32]

/-- The size field of a body frame reads back as the frame's own length (payloads below 2³²−8;
    `send_content` never exceeds `frame_max − 8 ≤ 2³² − 9`). -/
theorem frameSize_encBody (ch : Nat) (p : Bytes) (h : p.length < 4294967296) :
    frameSize? (encBody ch p) = some (encBody ch p).length := by
  simp only [encBody, be16, be32, List.cons_append, List.nil_append, frameSize?, List.length_cons,
    List.length_append, List.length_nil]
  congr 1
  omega

/-- One self-sized envelope decodes to itself with nothing left over. -/
theorem framesOf_single {buf : Bytes} (h : frameSize? buf = some buf.length) :
    framesOf (fun _ => true) buf = ([buf], [], true) := by
  obtain ⟨hc, hf⟩ := complete_of h (Nat.le_refl _)
  rw [framesOf_good _ hc rfl, hf, List.drop_length, List.take_length]
  rfl

/-- ANY sequence of self-sized envelopes, concatenated, is cut back into exactly that sequence. -/
theorem framesOf_flatten_envelopes (fs : List Bytes)
    (h : ∀ f ∈ fs, frameSize? f = some f.length) :
    framesOf (fun _ => true) fs.flatten = (fs, [], true) := by
  induction fs with
  | nil => rfl
  | cons f fs ih =>
    have hf := h f (by simp)
    rw [List.flatten_cons, framesOf_append_whole f fs.flatten (wholeB_of_frameSize hf),
      framesOf_single hf, ih (fun g hg => h g (by simp [hg]))]
    rfl

/-- ROUND TRIP. For every body, every positive payload limit below 2³² and every channel: the
    wire image of the publish's body frames decodes (by the receiving loop of C06, under any
    segmentation by `C06.segmentation_independent`) into exactly the frames sent, none left over,
    none rejected; their payloads concatenate to the body, and each is within the limit. -/
theorem body_roundtrip (ch limit : Nat) (hl : 0 < limit) (hlim : limit < 4294967296) (body : Bytes) :
    let sent := (splitBody limit body).map (encBody ch)
    framesOf (fun _ => true) sent.flatten = (sent, [], true) ∧
    ((framesOf (fun _ => true) sent.flatten).1.map payloadOf).flatten = body ∧
    ∀ f ∈ (framesOf (fun _ => true) sent.flatten).1, f.length ≤ limit + 8 := by
  intro sent
  have hsz : ∀ c ∈ splitBody limit body, c.length ≤ limit := fun c hc => (C02.split_sizes limit hl body c hc).2
  have hdec : framesOf (fun _ => true) sent.flatten = (sent, [], true) := by
    apply framesOf_flatten_envelopes
    intro f hf
    obtain ⟨c, hc, rfl⟩ := List.mem_map.mp hf
    exact frameSize_encBody ch c (by have := hsz c hc; omega)
  refine ⟨hdec, ?_, ?_⟩
  · rw [hdec]
    show ((List.map (encBody ch) (splitBody limit body)).map payloadOf).flatten = body
    rw [List.map_map]
    have : (payloadOf ∘ encBody ch) = id := by
      funext p; exact payloadOf_encBody ch p
    rw [this, List.map_id, C02.split_flatten limit hl body]
  · rw [hdec]
    intro f hf
    obtain ⟨c, hc, rfl⟩ := List.mem_map.mp hf
    have := hsz c hc
    simp only [encBody, be16, be32, List.length_append, List.length_cons, List.length_nil]
    omega

example : framesOf (fun _ => true) ((splitBody 2 [7, 8, 9]).map (encBody 1)).flatten
    = ([[3, 0, 1, 0, 0, 0, 2, 7, 8, 206], [3, 0, 1, 0, 0, 0, 1, 9, 206]], [], true) := by decide

end AmqModel.Props.RoundTrip
