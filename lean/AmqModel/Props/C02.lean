import AmqModel.Model.Split
import AmqModel.Lemmas.Split
/-!
# C02 — a published message reaches the wire intact and correctly framed (body splitting part)

Property theorems only (helper lemmas live in `AmqModel/Lemmas/Split.lean`).
-/
namespace AmqModel.Props.C02
open AmqModel.Split

/-- The splitting loop terminates within `body.length` iterations whenever the limit is positive:
    more fuel changes nothing. -/
theorem split_fuel (limit : Nat) (hl : 0 < limit) (body : Bytes) (n : Nat) (h : body.length ≤ n) :
    splitBodyF n limit body = splitBody limit body :=
  splitBodyF_fuel_indep hl n body.length body h (Nat.le_refl _)

/-- The body frames' payloads concatenate to exactly the body. -/
theorem split_flatten (limit : Nat) (hl : 0 < limit) (body : Bytes) :
    (splitBody limit body).flatten = body :=
  have _ := hl  -- not needed: holds for every limit
  splitBodyF_flatten limit body.length body

/-- No empty body frame, none above the limit. -/
theorem split_sizes (limit : Nat) (hl : 0 < limit) (body : Bytes) :
    ∀ c ∈ splitBody limit body, 0 < c.length ∧ c.length ≤ limit :=
  splitBodyF_sizes hl body.length body (Nat.le_refl _)

/-- An empty body yields no body frame at all. -/
theorem split_empty (limit : Nat) : splitBody limit [] = [] := rfl

/-- The number of body frames is ⌈len / limit⌉ (so exact multiples do not produce a trailing
    empty frame). -/
theorem split_count (limit : Nat) (hl : 0 < limit) (body : Bytes) :
    (splitBody limit body).length = (body.length + limit - 1) / limit :=
  splitBodyF_count hl body.length body (Nat.le_refl _)

/-- Every body frame but the last is filled to the limit. -/
theorem split_full_but_last (limit : Nat) (hl : 0 < limit) (body : Bytes) (i : Nat)
    (hi : i + 1 < (splitBody limit body).length) :
    ((splitBody limit body)[i]?.map List.length) = some limit :=
  have _ := hl  -- not needed: holds for every limit
  splitBodyF_full_but_last limit body.length body i hi

/-- Position-wise intactness: body frame `i` carries exactly bytes `[i·limit, (i+1)·limit)` of the
    body, and frame `i` exists exactly when byte `i·limit` does (so nothing is reordered, repeated
    or dropped between frames — stronger than `split_flatten` + `split_sizes` together). -/
theorem split_piece (limit : Nat) (hl : 0 < limit) (body : Bytes) (i : Nat) :
    (splitBody limit body)[i]? =
      if i * limit < body.length then some ((body.drop (i * limit)).take limit) else none :=
  splitBodyF_getElem? hl body.length body (Nat.le_refl _) i

/-- Every encoded body frame fits the negotiated frame_max (`limit` = frame_max − 8). -/
theorem split_encoded_fits (limit : Nat) (hl : 0 < limit) (body : Bytes) :
    ∀ c ∈ splitBody limit body, encodedLen c ≤ limit + 8 := by
  intro c hc
  have := (split_sizes limit hl body c hc).2
  unfold encodedLen
  omega

example : (splitBody 3 [1,2,3,4,5,6,7])[2]? = some [7] := by decide
example : splitBody 3 [1,2,3,4,5,6] = [[1,2,3],[4,5,6]] := by decide
example : splitBody 3 [1,2,3,4,5,6,7] = [[1,2,3],[4,5,6],[7]] := by decide

end AmqModel.Props.C02
