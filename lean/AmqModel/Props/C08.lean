import AmqModel.Model.ConnRun
import AmqModel.Props.C20
import AmqModel.Lemmas.ConnC08
/-!
# C08 — connection close handshake: final frame, notifications, result

Property theorems only; helper lemmas live in `AmqModel/Lemmas/ConnC08.lean` (and the shared
library `AmqModel/Lemmas/Conn.lean`).
-/
namespace AmqModel.Props.C08
open AmqModel.Conn AmqModel.Collector

/- Statement before fix D17 (false for the model since: the close request first takes what the
   channels have queued):

theorem client_close_seals (c : Conn) (n : Nat) (buf : Bytes) (hs : c.sealed = false) :
    processChannelMessage c n (.connectionClose buf) = ({ c with out := c.out ++ buf, sealed := true }, none)

counterexample:
  c := { Conn.init 4 4 with slots := [(1, { lid := 1 })],
         links := [(0, { chan := 0 }), (1, { chan := 1, fifo := [.send [7]] })] },  n := 0,  buf := [9]:
  the result's `out` is [7, 9] (not [9]) and link 1's queue has been emptied. -/

/-- CLIENT CLOSE: when the I/O thread takes the Connection.Close buffer handed over by
    `Connection::close`, it first takes everything the open channels have queued
    (`takeAllQueued`, ascending channel ids; fix D17); then the Close buffer is appended to the
    outbound data and writes are sealed in the same step. -/
theorem client_close_seals (c : Conn) (n : Nat) (buf : Bytes) (c1 : Conn)
    (hq : takeAllQueued c ((c.slots.map (·.1)).mergeSort (· ≤ ·)) = (c1, none)) :
    processChannelMessage c n (.connectionClose buf) = (sealOut (pushOut c1 buf), none) := by
  rw [processChannelMessage_close, hq]

/-- … in record form, when taking the queues left writes open. -/
theorem client_close_seals_record (c : Conn) (n : Nat) (buf : Bytes) (c1 : Conn)
    (hq : takeAllQueued c ((c.slots.map (·.1)).mergeSort (· ≤ ·)) = (c1, none)) (hs : c1.sealed = false) :
    processChannelMessage c n (.connectionClose buf) = ({ c1 with out := c1.out ++ buf, sealed := true }, none) := by
  rw [client_close_seals c n buf c1 hq, pushOut_of_not_sealed hs]
  rfl

/-- The buffer of a submitted `.send` (nothing for the other requests). -/
def sendBytes : Msg → Bytes
  | .send b => b
  | _ => []

/-- The bytes channel `n` has queued, in submission order. -/
def queuedOn (c : Conn) (n : Nat) : Bytes :=
  match lookupN n c.slots with
  | some slot => ((getLink c slot.lid).fifo.map sendBytes).flatten
  | none => []

/-- The bytes all open channels have queued: ascending channel ids, each queue in FIFO order. -/
def queuedAll (c : Conn) : Bytes :=
  (((c.slots.map (·.1)).mergeSort (· ≤ ·)).map (queuedOn c)).flatten

/-- The three definitions above are the ones the lemma file works with. -/
theorem queuedAll_eq : queuedAll = Conn.queuedAll := by
  have e1 : sendBytes = Conn.Msg.sendBytes := by funext m; cases m <;> rfl
  have e2 : queuedOn = Conn.queuedOn := by
    funext c n; unfold queuedOn Conn.queuedOn; rw [e1]
    cases lookupN n c.slots <;> rfl
  funext c; unfold queuedAll Conn.queuedAll; rw [e2]

/-- NOTHING ACCEPTED BEFORE THE CLOSE IS DISCARDED (fix D17).  Writes open, the open channels
    have distinct ids and distinct queues, and what waits in their queues are `.send` buffers
    (whatever their number, on however many channels, polled or not): the outbound data becomes
    the old data, then every queued buffer — channels in ascending id order, each queue in
    submission order — then the Close buffer; writes are sealed; no error; every channel's queue is
    empty afterwards. -/
theorem client_close_writes_queued_first (c : Conn) (n : Nat) (buf : Bytes) (hs : c.sealed = false)
    (hkeys : (c.slots.map (·.1)).Nodup) (hlid : (c.slots.map (·.2.lid)).Nodup)
    (hsend : ∀ p ∈ c.slots, ∀ m ∈ (getLink c p.2.lid).fifo, ∃ b, m = .send b) :
    let r := processChannelMessage c n (.connectionClose buf)
    r.2 = none ∧ r.1.out = c.out ++ queuedAll c ++ buf ∧ r.1.sealed = true ∧
    ∀ p ∈ c.slots, (getLink r.1 p.2.lid).fifo = [] := by
  rw [queuedAll_eq]
  exact close_writes_queued_first c n buf hs hkeys hlid hsend

/-- Non-vacuity, and the counterexample to the old statement: one channel with one queued buffer. -/
example :
    let c : Conn := { (Conn.init 4 4) with slots := [(1, { lid := 1 })], links := [(0, { chan := 0 }), (1, { chan := 1, fifo := [.send [7]] })] }
    let r := processChannelMessage c 0 (.connectionClose [9])
    r.2 = none ∧ r.1.out = [7, 9] ∧ r.1.sealed = true ∧ (getLink r.1 1).fifo = [] ∧ queuedAll c = [7] := by
  simp [Conn.init, lookupN, getLink, popFifo, setLink, setN, processChannelMessage, takeAllQueued,
    takeQueued, processPlainMessage, pushOut, sealOut, queuedAll, queuedOn, sendBytes]

/-- Two channels, stored in descending order, two and one queued buffers: ascending ids, FIFO order. -/
example :
    let c : Conn := { (Conn.init 4 4) with slots := [(2, { lid := 5 }), (1, { lid := 3 })], links := [(0, { chan := 0 }), (3, { chan := 1, fifo := [.send [1], .send [2]] }), (5, { chan := 2, fifo := [.send [3]] })] }
    (processChannelMessage c 0 (.connectionClose [9])).1.out = [1, 2, 3, 9] := by
  simp [Conn.init, lookupN, getLink, popFifo, setLink, setN, processChannelMessage, takeAllQueued,
    takeQueued, processPlainMessage, List.mergeSort, pushOut, sealOut,
    List.MergeSort.Internal.splitInTwo]

/- Statement before fix D17 (third conjunct false for the model since: the close request first
   takes what the channels have queued):

theorem sealed_absorbs (c : Conn) (n : Nat) (b : Bytes) (hs : c.sealed = true) :
    pushOut c b = c ∧ processChannelMessage c n (.send b) = (c, none) ∧
    processChannelMessage c n (.connectionClose b) = (c, none)

counterexample: the state above with `sealed := true`: `out` stays [], but link 1's queue goes from
one message to none, so the resulting state is not `c`. -/

/-- SEALED ABSORBS: once sealed, nothing a client submits and nothing the I/O thread pushes is
    appended any more (a close request still empties the channels' queues, but whatever it finds
    there is not appended either, and writes stay sealed). -/
theorem sealed_absorbs (c : Conn) (n : Nat) (b : Bytes) (hs : c.sealed = true) :
    pushOut c b = c ∧ processChannelMessage c n (.send b) = (c, none) ∧
    ((processChannelMessage c n (.connectionClose b)).1.out = c.out ∧
      (processChannelMessage c n (.connectionClose b)).1.sealed = true) := by
  refine ⟨pushOut_of_sealed hs b, ?_, ?_⟩
  · rw [processChannelMessage_send]
    unfold processPlainMessage
    dsimp only
    rw [pushOut_of_sealed hs]
  · obtain ⟨_, h2, _, h4, _⟩ := processChannelMessage_sealed hs n (.connectionClose b)
    exact ⟨h4, h2⟩

/-- NOTHING AFTER THE CLOSE POINT, over every continuation: from a sealed state, whatever happens
    next (any client operations, events, frames, transport behaviour, in any order and number) the
    outbound buffer only loses bytes from its front — to the transport — and stays sealed. -/
theorem nothing_after_close_point (c : Conn) (ops : List Op) (hs : c.sealed = true) :
    (run c ops).sealed = true ∧ ∃ k, (run c ops).out = c.out.drop k :=
  let h := shut_run (Shut.init hs) ops
  ⟨h.sealed, h.out⟩

/-- … and what the transport receives is exactly those bytes, in order: a write hands over a
    prefix of the buffer and keeps the rest (nothing lost, duplicated or reordered), also when it
    ends in would-block or in an error. -/
theorem write_hands_over_prefix (c : Conn) :
    let r := writeToStream c
    ∃ k, r.2.1 = c.out.take k ∧ (r.2.2 = none → r.1.out = c.out.drop k) ∧
      (r.2.2 ≠ none → r.2.2 = some .ioErrorWritingSocket ∧ r.1.out = c.out) :=
  writeToStream_wrote c
-- NOTE: on a write error the model leaves `out` untouched although `k` bytes may have been taken by
-- the transport (the real code does the same: the loop is dead anyway).

/-- CloseOk from the server (client close confirmed): the connection's own handle gets the
    CloseOk reply, the state becomes ClientClosed, every channel is dropped. -/
theorem close_ok_received (c : Conn) (fields : List Field) (dc df : Bytes) (hs : c.st = .steady)
    (halive : (getLink c 0).clientAlive = true) (hroom : (getLink c 0).replies.length < 2)
    (hslots : c.slots = []) :
    let r := process c (.method 0 10 51 fields) dc df
    r.2 = none ∧ r.1.st = .clientClosed ∧
    (getLink r.1 0).replies = (getLink c 0).replies ++ [.method 10 51 []] ∧ r.1.out = c.out := by
  intro r
  have hr : r = _ := (process_closeOk_eq hs fields dc df halive hroom).trans
    (drainSlots_nil (by rw [closeState_slots]; exact hslots) _ _)
  have e : getLink r.1 0 = getLink (closeState (setLink c 0
      { (getLink c 0) with replies := (getLink c 0).replies ++ [.method 10 51 []] }) .clientClosed) 0 := by
    rw [hr]; exact getLink_congr rfl 0
  refine ⟨by rw [hr], by rw [hr]; rfl, ?_, by rw [hr]; rfl⟩
  rw [e, getLink_closeState_zero, getLink_setLink_self]

/-- Notification of open channels at a connection close (either side): every slot's handle gets
    the close error at the end of its reply queue, every consumer gets the terminal message, and
    all slots are gone — when every handle and consumer is there to be told. -/
theorem close_notifies_all (c : Conn) (r : Reply) (m : CMsg)
    (hh : ∀ p ∈ c.slots, (getLink c p.2.lid).clientAlive = true ∧ (getLink c p.2.lid).replies.length < 2)
    (hc : ∀ p ∈ c.slots, ∀ e ∈ p.2.consumers, ∃ q, lookupN e.2 c.cqs = some q ∧ q.rxAlive = true)
    (hlid : (c.slots.map (·.2.lid)).Nodup)
    (hq : (c.slots.flatMap (fun p => p.2.consumers.map (·.2))).Nodup) :
    let d := drainSlots c r m
    d.2 = none ∧ d.1.slots = [] ∧
    (∀ p ∈ c.slots, (getLink d.1 p.2.lid).replies = (getLink c p.2.lid).replies ++ [r] ∧ (getLink d.1 p.2.lid).ioAlive = false) ∧
    (∀ p ∈ c.slots, ∀ e ∈ p.2.consumers, ∀ q, lookupN e.2 c.cqs = some q →
        lookupN e.2 d.1.cqs = some { q with msgs := q.msgs ++ [m], txAlive := false }) := by
  intro d
  have hd : d = drainSlots.go r m c.slots { c with slots := [], alloc := (Slots.drain c.alloc).1 } c.slots := rfl
  obtain ⟨g1, g2, _, g4, _⟩ := drainSlots_go_spec r m c.slots c.slots
    { c with slots := [], alloc := (Slots.drain c.alloc).1 } hh hc hlid hq
  rw [← hd] at g1 g2 g4
  exact ⟨g1, (drainSlots_spec c r m).2.2.2.1, g2, g4⟩

/-- The two close arms use exactly those notifications. -/
theorem server_close_uses (c : Conn) (code : Nat) (text dc df : Bytes) (hs : c.st = .steady) :
    ∃ c', c'.slots = c.slots ∧ c'.cqs = c.cqs ∧ (∀ lid, lid ≠ 0 → getLink c' lid = getLink c lid) ∧
      process c (.method 0 10 50 [.nat code, .bytes text]) dc df =
        drainSlots c' (.err (.serverClosedConnection code text)) (.serverClosedConnection code text) := by
  refine ⟨closeState (sealOut (pushOut c connectionCloseOk)) (.serverClosing code text), ?_, ?_,
    fun lid hl => ?_, process_serverClose_eq hs code text dc df⟩
  · rw [closeState_slots]; exact pushOut_slots c _
  · rw [closeState_cqs]; exact pushOut_cqs c _
  · rw [getLink_closeState_ne _ _ hl]
    exact (getLink_congr (c := pushOut c connectionCloseOk) rfl lid).trans (getLink_pushOut c _ lid)

theorem client_close_ok_uses (c : Conn) (fields : List Field) (dc df : Bytes) (hs : c.st = .steady)
    (halive : (getLink c 0).clientAlive = true) (hroom : (getLink c 0).replies.length < 2) :
    ∃ c', c'.slots = c.slots ∧ c'.cqs = c.cqs ∧ (∀ lid, lid ≠ 0 → getLink c' lid = getLink c lid) ∧
      process c (.method 0 10 51 fields) dc df =
        drainSlots c' (.err .clientClosedConnection) .clientClosedConnection := by
  refine ⟨_, ?_, ?_, fun lid hl => ?_, process_closeOk_eq hs fields dc df halive hroom⟩
  · rfl
  · rfl
  · rw [getLink_closeState_ne _ _ hl, getLink_setLink_ne _ (fun e => hl e.symm)]

/-- RESULT: the loop is done immediately after a confirmed client close; after a server close (or
    a client exception) exactly when everything queued — ending with CloseOk / Close — has been
    handed to the transport; never while steady. -/
theorem close_result (c : Conn) :
    (c.st = .clientClosed → isDone c = some true) ∧
    (c.st = .steady → isDone c = some false) ∧
    (∀ code text, c.st = .serverClosing code text → c.sealed = true → isDone c = some c.out.isEmpty) ∧
    (c.st = .clientException → c.sealed = true → isDone c = some c.out.isEmpty) := by
  refine ⟨fun h => ?_, fun h => ?_, fun code text h hs => ?_, fun h hs => ?_⟩
  · unfold isDone; rw [h]
  · unfold isDone; rw [h]
  · unfold isDone; rw [h]; dsimp only; rw [hs]; rfl
  · unfold isDone; rw [h]; dsimp only; rw [hs]; rfl

/-- A frame arriving after the close point (heartbeat, anything) changes nothing (D8/D12). -/
theorem frames_after_close_ignored (c : Conn) (f : Frame) (dc df : Bytes) (hl : c.legacy = false) (hs : c.st ≠ .steady) :
    process c f dc df = (c, none) :=
  process_nonsteady hl hs f dc df

/-- D12, the code before the repair: a heartbeat right after the server's Connection.Close. -/
example :
    let c0 := Conn.init 4 4 true
    let c1 := (process c0 (.method 0 10 50 [.nat 320, .bytes []]) [] []).1
    (process c1 (.heartbeat 0) [] []).2 = some .frameUnexpected := by decide

/-- D8. A finished client-initiated close wins over whatever the socket does afterwards: in the
    ClientClosed state a readable event never yields an error, whatever arrives (end of stream,
    reset, malformed bytes, stray frames). -/
theorem closed_client_ignores_read_errors (c : Conn) (w : Bool) (hl : c.legacy = false)
    (hs : c.st = .clientClosed) (hnw : w = false) :
    (handleEvent c (.stream true w)).2.2 = none := by
  subst hnw
  have hr := (readFromStream_nonsteady hl (c := c) (by rw [hs]; exact fun h => nomatch h)).1
  have hl' : (readFromStream c).1.legacy = false := hr.legacy.trans hl
  have hs' : (readFromStream c).1.st = .clientClosed := hr.st.trans hs
  unfold handleEvent
  simp only [Bool.false_eq_true, ↓reduceIte, hl', hs', Bool.not_false, decide_true, Bool.and_self,
    Bool.true_or]

/- Statement before the tolerance was narrowed to socket errors:

theorem server_closing_ignores_read_errors (c : Conn) (w : Bool) (hl : c.legacy = false)
    (hs : c.st.isServerClosing = true) (hnw : w = false) :
    (handleEvent c (.stream true w)).2.2 = none

false now - the tolerance was narrowed to socket errors: an error raised while the server's Close
itself is processed is reported (a notification that cannot be delivered: `frameUnexpected`,
`eventLoopClientDropped`); what arrives on the socket behind the close - its end, a read error, bytes
that do not parse - is forgiven. -/

/-- D19. The server's own close wins over whatever the socket does afterwards as well: once
    Connection.Close has been processed (state ServerClosing) the socket's end or a read error
    (or bytes that do not parse) never becomes the loop's result - the loop goes on to write CloseOk
    and ends with the server's reason. -/
theorem server_closing_ignores_read_errors (c : Conn) (w : Bool) (hl : c.legacy = false)
    (hs : c.st.isServerClosing = true) (hnw : w = false) :
    (handleEvent c (.stream true w)).2.2 ≠ some .unexpectedSocketClose ∧
    (handleEvent c (.stream true w)).2.2 ≠ some .ioErrorReadingSocket ∧
    (handleEvent c (.stream true w)).2.2 ≠ some .malformedFrame :=
  handleEvent_stream_serverClosing hl hs true w

/-- Equivalently: whenever the read itself ends with one of the two socket-level errors, the event
    yields no error at all (the state `ServerClosing` is kept by reads, so the model's test of the
    state *after* the read is a test of the state before it). -/
theorem server_closing_forgives_socket_errors (c : Conn) (hl : c.legacy = false)
    (hs : c.st.isServerClosing = true) (e : Err) (he : (readFromStream c).2 = some e)
    (hsock : e = .unexpectedSocketClose ∨ e = .ioErrorReadingSocket ∨ e = .malformedFrame) :
    (handleEvent c (.stream true false)).2.2 = none := by
  have hns : c.st ≠ .steady := by
    intro h; rw [h] at hs; exact absurd hs (by decide)
  have hr := (readFromStream_nonsteady hl (c := c) hns).1
  have hl' : (readFromStream c).1.legacy = false := hr.legacy.trans hl
  have hs' : (readFromStream c).1.st.isServerClosing = true := by rw [hr.st]; exact hs
  unfold handleEvent
  rcases hsock with h | h | h <;> subst h <;>
    simp [hl', hs', he]

/-- Forgiven as well: bytes behind the server's close that do not parse. -/
example :
    let c0 := (process (Conn.init 4 4) (.method 0 10 50 [.nat 320, .bytes []]) [] []).1
    (handleEvent { c0 with reads := [.chunk [0, 0, 0, 0, 0, 0, 0, 0]] } (.stream true false)).2.2 =
      none ∧
    (handleEvent { c0 with reads := [.eof] } (.stream true false)).2.2 = none := by decide

/-- The code before the repair reported the server's hang-up after CloseOk as an error. -/
example :
    let c0 := { (Conn.init 4 4 true) with st := .clientClosed }
    (handleEvent { c0 with reads := [.eof] } (.stream true false)).2.2 = some .unexpectedSocketClose := by decide

end AmqModel.Props.C08
