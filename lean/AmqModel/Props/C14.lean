import AmqModel.Spec.Smoother
namespace AmqModel.Props.C14
open AmqModel.Smoother

theorem placeholder : (Smoother.new 1).expected = 1 := rfl

end AmqModel.Props.C14
