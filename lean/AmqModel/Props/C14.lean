import AmqModel.Spec.Smoother
import AmqModel.Lemmas.Smoother
/-!
# C14 — ConfirmSmoother emits every tag once, in order, with its true outcome

Property theorems only (helper lemmas live in `AmqModel/Lemmas/Smoother.lean`).
-/
namespace AmqModel.Props.C14
open AmqModel.Smoother

/-- The `Drop` loop of the iterator terminates, for every iterator state: with the fuel
    `drainFuel it` the run ends in a `done` iterator. -/
theorem drop_loop_terminates (it : It) : (drainIt (drainFuel it) it).1.done = true :=
  drainIt_drainFuel_done it

/-- More fuel than `drainFuel` changes nothing (so `process` is the fuel-free meaning of
    "run the iterator to completion"). -/
theorem drain_fuel_irrelevant (it : It) (n : Nat) (h : drainFuel it ≤ n) :
    drainIt n it = drainIt (drainFuel it) it :=
  drainIt_fuel_mono _ it (drainIt_drainFuel_done it) n h

/-- Nothing changes if a returned iterator is dropped before it is exhausted: the smoother is
    left in the same state as by exhausting it, and the caller saw the first `k` items. -/
theorem drop_irrelevant (k : Nat) (st : St) (c : Confirm) :
    (takeDrop k st c).1 = (process st c).1 ∧ (takeDrop k st c).2 = (process st c).2.take k :=
  takeDrop_process k st c

/-- The spec's frontier is what the property text says: the least tag `≥ start` nobody covered. -/
theorem frontier_spec (start : Nat) (h : List Confirm) :
    start ≤ frontier start h ∧ isCovered h (frontier start h) = false ∧
      ∀ t, start ≤ t → t < frontier start h → isCovered h t = true :=
  frontier_spec' start h

/-- Full statement on the valid domain: for every start and every valid history (any length, any
    arrival order, any ack/nack mix), the outputs of the successive `process` calls are exactly the
    outputs the stateless specification prescribes, call by call. -/
theorem refines_spec (start : Nat) (h : List Confirm) (hv : Valid start h = true) :
    (run (Smoother.new start) h).2 = specRun start [] h :=
  run_refines h [] (Smoother.new start) (RInv_new start) hv

/-- ... and the specification's concatenated output is `start, start+1, …` up to the frontier,
    each tag once, ascending, each with the outcome of the raw confirmation that first covered it
    (`outAt h t` = kind of `cover h t`), i.e. every tag is emitted as soon as everything up to it
    is confirmed (it is below the frontier) and never before. -/
theorem spec_flatten (start : Nat) (p h : List Confirm) :
    (specRun start p h).flatten =
      (List.range' (frontier start p) (frontier start (p ++ h) - frontier start p)).map (outAt (p ++ h)) :=
  specRun_flatten start p h

/-- Safety half for ARBITRARY histories (duplicates, stale tags): each call emits strictly
    consecutive tags starting at the smoother's `expected`, advances `expected` by exactly that
    many, and never emits a tag nobody confirmed. -/
theorem safety_arbitrary (start : Nat) (h : List Confirm) (c : Confirm) :
    let st := (run (Smoother.new start) h).1
    let r := process st c
    r.2.map (·.tag) = List.range' st.expected r.2.length ∧
    r.1.expected = st.expected + r.2.length ∧
    ∀ o ∈ r.2, isCovered (h ++ [c]) o.tag = true := by
  intro st r
  have hI : SInv h st := by simpa using run_SInv [] h _ (SInv_new start)
  have ⟨h1, h2, h3, _⟩ := process_safe h st c hI
  exact ⟨h1, h2, h3⟩

/-- `expected` after any history is `start` plus the number of items emitted so far. -/
theorem expected_counts (start : Nat) (h : List Confirm) :
    (run (Smoother.new start) h).1.expected = start + (run (Smoother.new start) h).2.flatten.length :=
  run_expected [] h _ (SInv_new start)

/-! Non-vacuity and regression witnesses -/

example : Valid 1 [⟨.nack, 2, false⟩, ⟨.ack, 3, true⟩] = true := by decide
example : (run (Smoother.new 1) [⟨.nack, 2, false⟩, ⟨.ack, 3, true⟩]).2
    = [[], [⟨.ack, 1⟩, ⟨.nack, 2⟩, ⟨.ack, 3⟩]] := by decide
/-- D4: the code before the repair reports the nacked tag 2 as acked. -/
example : (runG true (Smoother.new 1) [⟨.nack, 2, false⟩, ⟨.ack, 3, true⟩]).2
    = [[], [⟨.ack, 1⟩, ⟨.ack, 2⟩, ⟨.ack, 3⟩]] := by decide

end AmqModel.Props.C14
