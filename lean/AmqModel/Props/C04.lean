import AmqModel.Model.ConnRun
import AmqModel.Lemmas.ConnC04
/-!
# C04 — a synchronous call returns the server's reply to that very call

Property theorems only; helper lemmas live in `AmqModel/Lemmas/ConnC04.lean` (on top of the
shared `AmqModel/Lemmas/Conn.lean`).
-/
namespace AmqModel.Props.C04
open AmqModel.Conn AmqModel.Collector

/-- The channel a frame is addressed to. -/
def Frame.chan : Frame → Nat
  | .heartbeat ch => ch
  | .method ch _ _ _ => ch
  | .header ch _ _ _ => ch
  | .body ch _ => ch

/-- REPLY ROUTING. In the steady state a generic reply on channel `n` (any of the 13 `…Ok`
    methods, with whatever fields the server put in it) is appended — verbatim — to the reply
    queue of the handle that owns channel `n`, and nothing else in the whole state changes. -/
theorem reply_routing (c : Conn) (n cls mid : Nat) (fields : List Field) (dc df : Bytes) (slot : Slot)
    (hs : c.st = .steady) (hn : n ≠ 0) (hslot : lookupN n c.slots = some slot)
    (hg : isGenericReply cls mid = true)
    (halive : (getLink c slot.lid).clientAlive = true) (hroom : (getLink c slot.lid).replies.length < 2) :
    process c (.method n cls mid fields) dc df =
      (setLink c slot.lid { (getLink c slot.lid) with
          replies := (getLink c slot.lid).replies ++ [.method cls mid fields] }, none) := by
  rw [process_generic_reply hs hn fields dc df hslot hg, sendReply_ok halive hroom]

/-- A reply for a channel that is not open ends the connection; it is never handed to anybody. -/
theorem reply_for_closed_channel (c : Conn) (n cls mid : Nat) (fields : List Field) (dc df : Bytes)
    (hs : c.st = .steady) (hn : n ≠ 0) (hslot : lookupN n c.slots = none) (hg : isGenericReply cls mid = true) :
    process c (.method n cls mid fields) dc df = (c, some (.bogusChannel n)) :=
  process_generic_noslot hs hn fields dc df hslot hg

/-- NEVER TO ANOTHER CHANNEL. Whatever frame arrives for channel `n ≠ 0`, in whatever state, the
    reply queue of every handle other than the owner of channel `n` is left exactly as it was —
    also when the frame is a violation, fails part-way or closes channel `n`. -/
theorem replies_only_to_owner (c : Conn) (f : Frame) (dc df : Bytes) (lid : Nat)
    (hn : Frame.chan f ≠ 0)
    (hother : ∀ slot, lookupN (Frame.chan f) c.slots = some slot → slot.lid ≠ lid) :
    (getLink (process c f dc df).1 lid).replies = (getLink c lid).replies := by
  have e : Frame.chan f = Frame.channel f := by cases f <;> rfl
  rw [e] at hn hother
  exact process_replies_other c f dc df lid hn hother

/-- A handle receives its replies in the order they were queued (the queue is FIFO) and each
    exactly once: receiving pops the head. -/
theorem recv_is_fifo (c : Conn) (label cl : Label) (lid : Nat) (r : Reply) (rest : List Reply)
    (hh : lookupS label c.handles = some lid) (hq : (getLink c lid).replies = r :: rest) :
    (clientRecv c label cl).2 = .got r ∧
    (getLink (clientRecv c label cl).1 lid).replies = rest :=
  clientRecv_cons cl hh hq

/-- Blocking: nothing is returned while the queue is empty and the I/O thread is alive … -/
theorem recv_waits (c : Conn) (label cl : Label) (lid : Nat)
    (hh : lookupS label c.handles = some lid) (hq : (getLink c lid).replies = [])
    (hio : (getLink c lid).ioAlive = true) :
    clientRecv c label cl = (c, .empty) := by
  rw [clientRecv_nil cl hh hq, hio]; rfl

/-- … and the caller is released (EventLoopDropped) once the I/O-thread end is gone. -/
theorem recv_released (c : Conn) (label cl : Label) (lid : Nat)
    (hh : lookupS label c.handles = some lid) (hq : (getLink c lid).replies = [])
    (hio : (getLink c lid).ioAlive = false) :
    clientRecv c label cl = (c, .disconnected) := by
  rw [clientRecv_nil cl hh hq, hio]; rfl

/-- With one call outstanding per handle and a server that answers each call once, the
    bounded(2) reply queue never overflows: a reply always finds room when at most one entry is
    queued (the second place is for an asynchronous server close). -/
theorem reply_queue_has_room (c : Conn) (lid : Nat) (r : Reply)
    (halive : (getLink c lid).clientAlive = true) (h : (getLink c lid).replies.length ≤ 1) :
    (sendReply c lid r).2 = none ∧
    (getLink (sendReply c lid r).1 lid).replies = (getLink c lid).replies ++ [r] := by
  rw [sendReply_ok halive (by omega)]
  exact ⟨rfl, by rw [getLink_setLink_self]⟩

/-- Consume-ok, cancel-ok and get-empty are routed the same way (to the owner's queue, at its end). -/
theorem get_empty_routing (c : Conn) (n : Nat) (fields : List Field) (dc df : Bytes) (slot : Slot)
    (hs : c.st = .steady) (hn : n ≠ 0) (hslot : lookupN n c.slots = some slot) :
    process c (.method n 60 72 fields) dc df = sendReply c slot.lid .getNone :=
  process_getEmpty hs hn fields dc df hslot

example :
    let c0 := Conn.init 4 4
    let c1 := (allocRequest c0 (some 2)).1
    let c2 := (handleEvent c1 .alloc).1
    let c3 := (allocReply c2 "H").1
    let c4 := (process c3 (.method 2 50 11 [.bytes [113], .nat 3, .nat 4]) [] []).1
    (clientRecv c4 "H" "-").2 = .got (.method 50 11 [.bytes [113], .nat 3, .nat 4]) := by decide

end AmqModel.Props.C04
