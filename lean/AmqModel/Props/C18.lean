import AmqModel.Model.ConnRun
import AmqModel.Model.Backpressure
import AmqModel.Lemmas.ConnC18
/-!
# C18 — backpressure bounds buffering, loses nothing, and always resumes

"Loses nothing / exactly once / in order" is C01 (`wire_is_whole_frames`, `drain_appends_in_order`,
`write_conserves`): the same machine, any pattern of stalls.  This file is about the bookkeeping
that makes publishers block and wake up again.  Readiness follows assumption A3 (the `Src`
definitions in Model/Conn.lean transcribe mio-extras' channel over a mio user-space registration;
the correspondence check polls the real `mio::Poll` and diffs the ready-token sets).

The over-every-history theorems rest on the reachable-state invariant `InvL` of
Lemmas/ConnC18.lean (`invL_reachable`).
-/
namespace AmqModel.Props.C18
open AmqModel.Conn AmqModel.Backpressure

/-- PUBLISHERS BLOCK: a handle's queue never holds more than `bound` submissions; a submission is
    accepted iff there is room (otherwise the sender blocks — `full` in this non-blocking model). -/
theorem queue_bounded (c : Conn) (label : Label) (lid : Nat) (m : Msg)
    (hh : lookupS label c.handles = some lid) (hio : (getLink c lid).ioAlive = true) :
    ((getLink c lid).fifo.length < c.bound ↔ (clientSend c label m).2 = .sent) ∧
    ((clientSend c label m).2 ≠ .sent → (clientSend c label m).1 = c) ∧
    (getLink (clientSend c label m).1 lid).fifo.length ≤ max c.bound (getLink c lid).fifo.length := by
  unfold clientSend
  rw [hh]
  dsimp only
  rw [hio]
  simp only [Bool.not_true, Bool.false_eq_true, ↓reduceIte]
  split
  · rename_i hge
    exact ⟨⟨fun h => absurd h (by omega), fun h => by cases h⟩, fun _ => rfl, Nat.le_max_right _ _⟩
  · rename_i hlt
    refine ⟨⟨fun _ => rfl, fun _ => by omega⟩, fun h => absurd rfl h, ?_⟩
    rw [getLink_setLink_self]
    simp only [List.length_append, List.length_singleton]
    omega

theorem queues_bounded_over_every_history (cm b : Nat) (ops : List Op) (hl : ∀ o ∈ ops, ApiLegal o) :
    ∀ p ∈ (run (init cm b) ops).links, p.2.fifo.length ≤ max b 0 ∧ (run (init cm b) ops).bound = b := by
  have _ := hl
  intro p hp
  have h := invL_reachable cm b ops
  refine ⟨?_, h.a.bound_eq⟩
  have := h.a.fifo_le p hp
  rw [h.a.bound_eq] at this
  exact Nat.le_trans this (Nat.le_max_left _ _)

/-- The state of being throttled: the flag is off and no non-zero channel has interest. -/
def Throttled (c : Conn) : Prop :=
  c.registered = false ∧ ∀ p ∈ c.slots, (getLink c p.2.lid).src.interest = false

theorem deregister_throttles (c : Conn) (hn : ((c.slots.map (·.2.lid))).Nodup) : Throttled (deregisterAll c) := by
  have _ := hn
  rw [deregisterAll_eq]
  refine ⟨rfl, fun p hp => ?_⟩
  have hp' : p ∈ c.slots := (foldSrc_keep Src.deregister c.slots c).slots ▸ hp
  show (getLink (foldSrc Src.deregister c.slots c) p.2.lid).src.interest = false
  rw [(foldSrc_spec _ Src.deregister_idem c.slots c p.2.lid).2 (List.mem_map.mpr ⟨p, hp', rfl⟩)]
  rfl

/-- THROTTLED ⇒ NO DEQUEUE: while throttled the poll never reports a non-zero channel, whatever
    is queued, so nothing more is read from publishers' queues. -/
theorem throttled_no_channel_event (c : Conn) (h : Throttled c) (n : Nat) (hn : n ≠ 0) :
    PTok.chan n ∉ (pollAll c).2 := by
  intro hm
  rw [pollAll_chan] at hm
  rcases pollFold_mem _ _ _ hm with h1 | ⟨x, hx, e, hi⟩
  · cases h1
  · unfold pollSrcs at hx
    rcases List.mem_append.mp hx with hx | hx
    · have := mem_ite_singleton hx
      subst this
      injection e with e
      exact hn e
    · obtain ⟨p, hp, ep⟩ := List.mem_map.mp hx
      subst ep
      have := h.2 p hp
      rw [this] at hi
      cases hi

/-- Reachable states of the machine under the public API. -/
def Reachable (c : Conn) : Prop :=
  ∃ cm b ops, (∀ o ∈ ops, ApiLegal o) ∧ c = run (init cm b) ops

/-- Being throttled survives everything that can happen before the resume, in every state that
    satisfies the link invariant of Lemmas/ConnC18.lean (`LinkInv`, true in all reachable states:
    `linkInv_reachable`).  In fact `Throttled (step c o)` holds even when the step ends the loop. -/
theorem throttled_preserved_of_inv (c : Conn) (o : Op) (h : Throttled c) (hnr : o ≠ .io .rereg)
    (hinv : LinkInv c) : Throttled (step c o) := by
  have h1 : InvL c.bound true c := ⟨hinv.a,
    { lids_nodup := hinv.b.lids_nodup
      lids_lt := hinv.b.lids_lt
      lids_ne := hinv.b.lids_ne
      src_ok := hinv.b.src_ok
      thr := fun _ => h }⟩
  exact (invL_step h1 o (fun _ => hnr)).b.thr rfl

/-
The statement as first written,

    theorem throttled_preserved (c : Conn) (o : Op) (h : Throttled c) (hd : c.dead = false)
        (hnr : o ≠ .io .rereg) (hlid : ∀ p ∈ c.slots, p.2.lid < c.nextLid)
        (hn : ((c.slots.map (·.2.lid))).Nodup) :
        Throttled (step c o) ∨ (step c o).dead = true

is FALSE for arbitrary states: `hlid` / `hn` constrain the slots only, not the link table.  If the
table already holds a link under the id `nextLid` (impossible in reachable states), the channel
allocated next gets that stale link, whose `interest` may be set (`throttled_preserved_cex` below).
Following the NOTE the two side conditions are replaced by a reachability hypothesis;
`throttled_preserved_of_inv` is the same fact from the invariant alone.
-/

/-- A throttled state with no slot at all, whose link table holds a stale link 1 = `nextLid`. -/
def cexLink0 : Link := { chan := 0, src := { registered := true, interest := true } }
def cexLink1 : Link := { chan := 9, src := { registered := true, interest := true } }
def cex : Conn :=
  { (init 5 2) with
    registered := false
    allocReq := [none]
    links := [(0, cexLink0), (1, cexLink1)] }

instance (c : Conn) : Decidable (Throttled c) := by unfold Throttled; exact inferInstance

theorem throttled_preserved_cex :
    Throttled cex ∧ cex.dead = false ∧ Op.io (.event .alloc) ≠ .io .rereg ∧
    (∀ p ∈ cex.slots, p.2.lid < cex.nextLid) ∧ ((cex.slots.map (·.2.lid))).Nodup ∧
    ¬ (Throttled (step cex (.io (.event .alloc))) ∨ (step cex (.io (.event .alloc))).dead = true) :=
  And.intro (by decide) <| And.intro (by decide) <|
    And.intro (fun h => by injection h with h; cases h) <|
    And.intro (by decide) <| And.intro (by decide) (by decide)

/-- Being throttled survives everything that can happen before the resume: submissions, receives,
    handle drops, inbound frames, events (including channels opened while throttled: the
    register + deregister dance leaves them without interest), writes, polls. -/
theorem throttled_preserved (c : Conn) (o : Op) (h : Throttled c) (hd : c.dead = false)
    (hnr : o ≠ .io .rereg) (hreach : Reachable c) :
    Throttled (step c o) ∨ (step c o).dead = true := by
  have _ := hd
  obtain ⟨cm, b, ops, _, e⟩ := hreach
  subst e
  exact Or.inl (throttled_preserved_of_inv _ o h hnr (linkInv_reachable cm b ops))

/-- Readiness bookkeeping invariant of a link (reachable states): the counter counts the queued
    submissions (+1 phantom once the handle is gone), and the readable flag is set exactly when
    the counter is positive. -/
def SrcOK (l : Link) : Prop :=
  l.src.registered = true ∧
  l.src.pending = l.fifo.length + (if l.clientAlive then 0 else 1) ∧
  (l.src.readiness = true ↔ 0 < l.src.pending)

theorem src_ok_over_every_history (cm b : Nat) (ops : List Op) (hl : ∀ o ∈ ops, ApiLegal o) :
    let c := run (init cm b) ops
    ∀ p ∈ c.slots, SrcOK (getLink c p.2.lid) := by
  have _ := hl
  intro c p hp
  exact (invL_reachable cm b ops).b.src_ok p hp

theorem resume_aux {bd : Nat} (s : Conn) (hi : InvL bd false s) :
    ∀ p ∈ (reregisterAll s).slots, (getLink (reregisterAll s) p.2.lid).fifo ≠ [] →
      PTok.chan p.1 ∈ (pollAll (reregisterAll s)).2 := by
  intro p hp hne
  have hic : InvL bd false (reregisterAll s) := invL_reregisterAll hi
  have hp2 : p ∈ (foldSrc Src.reregister s.slots s).slots := hp
  have hp' : p ∈ s.slots := (foldSrc_keep Src.reregister s.slots s).slots ▸ hp2
  have hl : getLink (reregisterAll s) p.2.lid =
      { (getLink s p.2.lid) with src := (getLink s p.2.lid).src.reregister } :=
    (foldSrc_spec _ Src.reregister_idem s.slots s p.2.lid).2 (List.mem_map.mpr ⟨p, hp', rfl⟩)
  obtain ⟨_, h2, h3⟩ := hi.b.src_ok p hp'
  rw [hl] at hne
  have hlen : 0 < (getLink s p.2.lid).fifo.length := by
    cases hf : (getLink s p.2.lid).fifo with
    | nil => exact absurd hf hne
    | cons _ _ => simp
  have hread : (getLink s p.2.lid).src.readiness = true := h3.mpr (by omega)
  rw [pollAll_chan]
  refine pollFold_hit (pollSrcs (reregisterAll s)) (reregisterAll s, []) (pollSrcs_nodup hic.b)
    (p.1, p.2.lid) ?_ ?_
  · unfold pollSrcs
    exact List.mem_append_right _ (List.mem_map.mpr ⟨p, hp, rfl⟩)
  · show ((getLink (reregisterAll s) p.2.lid).src.queued &&
      (getLink (reregisterAll s) p.2.lid).src.readiness &&
      (getLink (reregisterAll s) p.2.lid).src.interest) = true
    rw [hl]
    simp [Src.reregister, hread]

/-- ALWAYS RESUMES: after the resume every channel whose queue is non-empty is reported by the very
    next poll — including channels opened while throttled — so every blocked publisher's queue is
    drained again (no lost wake-up). -/
theorem resume_wakes_every_waiting_channel (cm b : Nat) (ops : List Op) (hl : ∀ o ∈ ops, ApiLegal o) :
    let c := reregisterAll (run (init cm b) ops)
    (run (init cm b) ops).dead = false →
    ∀ p ∈ c.slots, (getLink c p.2.lid).fifo ≠ [] → PTok.chan p.1 ∈ (pollAll c).2 := by
  have _ := hl
  intro c _
  exact resume_aux _ (invL_reachable cm b ops)

/-- A submission into an empty, listening queue raises an event (edge-triggered wake-up), and a
    handler run empties the queue, so the next submission raises one again. -/
theorem submission_wakes (c : Conn) (label : Label) (lid : Nat) (m : Msg)
    (hh : lookupS label c.handles = some lid) (hio : (getLink c lid).ioAlive = true)
    (hempty : (getLink c lid).fifo = []) (hb : 0 < c.bound)
    (hsrc : (getLink c lid).src.registered = true ∧ (getLink c lid).src.interest = true ∧ (getLink c lid).src.pending = 0) :
    (getLink (clientSend c label m).1 lid).src.queued = true ∧
    (getLink (clientSend c label m).1 lid).src.readiness = true := by
  obtain ⟨h1, h2, h3⟩ := hsrc
  have hlen : ¬ (getLink c lid).fifo.length ≥ c.bound := by rw [hempty]; simp; omega
  unfold clientSend
  rw [hh]
  dsimp only
  rw [hio]
  simp only [Bool.not_true, Bool.false_eq_true, ↓reduceIte, hlen]
  rw [getLink_setLink_self]
  simp [Src.inc, h1, h2, h3]

/-! ### The high/low-water switch -/

/-- Throttle exactly when listening and above the high-water mark; resume exactly when throttled
    and at or below the low-water mark; otherwise nothing changes. -/
theorem switch_spec (listening : Bool) (len high low : Nat) :
    (endOfBatch listening len high low = (false, .throttle) ↔ (listening = true ∧ high < len)) ∧
    (endOfBatch listening len high low = (true, .resume) ↔ (listening = false ∧ len ≤ low)) ∧
    ((endOfBatch listening len high low).2 = .none → (endOfBatch listening len high low).1 = listening) := by
  unfold endOfBatch
  cases listening <;> by_cases h1 : len > high <;> by_cases h2 : len ≤ low <;> simp [h1, h2]

/-- HYSTERESIS: with `low ≤ high` the switch never throttles and resumes at the same length, and
    between a throttle and the next resume the buffered amount has come down to `low`. -/
theorem hysteresis (len high low : Nat) (hlh : low ≤ high) :
    ¬((endOfBatch true len high low).2 = .throttle ∧ (endOfBatch false len high low).2 = .resume) := by
  unfold endOfBatch
  by_cases h1 : len > high <;> by_cases h2 : len ≤ low <;> simp [h1, h2]
  omega

/-- While throttled the buffered amount can only grow by what channel 0 and the I/O thread itself
    append: a handler run for a non-zero channel cannot happen (no event), and the switch keeps
    the connection throttled until the transport has drained the buffer to the low-water mark. -/
theorem stays_throttled_until_drained (c : Conn) (high low : Nat) (hlen : low < c.out.length) :
    applyEndOfBatch c false high low = (c, false) := by
  have h : ¬ c.out.length ≤ low := by omega
  unfold applyEndOfBatch endOfBatch
  simp [h]

example : endOfBatch true 2001 2000 0 = (false, .throttle) ∧ endOfBatch false 1 2000 0 = (false, .none) ∧
    endOfBatch false 0 2000 0 = (true, .resume) := by decide

end AmqModel.Props.C18
