import AmqModel.Model.ConnRun
import AmqModel.Lemmas.Conn
import AmqModel.Lemmas.ConnC11
/-!
# C11 — a consumer ends with exactly one terminal message and nothing after it

Property theorems only.  The reachable-state invariant about consumer queues (`Conn.InvC`), its
preservation by every operation and the computation lemmas for the table of causes live in
`AmqModel/Lemmas/ConnC11.lean`.  All four "over every history" theorems hold as stated; they do
not even need the `ApiLegal` hypothesis (`invC_reachable` holds for every operation list).
-/
namespace AmqModel.Props.C11
open AmqModel.Conn AmqModel.Collector

def isTerminal : CMsg → Bool
  | .delivery .. => false
  | _ => true

/-- Consumer queue `qid` is registered in some channel's consumer table. -/
def InTable (c : Conn) (qid : Nat) : Prop :=
  ∃ n slot tag, lookupN n c.slots = some slot ∧ (tag, qid) ∈ slot.consumers

/-- The two definitions above are the ones the lemma file works with. -/
theorem isTerminal_eq : isTerminal = CMsg.isTerm := by
  funext m; cases m <;> rfl

theorem inTable_iff (c : Conn) (qid : Nat) : InTable c qid ↔ Conn.InTable c qid := Iff.rfl

/-! ### The table of causes: each removal sends exactly the message naming its cause -/

/-- CancelOk (the server confirms the client's cancel): reply to the caller, then ClientCancelled
    to the consumer, whose sender is dropped; the entry leaves the table. -/
theorem cancel_ok_terminal (c : Conn) (n : Nat) (slot : Slot) (tag dc df : Bytes) (qid : Nat) (q : CQ)
    (hs : c.st = .steady) (hn : n ≠ 0) (hslot : lookupN n c.slots = some slot)
    (hc : lookupB tag slot.consumers = some qid) (hq : lookupN qid c.cqs = some q) (hrx : q.rxAlive = true)
    (halive : (getLink c slot.lid).clientAlive = true) (hroom : (getLink c slot.lid).replies.length < 2) :
    let r := process c (.method n 60 31 [.bytes tag]) dc df
    r.2 = none ∧
    lookupN qid r.1.cqs = some { q with msgs := q.msgs ++ [.clientCancelled], txAlive := false } ∧
    (∃ s', lookupN n r.1.slots = some s' ∧ lookupB tag s'.consumers = none) ∧
    (getLink r.1 slot.lid).replies = (getLink c slot.lid).replies ++ [.method 60 31 [.bytes tag]] :=
  process_cancelOk_spec c n slot tag dc df qid q hs hn hslot hc hq hrx halive hroom

/-- Server cancel: ServerCancelled to the consumer (sender dropped, entry removed), answered with
    CancelOk on the wire unless the server said nowait. -/
theorem server_cancel_terminal (c : Conn) (n : Nat) (slot : Slot) (tag dc df : Bytes) (nowait : Bool) (qid : Nat) (q : CQ)
    (hs : c.st = .steady) (hn : n ≠ 0) (hslot : lookupN n c.slots = some slot)
    (hc : lookupB tag slot.consumers = some qid) (hq : lookupN qid c.cqs = some q) (hrx : q.rxAlive = true) :
    let r := process c (.method n 60 30 [.bytes tag, .bool nowait]) dc df
    r.2 = none ∧
    lookupN qid r.1.cqs = some { q with msgs := q.msgs ++ [.serverCancelled], txAlive := false } ∧
    (∃ s', lookupN n r.1.slots = some s' ∧ lookupB tag s'.consumers = none) ∧
    r.1.out = (if c.sealed || nowait then c.out else c.out ++ basicCancelOk n tag) :=
  process_cancel_spec c n slot tag dc df nowait qid q hs hn hslot hc hq hrx

/-- A server cancel for a tag nobody holds sends nothing to anybody (but is still answered). -/
theorem server_cancel_unknown_tag (c : Conn) (n : Nat) (slot : Slot) (tag dc df : Bytes) (nowait : Bool)
    (hs : c.st = .steady) (hn : n ≠ 0) (hslot : lookupN n c.slots = some slot)
    (hc : lookupB tag slot.consumers = none) :
    let r := process c (.method n 60 30 [.bytes tag, .bool nowait]) dc df
    r.2 = none ∧ r.1.cqs = c.cqs ∧ r.1.out = (if c.sealed || nowait then c.out else c.out ++ basicCancelOk n tag) :=
  process_cancel_unknown_spec c n slot tag dc df nowait hs hn hslot hc

/-- Channel.CloseOk (the client closed the channel): every consumer of the channel receives
    ClientClosedChannel as its last message. -/
theorem chan_close_ok_terminal (c : Conn) (n : Nat) (fields : List Field) (dc df : Bytes) (slot : Slot)
    (hs : c.st = .steady) (hn : n ≠ 0) (hslot : lookupN n c.slots = some slot)
    (halive : (getLink c slot.lid).clientAlive = true) (hroom : (getLink c slot.lid).replies.length < 2)
    (hcons : ∀ p ∈ slot.consumers, ∃ q, lookupN p.2 c.cqs = some q ∧ q.rxAlive = true)
    (hnodup : (slot.consumers.map (·.2)).Nodup) :
    (process c (.method n 20 41 fields) dc df).2 = none ∧
    ∀ p ∈ slot.consumers, ∀ q, lookupN p.2 c.cqs = some q →
      lookupN p.2 (process c (.method n 20 41 fields) dc df).1.cqs =
        some { q with msgs := q.msgs ++ [.clientClosedChannel], txAlive := false } :=
  process_closeOk_spec c n fields dc df slot hs hn hslot halive hroom hcons hnodup

/-- The notification loop used by every close: each consumer in the list gets the message once,
    at the end of its queue, and its sender is dropped. -/
theorem notify_spec (msg : CMsg) (c : Conn) (consumers : List (Bytes × Nat))
    (hcons : ∀ p ∈ consumers, ∃ q, lookupN p.2 c.cqs = some q ∧ q.rxAlive = true)
    (hnodup : (consumers.map (·.2)).Nodup) :
    (notifyConsumers msg c consumers).2 = none ∧
    (∀ p ∈ consumers, ∀ q, lookupN p.2 c.cqs = some q →
      lookupN p.2 (notifyConsumers msg c consumers).1.cqs = some { q with msgs := q.msgs ++ [msg], txAlive := false }) ∧
    (∀ qid, qid ∉ consumers.map (·.2) → lookupN qid (notifyConsumers msg c consumers).1.cqs = lookupN qid c.cqs) :=
  notifyConsumers_spec msg c consumers hcons hnodup

/-- The client's cancel request itself (an opaque buffer to the I/O thread) removes nothing: until
    CancelOk arrives deliveries for the tag are still delivered. -/
theorem cancel_request_keeps_consumer (c : Conn) (n : Nat) (bytes : Bytes) :
    (processChannelMessage c n (.send bytes)).1.slots = c.slots ∧
    (processChannelMessage c n (.send bytes)).1.cqs = c.cqs :=
  pcm_send_keeps c n bytes

/-! ### Over every history -/

-- The legality hypotheses `hl` / `ho` are part of the stated theorems but are not needed: the
-- consumer invariant holds after every operation list.
set_option linter.unusedVariables false

/-- A consumer's sender is alive exactly while its entry is in a consumer table. -/
theorem alive_iff_in_table (cm b : Nat) (ops : List Op) (hl : ∀ o ∈ ops, ApiLegal o) (qid : Nat) (q : CQ)
    (hq : lookupN qid (run (init cm b) ops).cqs = some q) :
    q.txAlive = true ↔ InTable (run (init cm b) ops) qid :=
  (invC_reachable cm b ops).alive_iff hq

/-- While the entry is in the table, no terminal message has been sent. -/
theorem no_terminal_while_registered (cm b : Nat) (ops : List Op) (hl : ∀ o ∈ ops, ApiLegal o) (qid : Nat) (q : CQ)
    (hq : lookupN qid (run (init cm b) ops).cqs = some q) (ha : q.txAlive = true) :
    ∀ m ∈ q.msgs, isTerminal m = false := by
  rw [isTerminal_eq]
  exact (invC_reachable cm b ops).no_terminal hq ha

/-- Once the sender is gone the queue holds at most one terminal message, and it is the last
    message; nothing is ever added afterwards (messages only leave by being received). -/
theorem at_most_one_terminal_and_last (cm b : Nat) (ops : List Op) (hl : ∀ o ∈ ops, ApiLegal o) (qid : Nat) (q : CQ)
    (hq : lookupN qid (run (init cm b) ops).cqs = some q) :
    ((q.msgs.filter isTerminal).length ≤ 1) ∧
    (∀ pre m post, q.msgs = pre ++ m :: post → isTerminal m = true → post = []) := by
  rw [isTerminal_eq]
  exact (invC_reachable cm b ops).terminal_last hq

theorem nothing_after_sender_dropped (cm b : Nat) (ops : List Op) (hl : ∀ o ∈ ops, ApiLegal o) (o : Op) (ho : ApiLegal o)
    (qid : Nat) (q : CQ) (hq : lookupN qid (run (init cm b) ops).cqs = some q) (hd : q.txAlive = false) :
    ∃ q', lookupN qid (step (run (init cm b) ops) o).cqs = some q' ∧ q'.txAlive = false ∧ ∃ k, q'.msgs = q.msgs.drop k :=
  (invC_reachable cm b ops).dead_stays o hq hd

end AmqModel.Props.C11
