import AmqModel.Model.Heartbeat
import AmqModel.Model.Tune
/-!
# C17 — heartbeats: sent when idle, enforced on the server, off when 0

Times are milliseconds on a monotone clock.  `ε` is the lateness of the timer (A4): a timeout due
at `d` is delivered at some time in `[d, d + ε]`.  The real mio-extras wheel can also deliver up
to half a tick EARLY; `not_early` below does not depend on when the timer fires at all, which is
why an early delivery can never produce an early expiry.
-/
namespace AmqModel.Props.C17
open AmqModel.Heartbeat

/-- `fire` when the interval has elapsed (up to the fudge). -/
theorem fire_due (h : Hb) (now : Nat) (hc : h.interval ≤ (now - h.last) + FUDGE) :
    fire h now = ({ h with dueAt := now + h.interval }, .expired) := by
  unfold fire
  simp only
  rw [if_pos hc]

/-- `fire` when it has not. -/
theorem fire_not_due (h : Hb) (now : Nat) (hc : ¬ h.interval ≤ (now - h.last) + FUDGE) :
    fire h now = ({ h with dueAt := now + (h.interval - (now - h.last)) }, .stillRunning) := by
  unfold fire
  simp only
  rw [if_neg hc]

/-- NOT BEFORE. Whenever `fire` reports Expired, at least `interval − 5 ms` have passed since the
    last recorded activity — whatever the time at which the timer was delivered. -/
theorem not_early (h : Hb) (now : Nat) (he : (fire h now).2 = .expired) :
    h.interval ≤ (now - h.last) + FUDGE := by
  by_cases hc : h.interval ≤ (now - h.last) + FUDGE
  · exact hc
  · rw [fire_not_due h now hc] at he
    cases he

/-- … and conversely that much silence always gives Expired. -/
theorem expires_when_due (h : Hb) (now : Nat) (hd : h.interval ≤ (now - h.last) + FUDGE) :
    (fire h now).2 = .expired := by
  rw [fire_due h now hd]

/-- Re-arming: for the full interval after an expiry, for exactly the remaining time otherwise —
    so the armed timeout is never due later than `last + interval` (no drift, no underflow). -/
theorem rearm (h : Hb) (now : Nat) (hl : h.last ≤ now) :
    ((fire h now).2 = .expired → (fire h now).1.dueAt = now + h.interval) ∧
    ((fire h now).2 = .stillRunning → (fire h now).1.dueAt = h.last + h.interval) ∧
    (fire h now).1.last = h.last ∧ (fire h now).1.interval = h.interval := by
  by_cases hc : h.interval ≤ (now - h.last) + FUDGE
  · rw [fire_due h now hc]
    exact ⟨fun _ => rfl, fun h' => (by cases h'), rfl, rfl⟩
  · rw [fire_not_due h now hc]
    refine ⟨fun h' => (by cases h'), fun _ => ?_, rfl, rfl⟩
    simp only [FUDGE] at hc ⊢
    omega

/-- Activity only moves `last`. -/
theorem record_spec (h : Hb) (now : Nat) :
    (record h now).last = now ∧ (record h now).interval = h.interval ∧ (record h now).dueAt = h.dueAt := ⟨rfl, rfl, rfl⟩

/-- PROMPTLY AFTER. If nothing is recorded after time `a` and the armed timeout is due no later
    than `a + interval`, then with a timer that delivers within `ε` of the due time an Expired
    verdict comes by `a + interval + ε`: at the first delivery, or at the second. -/
theorem prompt (h : Hb) (a ε t1 : Nat) (hl : h.last = a) (hdue : h.dueAt ≤ a + h.interval)
    (ht1 : h.dueAt ≤ t1 ∧ t1 ≤ h.dueAt + ε) (ha : a ≤ t1) :
    ((fire h t1).2 = .expired ∧ t1 ≤ a + h.interval + ε) ∨
    ((fire h t1).2 = .stillRunning ∧
      ∀ t2, (fire h t1).1.dueAt ≤ t2 → t2 ≤ (fire h t1).1.dueAt + ε →
        (fire (fire h t1).1 t2).2 = .expired ∧ t2 ≤ a + h.interval + ε) := by
  obtain ⟨l, i, d⟩ := h
  simp only at hl hdue ht1 ⊢
  subst hl
  by_cases hc : i ≤ (t1 - l) + FUDGE
  · left
    rw [fire_due _ t1 hc]
    exact ⟨rfl, by omega⟩
  · right
    rw [fire_not_due _ t1 hc]
    refine ⟨rfl, ?_⟩
    intro t2 h1 h2
    simp only [FUDGE] at hc h1 h2
    rw [fire_due _ t2 (by simp only [FUDGE]; omega)]
    exact ⟨rfl, by omega⟩

/-- ANY TRAFFIC IS LIVENESS. If at the moment the timer is delivered the last recorded activity
    is at most `g` old and `g + 5 < interval`, the verdict is StillRunning. -/
theorem alive (h : Hb) (now g : Nat) (hg : now - h.last ≤ g) (hi : g + FUDGE < h.interval) :
    (fire h now).2 = .stillRunning := by
  rw [fire_not_due h now (by simp only [FUDGE] at hi ⊢; omega)]

/-- The connection's two timers: the server is given 2 h, the client sends after h. -/
theorem rx_tx_intervals (now h : Nat) :
    (startRxTx now h).rx.interval = 2 * h ∧ (startRxTx now h).tx.interval = h ∧
    (startRxTx now h).rx.last = now ∧ (startRxTx now h).tx.last = now ∧
    (startRxTx now h).rx.dueAt = now + 2 * h ∧ (startRxTx now h).tx.dueAt = now + h := ⟨rfl, rfl, rfl, rfl, rfl, rfl⟩

/-- ENFORCED ON THE SERVER: MissedServerHeartbeats is raised only after `2h − 5 ms` without a
    byte from the server, and a server heard from within the last `h` ms (h > 5) is never
    declared dead. -/
theorem rx_enforced (p : RxTx) (h now : Nat) (hi : p.rx.interval = 2 * h) :
    ((fireRx p now).2 = .missedServerHeartbeats → 2 * h ≤ (now - p.rx.last) + FUDGE) ∧
    (now - p.rx.last ≤ h → FUDGE < h → (fireRx p now).2 = .none) ∧
    ((fireRx p now).2 = .none ∨ (fireRx p now).2 = .missedServerHeartbeats) := by
  by_cases hc : p.rx.interval ≤ (now - p.rx.last) + FUDGE
  · have hf : (fireRx p now).2 = .missedServerHeartbeats := by
      unfold fireRx
      rw [fire_due _ now hc]
    rw [hf]
    refine ⟨fun _ => (by omega), fun h1 h2 => ?_, Or.inr rfl⟩
    simp only [FUDGE] at hc h2
    omega
  · have hf : (fireRx p now).2 = .none := by
      unfold fireRx
      rw [fire_not_due _ now hc]
    rw [hf]
    exact ⟨fun h' => (by cases h'), fun _ _ => rfl, Or.inl rfl⟩

/-- SENT WHEN IDLE: a heartbeat frame is queued exactly when the tx timer expires and nothing else
    is waiting to be written; never while data is queued, never before `h − 5 ms` of write silence. -/
theorem tx_when_idle (p : RxTx) (h now : Nat) (outEmpty : Bool) (hi : p.tx.interval = h) :
    ((fireTx p now outEmpty).2 = .pushHeartbeat ↔ (h ≤ (now - p.tx.last) + FUDGE ∧ outEmpty = true)) ∧
    ((fireTx p now outEmpty).2 = .pushHeartbeat ∨ (fireTx p now outEmpty).2 = .none) := by
  subst hi
  by_cases hc : p.tx.interval ≤ (now - p.tx.last) + FUDGE
  · have hf : (fireTx p now outEmpty).2 = if outEmpty then .pushHeartbeat else .none := by
      unfold fireTx
      rw [fire_due _ now hc]
    rw [hf]
    cases outEmpty
    · exact ⟨⟨fun h' => (by cases h'), fun h' => (by cases h'.2)⟩, Or.inr rfl⟩
    · exact ⟨⟨fun _ => ⟨hc, rfl⟩, fun _ => rfl⟩, Or.inl rfl⟩
  · have hf : (fireTx p now outEmpty).2 = .none := by
      unfold fireTx
      rw [fire_not_due _ now hc]
    rw [hf]
    exact ⟨⟨fun h' => (by cases h'), fun h' => absurd h'.1 hc⟩, Or.inr rfl⟩

/-- OFF WHEN 0: no timers are created for a negotiated heartbeat of 0 (and 0 is what either side
    saying 0 negotiates: C15.heartbeat_enabled_iff). -/
theorem zero_disables : Tune.heartbeatsEnabled 0 = false ∧ ∀ n, 0 < n → Tune.heartbeatsEnabled n = true := by
  refine ⟨rfl, fun n hn => ?_⟩
  simp only [Tune.heartbeatsEnabled, decide_eq_true_eq]
  exact hn

/-- A concrete trace: interval 300, activity at 100; timer delivered at 300 → running (re-armed
    for 400); delivered at 400 → expired. -/
example : (fire ((record (start 0 300) 100)) 300).2 = .stillRunning ∧
    (fire (fire ((record (start 0 300) 100)) 300).1 400).2 = .expired ∧
    (fire ((record (start 0 300) 100)) 300).1.dueAt = 400 := by decide

end AmqModel.Props.C17
