import AmqModel.Model.ConnRun
import AmqModel.Props.C06
import AmqModel.Props.C08
import AmqModel.Lemmas.ConnC01
/-!
# C01 — outbound byte stream is the protocol header plus whole frames, in order

In this model the protocol header and the handshake frames have been written already (`init`
starts with an empty output buffer, as `Machine::new` does); C16 shows the header comes first.
`Whole bs` says a byte string is a concatenation of complete envelopes: the peer's splitter
(`FrameBuffer.framesOf`, the segmentation-free reference of C06) consumes it entirely.

Property theorems only; helper lemmas live in `AmqModel/Lemmas/ConnC01.lean` (`WholeB` there is
`Whole` here; `wstep` there is `stepW` here).
-/
namespace AmqModel.Props.C01
open AmqModel.Conn AmqModel.FrameBuffer

def Whole (bs : Bytes) : Prop := (framesOf (fun _ => true) bs).2.1 = []

theorem whole_nil : Whole [] := wholeB_nil

/-- Concatenating whole-frame strings gives a whole-frame string: frames interleave only at frame
    boundaries by construction. -/
theorem whole_append (a b : Bytes) (ha : Whole a) (hb : Whole b) : Whole (a ++ b) :=
  wholeB_append ha hb

/-- … and the frames of the concatenation are the frames of the parts, in order. -/
theorem frames_of_append (a b : Bytes) (ha : Whole a) :
    (framesOf (fun _ => true) (a ++ b)).1 = (framesOf (fun _ => true) a).1 ++ (framesOf (fun _ => true) b).1 := by
  rw [framesOf_append_whole a b ha]

/-- Every frame the I/O thread itself produces is exactly one envelope. -/
theorem io_frames_whole :
    Whole heartbeatFrame ∧ Whole connectionCloseOk ∧
    (∀ n, n < 65536 → Whole (channelCloseOk n)) ∧
    (∀ n tag, n < 65536 → tag.length ≤ 255 → Whole (basicCancelOk n tag)) ∧
    (∀ code text, text.length ≤ 255 → Whole (connectionClose code text)) :=
  ⟨wholeB_heartbeat, wholeB_connectionCloseOk, fun n _ => wholeB_channelCloseOk n,
    fun n tag _ h => wholeB_basicCancelOk n tag h, fun code text h => wholeB_connectionClose code text h⟩
-- NOTE: `be16`/`be32` produce digits `< 256` by construction (`% 256`), and
-- `encMethod ch cls mid args` has size field `4 + args.length`, which must be `< 2^32` for the
-- four size bytes to read back; all args here are ≤ 263 bytes.

/-- NO BYTE LOST, DUPLICATED OR REORDERED by the write loop, whatever the transport does (short
    writes, would-block at any offset): what it took followed by what stays buffered is what was
    buffered. -/
theorem write_conserves (c : Conn) (h : (writeToStream c).2.2 = none) :
    (writeToStream c).2.1 ++ (writeToStream c).1.out = c.out := by
  obtain ⟨k, h1, h2, _⟩ := writeToStream_wrote c
  rw [h1, h2 h, List.take_append_drop]

/-- PER-HANDLE ORDER. When the I/O thread looks at a channel's queue it appends the submitted
    buffers to the outbound data in submission order, contiguously (one handler run is atomic). -/
theorem drain_appends_in_order (c : Conn) (n : Nat) (slot : Slot) (bufs : List Bytes)
    (hn : n ≠ 0) (hslot : lookupN n c.slots = some slot) (hseal : c.sealed = false)
    (hf : (getLink c slot.lid).fifo = bufs.map Msg.send) (hca : (getLink c slot.lid).clientAlive = true) :
    (handleEvent c (.chan n)).2.2 = none ∧
    (handleEvent c (.chan n)).1.out = c.out ++ bufs.flatten ∧
    (getLink (handleEvent c (.chan n)).1 slot.lid).fifo = [] := by
  rw [handleEvent_chan_slot hn hslot, hf, List.length_map]
  exact drain_sends bufs c n slot hn hslot hseal hf hca

/-- Every step changes the outbound buffer only by taking bytes off its front (to the transport)
    and appending at its end. -/
theorem out_changes_only_at_the_ends (c : Conn) (o : Op) :
    ∃ k t, (step c o).out = c.out.drop k ++ t :=
  step_out_shape c o

/-- The stream handed to the transport, accumulated over a run. -/
def stepW (s : Conn × Bytes) (o : Op) : Conn × Bytes :=
  match o with
  | .io io => ((ioStep s.1 io).1, s.2 ++ ((ioStep s.1 io).2.wrote.getD []))
  | other => (step s.1 other, s.2)

def runW (c : Conn) (ops : List Op) : Conn × Bytes := ops.foldl stepW (c, [])

/-- What the environment must respect: clients submit whole frames (serialize.rs builds them), and
    the strings the server puts in frames the client echoes are AMQP short strings. -/
def ClientWhole (ops : List Op) : Prop :=
  ∀ o ∈ ops, ∀ label b, (o = .client (.send label (.send b)) ∨ o = .client (.send label (.connectionClose b))) → Whole b

def ServerStringsShort (ops : List Op) : Prop :=
  ∀ o ∈ ops, ∀ d, o = .decl d → ∀ ch cls mid fs, d.frame = some (.method ch cls mid fs) →
    ch < 65536 ∧ (∀ f ∈ fs, ∀ bs, f = .bytes bs → bs.length ≤ 255) ∧ d.dbgClass.length + d.dbgFrame.length < 4000000000

/-- `stepW` is the accumulated-wire step of the lemma library. -/
theorem stepW_eq_wstep : stepW = wstep := by
  funext s o
  cases o <;> rfl

/-- The environment hypotheses, operation by operation. -/
theorem opOk_of_env (ops : List Op) (hw : ClientWhole ops) (hs : ServerStringsShort ops) :
    ∀ o ∈ ops, OpOk WholeB o := by
  intro o ho
  cases o with
  | client co =>
    cases co with
    | send label m =>
      cases m with
      | send b => exact hw _ ho label b (Or.inl rfl)
      | connectionClose b => exact hw _ ho label b (Or.inr rfl)
      | _ => trivial
    | _ => trivial
  | decl d =>
    intro f hf
    apply frameOk_of_short
    intro ch cls mid fs e
    subst e
    exact (hs _ ho d rfl ch cls mid fs hf).2.1
  | _ => trivial

/-- The wire invariant of the lemma library holds after every run from `init`. -/
theorem wireInv_runW (cm b : Nat) (ops : List Op) (hw : ClientWhole ops) (hs : ServerStringsShort ops) :
    WireInv (runW (init cm b) ops).2 (runW (init cm b) ops).1 := by
  unfold runW
  rw [stepW_eq_wstep]
  exact wire_wrun ops (init cm b, []) (wireInv_init cm b) (opOk_of_env ops hw hs)

set_option linter.unusedVariables false in
/-- WIRE INVARIANT, over every history (any number of channels and client threads' submissions,
    any transport behaviour, any inbound frames): as long as the loop is alive, the bytes handed
    to the transport followed by the bytes still buffered are a concatenation of whole frames. -/
theorem wire_is_whole_frames (cm b : Nat) (ops : List Op) (hcm : cm < 65536)
    (hl : ∀ o ∈ ops, ApiLegal o) (hw : ClientWhole ops) (hs : ServerStringsShort ops) :
    (runW (init cm b) ops).1.dead = false →
    Whole ((runW (init cm b) ops).2 ++ (runW (init cm b) ops).1.out) := by
  intro hd
  obtain ⟨rest, h1, h2⟩ := (wireInv_runW cm b ops hw hs).rest
  rw [← h2 hd]
  exact h1
-- NOTE: no side condition had to be added. `hcm` and `hl` are not used: the channel id of every
-- frame the I/O thread answers comes from the declared frame (`ServerStringsShort` bounds it, and
-- the size fields read back for any id anyway), and `legacy = false` holds for `init cm b` and is
-- preserved by every step.

set_option linter.unusedVariables false in
/-- After the loop has died the transport has still only received a prefix of a whole-frame stream. -/
theorem wire_prefix_after_death (cm b : Nat) (ops : List Op) (hcm : cm < 65536)
    (hl : ∀ o ∈ ops, ApiLegal o) (hw : ClientWhole ops) (hs : ServerStringsShort ops) :
    ∃ rest, Whole ((runW (init cm b) ops).2 ++ rest) := by
  obtain ⟨rest, h1, _⟩ := (wireInv_runW cm b ops hw hs).rest
  exact ⟨rest, h1⟩

example : (framesOf (fun _ => true) (channelCloseOk 3 ++ heartbeatFrame)).2.1 = [] := by decide

end AmqModel.Props.C01
