import AmqModel.Model.Conn
namespace AmqModel.Props.C20
open AmqModel.Conn

theorem placeholder : (Conn.init 1 1).dead = false := rfl

end AmqModel.Props.C20
