import AmqModel.Model.ConnRun
import AmqModel.Lemmas.Conn
/-!
# C20 — simultaneous closes and requests never panic; they resolve as some serial order

`Conn` is the I/O thread of an established connection together with every queue that ties it to
client threads; `run (init cm b) ops` ranges over every reachable state (any number of channels,
consumers, listeners, any interleaving of client queue operations, inbound frames, events,
transport behaviour).  A *batch* of poll events is a list of `IoOp.event`s handled one after
another — which is literally what `for event in events.iter() { handle_event(..)? }` does — so a
statement about one event from an arbitrary reachable state covers batches of any length and
order (reachable states are closed under `step`).

Property theorems only; the reachable-state invariant `Conn.Inv` and every helper lemma live in
`AmqModel/Lemmas/Conn.lean`.
-/
namespace AmqModel.Props.C20
open AmqModel.Conn

/-- No event, in any reachable state, panics the I/O thread; nor does the `is_done` assert fire. -/
theorem batch_no_panic (cm b : Nat) (ops : List Op) (hl : ∀ o ∈ ops, ApiLegal o) (t : Token) :
    (ioStep (run (init cm b) ops) (.event t)).2.err ≠ some .panic ∧
    (ioStep (run (init cm b) ops) .done).2.done ≠ some none :=
  ⟨ioStep_event_no_panic (inv_reachable cm b ops hl) t,
   ioStep_done_no_assert (inv_reachable cm b ops hl)⟩

/-- Handling a batch is handling its events one after another (definitionally a fold), and the
    state after any prefix is again a reachable state. -/
theorem batch_is_serial (c : Conn) (e : Token) (es : List Token) :
    run c ((e :: es).map (fun t => Op.io (.event t))) =
      run (run c [Op.io (.event e)]) (es.map (fun t => Op.io (.event t))) := rfl

/-- An event whose source was dropped earlier in the batch (the channel-0 slot once the
    connection is no longer steady) is the identity: exactly the serial order in which that
    request arrives after the close, its sender observing the disconnected queue. -/
theorem stale_ch0_event_is_noop (c : Conn) (hl : c.legacy = false) (h : c.st ≠ .steady) :
    handleEvent c .alloc = (c, [], none) ∧ handleEvent c .setBlocked = (c, [], none) ∧
    handleEvent c (.chan 0) = (c, [], none) :=
  ⟨handleEvent_alloc_nonsteady hl h, handleEvent_setBlocked_nonsteady hl h,
   handleEvent_chan0_nonsteady hl h⟩

/-- … and so is an event for a non-zero channel whose slot is gone. -/
theorem stale_channel_event_is_noop (c : Conn) (n : Nat) (hn : n ≠ 0) (h : lookupN n c.slots = none) :
    handleEvent c (.chan n) = (c, [], none) :=
  handleEvent_chan_noslot hn h

/-- Once the slot is gone the request's sender observes the disconnected queue. -/
theorem request_after_close_fails (c : Conn) (label : Label) (lid : Nat) (m : Msg)
    (hh : lookupS label c.handles = some lid) (hd : (getLink c lid).ioAlive = false) :
    (clientSend c label m).2 = .disconnected ∧ (clientSend c label m).1 = c :=
  clientSend_disconnected hh hd m

/-- Processing the server's Connection.Close in a steady state: CloseOk is queued (unless writes
    were already sealed), writes are sealed, the state records the server's code and text. -/
theorem server_close_recorded (c : Conn) (code : Nat) (text dc df : Bytes) (hs : c.st = .steady) :
    let r := process c (.method 0 10 50 [.nat code, .bytes text]) dc df
    r.1.st = .serverClosing code text ∧ r.1.sealed = true ∧
    r.1.out = (if c.sealed then c.out else c.out ++ connectionCloseOk) ∧ r.1.slots = [] :=
  process_serverClose hs code text dc df

/-
`close_still_reported` is FALSE as stated in the task:

    theorem close_still_reported (c : Conn) (code : Nat) (text : Bytes) (o : IoOp)
        (hl : c.legacy = false) (hd : c.dead = false)
        (hst : c.st = .serverClosing code text) (hs : c.sealed = true) (hsl : c.slots = []) :
        let r := ioStep c o
        (r.2.err = none → (o ≠ .kill → r.1.dead = false) ∧ (r.1.st = .serverClosing code text ∧ r.1.sealed = true ∧ r.1.slots = []) ∧
            ∃ k, r.1.out = c.out.drop k) ∧
        (∀ e, r.2.err = some e →
            e = .ioErrorWritingSocket ∨ e = .ioErrorReadingSocket ∨ e = .unexpectedSocketClose ∨ e = .malformedFrame)

Counterexample (second conjunct): `o = .frame bytes` for bytes the harness never declared
(`declOf c bytes = none`) ends the loop with `modelBadInput` in *every* state — this is the model's
own "malformed case file" error (`processBytes`), not a behaviour of the client.  The state below
is reachable (`init`, then the server's Connection.Close), the op is `ApiLegal`.
-/

/-- The counterexample state: `init`, then the server's Connection.Close is processed. -/
def cex : Conn := (process (Conn.init 4 4) (.method 0 10 50 [.nat 320, .bytes []]) [] []).1

example : cex.legacy = false ∧ cex.dead = false ∧ cex.st = .serverClosing 320 [] ∧
    cex.sealed = true ∧ cex.slots = [] := by decide
example : (ioStep cex (.frame [])).2.err = some .modelBadInput := by decide
example : ¬ (∀ e, (ioStep cex (.frame [])).2.err = some e →
    e = .ioErrorWritingSocket ∨ e = .ioErrorReadingSocket ∨ e = .unexpectedSocketClose ∨
      e = .malformedFrame) := by
  intro h
  have := h .modelBadInput (by decide)
  revert this; decide

/-- After the server's close, nothing takes the close away: every later I/O step (any event,
    frame, write, …) either leaves the state `ServerClosing code text` with writes sealed and the
    output buffer only shrinking, or ends the loop with a *transport* error; it is never replaced
    by a protocol error and never panics.  Hence `Connection::close` still reports the server's
    close.

    Strongest true variant of the stated `close_still_reported`: the only further error is the
    model's own `modelBadInput`, and only for an `IoOp.frame` whose bytes were never declared. -/
theorem close_still_reported_partial (c : Conn) (code : Nat) (text : Bytes) (o : IoOp)
    (hl : c.legacy = false) (hd : c.dead = false)
    (hst : c.st = .serverClosing code text) (hs : c.sealed = true) (hsl : c.slots = []) :
    let r := ioStep c o
    (r.2.err = none → (o ≠ .kill → r.1.dead = false) ∧ (r.1.st = .serverClosing code text ∧ r.1.sealed = true ∧ r.1.slots = []) ∧
        ∃ k, r.1.out = c.out.drop k) ∧
    (∀ e, r.2.err = some e →
        e = .ioErrorWritingSocket ∨ e = .ioErrorReadingSocket ∨ e = .unexpectedSocketClose ∨ e = .malformedFrame ∨
        (e = .modelBadInput ∧ ∃ bytes, o = .frame bytes ∧ declOf c bytes = none)) := by
  intro r
  have hns : c.st ≠ .steady := by rw [hst]; intro e; cases e
  obtain ⟨h1, h2⟩ := ioStep_closed hl hd hns hs hsl o
  refine ⟨fun he => ?_, fun e he => ?_⟩
  · obtain ⟨a, ⟨b1, b2, b3⟩, k⟩ := h1 he
    exact ⟨a, ⟨b1.trans hst, b2, b3⟩, k⟩
  · rcases h2 e he with ht | hm
    · rcases (Err.isTransport_iff e).mp ht with h | h | h | h
      · exact Or.inl h
      · exact Or.inr (Or.inl h)
      · exact Or.inr (Or.inr (Or.inl h))
      · exact Or.inr (Or.inr (Or.inr (Or.inl h)))
    · exact Or.inr (Or.inr (Or.inr (Or.inr hm)))

/-- The statement as given holds for every step other than feeding undeclared bytes, i.e. for
    everything the real I/O thread can meet (a frame reaches `process` only after `parse_frame`
    produced it, which is what a declaration stands for). -/
theorem close_still_reported_declared (c : Conn) (code : Nat) (text : Bytes) (o : IoOp)
    (hl : c.legacy = false) (hd : c.dead = false)
    (hst : c.st = .serverClosing code text) (hs : c.sealed = true) (hsl : c.slots = [])
    (hdecl : ∀ bytes, o = .frame bytes → declOf c bytes ≠ none) :
    let r := ioStep c o
    (r.2.err = none → (o ≠ .kill → r.1.dead = false) ∧ (r.1.st = .serverClosing code text ∧ r.1.sealed = true ∧ r.1.slots = []) ∧
        ∃ k, r.1.out = c.out.drop k) ∧
    (∀ e, r.2.err = some e →
        e = .ioErrorWritingSocket ∨ e = .ioErrorReadingSocket ∨ e = .unexpectedSocketClose ∨ e = .malformedFrame) := by
  intro r
  obtain ⟨h1, h2⟩ := close_still_reported_partial c code text o hl hd hst hs hsl
  refine ⟨h1, fun e he => ?_⟩
  rcases h2 e he with h | h | h | h | ⟨_, bytes, ho, hn⟩
  · exact Or.inl h
  · exact Or.inr (Or.inl h)
  · exact Or.inr (Or.inr (Or.inl h))
  · exact Or.inr (Or.inr (Or.inr h))
  · exact absurd hn (hdecl bytes ho)

/- Statement before the tolerance was narrowed to socket errors:

theorem server_close_not_replaced_by_read_error (c : Conn) (t : Token) (hl : c.legacy = false)
    (hs : c.st.isServerClosing = true) (hsl : c.slots = []) :
    (handleEvent c t).2.2 = none ∨ (handleEvent c t).2.2 = some .ioErrorWritingSocket

false since only the socket's own end / read error is forgiven after the server's close: an error
raised while bytes behind Connection.Close are processed is reported - counterexample (`cex` above:
`init`, then the server's Connection.Close; eight zero bytes are a whole frame no declaration knows):
  c := { cex with reads := [.chunk [0, 0, 0, 0, 0, 0, 0, 0]] },  t := .stream true false:
  (handleEvent c t).2.2 = some .malformedFrame   (checked by the `example` below). -/

/-- D19. After the server's close the socket's end or a read error never becomes the result of a
    poll event: what the socket itself does behind Connection.Close (end of stream, reset) is
    swallowed, the loop goes on to write CloseOk, and the server's code and text stay what
    `Connection::close` reports.  (Bytes behind the close that do not parse are forgiven too; what is
    NOT forgiven is an error raised while the Close itself is processed; a failing write of CloseOk
    is `ioErrorWritingSocket`.) -/
theorem server_close_not_replaced_by_read_error (c : Conn) (t : Token) (hl : c.legacy = false)
    (hs : c.st.isServerClosing = true) (hsl : c.slots = []) :
    (handleEvent c t).2.2 ≠ some .unexpectedSocketClose ∧
    (handleEvent c t).2.2 ≠ some .ioErrorReadingSocket ∧
    (handleEvent c t).2.2 ≠ some .malformedFrame := by
  have hst : c.st ≠ .steady := by
    intro h; rw [h] at hs; exact absurd hs (by decide)
  cases t with
  | heartbeat => rw [handleEvent_heartbeat]; exact ⟨by simp, by simp, by simp⟩
  | setBlocked => rw [handleEvent_setBlocked_nonsteady hl hst]; exact ⟨by simp, by simp, by simp⟩
  | alloc => rw [handleEvent_alloc_nonsteady hl hst]; exact ⟨by simp, by simp, by simp⟩
  | chan n =>
    by_cases hn : n = 0
    · subst hn; rw [handleEvent_chan0_nonsteady hl hst]; exact ⟨by simp, by simp, by simp⟩
    · rw [handleEvent_chan_noslot hn (by rw [hsl]; rfl)]; exact ⟨by simp, by simp, by simp⟩
  | stream r w => exact handleEvent_stream_serverClosing hl hs r w

/-- Bytes behind the server's close that do not parse are forgiven like the socket's end (second
    version of the fix). -/
example :
    let c : Conn := { cex with reads := [.chunk [0, 0, 0, 0, 0, 0, 0, 0]] }
    c.legacy = false ∧ c.st.isServerClosing = true ∧ c.slots = [] ∧
    (handleEvent c (.stream true false)).2.2 = none := by decide

/-- … while the socket's end and a read error behind the close are swallowed. -/
example : (handleEvent { cex with reads := [.eof] } (.stream true false)).2.2 = none ∧
    (handleEvent { cex with reads := [.ioErr] } (.stream true false)).2.2 = none := by decide

/- Statement before fix D17:

theorem exception_still_reported (c : Conn) (o : IoOp)
    (hl : c.legacy = false) (hd : c.dead = false) (hst : c.st = .clientException) (hs : c.sealed = true) :
    let r := ioStep c o
    (r.2.err = none → r.1.st = .clientException ∧ r.1.sealed = true ∧ ∃ k, r.1.out = c.out.drop k) ∧
    (∀ e, r.2.err = some e → e ≠ .panic ∧ e ≠ .frameUnexpected)

false since fix D17 for states no run can reach (a slot stored under key 0): the close preamble
visits every slot's queue under that slot's key - counterexample:
  c := { Conn.init 4 4 with st := .clientException, sealed := true,
         slots := [(0, { lid := 2 }), (1, { lid := 1 })],
         links := [(0, { chan := 0 }), (1, { chan := 1, fifo := [.connectionClose []] }),
                   (2, { chan := 0, fifo := [.setReturn none] })] },
  o := .event (.chan 1):  (ioStep c o).2.err = some .panic
(the Close popped from channel 1's queue makes `takeAllQueued` visit the slot stored under key 0,
whose queued `setReturn` meets the `n = 0` arm of `process_channel_message`). -/

/-- Same for a client-side protocol exception, in every state in which no slot is stored under
    channel id 0 (`hk`; `Conn.Inv.slot_ok` guarantees it for every reachable state, see
    `exception_still_reported_reachable`).  Nothing else of reachability is needed: a FIFO is only
    drained for a channel whose slot was just looked up, channel 0 is not drained at all outside
    `Steady`, and the close request's preamble (fix D17) drains every slot's queue under that slot's
    own - non-zero - key, so the `unreachable!`s of `process_channel_message` cannot be met. -/
theorem exception_still_reported (c : Conn) (o : IoOp)
    (hl : c.legacy = false) (hd : c.dead = false) (hst : c.st = .clientException) (hs : c.sealed = true)
    (hk : ∀ p ∈ c.slots, p.1 ≠ 0) :
    let r := ioStep c o
    (r.2.err = none → r.1.st = .clientException ∧ r.1.sealed = true ∧ ∃ k, r.1.out = c.out.drop k) ∧
    (∀ e, r.2.err = some e → e ≠ .panic ∧ e ≠ .frameUnexpected) := by
  intro r
  have hns : c.st ≠ .steady := by rw [hst]; intro e; cases e
  obtain ⟨h1, h2⟩ := ioStep_sealed hl hd hns hs o
  have h2 := h2 hk
  refine ⟨fun he => ?_, fun e he => ?_⟩
  · obtain ⟨a, b, k⟩ := h1 he
    exact ⟨a.trans hst, b, k⟩
  · rcases h2 e he with ht | h | h
    · rcases (Err.isTransport_iff e).mp ht with h | h | h | h <;> subst h <;>
        exact ⟨by simp, by simp⟩
    · subst h; exact ⟨by simp, by simp⟩
    · subst h; exact ⟨by simp, by simp⟩

/-- … in particular in every state with the reachable-state invariant (`Conn.inv_run`: every state
    reachable from `init` by `ApiLegal` operations has it), which also supplies `legacy = false`
    and the seal. -/
theorem exception_still_reported_reachable (c : Conn) (o : IoOp) (h : Conn.Inv c)
    (hd : c.dead = false) (hst : c.st = .clientException) :
    let r := ioStep c o
    (r.2.err = none → r.1.st = .clientException ∧ r.1.sealed = true ∧ ∃ k, r.1.out = c.out.drop k) ∧
    (∀ e, r.2.err = some e → e ≠ .panic ∧ e ≠ .frameUnexpected) :=
  exception_still_reported c o h.legacy hd hst (h.sealed_of_clientException hst) h.keysOk

/-- The state of the counterexample above (a slot stored under key 0) does meet the `unreachable!`;
    with the slot stored under a non-zero key nothing happens. -/
example :
    let c : Conn := { (Conn.init 4 4) with st := .clientException, sealed := true, slots := [(0, { lid := 2 }), (1, { lid := 1 })], links := [(0, { chan := 0 }), (1, { chan := 1, fifo := [.connectionClose []] }), (2, { chan := 0, fifo := [.setReturn none] })] }
    (ioStep c (.event (.chan 1))).2.err = some .panic := by
  simp [ioStep, handleEvent, drainFifo, Conn.init, lookupN, getLink, popFifo, setLink, setN,
    processChannelMessage, takeAllQueued, takeQueued, processPlainMessage, List.mergeSort, kill]
example :
    let c : Conn := { (Conn.init 4 4) with st := .clientException, sealed := true, slots := [(1, { lid := 1 }), (2, { lid := 2 })], links := [(0, { chan := 0 }), (1, { chan := 1, fifo := [.connectionClose []] }), (2, { chan := 2, fifo := [.setReturn none] })] }
    (ioStep c (.event (.chan 1))).2.err = none := by
  simp [ioStep, handleEvent, drainFifo, Conn.init, lookupN, getLink, popFifo, setLink, setN,
    processChannelMessage, takeAllQueued, takeQueued, processPlainMessage, List.mergeSort,
    setSlot, pushOut, sealOut]

/-- The code before the repair of D5 panics on [server Connection.Close, then a stale alloc event]. -/
example :
    let c0 := Conn.init 4 4 true
    let c1 := (process c0 (.method 0 10 50 [.nat 320, .bytes []]) [] []).1
    (handleEvent c1 .alloc).2.2 = some .panic := by decide
example :
    let c0 := Conn.init 4 4 false
    let c1 := (process c0 (.method 0 10 50 [.nat 320, .bytes []]) [] []).1
    (handleEvent c1 .alloc).2.2 = none := by decide

end AmqModel.Props.C20
