import AmqModel.Model.Api
import AmqModel.Props.C02
import AmqModel.Lemmas.Api
/-!
# C12 — every API call emits exactly the AMQP method its arguments describe
(and the publish part of C02: what a publish submits, frame by frame)
-/
namespace AmqModel.Props.C12
open AmqModel.Api

/-- Unfold `run` for the operation at hand (I/O thread alive) and simplify with the hypotheses. -/
local macro "alive_simp" "[" ts:Lean.Parser.Tactic.simpLemma,* "]" : tactic => `(tactic| (
  (try simp only [run_publish, run_queueDeclare, run_queueDeclareNowait, run_queueDeclarePassive, run_get,
    run_consume, run_queuePurge_wait, run_queueDelete_wait, run_exchangeDeclare,
    run_exchangeDeclareNowait, run_exchangeDeclarePassive]);
  simp_all [run, call_alive, callNowait_alive, handleSend_alive, submitAll_alive,
    handleRecv_eq, mQueueDeclare, mExchangeDeclare, $ts,*]))

/-- The same with the I/O thread gone and nothing queued. -/
local macro "gone_simp" "[" ts:Lean.Parser.Tactic.simpLemma,* "]" : tactic => `(tactic| (
  (try simp only [run_publish, run_queueDeclare, run_queueDeclareNowait, run_queueDeclarePassive, run_get,
    run_consume, run_queuePurge_wait, run_queueDelete_wait, run_exchangeDeclare,
    run_exchangeDeclareNowait, run_exchangeDeclarePassive]);
  simp_all [run, call_gone_empty, callNowait_gone_empty, handleSend_gone_empty, $ts,*]))

/-- THE EXPECTATION TABLE, written from the AMQP 0-9-1 field lists and amiquip's documentation,
    independently of `Api.run`: the one method each operation must put on the wire (class id,
    method id, fields in wire order).  `none` = the operation submits no method (listener
    registration). -/
def specMethod : Op → Option (Nat × Nat × List AField)
  | .qos ps pc g => some (60, 10, [.nat ps, .nat pc, .bool g])
  | .recover r => some (60, 110, [.bool r])
  | .publish ex rk m i _ _ => some (60, 40, [.nat 0, .str ex, .str rk, .bool m, .bool i])
  | .listenConfirms => none
  | .listenReturns => none
  | .confirmSelect nw => some (85, 10, [.bool nw])
  | .queueDeclare q o => some (50, 10, [.nat 0, .str q, .bool false, .bool o.durable, .bool o.exclusive, .bool o.autoDelete, .bool false, .table o.args])
  | .queueDeclareNowait q o => some (50, 10, [.nat 0, .str q, .bool false, .bool o.durable, .bool o.exclusive, .bool o.autoDelete, .bool true, .table o.args])
  | .queueDeclarePassive q => some (50, 10, [.nat 0, .str q, .bool true, .bool false, .bool false, .bool false, .bool false, .table emptyTable])
  | .get q na => some (60, 70, [.nat 0, .str q, .bool na])
  | .consume q nl na ex args => some (60, 20, [.nat 0, .str q, .str [], .bool nl, .bool na, .bool ex, .bool false, .table args])
  | .queueBind q e rk args nw => some (50, 20, [.nat 0, .str q, .str e, .str rk, .bool nw, .table args])
  | .queueUnbind q e rk args => some (50, 50, [.nat 0, .str q, .str e, .str rk, .table args])
  | .queuePurge q nw => some (50, 30, [.nat 0, .str q, .bool nw])
  | .queueDelete q iu ie nw => some (50, 40, [.nat 0, .str q, .bool iu, .bool ie, .bool nw])
  | .exchangeDeclare ty name o => some (40, 10, [.nat 0, .str name, .str ty, .bool false, .bool o.durable, .bool o.autoDelete, .bool o.internal, .bool false, .table o.args])
  | .exchangeDeclareNowait ty name o => some (40, 10, [.nat 0, .str name, .str ty, .bool false, .bool o.durable, .bool o.autoDelete, .bool o.internal, .bool true, .table o.args])
  | .exchangeDeclarePassive name => some (40, 10, [.nat 0, .str name, .str direct, .bool true, .bool false, .bool false, .bool false, .bool false, .table emptyTable])
  | .exchangeBind d s rk args nw => some (40, 30, [.nat 0, .str d, .str s, .str rk, .bool nw, .table args])
  | .exchangeUnbind d s rk args nw => some (40, 40, [.nat 0, .str d, .str s, .str rk, .bool nw, .table args])
  | .exchangeDelete name iu nw => some (40, 20, [.nat 0, .str name, .bool iu, .bool nw])
  | .ackAll => some (60, 80, [.nat 0, .bool true])
  | .nackAll r => some (60, 120, [.nat 0, .bool true, .bool r])
  | .ack _ dtag m => some (60, 80, [.nat dtag, .bool m])
  | .nack _ dtag m r => some (60, 120, [.nat dtag, .bool m, .bool r])
  | .reject _ dtag r => some (60, 90, [.nat dtag, .bool r])
  | .cancel tag => some (60, 30, [.str tag, .bool false])
  | .close => some (20, 40, [.nat 0, .str [], .nat 0, .nat 0])

/-- The operation is one that panics instead of sending (an acknowledgement through a channel
    other than the delivery's; an asynchronous declare of a server-named queue). -/
def mustPanic (c : Chan) : Op → Bool
  | .ack dch _ _ => dch != c.id
  | .nack dch _ _ _ => dch != c.id
  | .reject dch _ _ => dch != c.id
  | .queueDeclareNowait q _ => q == []
  | _ => false

/-- EMIT = SPEC. With the I/O thread there, every operation (all ~30 kinds, all argument values)
    that does not panic submits, first and on its own channel, exactly the method the table
    prescribes — and nothing else, except that a publish is followed by its content frames and a
    listener registration submits just the registration. A closed `Channel`'s second close submits
    nothing. -/
theorem emit_eq_spec (c : Chan) (op : Op) (hio : c.ioAlive = true) (hp : mustPanic c op = false)
    (hcl : ¬(op = .close ∧ c.closed = true)) :
    (run c op).1.sent = c.sent ++
      (match op, specMethod op with
       | .publish _ _ _ _ props body, some (cls, mid, fs) =>
         Sent.send (.method c.id cls mid fs) :: (contentFrames c.id c.limit props body).map Sent.send
       | .listenConfirms, _ => [Sent.setConfirm]
       | .listenReturns, _ => [Sent.setReturn]
       | _, some (cls, mid, fs) => [Sent.send (.method c.id cls mid fs)]
       | _, none => []) := by
  -- (the `match` was elaborated with `hp`, `hcl` as extra discriminants: reduce it first)
  cases op with
  | confirmSelect nw => cases nw <;> (simp only [specMethod]; alive_simp [mustPanic])
  | queueBind q e rk args nw => cases nw <;> (simp only [specMethod]; alive_simp [mustPanic])
  | queuePurge q nw => cases nw <;> (simp only [specMethod]; alive_simp [mustPanic])
  | queueDelete q iu ie nw => cases nw <;> (simp only [specMethod]; alive_simp [mustPanic])
  | exchangeBind d s rk args nw => cases nw <;> (simp only [specMethod]; alive_simp [mustPanic])
  | exchangeUnbind d s rk args nw => cases nw <;> (simp only [specMethod]; alive_simp [mustPanic])
  | exchangeDelete name iu nw => cases nw <;> (simp only [specMethod]; alive_simp [mustPanic])
  | _ => (simp only [specMethod]; alive_simp [mustPanic])

/-- Cross-channel acknowledgements panic and send nothing — for every acknowledging entry point. -/
theorem cross_channel_panics (c : Chan) (op : Op) (hp : mustPanic c op = true) :
    run c op = (c, .panic) := by
  cases op <;> simp_all [mustPanic, run]

/-- `nowait` is set exactly in the nowait variants, `passive` exactly in the passive variants
    (read off the table; stated outright for the two declare families). -/
theorem nowait_passive_flags (q : Bytes) (o : QueueDeclareOpts) (ty name : Bytes) (xo : ExchangeDeclareOpts) :
    (specMethod (.queueDeclare q o)).map (fun m => (m.2.2[2]?, m.2.2[6]?)) = some (some (.bool false), some (.bool false)) ∧
    (specMethod (.queueDeclareNowait q o)).map (fun m => (m.2.2[2]?, m.2.2[6]?)) = some (some (.bool false), some (.bool true)) ∧
    (specMethod (.queueDeclarePassive q)).map (fun m => (m.2.2[2]?, m.2.2[6]?)) = some (some (.bool true), some (.bool false)) ∧
    (specMethod (.exchangeDeclare ty name xo)).map (fun m => (m.2.2[3]?, m.2.2[7]?)) = some (some (.bool false), some (.bool false)) ∧
    (specMethod (.exchangeDeclareNowait ty name xo)).map (fun m => (m.2.2[3]?, m.2.2[7]?)) = some (some (.bool false), some (.bool true)) ∧
    (specMethod (.exchangeDeclarePassive name)).map (fun m => (m.2.2[3]?, m.2.2[7]?)) = some (some (.bool true), some (.bool false)) := by
  simp [specMethod]

/-- The nowait variants return without consuming any reply; the synchronous ones consume exactly
    the reply at the head of the queue. -/
def isNowait : Op → Bool
  | .publish .. | .listenConfirms | .listenReturns | .confirmSelect true | .queueDeclareNowait ..
  | .queueBind _ _ _ _ true | .queuePurge _ true | .queueDelete _ _ _ true | .exchangeDeclareNowait ..
  | .exchangeBind _ _ _ _ true | .exchangeUnbind _ _ _ _ true | .exchangeDelete _ _ true
  | .ackAll | .nackAll _ | .ack .. | .nack .. | .reject .. => true
  | _ => false

theorem nowait_consumes_no_reply (c : Chan) (op : Op) (hio : c.ioAlive = true) (hn : isNowait op = true) :
    (run c op).1.replies = c.replies := by
  cases op with
  | confirmSelect nw => cases nw <;> alive_simp [isNowait]
  | queueBind q e rk args nw => cases nw <;> alive_simp [isNowait]
  | queuePurge q nw => cases nw <;> alive_simp [isNowait]
  | queueDelete q iu ie nw => cases nw <;> alive_simp [isNowait]
  | exchangeBind d s rk args nw => cases nw <;> alive_simp [isNowait]
  | exchangeUnbind d s rk args nw => cases nw <;> alive_simp [isNowait]
  | exchangeDelete name iu nw => cases nw <;> alive_simp [isNowait]
  | _ => alive_simp [isNowait] <;> split <;> simp

theorem sync_consumes_one_reply (c : Chan) (op : Op) (r : Rep) (rest : List Rep) (hio : c.ioAlive = true)
    (hn : isNowait op = false) (hcl : ¬(op = .close ∧ c.closed = true)) (hq : c.replies = r :: rest) :
    (run c op).1.replies = rest := by
  cases op with
  | confirmSelect nw => cases nw <;> alive_simp [isNowait]
  | queueBind q e rk args nw => cases nw <;> alive_simp [isNowait]
  | queuePurge q nw => cases nw <;> alive_simp [isNowait]
  | queueDelete q iu ie nw => cases nw <;> alive_simp [isNowait]
  | exchangeBind d s rk args nw => cases nw <;> alive_simp [isNowait]
  | exchangeUnbind d s rk args nw => cases nw <;> alive_simp [isNowait]
  | exchangeDelete name iu nw => cases nw <;> alive_simp [isNowait]
  | _ => alive_simp [isNowait]

/-- RETURN VALUES (C04): a synchronous call returns exactly what its reply carries. -/
theorem declare_returns_reply_values (c : Chan) (q name : Bytes) (o : QueueDeclareOpts) (mc cc : Nat) (rest : List Rep)
    (hio : c.ioAlive = true) (hq : c.replies = .method 50 11 [.str name, .nat mc, .nat cc] :: rest) :
    (run c (.queueDeclare q o)).2 = .queue name (some mc) (some cc) ∧
    (run c (.queueDeclarePassive q)).2 = .queue name (some mc) (some cc) := by
  simp [run_queueDeclare, run_queueDeclarePassive, call_alive, hio, hq, callResult, retOfQueue]

theorem purge_delete_return_counts (c : Chan) (q : Bytes) (n : Nat) (iu ie : Bool) (rest : List Rep) (hio : c.ioAlive = true) :
    (c.replies = .method 50 31 [.nat n] :: rest → (run c (.queuePurge q false)).2 = .count n) ∧
    (c.replies = .method 50 41 [.nat n] :: rest → (run c (.queueDelete q iu ie false)).2 = .count n) := by
  constructor <;> intro hq <;>
    simp [run_queuePurge_wait, run_queueDelete_wait, call_alive, hio, hq, callResult, retOfCount]

theorem consume_returns_tag (c : Chan) (q args tag : Bytes) (nl na ex : Bool) (rest : List Rep) (hio : c.ioAlive = true)
    (hq : c.replies = .consumeOk tag :: rest) :
    (run c (.consume q nl na ex args)).2 = .consumer tag := by
  simp [run_consume, handleSend_alive, handleRecv_eq, hio, hq, recvResult, retOfConsume]

/-- A reply of another type is FrameUnexpected for that caller (and is consumed). -/
theorem wrong_reply_type (c : Chan) (cls mid : Nat) (fs : List AField) (rest : List Rep) (q : Bytes) (hio : c.ioAlive = true)
    (hq : c.replies = .method cls mid fs :: rest) (hne : ¬(cls = 50 ∧ mid = 31)) :
    (run c (.queuePurge q false)).2 = .err .frameUnexpected := by
  simp [run_queuePurge_wait, call_alive, hio, hq, callResult, hne]

/-- When the I/O thread is gone every operation that would submit something fails with the queued
    error, or EventLoopDropped — it never blocks and submits nothing. -/
theorem io_gone_fails (c : Chan) (op : Op) (hio : c.ioAlive = false) (hp : mustPanic c op = false)
    (hcl : ¬(op = .close ∧ c.closed = true)) (hq : c.replies = []) :
    (run c op).2 = .err .eventLoopDropped ∧ (run c op).1.sent = c.sent := by
  cases op with
  | confirmSelect nw => cases nw <;> gone_simp [mustPanic]
  | queueBind q e rk args nw => cases nw <;> gone_simp [mustPanic]
  | queuePurge q nw => cases nw <;> gone_simp [mustPanic]
  | queueDelete q iu ie nw => cases nw <;> gone_simp [mustPanic]
  | exchangeBind d s rk args nw => cases nw <;> gone_simp [mustPanic]
  | exchangeUnbind d s rk args nw => cases nw <;> gone_simp [mustPanic]
  | exchangeDelete name iu nw => cases nw <;> gone_simp [mustPanic]
  | _ => gone_simp [mustPanic]

/-- PUBLISH ON THE WIRE (C02): the Publish method, one header announcing the body length with the
    given properties, then body frames that concatenate to the body, each non-empty and at most
    `limit` bytes — none for an empty body. -/
theorem publish_frames (c : Chan) (ex rk props body : Bytes) (m i : Bool) (hio : c.ioAlive = true) (hl : 0 < c.limit) :
    ∃ parts : List Bytes,
      (run c (.publish ex rk m i props body)).1.sent = c.sent ++
        Sent.send (.method c.id 60 40 [.nat 0, .str ex, .str rk, .bool m, .bool i]) ::
        Sent.send (.header c.id 60 body.length props) :: parts.map (fun p => Sent.send (.body c.id p)) ∧
      parts.flatten = body ∧ (∀ p ∈ parts, 0 < p.length ∧ p.length ≤ c.limit) ∧ (body = [] → parts = []) ∧
      (run c (.publish ex rk m i props body)).2 = .unit := by
  refine ⟨Split.splitBody c.limit body, ?_, C02.split_flatten c.limit hl body, C02.split_sizes c.limit hl body,
    ?_, ?_⟩
  · simp [run_publish, callNowait_alive, submitAll_alive, hio, contentFrames, List.map_map, Function.comp_def]
  · intro hb
    subst hb
    exact C02.split_empty c.limit
  · simp [run_publish, callNowait_alive, submitAll_alive, hio]

/-- With the limit derived from a negotiated frame_max ≥ 4096 each body frame is at most frame_max
    bytes on the wire. -/
theorem publish_respects_frame_max (id frameMax : Nat) (hfm : 4096 ≤ frameMax) (ex rk props body : Bytes) (m i : Bool) :
    ∀ s ∈ (run (newChan id frameMax) (.publish ex rk m i props body)).1.sent,
      ∀ ch p, s = Sent.send (.body ch p) → p.length + 8 ≤ frameMax := by
  have hlim : (newChan id frameMax).limit = frameMax - 8 := by
    have : frameMax ≠ 0 := by omega
    simp [newChan, Tune.payloadLimit, Tune.FRAME_OVERHEAD, this]
  have hl : 0 < (newChan id frameMax).limit := by omega
  obtain ⟨parts, hs, -, hsz, -, -⟩ := publish_frames (newChan id frameMax) ex rk props body m i rfl hl
  intro s hmem ch p hsp
  rw [hs] at hmem
  subst hsp
  simp [newChan] at hmem
  obtain ⟨hp, -⟩ := hmem
  have := (hsz p hp).2
  omega

/-- D7: the table says a reject through the wrong channel panics; so does the model of the repaired code. -/
example : (run (newChan 2 4096) (.reject 1 5 false)).2 = .panic := by decide

end AmqModel.Props.C12
