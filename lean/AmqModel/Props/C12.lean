import AmqModel.Model.Api
namespace AmqModel.Props.C12
open AmqModel.Api

theorem placeholder : (newChan 1 4096).id = 1 := rfl

end AmqModel.Props.C12
