import AmqModel.Model.Pass
/-!
# The I/O loop never loses a wake-up of its edge-triggered socket (C01, C04, C18)

Every byte a handle submits, every reply a call waits for and every resumed publisher depend on one
thing the machine model (`Model/Conn.lean`) takes for granted: that the loop is *woken up* when there
is something to write and the transport will take it.  The socket is registered edge-triggered, so
this is a matter of bookkeeping at the end of every pass (`Model/Pass.lean`, transcribed from
`run_io_loop`; the correspondence check compares `endOfPass` / `enter` with what the real loop did on
every pass of the end-to-end runs, through the pass log hook).

`Armed` is the invariant: data to write ⇒ registered for writable and (an event is queued or the
transport is refusing, in which case its becoming willing raises one).
-/
namespace AmqModel.Props.Pass
open AmqModel.Pass AmqModel.Backpressure

/-- The decision, spelled out: with data left (and the first write behind us) always re-register
    for readable|writable - whatever else happened in the pass; with nothing left go back to
    readable-only iff there was data when the pass began; the water-mark switch is independent of it. -/
theorem endOfPass_spec (c : Ctl) (had : Bool) (out high low : Nat) :
    (endOfPass c had out high low).2.2 =
        (if out > 0 ∧ c.hw = true then SockAct.rw else if had = true ∧ out = 0 then SockAct.r else SockAct.none) ∧
    (endOfPass c had out high low).2.1 = (endOfBatch c.listening out high low).2 ∧
    (endOfPass c had out high low).1.listening = (endOfBatch c.listening out high low).1 ∧
    (endOfPass c had out high low).1.hw = (c.hw || (had && decide (out = 0))) := by
  unfold endOfPass
  have hz : out > 0 → out ≠ 0 := fun h => by omega
  cases hhw : c.hw <;> cases had <;> by_cases ho : out > 0 <;> simp [ho, hz]
  all_goals (have h0 : out = 0 := by omega); simp [h0]

/-- `have_written_to_socket` never goes back to false. -/
theorem hw_monotone (c : Ctl) (had : Bool) (out high low : Nat) (h : c.hw = true) :
    (endOfPass c had out high low).1.hw = true := by
  rw [(endOfPass_spec c had out high low).2.2.2, h]; rfl

/-- The handlers touch the buffer and (through a refused write) the transport's willingness only. -/
theorem handlers_frame (wev : Bool) (ops : List HOp) (s : St) :
    (ops.foldl (hstep wev) s).ctl = s.ctl ∧ (ops.foldl (hstep wev) s).high = s.high ∧
    (ops.foldl (hstep wev) s).low = s.low ∧ (ops.foldl (hstep wev) s).sock.wInt = s.sock.wInt ∧
    (ops.foldl (hstep wev) s).sock.wEdge = s.sock.wEdge := by
  induction ops generalizing s with
  | nil => simp
  | cons o os ih =>
    rw [List.foldl_cons]
    have h1 : (hstep wev s o).ctl = s.ctl ∧ (hstep wev s o).high = s.high ∧ (hstep wev s o).low = s.low ∧
        (hstep wev s o).sock.wInt = s.sock.wInt ∧ (hstep wev s o).sock.wEdge = s.sock.wEdge := by
      cases o with
      | append n => simp [hstep]
      | write k =>
        unfold hstep doWrite
        cases wev <;> simp
        split <;> simp
    obtain ⟨a, b, c, d, e⟩ := ih (hstep wev s o)
    obtain ⟨a', b', c', d', e'⟩ := h1
    exact ⟨a.trans a', b.trans b', c.trans c', d.trans d', e.trans e'⟩

/-- ONE PASS RE-ARMS, whatever the handlers did (any appends, any writes, in any order, also when the
    buffer was emptied and refilled within the pass). -/
theorem pass_armed (s : St) (ops : List HOp) (hhw : s.ctl.hw = true) (h : Armed s) :
    Armed (pass s ops) ∧ (pass s ops).ctl.hw = true := by
  obtain ⟨hc, _, _, hi, he⟩ := handlers_frame s.sock.wEdge ops { s with sock := { s.sock with wEdge := false } }
  have hspec := endOfPass_spec (ops.foldl (hstep s.sock.wEdge) { s with sock := { s.sock with wEdge := false } }).ctl
    (decide (s.out > 0)) (ops.foldl (hstep s.sock.wEdge) { s with sock := { s.sock with wEdge := false } }).out
    (ops.foldl (hstep s.sock.wEdge) { s with sock := { s.sock with wEdge := false } }).high
    (ops.foldl (hstep s.sock.wEdge) { s with sock := { s.sock with wEdge := false } }).low
  unfold pass
  simp only at hc hi he ⊢
  generalize (ops.foldl (hstep s.sock.wEdge) { s with sock := { s.sock with wEdge := false } }) = s2 at *
  obtain ⟨hact, _, _, hhw'⟩ := hspec
  have hhw2 : s2.ctl.hw = true := by rw [hc]; exact hhw
  rw [hhw2] at hact hhw'
  refine ⟨?_, by simpa using hhw'⟩
  unfold Armed
  simp only
  rw [hact]
  by_cases ho : s2.out > 0
  · simp only [ho, and_self, ↓reduceIte, Sock.apply, he, Bool.false_or]
    refine ⟨fun _ => ⟨trivial, ?_⟩, fun h0 => absurd h0 (by omega)⟩
    cases s2.sock.willing <;> simp
  · have h0 : s2.out = 0 := by omega
    simp only [ho, false_and, ↓reduceIte, h0]
    by_cases hhad : s.out > 0
    · simp [hhad, Sock.apply]
    · have hs0 : s.out = 0 := by omega
      simp only [hhad, decide_false, Bool.false_eq_true, ↓reduceIte, Sock.apply]
      refine ⟨fun h => absurd h (by omega), fun _ => ?_⟩
      simp only [Nat.lt_irrefl, false_and, ↓reduceIte]
      rw [hi]; exact h.2 hs0

/-- The environment cannot disarm it. -/
theorem env_armed (s : St) (h : Armed s) :
    Armed (step s .willing) ∧ Armed (step s .unwilling) := by
  obtain ⟨h1, h2⟩ := h
  constructor
  · unfold step Sock.becomeWilling Armed
    simp only
    split
    · exact ⟨h1, h2⟩
    · refine ⟨fun ho => ?_, fun ho => by simpa using h2 ho⟩
      obtain ⟨hi, _⟩ := h1 ho
      simp [hi]
  · unfold step Sock.becomeUnwilling Armed
    simp only
    exact ⟨fun ho => ⟨(h1 ho).1, Or.inr trivial⟩, h2⟩

/-- NO LOST WAKE-UP, over every history of passes and transport changes. -/
theorem armed_always (s : St) (xs : List Step) (hhw : s.ctl.hw = true) (h : Armed s) :
    Armed (run s xs) ∧ (run s xs).ctl.hw = true := by
  induction xs generalizing s with
  | nil => exact ⟨h, hhw⟩
  | cons x xs ih =>
    unfold run
    rw [List.foldl_cons]
    cases x with
    | pass ops => exact ih _ (pass_armed s ops hhw h).2 (pass_armed s ops hhw h).1
    | willing => exact ih _ (by simpa [step] using hhw) (env_armed s h).1
    | unwilling => exact ih _ (by simpa [step] using hhw) (env_armed s h).2

/-- … so whenever there is data to write and the transport is willing, a writable event is queued:
    the next `poll` returns at once and its batch makes the loop write. -/
theorem willing_means_event (s : St) (xs : List Step) (hhw : s.ctl.hw = true) (h : Armed s)
    (hout : (run s xs).out > 0) (hw : (run s xs).sock.willing = true) :
    (run s xs).sock.wEdge = true ∧ (run s xs).sock.wInt = true := by
  obtain ⟨⟨h1, _⟩, _⟩ := armed_always s xs hhw h
  obtain ⟨hi, he⟩ := h1 hout
  refine ⟨?_, hi⟩
  rcases he with he | he
  · exact he
  · rw [hw] at he; cases he

/-- … and an idle connection is not registered for writable (no spinning on a writable socket). -/
theorem idle_not_writable (s : St) (xs : List Step) (hhw : s.ctl.hw = true) (h : Armed s)
    (hout : (run s xs).out = 0) : (run s xs).sock.wInt = false :=
  (armed_always s xs hhw h).1.2 hout

/-- PROGRESS of a pass that has the event: `write_to_stream` empties the buffer or finds the
    transport refusing. -/
theorem write_progress (s : St) (k : Nat) :
    (doWrite s k).out = 0 ∨ ((doWrite s k).sock.willing = false ∧ (doWrite s k).out = s.out - k ∧ k < s.out) := by
  unfold doWrite
  split
  · exact Or.inl rfl
  · exact Or.inr ⟨rfl, rfl, by omega⟩

/-- After `write_to_stream` the buffer is empty or the transport has refused; later calls keep that. -/
theorem doWrite_done (s : St) (k : Nat) : (doWrite s k).out = 0 ∨ (doWrite s k).sock.willing = false := by
  unfold doWrite; split
  · exact Or.inl rfl
  · exact Or.inr rfl

theorem doWrite_keeps (s : St) (k : Nat) (_h : s.out = 0 ∨ s.sock.willing = false) :
    (doWrite s k).out = 0 ∨ (doWrite s k).sock.willing = false := doWrite_done s k

theorem writes_done (ks : List Nat) (s : St) (hne : ks ≠ []) :
    ((ks.map HOp.write).foldl (hstep true) s).out = 0 ∨
      ((ks.map HOp.write).foldl (hstep true) s).sock.willing = false := by
  have keep : ∀ (ks : List Nat) (s : St), (s.out = 0 ∨ s.sock.willing = false) →
      ((ks.map HOp.write).foldl (hstep true) s).out = 0 ∨
        ((ks.map HOp.write).foldl (hstep true) s).sock.willing = false := by
    intro ks
    induction ks with
    | nil => intro s h; simpa using h
    | cons k ks ih =>
      intro s h
      simp only [List.map_cons, List.foldl_cons]
      exact ih _ (by simpa [hstep] using doWrite_keeps s k h)
  cases ks with
  | nil => exact absurd rfl hne
  | cons k ks =>
    simp only [List.map_cons, List.foldl_cons]
    exact keep ks _ (by simpa [hstep] using doWrite_done s k)

/-- Writes never grow the buffer. -/
theorem writes_out_le (wev : Bool) (ks : List Nat) (s : St) :
    ((ks.map HOp.write).foldl (hstep wev) s).out ≤ s.out := by
  induction ks generalizing s with
  | nil => simp
  | cons k ks ih =>
    simp only [List.map_cons, List.foldl_cons]
    refine Nat.le_trans (ih _) ?_
    unfold hstep doWrite
    cases wev <;> simp
    split <;> simp

/-- Without a writable event the handlers of the start phase do nothing. -/
theorem writes_idle (ks : List Nat) (t : St) : (ks.map HOp.write).foldl (hstep false) t = t := by
  induction ks generalizing t with
  | nil => rfl
  | cons k ks ih => simp only [List.map_cons, List.foldl_cons]; exact ih _

/-- THE START (`have_written_to_socket = false`: registered for writable only since `start()`, the
    protocol header buffered, nothing else can append yet; a writable event makes the handler call
    `write_to_stream` at least once): whatever the transport takes - all of the header, a part, or
    nothing - the loop stays armed, and the pass that gets the header out switches to readable-only
    and to the steady regime.  (False for the decision before fix D14: `d14_start_disarmed`.) -/
theorem start_armed (s : St) (ks : List Nat) (h : ArmedStart s) (hk : s.sock.wEdge = true → ks ≠ []) :
    ArmedStart (pass s (ks.map HOp.write)) ∨
      (Armed (pass s (ks.map HOp.write)) ∧ (pass s (ks.map HOp.write)).ctl.hw = true ∧ (pass s (ks.map HOp.write)).out = 0) := by
  obtain ⟨hhw, hout, hint, harm⟩ := h
  obtain ⟨hc, _, _, hi, he⟩ := handlers_frame s.sock.wEdge (ks.map HOp.write) { s with sock := { s.sock with wEdge := false } }
  have hdone : s.sock.wEdge = true →
      ((ks.map HOp.write).foldl (hstep s.sock.wEdge) { s with sock := { s.sock with wEdge := false } }).out = 0 ∨
      ((ks.map HOp.write).foldl (hstep s.sock.wEdge) { s with sock := { s.sock with wEdge := false } }).sock.willing = false := by
    intro hw; rw [hw]; exact writes_done ks _ (hk hw)
  have hidle : s.sock.wEdge = false →
      ((ks.map HOp.write).foldl (hstep s.sock.wEdge) { s with sock := { s.sock with wEdge := false } }).sock.willing = s.sock.willing := by
    intro hw; rw [hw, writes_idle]
  have hspec := endOfPass_spec ((ks.map HOp.write).foldl (hstep s.sock.wEdge) { s with sock := { s.sock with wEdge := false } }).ctl
    (decide (s.out > 0)) ((ks.map HOp.write).foldl (hstep s.sock.wEdge) { s with sock := { s.sock with wEdge := false } }).out
    ((ks.map HOp.write).foldl (hstep s.sock.wEdge) { s with sock := { s.sock with wEdge := false } }).high
    ((ks.map HOp.write).foldl (hstep s.sock.wEdge) { s with sock := { s.sock with wEdge := false } }).low
  unfold pass
  simp only at hc hi he ⊢
  generalize ((ks.map HOp.write).foldl (hstep s.sock.wEdge) { s with sock := { s.sock with wEdge := false } }) = s2 at *
  obtain ⟨hact, _, _, hhw'⟩ := hspec
  have hhw2 : s2.ctl.hw = false := by rw [hc]; exact hhw
  have hdec : decide (s.out > 0) = true := by simpa using hout
  have hact' : (endOfPass s2.ctl (decide (s.out > 0)) s2.out s2.high s2.low).2.2 =
      if s2.out = 0 then SockAct.r else SockAct.none := by
    rw [hact, hhw2, hdec]; simp
  have hhw'' : (endOfPass s2.ctl (decide (s.out > 0)) s2.out s2.high s2.low).1.hw = decide (s2.out = 0) := by
    rw [hhw', hhw2, hdec]; simp
  by_cases ho : s2.out = 0
  · right
    refine ⟨?_, by rw [hhw'']; simpa using ho, ho⟩
    unfold Armed
    simp only
    rw [hact']
    simp only [ho, ↓reduceIte, Sock.apply]
    exact ⟨fun h => absurd h (by omega), fun _ => trivial⟩
  · left
    have hpos : s2.out > 0 := by omega
    unfold ArmedStart
    simp only
    rw [hact', hhw'']
    simp only [ho, ↓reduceIte, Sock.apply]
    refine ⟨by simp, hpos, by rw [hi]; exact hint, ?_⟩
    right
    cases hw : s.sock.wEdge with
    | true =>
      rcases hdone hw with h0 | hwl
      · exact absurd h0 ho
      · exact hwl
    | false =>
      rcases harm with h1 | h1
      · rw [hw] at h1; cases h1
      · rw [hidle hw]; exact h1

/-- Entering `run_io_loop` with data buffered (the steady-state loop after a handshake that left
    something unwritten) arms the socket. -/
theorem enter_arms (s : St) (hhw : s.ctl.hw = true) (hz : s.out = 0 → s.sock.wInt = false) :
    Armed { s with sock := s.sock.apply (enter s.out s.ctl.hw) } := by
  unfold Armed enter
  rw [hhw]
  by_cases ho : s.out > 0
  · simp only [ho, decide_true, Bool.and_self, ↓reduceIte, Sock.apply]
    refine ⟨fun _ => ⟨trivial, ?_⟩, fun h0 => absurd h0 (by omega)⟩
    cases s.sock.willing <;> simp
  · have h0 : s.out = 0 := by omega
    simp only [h0, Nat.lt_irrefl, decide_false, Bool.false_and, Bool.false_eq_true, ↓reduceIte, Sock.apply]
    exact ⟨fun h => h.elim, fun _ => hz h0⟩

/-- SENSITIVITY (why the re-registration may not be skipped "because we are registered already"):
    the same pass without the final re-registration leaves data, a willing transport and no event. -/
theorem skipping_rereg_loses_wakeup :
    let s : St := { out := 5, ctl := { hw := true, listening := true }, sock := { willing := true, wInt := true, wEdge := true }, high := 100, low := 0 }
    Armed s ∧
    (let s2 := [HOp.write 5, HOp.append 7].foldl (hstep true) { s with sock := { s.sock with wEdge := false } }
     s2.out > 0 ∧ s2.sock.willing = true ∧ s2.sock.wEdge = false) ∧
    Armed (pass s [HOp.write 5, HOp.append 7]) := by
  refine ⟨?_, ?_, ?_⟩
  · constructor <;> simp
  · decide
  · constructor <;> decide

/-- FINDING D14 (repaired in /repo by a `fix:` commit): with the decision as it was - `else if
    had_data_to_write`, whether or not data is left - a transport that takes 3 of the 8 bytes of the
    protocol header sends the loop to readable-only with 5 bytes unwritten and `have_written` set:
    when the transport becomes willing again no event is raised. -/
theorem d14_start_disarmed :
    let s : St := { out := 8, ctl := { hw := false, listening := true }, sock := { willing := true, wInt := true, wEdge := true }, high := 100, low := 0 }
    ArmedStart s ∧
    (let s2 := [HOp.write 3].foldl (hstep true) { s with sock := { s.sock with wEdge := false } }
     let r := endOfPassD14 s2.ctl true s2.out s2.high s2.low
     let s3 : St := { s2 with ctl := r.1, sock := (s2.sock.apply r.2.2).becomeWilling }
     s3.out = 5 ∧ s3.sock.willing = true ∧ s3.sock.wInt = false ∧ s3.sock.wEdge = false) := by
  refine ⟨?_, ?_⟩
  · simp [ArmedStart]
  · decide

/-- Non-vacuity: a steady-state start satisfies the hypotheses. -/
example : Armed { out := 0, ctl := { hw := true, listening := true }, sock := { willing := true, wInt := false, wEdge := false }, high := 10, low := 0 } := by
  constructor <;> simp

example : ArmedStart { out := 8, ctl := { hw := false, listening := true }, sock := { willing := true, wInt := true, wEdge := true }, high := 10, low := 0 } := by
  simp [ArmedStart]

end AmqModel.Props.Pass
