import AmqModel.Model.Url
namespace AmqModel.Props.C19
open AmqModel.Url

theorem placeholder : percentDecode [] = [] := rfl

end AmqModel.Props.C19
