import AmqModel.Model.Url
import AmqModel.Lemmas.Url
/-!
# C19 — an AMQP URL means the same connection parameters for every URL
Property theorems only (helper lemmas in `AmqModel/Lemmas/Url.lean`).
-/
namespace AmqModel.Props.C19
open AmqModel.Url

/-- Percent-decoding inverts percent-encoding for every byte string. -/
theorem percent_roundtrip (bs : Bytes) (h : ∀ b ∈ bs, b < 256) :
    percentDecode (percentEncode bs) = bs :=
  percentDecode_percentEncode bs h

/-- Bytes that are not `%` are copied unchanged (so unreserved characters mean themselves). -/
theorem percentDecode_plain (bs : Bytes) (h : ∀ b ∈ bs, b ≠ 37) : percentDecode bs = bs :=
  percentDecode_of_no_percent bs h

/-- Integer parameters: exactly the decimal numerals (optional leading `+`) with value `≤ top`. -/
theorem parseUnsigned_digits (top : Nat) (ds : Bytes) (hne : ds ≠ []) (hd : ∀ d ∈ ds, 48 ≤ d ∧ d ≤ 57) :
    parseUnsigned top ds = (match digitsVal ds 0 with
      | some v => if v ≤ top then some v else none
      | none => none) ∧ (digitsVal ds 0).isSome :=
  ⟨parseUnsigned_of_digits top ds hne hd, digitsVal_isSome ds hd 0⟩

theorem parseUnsigned_rejects (top : Nat) (s : Bytes) (d : Nat) (hd : d ∈ s) (h : ¬(48 ≤ d ∧ d ≤ 57))
    (hplus : s.head? ≠ some 43 ∨ d ∈ s.tail) : parseUnsigned top s = none :=
  parseUnsigned_none_of_mem top s d hd h hplus

/-- Defaults: no userinfo, no host, no port, no path, no query. -/
theorem defaults (allow : Bool) (secure : Bool) (p : Parts)
    (hp : p.parsed = true) (hs : p.scheme = if secure then kAmqps else kAmqp)
    (hu : p.username = []) (hpw : p.password = none)
    (hh : p.host = none ∨ p.host = some []) (hcb : p.cannotBeABase = false)
    (hport : p.port = none) (hsegs : p.segs = none ∨ p.segs = some [[]]) (hq : p.query = []) :
    openUrl allow p =
      if !secure && !allow then .error .insecureUrl
      else .ok { secure := secure, host := kLocalhost, port := if secure then 5671 else 5672,
                 auth := .plain kGuest kGuest, vhost := kSlash, heartbeat := 60,
                 channelMax := 0, timeoutMs := none } := by
  have hdec : decode p = .ok defaultOpts := by
    rw [decode_eq_of_segs_ok p (by rcases hsegs with h | h <;> simp [h])]
    rcases hsegs with h | h <;> simp [h, hu, hpw, hq, decodeQuery, defaultOpts]
  have hhost : hostOf p = kLocalhost := by simp [hostOf, hh]
  rw [openUrl_eq allow p hp (by simp [hcb]), hdec, hhost, hport]
  cases secure <;> cases allow <;> simp [hs, kAmqp_ne_kAmqps.symm, defaultOpts]

/-- Host, port and vhost are taken from the URL when present (vhost percent-decoded). -/
theorem explicit_parts (p : Parts) (d : Decoded) (h : openUrl true p = .ok d) :
    (∀ hst, p.host = some hst → hst ≠ [] → d.host = hst) ∧
    (∀ n, p.port = some n → d.port = n) ∧
    (p.port = none → d.port = if d.secure then 5671 else 5672) ∧
    (∀ v more, p.segs = some (v :: more) → v ≠ [] → d.vhost = percentDecode v ∧ more = []) ∧
    ((p.segs = none ∨ p.segs = some [] ∨ p.segs = some [[]]) → d.vhost = kSlash) ∧
    (d.secure = true ↔ p.scheme = kAmqps) := by
  obtain ⟨o, hdec, hhost, hport, hvh, hsec⟩ := openUrl_ok_inv h
  have hsegs := decode_ok_segs hdec
  have hvhost := decode_vhost hdec
  refine ⟨?_, ?_, ?_, ?_, ?_, hsec⟩
  · intro hst h1 h2
    rw [hhost]; simp [hostOf, h1, h2]
  · intro n h1
    rw [hport, h1]; rfl
  · intro h1
    rw [hport, h1]; rfl
  · intro v more h1 h2
    rw [hvh, hvhost, h1]
    refine ⟨by simp [h2], ?_⟩
    rcases hsegs with h3 | h3 | ⟨w, h3⟩ <;> rw [h1] at h3 <;> simp at h3
    exact h3.2
  · intro h1
    rw [hvh, hvhost]
    rcases h1 with h1 | h1 | h1 <;> simp [h1]

/-- Credentials: either one alone defaults the other to `guest`; both percent-decoded; with
    neither, guest/guest — unless a query parameter selects EXTERNAL. -/
theorem credentials (p : Parts) (o : Opts) (h : decode p = .ok o)
    (hne : ∀ v, (kAuthMechanism, v) ∉ p.query) :
    o.auth =
      if p.username ≠ [] ∨ p.password.isSome then
        .plain (percentDecode (if p.username = [] then kGuest else p.username))
               (percentDecode (p.password.getD kGuest))
      else .plain kGuest kGuest := by
  rw [decode_eq_of_segs_ok p (decode_ok_segs h)] at h
  rw [decodeQuery_auth_of_no_key hne h]

/-- `auth_mechanism=external` anywhere in the query wins over any userinfo. -/
theorem external_wins (p : Parts) (o : Opts) (h : decode p = .ok o)
    (hx : (kAuthMechanism, kExternal) ∈ p.query) : o.auth = .external := by
  rw [decode_eq_of_segs_ok p (decode_ok_segs h)] at h
  exact decodeQuery_external hx h

/-- For repeated numeric parameters the last one wins. -/
theorem last_wins_heartbeat (o o' : Opts) (q : List (Bytes × Bytes)) (v : Bytes)
    (rest : List (Bytes × Bytes)) (hrest : ∀ w, (kHeartbeat, w) ∉ rest)
    (h : decodeQuery o (q ++ (kHeartbeat, v) :: rest) = .ok o') :
    parseUnsigned 65535 v = some o'.heartbeat :=
  decodeQuery_last_heartbeat hrest h

/-- The first failing query pair decides the error; later pairs are not looked at. -/
theorem first_failing_pair_decides (o o1 : Opts) (good rest : List (Bytes × Bytes)) (bad : Bytes × Bytes)
    (e : Err) (hg : decodeQuery o good = .ok o1) (hb : decodeQuery o1 [bad] = .error e) :
    decodeQuery o (good ++ bad :: rest) = .error e :=
  decodeQuery_first_error hg hb

/-- Rejections, each with its specific error. -/
theorem reject_scheme (allow : Bool) (p : Parts) (hp : p.parsed = true)
    (hh : ¬((p.host = none ∨ p.host = some []) ∧ p.cannotBeABase = true))
    (hs : p.scheme ≠ kAmqp ∧ p.scheme ≠ kAmqps) :
    openUrl allow p = .error .invalidUrlScheme := by
  rw [openUrl_eq allow p hp hh, if_neg hs.1, if_neg hs.2]

theorem reject_extra_segments (p : Parts) (v w : Bytes) (more : List Bytes)
    (h : p.segs = some (v :: w :: more)) : decode p = .error .extraUrlPathSegments :=
  decode_extra_segments p v w more h

theorem reject_unknown_parameter (o : Opts) (k v : Bytes) (rest : List (Bytes × Bytes))
    (hk : k ≠ kHeartbeat ∧ k ≠ kChannelMax ∧ k ≠ kConnectionTimeout ∧ k ≠ kAuthMechanism) :
    decodeQuery o ((k, v) :: rest) = .error (.urlUnsupportedParameter k) := by
  rw [decodeQuery, if_neg hk.1, if_neg hk.2.1, if_neg hk.2.2.1, if_neg hk.2.2.2]

theorem reject_other_mechanism (o : Opts) (v : Bytes) (rest : List (Bytes × Bytes)) (hv : v ≠ kExternal) :
    decodeQuery o ((kAuthMechanism, v) :: rest) = .error (.urlInvalidAuthMechanism v) := by
  rw [decodeQuery, if_neg kHeartbeat_ne_kAuthMechanism.symm, if_neg kChannelMax_ne_kAuthMechanism.symm,
    if_neg kConnectionTimeout_ne_kAuthMechanism.symm, if_pos rfl, if_neg hv]

theorem reject_bad_numbers (o : Opts) (v : Bytes) (rest : List (Bytes × Bytes)) :
    (parseUnsigned 65535 v = none →
      decodeQuery o ((kHeartbeat, v) :: rest) = .error .urlParseHeartbeat ∧
      decodeQuery o ((kChannelMax, v) :: rest) = .error .urlParseChannelMax) ∧
    (parseUnsigned 18446744073709551615 v = none →
      decodeQuery o ((kConnectionTimeout, v) :: rest) = .error .urlParseConnectionTimeout) := by
  refine ⟨fun h => ⟨?_, ?_⟩, fun h => ?_⟩
  · rw [decodeQuery, if_pos rfl, h]
  · rw [decodeQuery, if_neg kHeartbeat_ne_kChannelMax.symm, if_pos rfl, h]
  · rw [decodeQuery, if_neg kHeartbeat_ne_kConnectionTimeout.symm,
      if_neg kChannelMax_ne_kConnectionTimeout.symm, if_pos rfl, h]

/- statement before fix D21 (secure-only check after `decode`): only an `amqp://` URL that DECODES
   was rejected with InsecureUrl, and every error of the insecure entry points was also the error
   of the secure-only ones:

     theorem secure_only (p : Parts) :
         (∀ d, openUrl true p = .ok d → d.secure = false → openUrl false p = .error .insecureUrl) ∧
         (∀ d, openUrl true p = .ok d → d.secure = true → openUrl false p = .ok d) ∧
         (∀ e, openUrl true p = .error e → openUrl false p = .error e) ∧
         (∀ d, openUrl false p = .ok d → d.secure = true)

   The third conjunct is FALSE for the fixed code.  Counterexample (the `example` below the
   theorem): scheme `amqp`, query `x=1` (an unknown parameter):
   `openUrl true p = .error (.urlUnsupportedParameter "x")` but `openUrl false p = .error .insecureUrl`.
   (Before the fix the secure-only entry points answered `UrlUnsupportedParameter` for it, i.e. an
   insecure URL was not reported as such: finding D21.) -/
/-- The secure-only entry points reject EVERY amqp:// URL with InsecureUrl - also one with another
    defect (finding D21) - and otherwise behave exactly like the insecure ones. -/
theorem secure_only (p : Parts) :
    -- EVERY amqp:// URL (that parses and has a usable host) is refused as insecure, whatever else
    -- is wrong with it
    (p.parsed = true → ¬((p.host = none ∨ p.host = some []) ∧ p.cannotBeABase = true) →
      p.scheme = kAmqp → openUrl false p = .error .insecureUrl) ∧
    (∀ d, openUrl true p = .ok d → d.secure = true → openUrl false p = .ok d) ∧
    (∀ e, openUrl true p = .error e → p.scheme ≠ kAmqp → openUrl false p = .error e) ∧
    (∀ d, openUrl false p = .ok d → d.secure = true) :=
  ⟨openUrl_false_amqp p, openUrl_secure_same, openUrl_error_same, openUrl_false_secure⟩

/-- The old first conjunct is a consequence: an `amqp://` URL the insecure entry points accept is
    rejected with InsecureUrl by the secure-only ones. -/
theorem secure_only_accepted (p : Parts) (d : Decoded) (h : openUrl true p = .ok d)
    (hs : d.secure = false) : openUrl false p = .error .insecureUrl :=
  openUrl_insecure_rejected d h hs

/-- D21 witness: `amqp://h/?x=1`. -/
def d21Witness : Parts :=
  ⟨true, false, kAmqp, [], none, some [104], none, some [[]], [([120], [49])]⟩

example :
    openUrl true d21Witness = .error (.urlUnsupportedParameter [120]) ∧
    openUrl false d21Witness = .error .insecureUrl := by
  constructor <;> rfl

example : (openUrl true ⟨true, false, kAmqp, [117, 115, 37, 54, 53, 114], some [112, 37, 52, 48, 115, 115], some [104], some 99,
    some [[118, 37, 50, 102, 104]], [(kHeartbeat, [53]), (kChannelMax, [48, 48, 55])]⟩).toOption
  = some ⟨false, [104], 99, .plain [117, 115, 101, 114] [112, 64, 115, 115], [118, 47, 104], 5, 7, none⟩ := by decide

end AmqModel.Props.C19
