import AmqModel.Model.Handoff
/-!
# Dropping a consumer never costs the connection (C11, C09; finding D15)

Every schedule of the two threads, for the order of sends the code uses now - and the schedule
that killed the connection with the old order.  Which order the real code uses is observable in the
sequential correspondence (a cancel-ok / channel close processed after the consumer's receiver was
dropped: with "consumer first" the failing send comes before the answer, so the caller's queue stays
empty) and is diffed there (`Model/Conn.lean` arms 60/31, 20/40, `drainSlots`); the schedules
themselves are sampled on the real code by the `consume-drop-schedules` suites.
-/
namespace AmqModel.Props.Handoff
open AmqModel.Handoff

/-- Invariant of the new order: while the consumer's message is still to be sent the caller has
    not been answered, so the receiver is alive. -/
def Inv (s : St) : Prop :=
  s.ioDead = false ∧
  ((s.todo = consumerFirst ∧ s.answered = false ∧ s.receiverAlive = true) ∨
   (s.todo = [.caller] ∧ s.answered = false ∧ s.receiverAlive = true ∧ s.delivered = true) ∨
   (s.todo = [] ∧ s.delivered = true))

theorem inv_step (s : St) (w : Who) (h : Inv s) : Inv (step s w) := by
  obtain ⟨hd, h⟩ := h
  rcases h with ⟨ht, ha, hr⟩ | ⟨ht, ha, hr, hdel⟩ | ⟨ht, hdel⟩
  · cases w
    · refine ⟨?_, Or.inr (Or.inl ?_)⟩ <;> simp [step, hd, ht, hr, ha, consumerFirst]
    · refine ⟨?_, Or.inl ?_⟩ <;> simp [step, hd, ht, hr, ha]
  · cases w
    · refine ⟨?_, Or.inr (Or.inr ?_)⟩ <;> simp [step, hd, ht, hdel]
    · refine ⟨?_, Or.inr (Or.inl ?_)⟩ <;> simp [step, hd, ht, hr, ha, hdel]
  · cases w
    · refine ⟨?_, Or.inr (Or.inr ?_)⟩ <;> simp [step, hd, ht, hdel]
    · refine ⟨?_, Or.inr (Or.inr ?_)⟩
      · simp only [step]; split <;> simp [hd]
      · simp only [step]; split <;> simp [ht, hdel]

theorem inv_run (sched : List Who) (s : St) (h : Inv s) : Inv (run s sched) := by
  induction sched generalizing s with
  | nil => exact h
  | cons w ws ih => exact ih _ (inv_step s w h)

theorem inv_init : Inv (init consumerFirst) := ⟨rfl, Or.inl ⟨rfl, rfl, rfl⟩⟩

/-- CONSUMER FIRST IS SAFE UNDER EVERY SCHEDULE: the I/O thread never finds the receiver gone, and
    once it has done its two sends the terminal message is in the consumer's queue. -/
theorem consumer_first_safe (sched : List Who) :
    (run (init consumerFirst) sched).ioDead = false ∧
    ((run (init consumerFirst) sched).todo = [] → (run (init consumerFirst) sched).delivered = true) := by
  obtain ⟨hd, h⟩ := inv_run sched _ inv_init
  refine ⟨hd, fun ht => ?_⟩
  rcases h with ⟨ht', _⟩ | ⟨ht', _⟩ | ⟨_, hdel⟩
  · rw [ht] at ht'; cases ht'
  · rw [ht] at ht'; cases ht'
  · exact hdel

/-- … and the caller is answered only after the consumer has its message ("ClientCancelled after
    the server confirms the cancel" is in the queue by the time `cancel()` returns). -/
theorem answered_after_delivered (sched : List Who) :
    (run (init consumerFirst) sched).answered = true → (run (init consumerFirst) sched).delivered = true := by
  intro ha
  obtain ⟨_, h⟩ := inv_run sched _ inv_init
  rcases h with ⟨_, ha', _⟩ | ⟨_, ha', _⟩ | ⟨_, hdel⟩
  · rw [ha] at ha'; cases ha'
  · rw [ha] at ha'; cases ha'
  · exact hdel

/-- CALLER FIRST LOSES THE CONNECTION under the schedule [I/O, client, I/O] (finding D15: the
    order of the code before the fix). -/
theorem caller_first_can_kill :
    (run (init callerFirst) [.io, .client, .io]).ioDead = true ∧
    (run (init callerFirst) [.io, .client, .io]).delivered = false := by
  decide

/-- (… while the schedule in which the I/O thread is not preempted is fine - which is why the
    defect only showed under load.) -/
theorem caller_first_lucky :
    (run (init callerFirst) [.io, .io, .client]).ioDead = false ∧
    (run (init callerFirst) [.io, .io, .client]).delivered = true := by
  decide

end AmqModel.Props.Handoff
