import AmqModel.Model.Handshake
import AmqModel.Lemmas.Handshake
/-!
# C16 — only a complete handshake yields a connection; failures name their cause
-/
namespace AmqModel.Props.C16
open AmqModel.Handshake AmqModel.Tune

/-- The frames of a list of reads that the handshake machine looks at (heartbeats are skipped). -/
def nonHb (reads : List Read) : List HFrame := (reads.flatMap (·.frames)).filter (· ≠ .heartbeat)

private theorem nonHb_eq (reads : List Read) : nonHb reads = nonHbF reads := rfl

/- statement before fix D18 (false now: frames behind OpenOk in the read that completes the handshake
   are accepted, so the prefix of reads may carry more than the three frames):

theorem success_only_after_complete_handshake (o : Opts) (reads : List Read) (t : Triple)
    (h : (handshake false o reads).result = .connected t) :
    ∃ k mechs locales st,
      nonHb (reads.take k) = [.start mechs locales, .tune st, .openOk] ∧
      (∀ r ∈ reads.take k, r.ending = .wouldBlock ∨ r.ending = .silence) ∧
      serverSupports mechs o.mechanism = true ∧ serverSupports locales o.locale = true ∧
      makeTuneOk o.tuning st = .ok t ∧
      (handshake false o reads).pushed =
        [.startOk o.mechanism o.response o.locale o.information, .tuneOk t, .open_ o.vhost]

   Counterexample: `o = ⟨[80], [], [101], [47], none, ⟨0, 0, 60⟩, true⟩`,
   `reads = [⟨[.start [80] [101], .tune ⟨0, 0, 60⟩, .openOk, .other], .wouldBlock⟩]`: the attempt now
   connects (see the `example` at the end of this file; before the fix it failed with FrameUnexpected),
   but `nonHb (reads.take k)` is `[]` (k = 0) or the four frames (k ≥ 1), never the three. -/

/-- SUCCESS ONLY AFTER A COMPLETE HANDSHAKE. If the attempt yields a connection then some prefix
    of the server's reads — none of them ending the stream — carried, heartbeats aside, exactly
    Start (offering the client's mechanism and locale), Tune (negotiable) and OpenOk, in that
    order, followed (fix D18) by frames that parse and that all came in the same read as OpenOk:
    the reads before that one carried at most Start and Tune; and what the client put on the wire
    is exactly StartOk (its mechanism, response, locale, information), TuneOk (the negotiated
    triple) and Open (its virtual host) — nothing is written for what came behind OpenOk.
    (`k` is the index of the read that completed the handshake: later reads are never looked at;
    that read may also be one after which the server goes silent.) -/
theorem success_only_after_complete_handshake (o : Opts) (reads : List Read) (t : Triple)
    (h : (handshake false o reads).result = .connected t) :
    ∃ k mechs locales st extra,
      nonHb (reads.take (k + 1)) = [.start mechs locales, .tune st, .openOk] ++ extra ∧
      (∀ f ∈ extra, f ≠ .bad) ∧
      nonHb (reads.take k) <+: [.start mechs locales, .tune st] ∧
      (∀ r ∈ reads.take (k + 1), r.ending = .wouldBlock ∨ r.ending = .silence) ∧
      serverSupports mechs o.mechanism = true ∧ serverSupports locales o.locale = true ∧
      makeTuneOk o.tuning st = .ok t ∧
      (handshake false o reads).pushed =
        [.startOk o.mechanism o.response o.locale o.information, .tuneOk t, .open_ o.vhost] := by
  have hi : Inv o .start [] [] := ⟨rfl, rfl⟩
  obtain ⟨k, hk, ⟨s0, acc0, hs0, hk0⟩, he⟩ := hi.connected reads (by simp [Final]) h
  obtain ⟨m, l, st, extra, hpre, hex, hm, hl, ht, hp⟩ := hk
  simp only [List.nil_append] at hpre hk0
  obtain ⟨tail, htail⟩ := nonHbF_take_succ reads k
  refine ⟨k, m, l, st, extra, by rw [nonHb_eq]; exact hpre, hex, ?_, he, hm, hl, ht, hp⟩
  rw [nonHb_eq]
  exact prefix_of_short (htail.symm.trans hpre) (hk0.short hs0)

/-- … and conversely a compliant server gets a connection, however its three frames (with any
    number of heartbeats around them) are grouped into reads. -/
theorem compliant_server_connects (o : Opts) (reads : List Read) (mechs locales : Bytes) (st t : Triple)
    (hf : nonHb reads = [.start mechs locales, .tune st, .openOk])
    (he : ∀ r ∈ reads, r.ending = .wouldBlock)
    (hm : serverSupports mechs o.mechanism = true) (hl : serverSupports locales o.locale = true)
    (ht : makeTuneOk o.tuning st = .ok t) :
    (handshake false o reads).result = .connected t ∧
    (handshake false o reads).pushed =
      [.startOk o.mechanism o.response o.locale o.information, .tuneOk t, .open_ o.vhost] := by
  have hrun : runFrames o .start (nonHbF reads) [] =
      (.ok (.done t),
        [.startOk o.mechanism o.response o.locale o.information, .tuneOk t, .open_ o.vhost]) := by
    rw [← nonHb_eq, hf]
    simp [runFrames, hsStep.eq_def, hm, hl, ht]
  have := runReads_of_run_done (legacy := false) reads .start [] he (by simp [Final]) hrun
  unfold handshake
  rw [this]
  exact ⟨rfl, rfl⟩

/-- STRICTLY IN REACTION. Whatever the server does, what the client writes is a prefix of
    StartOk, TuneOk, Open, CloseOk (the last only in answer to a Close after Open). -/
theorem writes_only_in_reaction (o : Opts) (reads : List Read) :
    ∃ t, (handshake false o reads).pushed <+: [.startOk o.mechanism o.response o.locale o.information, .tuneOk t, .open_ o.vhost, .closeOk] := by
  have hi : Inv o .start [] [] := ⟨rfl, rfl⟩
  obtain ⟨s', pre', hi'⟩ := hi.pushed (legacy := false) reads
  exact hi'.prefix

/-- Nothing at all is written (beyond the protocol header) unless the first thing the server says
    is a Start the client can work with. -/
theorem nothing_before_start (o : Opts) (reads : List Read) (f : HFrame) (rest : List HFrame)
    (hf : nonHb reads = f :: rest)
    (hbad : ∀ m l, f = .start m l → ¬(serverSupports m o.mechanism = true ∧ serverSupports l o.locale = true)) :
    (handshake false o reads).pushed = [] ∧ ∃ e, (handshake false o reads).result = .failed e :=
  runReads_start_unusable reads (by rw [← nonHb_eq]; exact hf) hbad

/-! ### The failure table (one step of the machine; `runReads` ends with the error of the first failing step) -/

theorem unsupported_mechanism (o : Opts) (m l : Bytes) (h : serverSupports m o.mechanism = false) :
    hsStep o .start (.start m l) = .error (.unsupportedAuthMechanism m o.mechanism) := by
  simp [hsStep.eq_def, h]

theorem unsupported_locale (o : Opts) (m l : Bytes) (hm : serverSupports m o.mechanism = true)
    (h : serverSupports l o.locale = false) :
    hsStep o .start (.start m l) = .error (.unsupportedLocale l o.locale) := by
  simp [hsStep.eq_def, h, hm]

theorem secure_challenge (o : Opts) : hsStep o .secure .secure = .error .saslSecureNotSupported := rfl

theorem frame_max_too_small (o : Opts) (st : Triple) (v : Nat) (s : HState) (hs : s = .secure ∨ s = .tune)
    (h : makeTuneOk o.tuning st = .frameMaxTooSmall 4096 v) :
    hsStep o s (.tune st) = .error (.frameMaxTooSmall 4096 v) := by
  rcases hs with rfl | rfl <;> simp [hsStep.eq_def, h]

theorem server_close_instead_of_open_ok (o : Opts) (t : Triple) (code : Nat) (text : Bytes) :
    hsStep o (.open_ t) (.close code text) = .ok (.serverClosing code text, [.closeOk]) := rfl

/- statement before fix D18 (false now for `s = .done t`):

theorem out_of_order_frame (o : Opts) (s : HState) (f : HFrame) (hf : f ≠ .heartbeat)
    (hbad : match s, f with
      | .start, .start _ _ => False
      | .secure, .secure => False
      | .secure, .tune _ => False
      | .tune, .tune _ => False
      | .open_ _, .close _ _ => False
      | .open_ _, .openOk => False
      | _, _ => True) :
    hsStep o s f = .error .frameUnexpected

   Counterexample: `s = .done t`, `f = .other` (any `t`, any `o`): the hypotheses hold, but
   `hsStep o (.done t) .other = .ok (.done t, [])` (`frames_behind_open_ok_are_kept`). -/

theorem out_of_order_frame (o : Opts) (s : HState) (f : HFrame) (hf : f ≠ .heartbeat)
    (hs : ∀ t, s ≠ .done t)
    (hbad : match s, f with
      | .start, .start _ _ => False
      | .secure, .secure => False
      | .secure, .tune _ => False
      | .tune, .tune _ => False
      | .open_ _, .close _ _ => False
      | .open_ _, .openOk => False
      | _, _ => True) :
    hsStep o s f = .error .frameUnexpected := by
  cases s <;> cases f <;> simp [hsStep.eq_def] at hf hbad hs ⊢

/-- (fix D18) Once OpenOk has been seen, whatever else the read carries is accepted — it belongs to
    the established connection — the machine stays `done` and nothing is written for it. -/
theorem frames_behind_open_ok_are_kept (o : Opts) (t : Triple) (f : HFrame) :
    hsStep o (.done t) f = .ok (.done t, []) := hsStep_done o t f

/-- … so a read that carries OpenOk and, behind it, any frames that parse, and then would-block,
    completes the attempt waiting for OpenOk: the connection is up with the negotiated triple, and
    what is on the wire is exactly what had been written so far. -/
theorem open_ok_with_more_connects (legacy : Bool) (o : Opts) (tok : Triple) (fs : List HFrame)
    (rest : List Read) (acc : List CFrame) (hb : ∀ f ∈ fs, f ≠ .bad) :
    runReads legacy o (.open_ tok) (⟨.openOk :: fs, .wouldBlock⟩ :: rest) acc =
      ⟨.connected tok, acc⟩ := by
  have h : runFrames o (.open_ tok) (Read.mk (.openOk :: fs) .wouldBlock).frames acc =
      (.ok (.done tok), acc) := by
    show runFrames o (.open_ tok) (.openOk :: fs) acc = _
    rw [runFrames_cons _ _ _ _ _ (by decide)]
    show runFrames o (.done tok) fs (acc ++ []) = _
    rw [List.append_nil]
    exact runFrames_done o tok fs acc hb
  rw [runReads_cons_ok h]

/-- … and a compliant server that sends more behind OpenOk gets its connection all the same,
    however the frames (with any number of heartbeats around them) are grouped into reads. -/
theorem compliant_server_with_more_connects (o : Opts) (reads : List Read) (mechs locales : Bytes)
    (st t : Triple) (extra : List HFrame)
    (hf : nonHb reads = [.start mechs locales, .tune st, .openOk] ++ extra)
    (hex : ∀ f ∈ extra, f ≠ .bad)
    (he : ∀ r ∈ reads, r.ending = .wouldBlock)
    (hm : serverSupports mechs o.mechanism = true) (hl : serverSupports locales o.locale = true)
    (ht : makeTuneOk o.tuning st = .ok t) :
    handshake false o reads =
      ⟨.connected t,
       [.startOk o.mechanism o.response o.locale o.information, .tuneOk t, .open_ o.vhost]⟩ := by
  have hrun : runFrames o .start (nonHbF reads) [] =
      (.ok (.done t),
        [.startOk o.mechanism o.response o.locale o.information, .tuneOk t, .open_ o.vhost]) := by
    rw [← nonHb_eq, hf, runFrames_append]
    have h3 : runFrames o .start [.start mechs locales, .tune st, .openOk] [] =
        (.ok (.done t),
          [.startOk o.mechanism o.response o.locale o.information, .tuneOk t, .open_ o.vhost]) := by
      simp [runFrames, hsStep.eq_def, hm, hl, ht]
    rw [h3]
    exact runFrames_done o t extra _ hex
  exact runReads_of_run_done (legacy := false) reads .start [] he (by simp [Final]) hrun

/-- The whole-attempt versions of the rows that depend on how the stream ends. -/
theorem dropped_after_start_ok (o : Opts) (m l : Bytes) (hbs : List HFrame) (e : ReadEnd) (rest : List Read)
    (hm : serverSupports m o.mechanism = true) (hl : serverSupports l o.locale = true)
    (hh : ∀ f ∈ hbs, f = .heartbeat) (he : e = .eof ∨ e = .reset) :
    (handshake false o (⟨[.start m l], .wouldBlock⟩ :: ⟨hbs, e⟩ :: rest)).result = .failed .invalidCredentials := by
  have h1 : runFrames o .start (Read.mk [.start m l] .wouldBlock).frames [] =
      (.ok .secure, [.startOk o.mechanism o.response o.locale o.information]) := by
    simp [runFrames, hsStep.eq_def, hm, hl]
  have hfl : hbs.filter (· ≠ .heartbeat) = [] := by
    simp only [List.filter_eq_nil_iff]
    intro f hf; simp [hh f hf]
  have h2 : ∀ acc, runFrames o .secure (Read.mk hbs e).frames acc = (.ok .secure, acc) := by
    intro acc
    show runFrames o .secure hbs acc = _
    rw [← runFrames_filter, hfl]; rfl
  unfold handshake
  rw [runReads_cons_ok h1]
  simp only
  rw [runReads_cons_ok (h2 _)]
  rcases he with rfl | rfl <;> simp [mapErr]

-- The three hypotheses are not needed: with the repaired `mapErr`, ConnectionTimeout can only come
-- from the timeout branch, whatever the server does (`runReads_timeout`).
set_option linter.unusedVariables false in
theorem silent_server (o : Opts) (reads : List Read)
    (he : ∀ r ∈ reads, r.ending = .wouldBlock)
    (hunfinished : ∀ t, (handshake false o reads).result ≠ .connected t)
    (hnoerr : ∀ k, ∀ s acc, runFrames o .start (nonHb (reads.take k)) [] = (.ok s, acc) → True) :
    (∀ e, (handshake false o reads).result = .failed e →
      e = .connectionTimeout → o.timeout = true) ∧
    (o.timeout = false → (handshake false o reads).result ≠ .failed .connectionTimeout) := by
  constructor
  · rintro e h rfl
    exact runReads_timeout reads .start [] h
  · intro hto h
    have := runReads_timeout reads .start [] h
    simp [hto] at this

/-- The sharper version of `silent_server`: reads all ending in would-block whose frames are all
    accepted and leave the machine in `start | secure | tune | open_` end in ConnectionTimeout when
    a timeout is configured and never return otherwise; what those frames made the client queue
    has been written. -/
theorem silent_server_sharp (o : Opts) (reads : List Read) (s : HState) (acc : List CFrame)
    (he : ∀ r ∈ reads, r.ending = .wouldBlock)
    (hrun : runFrames o .start (reads.flatMap (·.frames)) [] = (.ok s, acc))
    (hs : s = .start ∨ s = .secure ∨ s = .tune ∨ ∃ t, s = .open_ t) :
    handshake false o reads =
      ⟨.failed (if o.timeout then .connectionTimeout else .hangs), acc⟩ := by
  refine runReads_of_run_open reads .start [] he ?_ hrun
  rcases hs with rfl | rfl | rfl | ⟨t, rfl⟩ <;> simp [Final]

theorem server_close_reported (o : Opts) (m l : Bytes) (st t : Triple) (code : Nat) (text : Bytes) (rest : List Read)
    (hm : serverSupports m o.mechanism = true) (hl : serverSupports l o.locale = true) (ht : makeTuneOk o.tuning st = .ok t) :
    (handshake false o (⟨[.start m l], .wouldBlock⟩ :: ⟨[.tune st], .wouldBlock⟩ :: ⟨[.close code text], .wouldBlock⟩ :: rest)) =
      ⟨.failed (.serverClosedConnection code text),
       [.startOk o.mechanism o.response o.locale o.information, .tuneOk t, .open_ o.vhost, .closeOk]⟩ := by
  have h1 : runFrames o .start (Read.mk [.start m l] .wouldBlock).frames [] =
      (.ok .secure, [.startOk o.mechanism o.response o.locale o.information]) := by
    simp [runFrames, hsStep.eq_def, hm, hl]
  have h2 : runFrames o .secure (Read.mk [.tune st] .wouldBlock).frames
      [.startOk o.mechanism o.response o.locale o.information] =
      (.ok (.open_ t),
        [.startOk o.mechanism o.response o.locale o.information, .tuneOk t, .open_ o.vhost]) := by
    simp [runFrames, hsStep.eq_def, ht]
  have h3 : runFrames o (.open_ t) (Read.mk [.close code text] .wouldBlock).frames
      [.startOk o.mechanism o.response o.locale o.information, .tuneOk t, .open_ o.vhost] =
      (.ok (.serverClosing code text),
        [.startOk o.mechanism o.response o.locale o.information, .tuneOk t, .open_ o.vhost,
         .closeOk]) := by
    simp [runFrames, hsStep.eq_def]
  unfold handshake
  rw [runReads_cons_ok h1]; simp only
  rw [runReads_cons_ok h2]; simp only
  rw [runReads_cons_ok h3]

/-- Mechanism and locale are matched as whole words of the space-separated list. -/
theorem token_match (tokens : List Bytes) (client : Bytes) (hne : tokens ≠ [])
    (hns : ∀ t ∈ tokens, 32 ∉ t) :
    serverSupports ((tokens.intersperse [32]).flatten) client = true ↔ client ∈ tokens := by
  unfold serverSupports
  rw [splitSpaces_join tokens hne hns]
  simp

/-- D9, the code before the repair: a timeout in state Secure was reported as InvalidCredentials. -/
example :
    (handshake true ⟨[80], [], [101], [47], none, ⟨0, 0, 60⟩, true⟩ [⟨[.start [80] [101]], .wouldBlock⟩]).result
      = .failed .invalidCredentials := by decide
example :
    (handshake false ⟨[80], [], [101], [47], none, ⟨0, 0, 60⟩, true⟩ [⟨[.start [80] [101]], .wouldBlock⟩]).result
      = .failed .connectionTimeout := by decide

/- before fix D18: "done" is only checked after a whole read: a frame after OpenOk in the same read
   failed the attempt, and the read's output was dropped:
example :
    handshake false ⟨[80], [], [101], [47], none, ⟨0, 0, 60⟩, true⟩
      [⟨[.start [80] [101], .tune ⟨0, 0, 60⟩, .openOk, .other], .wouldBlock⟩]
      = ⟨.failed .frameUnexpected, []⟩ := by decide
-/
/-- (fix D18) "done" is only checked after a whole read, and a frame after OpenOk in the same read
    is kept for the established connection: the attempt succeeds, the read's output is written. -/
example :
    handshake false ⟨[80], [], [101], [47], none, ⟨0, 0, 60⟩, true⟩
      [⟨[.start [80] [101], .tune ⟨0, 0, 60⟩, .openOk, .other], .wouldBlock⟩]
      = ⟨.connected ⟨65535, 4294967295, 60⟩,
         [.startOk [80] [] [101] none, .tuneOk ⟨65535, 4294967295, 60⟩, .open_ [47]]⟩ := by decide
/-- … while a frame that does not parse still fails it. -/
example :
    handshake false ⟨[80], [], [101], [47], none, ⟨0, 0, 60⟩, true⟩
      [⟨[.start [80] [101], .tune ⟨0, 0, 60⟩, .openOk, .bad], .wouldBlock⟩]
      = ⟨.failed .malformedFrame, []⟩ := by decide
/-- `token_match` with an empty token: "P  Q" offers the empty word. -/
example : serverSupports [80, 32, 32, 81] [] = true := by decide

end AmqModel.Props.C16
