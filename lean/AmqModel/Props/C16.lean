import AmqModel.Model.Handshake
namespace AmqModel.Props.C16
open AmqModel.Handshake

theorem placeholder : serverSupports [80] [80] = true := by decide

end AmqModel.Props.C16
