import AmqModel.Model.Slots
import AmqModel.Lemmas.Slots
/-!
# C10 — channel ids: unique among open channels, within 1..=channel_max, reusable

Property theorems only (helper lemmas live in `AmqModel/Lemmas/Slots.lean`).
-/
namespace AmqModel.Props.C10
open AmqModel.Slots

/-- Reachable-state invariant of the allocator. `freed` may contain ids that are open again
    (stale entries; the repaired code skips them). The last clause says no id is ever lost:
    every id the counter has passed is open or in the freed set. -/
def Inv (s : Slots) : Prop :=
  s.open_.Nodup ∧ (∀ id ∈ s.open_, 1 ≤ id ∧ id ≤ s.max) ∧
  s.freed.Nodup ∧ (∀ id ∈ s.freed, 1 ≤ id ∧ id ≤ s.max) ∧
  1 ≤ s.next ∧ s.next ≤ s.max + 1 ∧
  (∀ id, 1 ≤ id → id < s.next → id ∈ s.open_ ∨ id ∈ s.freed)

-- `Inv` and the lemma-side `Slots.WF` have the same body, so terms of one type-check as the other.

theorem inv_new (max : Nat) : Inv (Slots.new max) := Slots.wf_new max

theorem inv_step (s : Slots) (op : Op) (h : Inv s) : Inv (step s op) ∧ (step s op).max = s.max :=
  Slots.wf_step h op

/-- Every state reachable by any finite sequence of opens / closes / drains (of any length, in
    particular longer than `channel_max`) satisfies the invariant. -/
theorem inv_reachable (max : Nat) (ops : List Op) : Inv (ops.foldl step (Slots.new max)) :=
  Slots.wf_reachable max ops

/-- `open_channel(Some(id))`: exactly that id iff `1 ≤ id ≤ max` and not open; otherwise
    `UnavailableChannelId id` (in particular for id 0) and nothing changes. -/
theorem insertSome_spec (s : Slots) (id : Nat) :
    (1 ≤ id ∧ id ≤ s.max ∧ id ∉ s.open_ →
        (insertSome s id).2 = .ok id ∧ (insertSome s id).1.open_ = id :: s.open_) ∧
    (¬(1 ≤ id ∧ id ≤ s.max ∧ id ∉ s.open_) → insertSome s id = (s, .unavailable id)) :=
  Slots.insertSome_spec s id

/-- `open_channel(None)` from a reachable state: some id in `1..=max` that was not open, and the
    open set grows by exactly that id; or `ExhaustedChannelIds`, and then every id in `1..=max`
    is open and the open set is unchanged. It never panics and never reports anything else. -/
theorem insertNone_spec (s : Slots) (h : Inv s) :
    (∃ id, (insertNone s).2 = .ok id ∧ 1 ≤ id ∧ id ≤ s.max ∧ id ∉ s.open_ ∧
        (insertNone s).1.open_ = id :: s.open_) ∨
    ((insertNone s).2 = .exhausted ∧ (∀ id, 1 ≤ id → id ≤ s.max → id ∈ s.open_) ∧
        (insertNone s).1.open_ = s.open_) := by
  rcases Slots.insertNone_cases h with ⟨id, e, h1, h2, h3, h4, _⟩ | ⟨e, h1, h2, _⟩
  · exact Or.inl ⟨id, e, h1, h2, h3, h4⟩
  · exact Or.inr ⟨e, h1, h2⟩

/-- … hence it succeeds whenever some id is available. -/
theorem insertNone_succeeds (s : Slots) (h : Inv s) (id : Nat) (h1 : 1 ≤ id) (h2 : id ≤ s.max)
    (h3 : id ∉ s.open_) : ∃ id', (insertNone s).2 = .ok id' := by
  rcases insertNone_spec s h with ⟨id', e, _⟩ | ⟨_, hall, _⟩
  · exact ⟨id', e⟩
  · exact absurd (hall id h1 h2) h3

/-- The counter loop needs no more than `max + 1 - next` iterations: more fuel changes nothing
    (the call cannot hang; there is no wrap-around because `next ≤ max + 1` is invariant). -/
theorem counterLoop_fuel (s : Slots) (n : Nat) (h : s.max + 1 - s.next ≤ n) :
    counterLoop n s = counterLoop (s.max + 1 - s.next) s :=
  Slots.counterLoop_fuel n s h

/-- Closing: the id leaves the open set (and only it), so it is available again. -/
theorem remove_spec (s : Slots) (h : Inv s) (id : Nat) :
    (remove s id).2 = decide (id ∈ s.open_) ∧
    ∀ x, x ∈ (remove s id).1.open_ ↔ (x ∈ s.open_ ∧ x ≠ id) :=
  Slots.remove_spec h.1 id

/-- After a close, the id can be opened again explicitly. -/
theorem reopen_after_remove (s : Slots) (h : Inv s) (id : Nat) (hid : id ∈ s.open_) :
    (insertSome (remove s id).1 id).2 = .ok id := by
  obtain ⟨h1, h2⟩ := h.2.1 id hid
  have hm : (remove s id).1.max = s.max := (Slots.wf_remove h id).2
  have hn : id ∉ (remove s id).1.open_ := fun hx => ((remove_spec s h id).2 id).mp hx |>.2 rfl
  exact ((insertSome_spec (remove s id).1 id).1 ⟨h1, hm ▸ h2, hn⟩).1

/-- After a close, an AUTOMATIC open succeeds too - from every state satisfying the invariant, in
    particular with the counter past `channel_max` and every other id open: the closed id is never
    lost to the automatic path (it is open-able via the counter or via the freed set). -/
theorem auto_open_after_remove (s : Slots) (h : Inv s) (id : Nat) (hid : id ∈ s.open_) :
    ∃ id', (insertNone (remove s id).1).2 = .ok id' := by
  obtain ⟨h1, h2⟩ := h.2.1 id hid
  have hw := Slots.wf_remove h id
  have hn : id ∉ (remove s id).1.open_ := fun hx => ((remove_spec s h id).2 id).mp hx |>.2 rfl
  exact insertNone_succeeds (remove s id).1 hw.1 id h1 (hw.2 ▸ h2) hn

/-- No reachable state hands out id 0, by either path, and no operation panics. -/
theorem never_zero_never_panic (max : Nat) (ops : List Op) (id : Nat) :
    let s := ops.foldl step (Slots.new max)
    (insertSome s id).2 ≠ .ok 0 ∧ (insertNone s).2 ≠ .ok 0 ∧
    (insertSome s id).2 ≠ .panic ∧ (insertNone s).2 ≠ .panic := by
  intro s
  exact ⟨Slots.insertSome_ne_ok_zero s id, Slots.insertNone_ne_ok_zero (inv_reachable max ops),
    Slots.insertSome_ne_panic s id, Slots.insertNone_not_panic s⟩

/-! Non-vacuity: a reachable state with a stale freed entry, and the regression witnesses. -/

example : (([Op.none, .none, .remove 1, .some 1].foldl step (Slots.new 2)).freed = [1]) ∧
    (([Op.none, .none, .remove 1, .some 1].foldl step (Slots.new 2)).open_ = [1, 2]) := by decide
/-- At no point of any history are more than `channel_max` channels open (and the open ids are
    pairwise distinct ids of `1..=channel_max`): the allocator can never over-commit, whatever the
    mix of explicit ids, automatic ids and closes. -/
theorem open_count_le_max (max : Nat) (ops : List Op) :
    let s := ops.foldl step (Slots.new max)
    s.open_.Nodup ∧ (∀ id ∈ s.open_, 1 ≤ id ∧ id ≤ max) ∧ s.open_.length ≤ max := by
  intro s
  have h : Inv s := inv_reachable max ops
  have hm : s.max = max := by
    have : ∀ (ops : List Op) (s0 : Slots), Inv s0 → (ops.foldl step s0).max = s0.max := by
      intro ops
      induction ops with
      | nil => intro s0 _; rfl
      | cons op ops ih =>
        intro s0 h0
        rw [List.foldl_cons, ih _ (inv_step s0 op h0).1, (inv_step s0 op h0).2]
    exact this ops (Slots.new max) (inv_new max)
  refine ⟨h.1, ?_, ?_⟩
  · intro id hid
    have := h.2.1 id hid
    omega
  · have := Slots.nodup_bounded_length s.max s.open_ h.1 h.2.1
    omega

example : (([Op.none, .none, .some 2, .none].foldl step (Slots.new 2)).open_.length) = 2 := by decide

/-- D2: the code before the repair panics on this sequence; the repaired code reports exhaustion. -/
example : (insertNoneG true ([Op.none, .none, .remove 1, .some 1].foldl (stepG true) (Slots.new 2))).2 = .panic := by decide
example : (insertNone ([Op.none, .none, .remove 1, .some 1].foldl step (Slots.new 2))).2 = .exhausted := by decide
/-- D1: the code before the repair hands out id 0. -/
example : (insertSomeG true (Slots.new 4) 0).2 = .ok 0 := by decide
example : (insertSome (Slots.new 4) 0).2 = .unavailable 0 := by decide

end AmqModel.Props.C10
