import AmqModel.Model.Slots
namespace AmqModel.Props.C10
open AmqModel.Slots

theorem placeholder : (Slots.new 1).next = 1 := rfl

end AmqModel.Props.C10
