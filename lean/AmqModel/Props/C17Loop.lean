import AmqModel.Model.ConnHb
import AmqModel.Lemmas.ConnHb
/-!
# C17 (loop level) — the heartbeat timers around the `Conn` machine

Statements from `work/todo/ConnHb_statements.lean`.  Two of them (`no_timeout_while_traffic`,
`idle_sends_heartbeat`) are FALSE as stated, because they quantify over states whose last recorded
rx activity lies in the FUTURE of the clock (`s.now < p.rx.last`): `fire` computes the elapsed time
with truncated subtraction, so such a timer with `interval ≤ 5` expires although
`now + 5 < last + interval`.  Counterexamples are given below; the `_partial` variants add the
hypothesis `p.rx.last ≤ s.now`, which holds in every state reachable from `init`
(`ConnHb.Timely`, `timely_run`), and `_reachable` variants discharge it for reachable states.
-/
namespace AmqModel.Props.C17Loop
open AmqModel AmqModel.Conn AmqModel.Heartbeat AmqModel.ConnHb

/-- HEARTBEAT 0 = OFF.  An interval of 0 starts nothing … -/
theorem zero_starts_nothing (s : St) : startHeartbeats s 0 = s := by
  unfold startHeartbeats
  rw [if_pos rfl]

/-- … with no timers the HEARTBEAT event does nothing at all (no frame, no timeout), … -/
theorem off_event_is_noop (s : St) (h : s.hb = none) (hd : s.c.dead = false) : hbEvent s = (s, .ok) :=
  hbEvent_none s hd h

/-- … and nothing but `start` ever creates timers: off stays off over every history. -/
theorem off_stays_off (s : St) (ops : List ConnHb.Op) (h : s.hb = none) (hops : ∀ o ∈ ops, ∀ k, o ≠ .start k) :
    (run s ops).hb = none :=
  run_hb_none s ops h hops

/-- ANY INBOUND TRAFFIC IS LIVENESS.  A step of the I/O thread that took at least one byte from
    the transport - whether or not the bytes complete a frame - records rx activity at the current
    time. -/
theorem bytes_are_liveness (s : St) (o : IoOp) (p : RxTx) (h : s.hb = some p)
    (hread : bytesIn (Conn.ioStep s.c o).1.reads < bytesIn s.c.reads) :
    ∃ p', (ConnHb.ioStep s o).1.hb = some p' ∧ p'.rx.last = s.now := by
  rw [ioStep_hb, h, decide_eq_true hread]
  simp only [recordActivity, Option.map_some, if_true]
  cases wroteSome (Conn.ioStep s.c o).2
  · exact ⟨_, rfl, rfl⟩
  · exact ⟨_, rfl, rfl⟩

/- ORIGINAL STATEMENT (false):

theorem no_timeout_while_traffic (s : St) (p : RxTx) (h : s.hb = some p)
    (hrecent : s.now + FUDGE < p.rx.last + p.rx.interval) :
    (hbEvent s).2 ≠ .missedServerHeartbeats

Counterexample: clock at 0, rx timer with last activity recorded at 10 (in the future), interval 3,
due at 0.  `0 + 5 < 10 + 3`, yet `fire` sees `elapsed = 0 - 10 = 0` and `3 ≤ 0 + 5`: expired. -/
example : ¬ ∀ (s : St) (p : RxTx), s.hb = some p → s.now + FUDGE < p.rx.last + p.rx.interval →
    (hbEvent s).2 ≠ .missedServerHeartbeats := by
  intro hall
  exact hall { c := Conn.init 4 4, now := 0, hb := some ⟨⟨10, 3, 0⟩, ⟨0, 100, 1000⟩⟩ } _ rfl
    (by decide) (by decide +kernel)

/-- NOT BEFORE 2h OF SILENCE.  Whatever timers are due, the HEARTBEAT event does not end the
    connection while the last inbound byte is less than (rx interval − 5 ms) old.

    PARTIAL: hypothesis `hpast : p.rx.last ≤ s.now` added (the last recorded rx activity is not in
    the future of the clock); everything else as in the original statement. -/
theorem no_timeout_while_traffic_partial (s : St) (p : RxTx) (h : s.hb = some p)
    (hpast : p.rx.last ≤ s.now)
    (hrecent : s.now + FUDGE < p.rx.last + p.rx.interval) :
    (hbEvent s).2 ≠ .missedServerHeartbeats := by
  cases hd : s.c.dead
  · rw [hbEvent_some s p hd h]
    split
    · rename_i hm
      have := fireDue_missed 4 s.c p s.now hm
      simp only [FUDGE] at this hrecent
      omega
    · intro hc; cases hc
  · rw [hbEvent_dead s hd]
    intro hc; cases hc

/-- The added hypothesis holds in every reachable state: the original statement, for the states
    `run (init …) ops`. -/
theorem no_timeout_while_traffic_reachable (channelMax bound : Nat) (ops : List ConnHb.Op) (p : RxTx)
    (h : (run (init channelMax bound) ops).hb = some p)
    (hrecent : (run (init channelMax bound) ops).now + FUDGE < p.rx.last + p.rx.interval) :
    (hbEvent (run (init channelMax bound) ops)).2 ≠ .missedServerHeartbeats :=
  no_timeout_while_traffic_partial _ p h
    (timely_run _ ops (timely_init channelMax bound) p h).1 hrecent

/-- ENFORCED.  When the rx timer is due and nothing has arrived for its whole interval, the event
    ends the loop with MissedServerHeartbeats and the connection is dead (so C05 releases everybody). -/
theorem silence_is_fatal (s : St) (p : RxTx) (h : s.hb = some p) (hd : s.c.dead = false)
    (hdue : p.rx.dueAt ≤ s.now) (hsilent : p.rx.last + p.rx.interval ≤ s.now + FUDGE)
    (htx : 0 < p.tx.interval) :
    (hbEvent s).2 = .missedServerHeartbeats ∧ (hbEvent s).1.c.dead = true := by
  have hm : (fireDue 4 s.c p s.now).2.2 = true :=
    fireDue_silent 2 s.c p s.now hdue (by simp only [FUDGE] at hsilent ⊢; omega) htx
  rw [hbEvent_some s p hd h, if_pos hm]
  exact ⟨rfl, kill_dead _⟩

/- ORIGINAL STATEMENT (false):

theorem idle_sends_heartbeat (s : St) (p : RxTx) (h : s.hb = some p) (hd : s.c.dead = false)
    (hdue : p.tx.dueAt ≤ s.now) (hidle : p.tx.last + p.tx.interval ≤ s.now + FUDGE)
    (hempty : s.c.out = []) (hseal : s.c.sealed = false)
    (hrx : s.now + FUDGE < p.rx.last + p.rx.interval) (hiv : 0 < p.tx.interval) (hiv2 : 0 < p.rx.interval) :
    (hbEvent s).1.c.out = heartbeatFrame

Counterexample: clock at 10; rx timer with last activity recorded at 20 (in the future), interval 3,
due at 0; tx timer last 0, interval 5, due at 5.  All hypotheses hold (`10 + 5 < 20 + 3`), the rx
timer is due earlier and fires first, `fire` sees `elapsed = 10 - 20 = 0`, `3 ≤ 0 + 5`: the loop
ends with MissedServerHeartbeats and nothing was queued. -/
example : ¬ ∀ (s : St) (p : RxTx), s.hb = some p → s.c.dead = false →
    p.tx.dueAt ≤ s.now → p.tx.last + p.tx.interval ≤ s.now + FUDGE →
    s.c.out = [] → s.c.sealed = false →
    s.now + FUDGE < p.rx.last + p.rx.interval → 0 < p.tx.interval → 0 < p.rx.interval →
    (hbEvent s).1.c.out = heartbeatFrame := by
  intro hall
  have := hall { c := Conn.init 4 4, now := 10, hb := some ⟨⟨20, 3, 0⟩, ⟨0, 5, 5⟩⟩ } _ rfl
    (by decide +kernel) (by decide) (by decide) (by decide +kernel) (by decide +kernel)
    (by decide) (by decide) (by decide)
  revert this
  decide +kernel

/-- SENT WHEN IDLE.  When the tx timer is due, nothing has been written for its whole interval, the
    output buffer is empty and not sealed, and the rx side is not expiring, the event queues exactly
    one heartbeat frame.

    PARTIAL: hypothesis `hpast : p.rx.last ≤ s.now` added (the last recorded rx activity is not in
    the future of the clock); everything else as in the original statement (`hiv2` is then
    redundant and kept only for uniformity). -/
theorem idle_sends_heartbeat_partial (s : St) (p : RxTx) (h : s.hb = some p) (hd : s.c.dead = false)
    (hpast : p.rx.last ≤ s.now)
    (hdue : p.tx.dueAt ≤ s.now) (hidle : p.tx.last + p.tx.interval ≤ s.now + FUDGE)
    (hempty : s.c.out = []) (hseal : s.c.sealed = false)
    (hrx : s.now + FUDGE < p.rx.last + p.rx.interval) (hiv : 0 < p.tx.interval) (_hiv2 : 0 < p.rx.interval) :
    (hbEvent s).1.c.out = heartbeatFrame := by
  have ho : (fireDue 4 s.c p s.now).1.out = heartbeatFrame :=
    fireDue_idle_push 2 s.c p s.now hdue (by simp only [FUDGE] at hidle ⊢; omega) hempty hseal
      (by simp only [FUDGE] at hrx ⊢; omega) hiv
  rw [hbEvent_some s p hd h]
  split
  · show (kill _).out = heartbeatFrame
    rw [kill_out]; exact ho
  · exact ho

/-- The original statement, for the states `run (init …) ops`. -/
theorem idle_sends_heartbeat_reachable (channelMax bound : Nat) (ops : List ConnHb.Op) (s : St) (p : RxTx)
    (hs : s = run (init channelMax bound) ops)
    (h : s.hb = some p) (hd : s.c.dead = false)
    (hdue : p.tx.dueAt ≤ s.now) (hidle : p.tx.last + p.tx.interval ≤ s.now + FUDGE)
    (hempty : s.c.out = []) (hseal : s.c.sealed = false)
    (hrx : s.now + FUDGE < p.rx.last + p.rx.interval) (hiv : 0 < p.tx.interval) (hiv2 : 0 < p.rx.interval) :
    (hbEvent s).1.c.out = heartbeatFrame := by
  subst hs
  exact idle_sends_heartbeat_partial _ p h hd
    (timely_run _ ops (timely_init channelMax bound) p h).1 hdue hidle hempty hseal hrx hiv hiv2

/-- The event never queues anything but heartbeat frames, at most one, and only into an empty buffer. -/
theorem event_output (s : St) :
    (hbEvent s).1.c.out = s.c.out ∨ (s.c.out = [] ∧ (hbEvent s).1.c.out = heartbeatFrame) := by
  cases hd : s.c.dead
  · cases h : s.hb with
    | none => rw [hbEvent_none s hd h]; exact Or.inl rfl
    | some p =>
      rw [hbEvent_some s p hd h]
      split
      · show (kill _).out = s.c.out ∨ (s.c.out = [] ∧ (kill _).out = heartbeatFrame)
        rw [kill_out]
        exact fireDue_out 4 s.c p s.now
      · exact fireDue_out 4 s.c p s.now
  · rw [hbEvent_dead s hd]; exact Or.inl rfl

/-- C08: NOTHING AFTER THE CLOSE POINT.  Once writes are sealed (the client's Connection.Close, the
    CloseOk answering the server's, or a client exception's Close has been queued) no timer event
    queues anything any more. -/
theorem sealed_event_queues_nothing (s : St) (hs : s.c.sealed = true) : (hbEvent s).1.c.out = s.c.out := by
  cases hd : s.c.dead
  · cases h : s.hb with
    | none => rw [hbEvent_none s hd h]
    | some p =>
      rw [hbEvent_some s p hd h]
      split
      · show (kill _).out = s.c.out
        rw [kill_out]
        exact fireDue_out_of_sealed 4 s.c p s.now hs
      · exact fireDue_out_of_sealed 4 s.c p s.now hs
  · rw [hbEvent_dead s hd]

/-- The timers never resurrect or disturb anything else: the event leaves slots, links, queues and
    the connection state of a surviving loop untouched. -/
theorem event_touches_only_out (s : St) (h : (hbEvent s).2 = .ok) :
    (hbEvent s).1.c.slots = s.c.slots ∧ (hbEvent s).1.c.links = s.c.links ∧ (hbEvent s).1.c.st = s.c.st ∧
    (hbEvent s).1.c.sealed = s.c.sealed ∧ (hbEvent s).1.c.dead = s.c.dead := by
  cases hd : s.c.dead
  · cases hh : s.hb with
    | none => rw [hbEvent_none s hd hh]; exact ⟨rfl, rfl, rfl, rfl, hd⟩
    | some p =>
      rw [hbEvent_some s p hd hh] at h ⊢
      split at h
      · cases h
      · rename_i hm
        rw [if_neg hm]
        have := fireDue_fields 4 s.c p s.now
        rw [hd] at this
        exact this
  · rw [hbEvent_dead s hd] at h
    cases h

/-- Non-vacuity: a concrete run in which a heartbeat is queued and, later, the connection is
    declared dead. -/
example :
    let s0 := startHeartbeats (init 4 4) 400
    let s1 := (hbEvent (sleep s0 560)).1
    s1.c.out = heartbeatFrame ∧ (hbEvent (sleep s1 600)).2 = .missedServerHeartbeats := by
  decide +kernel

end AmqModel.Props.C17Loop
