import AmqModel.Model.ConnRun
import AmqModel.Props.C04
import AmqModel.Props.C20
import AmqModel.Props.C10
import AmqModel.Lemmas.ConnC04
/-!
# C09 — a server-initiated channel close affects that channel only

Property theorems only; helper lemmas (the explicit post-state `closedChannel` of a fully reported
close, the consumer-queue bookkeeping of `notifyConsumers`, the additional reachable-state
invariant `Inv2` "slot keys are open ids of the allocator") live in
`AmqModel/Lemmas/ConnC04.lean`.
-/
namespace AmqModel.Props.C09
open AmqModel.Conn AmqModel.Collector

/-- THE CLOSE IS LOCAL. Processing the server's Channel.Close(n, code, text) in the steady state,
    when the handle is there to be told (reply queue has room, consumers' receivers alive):
    * slot `n` is gone, every other slot is exactly as it was;
    * the owner's reply queue got `ServerClosedChannel n code text` at its end and its I/O-thread
      end is dropped (later submissions fail, later receives drain then disconnect);
    * Channel.CloseOk on `n` is queued (unless writes are sealed); the connection stays steady;
    * no error is returned.

    (No `Nodup` hypothesis on the consumers' queue ids is needed here: `sendCons` / `dropConsTx`
    never change any queue's `rxAlive`.) -/
theorem chan_close_local (c : Conn) (n code : Nat) (text dc df : Bytes) (slot : Slot)
    (hs : c.st = .steady) (hn : n ≠ 0) (hslot : lookupN n c.slots = some slot)
    (halive : (getLink c slot.lid).clientAlive = true) (hroom : (getLink c slot.lid).replies.length < 2)
    (hcons : ∀ p ∈ slot.consumers, ∃ q, lookupN p.2 c.cqs = some q ∧ q.rxAlive = true) :
    let r := process c (.method n 20 40 [.nat code, .bytes text]) dc df
    r.2 = none ∧ r.1.st = .steady ∧
    lookupN n r.1.slots = none ∧ (∀ m, m ≠ n → lookupN m r.1.slots = lookupN m c.slots) ∧
    (getLink r.1 slot.lid).replies = (getLink c slot.lid).replies ++ [.err (.serverClosedChannel n code text)] ∧
    (getLink r.1 slot.lid).ioAlive = false ∧
    r.1.out = (if c.sealed then c.out else c.out ++ channelCloseOk n) := by
  intro r
  have e : r = (closedChannel c n code text slot, none) :=
    process_close_ok hs hn code text dc df hslot halive hroom hcons
  obtain ⟨h1, h2, _, h4, h5, _⟩ := closedChannel_spec c n code text slot
  rw [e]
  refine ⟨rfl, h1.trans hs, ?_, fun m hm => ?_, ?_, ?_, h4⟩
  · show lookupN n (closedChannel c n code text slot).slots = none
    rw [h2, lookupN_eraseN_self]
  · show lookupN m (closedChannel c n code text slot).slots = _
    rw [h2, lookupN_eraseN_ne (Ne.symm hm)]
  · show (getLink (closedChannel c n code text slot) slot.lid).replies = _
    rw [h5]
  · show (getLink (closedChannel c n code text slot) slot.lid).ioAlive = false
    rw [h5]

/-- Every consumer of the closed channel receives ServerClosedChannel as its last message and its
    queue is disconnected afterwards. -/
theorem chan_close_notifies_consumers (c : Conn) (n code : Nat) (text dc df : Bytes) (slot : Slot)
    (hs : c.st = .steady) (hn : n ≠ 0) (hslot : lookupN n c.slots = some slot)
    (halive : (getLink c slot.lid).clientAlive = true) (hroom : (getLink c slot.lid).replies.length < 2)
    (hcons : ∀ p ∈ slot.consumers, ∃ q, lookupN p.2 c.cqs = some q ∧ q.rxAlive = true)
    (hnodup : (slot.consumers.map (·.2)).Nodup) :
    ∀ p ∈ slot.consumers, ∀ q, lookupN p.2 c.cqs = some q →
      lookupN p.2 (process c (.method n 20 40 [.nat code, .bytes text]) dc df).1.cqs =
        some { q with msgs := q.msgs ++ [.serverClosedChannel n code text], txAlive := false } := by
  intro p hp q hq
  rw [process_close_ok hs hn code text dc df hslot halive hroom hcons]
  show lookupN p.2 (closedChannel c n code text slot).cqs = _
  rw [closedChannel_cqs c n code text slot hcons hnodup p.2 (List.mem_map_of_mem hp), hq]
  rfl

/-- Other channels' links (FIFOs, reply queues) are untouched by the close of channel `n`. -/
theorem chan_close_other_links (c : Conn) (n code : Nat) (text dc df : Bytes) (slot : Slot) (lid : Nat)
    (hs : c.st = .steady) (hn : n ≠ 0) (hslot : lookupN n c.slots = some slot) (hl : lid ≠ slot.lid) :
    getLink (process c (.method n 20 40 [.nat code, .bytes text]) dc df).1 lid = getLink c lid := by
  rw [process_close_eq_pcm hs hn code text dc df hslot]
  exact (pcm_close_frame code text dc hslot).2.2 lid hl

/-- The id becomes available again: from a reachable state, after the close, an explicit open of
    `n` succeeds.  (Uses the additional reachable-state invariant `Inv2` — every slot key is an
    open id of the allocator — proved in `Lemmas/ConnC04.lean`, next to `Inv`.) -/
theorem id_available_again (cm b : Nat) (ops : List Op) (hl : ∀ o ∈ ops, ApiLegal o) (n code : Nat) (text dc df : Bytes)
    (slot : Slot) (hs : (run (init cm b) ops).st = .steady) (hslot : lookupN n (run (init cm b) ops).slots = some slot) :
    (Slots.insertSome (process (run (init cm b) ops) (.method n 20 40 [.nat code, .bytes text]) dc df).1.alloc n).2 = .ok n :=
  reopen_after_close (inv_reachable cm b ops hl) (inv2_reachable cm b ops) hs code text dc df hslot

/-- A wake-up for the closed channel that was already pending is ignored, and a later submission
    through the old handle is refused (restated from C20). -/
theorem stale_wakeup_and_late_submission (c : Conn) (n : Nat) (label : Label) (lid : Nat) (m : Msg)
    (hn : n ≠ 0) (h : lookupN n c.slots = none)
    (hh : lookupS label c.handles = some lid) (hd : (getLink c lid).ioAlive = false) :
    handleEvent c (.chan n) = (c, [], none) ∧ (clientSend c label m).2 = .disconnected :=
  ⟨C20.stale_channel_event_is_noop c n hn h, (C20.request_after_close_fails c label lid m hh hd).1⟩

set_option linter.unusedVariables false in
/-- A reopened id starts from a fresh slot: idle collector, no consumers, no listeners, a new link.

    ADDED HYPOTHESIS (allowed by the NOTE of the task): `hfresh : lookupN c.nextLid c.links = none`
    — the link id about to be handed out is not in use; without it `getLink` would find the older
    entry.  (`hd` is not needed.) -/
theorem reopened_slot_is_fresh (c : Conn) (n : Nat) (hs : c.st = .steady) (hd : c.dead = false)
    (hreq : c.allocReq = [some n]) (hrep : c.allocRep = []) (h0 : ch0Alive c = true)
    (hok : (Slots.insertSome c.alloc n).2 = .ok n)
    (hfresh : lookupN c.nextLid c.links = none) :
    let c' := (handleEvent c .alloc).1
    lookupN n c'.slots = some { lid := c.nextLid } ∧ c'.allocRep = [.ok c.nextLid] ∧
    getLink c' c.nextLid = { chan := n, src := if c.registered then ({} : Src).register else (({} : Src).register).deregister } := by
  intro c'
  have e : c' = _ := alloc_fresh hs hreq hrep h0 hok
  rw [e]
  refine ⟨?_, rfl, getLink_append_fresh hfresh _ rfl⟩
  show lookupN n (insertSorted n { lid := c.nextLid } c.slots) = _
  rw [lookupN_insertSorted, if_pos rfl]

end AmqModel.Props.C09
