import AmqModel.Model.ConnRun
import AmqModel.Lemmas.Collector
import AmqModel.Lemmas.ConnC07
/-!
# C03 — inbound messages are reassembled and delivered exactly once, intact, in order

Property theorems only; the inductions live in `AmqModel/Lemmas/Collector.lean` (stated for an
arbitrary frame alphabet, instantiated here with `CFrame`), the lemmas about `process` in
`AmqModel/Lemmas/ConnC07.lean`.
-/
namespace AmqModel.Props.C03
open AmqModel.Conn AmqModel.Collector

/-- The frames of one channel as the collector sees them. -/
inductive CFrame where
  | method (k : Kind)
  | header (size : Nat) (props : Bytes)
  | body (payload : Bytes)
  deriving Repr, DecidableEq

def cstep (s : CState) : CFrame → Res
  | .method k => collectMethod s k
  | .header size props => collectHeader s size props
  | .body payload => collectBody s payload

/-- Feed frames until the first protocol error; the contents completed on the way, in order, and
    the final state (`none` after an error). -/
def crun : CState → List CFrame → List Content × Option CState
  | s, [] => ([], some s)
  | s, f :: fs =>
    match cstep s f with
    | .unexpected => ([], none)
    | .more s' => crun s' fs
    | .done ct => let (cs, r) := crun .idle fs; (ct :: cs, r)

/-- `CFrame` / `cstep` as an instance of the alphabet the collector lemmas are stated for. -/
def alg : FrameAlg CFrame where
  step := cstep
  m := .method
  h := .header
  b := .body
  step_m := fun _ _ => rfl
  step_h := fun _ _ _ => rfl
  step_b := fun _ _ => rfl
  cases := fun f => by
    cases f with
    | method k => exact Or.inl ⟨k, rfl⟩
    | header size props => exact Or.inr (Or.inl ⟨size, props, rfl⟩)
    | body payload => exact Or.inr (Or.inr ⟨payload, rfl⟩)

/-- `crun` is the runner of the lemma file. -/
theorem crun_eq (s : CState) (fs : List CFrame) : crun s fs = runWith alg s fs := by
  induction fs generalizing s with
  | nil => rfl
  | cons f fs ih =>
    rw [runWith_cons]
    show crun s (f :: fs) = match cstep s f with
      | .unexpected => ([], none)
      | .more s' => runWith alg s' fs
      | .done ct => (ct :: (runWith alg .idle fs).1, (runWith alg .idle fs).2)
    unfold crun
    cases cstep s f with
    | more s' => exact ih s'
    | done ct => simp only [ih]
    | unexpected => rfl

/-- EVERY PARTITION. A content method, a header announcing `size`, then body frames whose
    payloads add up to `size` with every proper prefix strictly shorter (so empty body frames are
    allowed anywhere but at the end): exactly one content is produced, at the last frame, and it is
    the method, the header's properties and the concatenation of the payloads; the collector is
    idle again.  (`size = 0` ⇒ `parts = []`: the content is produced at the header.) -/
theorem collector_reassembles (k : Kind) (size : Nat) (props : Bytes) (parts : List Bytes)
    (hsum : parts.flatten.length = size)
    (hpre : ∀ i, i < parts.length → (parts.take i).flatten.length < size) :
    crun .idle (.method k :: .header size props :: parts.map .body)
      = ([⟨k, props, parts.flatten⟩], some .idle) := by
  rw [crun_eq]; exact runWith_reassembles alg k size props parts hsum hpre

/-- … and nothing is produced before the last frame. -/
theorem collector_not_early (k : Kind) (size : Nat) (props : Bytes) (parts : List Bytes)
    (hpre : ∀ i, i ≤ parts.length → (parts.take i).flatten.length < size) :
    (crun .idle (.method k :: .header size props :: parts.map .body)).1 = [] := by
  rw [crun_eq]; exact runWith_not_early alg k size props parts hpre

/-- NO MIS-ASSEMBLY, for arbitrary frame sequences (valid or not): every content the collector
    ever produces is spelled out by a contiguous run of the input — its method, a header whose
    announced size is the body length, and body frames whose payloads concatenate to the body. -/
theorem collector_sound (fs : List CFrame) (ct : Content) (h : ct ∈ (crun .idle fs).1) :
    ∃ (pre : List CFrame) (parts : List Bytes) (post : List CFrame),
      fs = pre ++ (CFrame.method ct.kind :: CFrame.header ct.body.length ct.props :: parts.map CFrame.body) ++ post ∧
      parts.flatten = ct.body := by
  rw [crun_eq] at h; exact runWith_sound alg fs ct h

/-- Successive messages come out in the order sent, each once. -/
theorem collector_sequence (msgs : List (Kind × Bytes × List Bytes))
    (hok : ∀ m ∈ msgs, ∀ i, i < m.2.2.length → (m.2.2.take i).flatten.length < m.2.2.flatten.length) :
    crun .idle (msgs.flatMap fun m => .method m.1 :: .header m.2.2.flatten.length m.2.1 :: m.2.2.map .body)
      = (msgs.map fun m => ⟨m.1, m.2.1, m.2.2.flatten⟩, some .idle) := by
  rw [crun_eq]; exact runWith_sequence alg msgs hok

/-- The slot's collector inside `process` is this collector: a header / body frame for an open
    channel `n ≠ 0` in the steady state runs `collectHeader` / `collectBody` on slot `n`'s state. -/
theorem process_header_uses_collector (c : Conn) (n cid size : Nat) (props dc df : Bytes) (slot : Slot)
    (hs : c.st = .steady) (hn : n ≠ 0) (hslot : lookupN n c.slots = some slot) :
    process c (.header n cid size props) dc df = afterCollect c n slot (collectHeader slot.coll size props) :=
  process_header_slot hs hn hslot cid size props dc df

theorem process_body_uses_collector (c : Conn) (n : Nat) (payload dc df : Bytes) (slot : Slot)
    (hs : c.st = .steady) (hn : n ≠ 0) (hslot : lookupN n c.slots = some slot) :
    process c (.body n payload) dc df = afterCollect c n slot (collectBody slot.coll payload) :=
  process_body_slot hs hn hslot payload dc df

/-- DISPATCH. A completed delivery goes to the queue of the consumer registered under that tag on
    that channel — appended at its end — and nowhere else: every other consumer queue, every
    listener queue, every reply queue, the output buffer and every other slot are untouched. -/
theorem dispatch_delivery (c : Conn) (n : Nat) (slot : Slot) (tag : Bytes) (dtag : Nat) (red : Bool)
    (ex rk props body : Bytes) (qid : Nat) (q : CQ)
    (hc : lookupB tag slot.consumers = some qid) (hq : lookupN qid c.cqs = some q) (hrx : q.rxAlive = true) :
    dispatchContent c n slot ⟨.deliver tag dtag red ex rk, props, body⟩ =
      ({ c with cqs := setN qid { q with msgs := q.msgs ++ [.delivery n dtag red ex rk props body] } c.cqs }, none) := by
  simp only [dispatchContent, hc, sendCons, hq, hrx, Bool.not_true, Bool.false_eq_true, if_false]

/-- A completed get goes to the channel's own reply queue. -/
theorem dispatch_get (c : Conn) (n : Nat) (slot : Slot) (dtag : Nat) (red : Bool) (ex rk props body : Bytes) (count : Nat) :
    dispatchContent c n slot ⟨.get dtag red ex rk count, props, body⟩ =
      sendReply c slot.lid (.getSome n dtag red ex rk count props body) := rfl

/-- A returned message goes to the channel's current return listener, or is discarded (never an error). -/
theorem dispatch_return_never_fails (c : Conn) (n : Nat) (slot : Slot) (code : Nat) (text ex rk props body : Bytes) :
    (dispatchContent c n slot ⟨.ret code text ex rk, props, body⟩).2 = none := by
  simp only [dispatchContent]
  repeat' split
  all_goals rfl

/-- CHANNEL INDEPENDENCE. A frame on channel `m` leaves every other channel's slot — its
    collector, its consumer table, its listeners — exactly as it was (connection-level frames on
    channel 0 aside), whatever the frame and whatever state channel `m` is in. -/
theorem other_slots_untouched (c : Conn) (f : Frame) (dc df : Bytes) (m n : Nat) (hm : m ≠ 0) (hmn : n ≠ m)
    (hf : match f with
      | .method ch _ _ _ => ch = m
      | .header ch _ _ _ => ch = m
      | .body ch _ => ch = m
      | .heartbeat _ => True) :
    lookupN n (process c f dc df).1.slots = lookupN n c.slots :=
  off_process c f dc df hm (by cases f <;> exact hf) n hmn

/-- NO HEAD-OF-LINE BLOCKING. Processing a content frame never blocks on a consumer or listener
    queue, however much is queued there (only the connection-level CloseOk reply can block). -/
theorem content_frames_never_block (c : Conn) (f : Frame) (dc df : Bytes)
    (hf : match f with
      | .method ch cls mid _ => ¬(ch = 0 ∧ cls = 10 ∧ mid = 51)
      | _ => True) :
    (process c f dc df).2 ≠ some .hang :=
  nh_process c f dc df (by cases f <;> exact hf)

example : crun .idle [.method (.deliver [116] 1 false [] [107]), .header 3 [0, 0], .body [1], .body [], .body [2, 3]]
    = ([⟨.deliver [116] 1 false [] [107], [0, 0], [1, 2, 3]⟩], some .idle) := by decide

end AmqModel.Props.C03
