import AmqModel.Lemmas.FrameBuffer
/-!
# C06 — frame decoding does not depend on how the byte stream is segmented

Property theorems only (helper lemmas live in `AmqModel/Lemmas/FrameBuffer.lean`).
`framesOf parse bytes = (frames, rest, ok)` is the segmentation-free reading of a byte string:
all whole envelopes at its head, in order, up to (excluding) the first one `parse` rejects
(`ok = false` then, and `rest` starts with the rejected envelope).
-/
namespace AmqModel.Props.C06
open AmqModel.FrameBuffer

/-- All bytes a transport script will ever deliver, in order. -/
def scriptData : List ReadEv → Bytes
  | [] => []
  | .chunk bs :: r => bs ++ scriptData r
  | _ :: r => scriptData r

theorem scriptData_eq (s : List ReadEv) : scriptData s = sdata s := by
  induction s with
  | nil => rfl
  | cons e s ih => cases e <;> simp [scriptData, sdata, ih]

/-- Every envelope is at least 8 bytes long (termination measure of the decode loop). -/
theorem frameSize_ge_8 (buf : Bytes) (n : Nat) (h : frameSize? buf = some n) : 8 ≤ n :=
  FrameBuffer.frameSize_ge_8 h

/-- The size of the first envelope depends only on the first 7 bytes. -/
theorem frameSize_append (buf more : Bytes) (n : Nat) (h : frameSize? buf = some n) :
    frameSize? (buf ++ more) = some n :=
  FrameBuffer.frameSize_append more h

/-- Decoding is compositional: reading `buf ++ more` = the frames of `buf`, then (if none of
    them was rejected) the frames of what `buf` left over followed by `more`. -/
theorem framesOf_append (parse : Bytes → Bool) (buf more : Bytes) :
    framesOf parse (buf ++ more) =
      (match framesOf parse buf with
       | (fs, r, true) =>
         (match framesOf parse (r ++ more) with
          | (gs, r', ok) => (fs ++ gs, r', ok))
       | (fs, r, false) => (fs, r ++ more, false)) := by
  rw [framesOf_append']
  obtain ⟨fs, r, ok⟩ := framesOf parse buf
  cases ok <;> rfl

/-- The frames of a byte string concatenate back to the bytes consumed. -/
theorem framesOf_flatten (parse : Bytes → Bool) (buf : Bytes) :
    (framesOf parse buf).1.flatten ++ (framesOf parse buf).2.1 = buf :=
  FrameBuffer.framesOf_flatten parse buf

/-- The fuel handed to the loop of `read_from` always suffices: more fuel changes nothing
    (the call cannot spin). -/
theorem readLoop_fuel (parse : Bytes → Bool) (failAt : Option Nat) (buf : Bytes)
    (script : List ReadEv) (seen nread : Nat) (acc : List Bytes) (n : Nat)
    (h : readFuel buf script ≤ n) :
    readLoop parse failAt n buf script seen nread acc =
      readLoop parse failAt (readFuel buf script) buf script seen nread acc :=
  readLoop_fuel_irrel parse failAt buf script seen nread acc _ _
    (Nat.le_trans (need_le_readFuel buf script) h) (need_le_readFuel buf script)

/-- ONE CALL, any segmentation. Whatever the script (chunks of any sizes, would-block anywhere,
    end of stream, read error), a `read_from` call with a handler that never fails consumes some
    prefix `consumed` of the bytes the transport offers and hands on exactly the whole frames of
    `buf ++ consumed`, in order, each once, stopping at the first frame that does not parse; what
    is left stays buffered. `MalformedFrame` is reported iff such a frame was met; the reported
    byte count of a successful call is the number of bytes consumed. -/
theorem read_call_spec (parse : Bytes → Bool) (buf : Bytes) (script : List ReadEv) (seen : Nat) :
    let r := readFrom parse none buf script seen
    ∃ consumed : Bytes,
      scriptData script = consumed ++ scriptData r.script ∧
      framesOf parse (buf ++ consumed) = (r.frames, r.buf, decide (r.res ≠ .malformedFrame)) ∧
      (∀ n, r.res = .ok n → n = consumed.length) ∧
      r.res ≠ .handlerErr := by
  simp only [scriptData_eq]
  exact readFrom_spec parse buf script seen

/-- Promptness: after a call that returned `Ok`, no complete frame is left waiting in the
    buffer (every frame whose last byte has arrived was handed on). -/
theorem prompt (parse : Bytes → Bool) (buf : Bytes) (script : List ReadEv) (seen n : Nat)
    (h : (readFrom parse none buf script seen).res = .ok n) :
    framesOf parse (readFrom parse none buf script seen).buf
      = ([], (readFrom parse none buf script seen).buf, true) :=
  readFrom_prompt parse none buf script seen n h

/-- Successive calls. `runCalls` feeds each call its own script (what a call leaves unconsumed is
    offered again to the next one) and stops at the first call that fails. -/
def runCalls (parse : Bytes → Bool) : Bytes → List ReadEv → List (List ReadEv) → List Bytes × Bytes × List ReadEv × RdRes
  | buf, pending, [] => ([], buf, pending, .ok 0)
  | buf, pending, s :: ss =>
    let r := readFrom parse none buf (pending ++ s) 0
    match r.res with
    | .ok _ =>
      let (fs, b, p, res) := runCalls parse r.buf r.script ss
      (r.frames ++ fs, b, p, res)
    | e => (r.frames, r.buf, r.script, e)

theorem runCalls_eq (parse : Bytes → Bool) (calls : List (List ReadEv)) :
    ∀ buf pending, runCalls parse buf pending calls = runAll parse buf pending calls := by
  induction calls with
  | nil => intro buf pending; rfl
  | cons s ss ih =>
    intro buf pending
    simp only [runCalls, runAll, ih]
    cases (readFrom parse none buf (pending ++ s) 0).res <;> rfl

/-- SEGMENTATION INDEPENDENCE. Starting from an empty buffer, for every way of cutting the byte
    stream into reads and calls, the frames handed on over all calls are exactly the frames of
    the bytes consumed so far (`framesOf` of their concatenation): a function of the bytes only. -/
theorem segmentation_independent (parse : Bytes → Bool) (calls : List (List ReadEv)) :
    let out := runCalls parse [] [] calls
    ∃ consumed rest : Bytes,
      scriptData calls.flatten = consumed ++ rest ∧
      framesOf parse consumed = (out.1, out.2.1, decide (out.2.2.2 ≠ .malformedFrame)) ∧
      ((∃ n, out.2.2.2 = .ok n) → rest = scriptData out.2.2.1) := by
  simp only [scriptData_eq, runCalls_eq]
  simpa using runAll_spec parse calls [] [] rfl

/-- End of stream / read error: the call reports it only when the transport produced it, and (by
    `read_call_spec`) only the frames wholly received before are handed on. -/
theorem eof_only_from_transport (parse : Bytes → Bool) (buf : Bytes) (script : List ReadEv) (seen : Nat)
    (h : (readFrom parse none buf script seen).res = .unexpectedSocketClose) :
    ReadEv.eof ∈ script ∨ ReadEv.chunk [] ∈ script :=
  run_eof (run_readFrom parse none buf script seen) h

theorem ioerr_only_from_transport (parse : Bytes → Bool) (buf : Bytes) (script : List ReadEv) (seen : Nat)
    (h : (readFrom parse none buf script seen).res = .ioErrorReadingSocket) :
    ReadEv.ioErr ∈ script :=
  run_ioerr (run_readFrom parse none buf script seen) h

/-- A failing handler stops the call at that frame: nothing later is handed on. -/
theorem handler_error_stops (parse : Bytes → Bool) (k : Nat) (buf : Bytes) (script : List ReadEv) (seen : Nat)
    (h : (readFrom parse (some k) buf script seen).res = .handlerErr) :
    seen + (readFrom parse (some k) buf script seen).frames.length = k + 1 := by
  simpa using run_herr (run_readFrom parse (some k) buf script seen) h

/-! Non-vacuity: a heartbeat and a 9-byte body frame cut inside the second frame's header. -/
example :
    (runCalls (fun _ => true) [] []
      [[.chunk [8,0,0,0,0,0,0,206, 3,0,1], .wouldBlock], [.chunk [0,0,0,1,65,206]]]).1
      = [[8,0,0,0,0,0,0,206], [3,0,1,0,0,0,1,65,206]] := by decide

end AmqModel.Props.C06
