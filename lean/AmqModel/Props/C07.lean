import AmqModel.Model.ConnRun
import AmqModel.Lemmas.ConnC07
import AmqModel.Props.C03
import AmqModel.Props.C20
/-!
# C07 — server protocol violations are contained: never mis-delivered, never a panic

Property theorems only; helper lemmas live in `AmqModel/Lemmas/Conn.lean` (shared) and
`AmqModel/Lemmas/ConnC07.lean`.
-/
namespace AmqModel.Props.C07
open AmqModel.Conn AmqModel.Collector AmqModel.Props.C03

/-- No frame whatsoever (any channel id, any tag, any announced size, any code), in any state of
    the connection, panics the frame handler. -/
theorem process_never_panics (c : Conn) (f : Frame) (dc df : Bytes) :
    (process c f dc df).2 ≠ some .panic :=
  np_process c f dc df

/-- … and from every reachable state no step of the I/O thread at all does (C20.batch_no_panic
    covers events; this adds frames and writes). -/
theorem io_never_panics (cm b : Nat) (ops : List Op) (hl : ∀ o ∈ ops, ApiLegal o) (o : IoOp) :
    (ioStep (run (init cm b) ops) o).2.err ≠ some .panic ∧ (ioStep (run (init cm b) ops) o).2.done ≠ some none :=
  ioStep_no_panic (inv_reachable cm b ops hl) o

/-! The violation table: each class of violation ends the connection with its specific error. -/

theorem header_without_method (c : Conn) (n cid size : Nat) (props dc df : Bytes) (slot : Slot)
    (hs : c.st = .steady) (hn : n ≠ 0) (hslot : lookupN n c.slots = some slot) (hc : slot.coll = .idle) :
    (process c (.header n cid size props) dc df).2 = some .frameUnexpected := by
  rw [process_header_slot hs hn hslot, hc]; rfl

theorem second_header (c : Conn) (n cid size : Nat) (props dc df : Bytes) (slot : Slot) (k : Kind) (sz : Nat) (p buf : Bytes)
    (hs : c.st = .steady) (hn : n ≠ 0) (hslot : lookupN n c.slots = some slot) (hc : slot.coll = .body k sz p buf) :
    (process c (.header n cid size props) dc df).2 = some .frameUnexpected := by
  rw [process_header_slot hs hn hslot, hc]; rfl

theorem body_without_header (c : Conn) (n : Nat) (payload dc df : Bytes) (slot : Slot)
    (hs : c.st = .steady) (hn : n ≠ 0) (hslot : lookupN n c.slots = some slot)
    (hc : slot.coll = .idle ∨ ∃ k, slot.coll = .start k) :
    (process c (.body n payload) dc df).2 = some .frameUnexpected := by
  rw [process_body_slot hs hn hslot]
  rcases hc with hc | ⟨k, hc⟩ <;> rw [hc] <;> rfl

theorem body_overrun (c : Conn) (n : Nat) (payload dc df : Bytes) (slot : Slot) (k : Kind) (sz : Nat) (p buf : Bytes)
    (hs : c.st = .steady) (hn : n ≠ 0) (hslot : lookupN n c.slots = some slot) (hc : slot.coll = .body k sz p buf)
    (hover : sz < (buf ++ payload).length) :
    (process c (.body n payload) dc df).2 = some .frameUnexpected := by
  rw [process_body_slot hs hn hslot, hc, collectBody_over hover]; rfl

/-- A new content-bearing method (Deliver / Return / GetOk) while content is outstanding. -/
theorem content_method_while_outstanding (c : Conn) (n mid : Nat) (fields : List Field) (dc df : Bytes) (slot : Slot)
    (hs : c.st = .steady) (hn : n ≠ 0) (hslot : lookupN n c.slots = some slot) (hc : slot.coll ≠ .idle)
    (hm : (mid = 60 ∧ ∃ tag dtag red ex rk, fields = [.bytes tag, .nat dtag, .bool red, .bytes ex, .bytes rk]) ∨
          (mid = 50 ∧ ∃ code text ex rk, fields = [.nat code, .bytes text, .bytes ex, .bytes rk]) ∨
          (mid = 71 ∧ ∃ dtag red ex rk count, fields = [.nat dtag, .bool red, .bytes ex, .bytes rk, .nat count])) :
    (process c (.method n 60 mid fields) dc df).2 = some .frameUnexpected := by
  have hu : ∀ k, (afterCollect c n slot (collectMethod slot.coll k)).2 = some .frameUnexpected := by
    intro k
    cases hcoll : slot.coll with
    | idle => exact absurd hcoll hc
    | start _ => rfl
    | body _ _ _ _ => rfl
  rw [process_method_ne0_snd hs hn]
  rcases hm with ⟨rfl, tag, dtag, red, ex, rk, rfl⟩ | ⟨rfl, code, text, ex, rk, rfl⟩ |
      ⟨rfl, dtag, red, ex, rk, count, rfl⟩
  · rw [pcm_deliver, slotGet_of_lookup hslot]; exact hu _
  · rw [pcm_return, slotGet_of_lookup hslot]; exact hu _
  · rw [pcm_getOk, slotGet_of_lookup hslot]; exact hu _

/-- Frames for a channel that is not open: content frames and every method the client looks a
    slot up for. -/
theorem frame_for_closed_channel (c : Conn) (n : Nat) (dc df : Bytes)
    (hs : c.st = .steady) (hn : n ≠ 0) (hslot : lookupN n c.slots = none) :
    (∀ cid size props, (process c (.header n cid size props) dc df).2 = some (.bogusChannel n)) ∧
    (∀ payload, (process c (.body n payload) dc df).2 = some (.bogusChannel n)) ∧
    (∀ code text, (process c (.method n 20 40 [.nat code, .bytes text]) dc df).2 = some (.bogusChannel n)) ∧
    (∀ cls mid fields, isGenericReply cls mid = true → (process c (.method n cls mid fields) dc df).2 = some (.bogusChannel n)) ∧
    (∀ fields, (process c (.method n 20 41 fields) dc df) = (c, none)) := by
  refine ⟨fun cid size props => ?_, fun payload => ?_, fun code text => ?_,
    fun cls mid fields hg => ?_, fun fields => ?_⟩
  · rw [process_header_noslot hs hn hslot]
  · rw [process_body_noslot hs hn hslot]
  · rw [process_method_ne0_snd hs hn, pcm_close_noslot hslot]
  · rw [process_method_ne0_snd hs hn, pcm_generic hg, slotGet_of_lookup_none hslot]
  · rw [process_method_ne0 hs hn, pcm_closeOk_noslot hslot]
    simp [hs]

theorem unknown_consumer_tag (c : Conn) (n : Nat) (slot : Slot) (tag : Bytes) (dtag : Nat) (red : Bool) (ex rk props body : Bytes)
    (hc : lookupB tag slot.consumers = none) :
    (dispatchContent c n slot ⟨.deliver tag dtag red ex rk, props, body⟩).2 = some (.unknownConsumerTag n tag) := by
  simp only [dispatchContent, hc]

theorem duplicate_consumer_tag (c : Conn) (n : Nat) (slot : Slot) (tag dc df : Bytes) (qid : Nat)
    (hs : c.st = .steady) (hn : n ≠ 0) (hslot : lookupN n c.slots = some slot) (hc : lookupB tag slot.consumers = some qid) :
    (process c (.method n 60 21 [.bytes tag]) dc df).2 = some (.duplicateConsumerTag n tag) := by
  rw [process_method_ne0_snd hs hn, pcm_consumeOk_dup hslot hc]

/-- Unimplemented and not-allowed methods, and content on channel 0: no error is returned, the
    state becomes ClientException, writes are sealed, and — if they were not sealed before — the
    last thing queued is Connection.Close with the matching hard-error code (540 / 530). -/
theorem client_exception_outcome (c : Conn) (f : Frame) (dc df : Bytes) (hs : c.st = .steady) (hl : c.legacy = false)
    (code : Nat)
    (hf : (code = 540 ∧ ((∃ cls mid fs, f = .method 0 cls mid fs ∧ ¬(cls = 10 ∧ (mid = 50 ∨ mid = 51 ∨ mid = 60 ∨ mid = 61))) ∨
                          (∃ n cls mid fs, f = .method n cls mid fs ∧ n ≠ 0 ∧ isNotImplemented cls mid = true))) ∨
          (code = 530 ∧ ((∃ cid size props, f = .header 0 cid size props) ∨ (∃ payload, f = .body 0 payload) ∨
                          (∃ n cls mid fs, f = .method n cls mid fs ∧ n ≠ 0 ∧ isNotAllowed cls mid = true ∧ isNotImplemented cls mid = false ∧
                             isGenericReply cls mid = false ∧
                             (cls, mid) ∉ [(20, 40), (20, 41), (60, 21), (60, 30), (60, 31), (60, 60), (60, 50), (60, 71), (60, 72), (60, 80), (60, 120)])))) :
    let r := process c f dc df
    r.2 = none ∧ r.1.st = .clientException ∧ r.1.sealed = true ∧
    (c.sealed = false → ∃ text, text.length ≤ 255 ∧ r.1.out = c.out ++ connectionClose code text) := by
  -- every case is `(dropCh0 (clientException c code text), none)` for some text
  suffices h : ∃ text, process c f dc df = (process.dropCh0 (clientException c code text), none) by
    obtain ⟨text, e⟩ := h
    intro r
    rw [show r = _ from e]
    exact ⟨rfl, clientException_outcome hl code text⟩
  rcases hf with ⟨rfl, ⟨cls, mid, fs, rfl, hx⟩ | ⟨n, cls, mid, fs, rfl, hn, hi⟩⟩ |
      ⟨rfl, ⟨cid, size, props, rfl⟩ | ⟨payload, rfl⟩ | ⟨n, cls, mid, fs, rfl, hn, ha, hi, hg, hsp⟩⟩
  · exact ⟨_, process_method0_other hs cls mid fs dc df hx⟩
  · exact ⟨_, by rw [process_method_ne0 hs hn, pcm_notImplemented hi, if_pos (clientException_st _ _ _)]⟩
  · exact ⟨_, process_header0 hs cid size props dc df⟩
  · exact ⟨_, process_body0 hs payload dc df⟩
  · exact ⟨_, by rw [process_method_ne0 hs hn, pcm_notAllowed ha hi hg hsp, if_pos (clientException_st _ _ _)]⟩

/-- The Connection.Close of a client exception is well formed: a strict decoder reads back exactly
    the code and the (at most 255-byte) text. -/
def decodeClose (frame : Bytes) : Option (Nat × Bytes) :=
  match frame with
  | 1 :: 0 :: 0 :: s3 :: s2 :: s1 :: s0 :: 0 :: 10 :: 0 :: 50 :: c1 :: c0 :: len :: rest =>
    let size := ((s3 * 256 + s2) * 256 + s1) * 256 + s0
    if rest.length = len + 5 ∧ size = 4 + 2 + 1 + len + 4 ∧ rest.drop len = [0, 0, 0, 0, 206] then
      some (c1 * 256 + c0, rest.take len)
    else none
  | _ => none

theorem truncUtf8_le (n : Nat) (s : Bytes) : (truncUtf8 n s).length ≤ n :=
  truncUtf8_length_le n s

theorem truncUtf8_prefix (n : Nat) (s : Bytes) : ∃ t, s = truncUtf8 n s ++ t :=
  truncUtf8_is_prefix n s

theorem exception_close_wellformed (code : Nat) (text : Bytes) (hc : code < 65536) (ht : text.length ≤ 255) :
    decodeClose (connectionClose code text) = some (code, text) := by
  rw [connectionClose_eq]
  unfold decodeClose
  have h1 : text.length % 256 = text.length := by omega
  simp only [h1]
  rw [if_pos ⟨by simp, by omega, by simp⟩]
  simp
  omega

/-- After a client exception nothing else is ever appended to the outbound data and inbound
    frames are ignored: the state part of C20's `exception_still_reported`, restated for
    completeness of this file (it needs no hypothesis on the slot keys). -/
theorem exception_is_final (c : Conn) (o : IoOp) (hl : c.legacy = false) (hd : c.dead = false)
    (hst : c.st = .clientException) (hs : c.sealed = true) :
    ((ioStep c o).2.err = none → (ioStep c o).1.st = .clientException ∧ (ioStep c o).1.sealed = true ∧
        ∃ k, (ioStep c o).1.out = c.out.drop k) :=
  fun he =>
    have h := (ioStep_sealed hl hd (by rw [hst]; exact fun e => nomatch e) hs o).1 he
    ⟨h.1.trans hst, h.2⟩

/-- D13: before the repair the text was not cut to 255 bytes (here 300 bytes ⇒ length octet 44). -/
example : (connectionClose 530 (List.replicate 300 65)).getD 13 0 = 44 := by decide +kernel

end AmqModel.Props.C07
