import AmqModel.Model.ConnRun
import AmqModel.Model.Api
import AmqModel.Props.C20
import AmqModel.Lemmas.ConnC05
/-!
# C05 — when a connection dies, every caller is released with an error; nobody hangs

The I/O loop ends when a step returns an error (`ioStep` then `kill`s the state: the `IoLoop`
and the `ConnectionState` are dropped, and with them every queue end they own).  "Released" =
the blocked half of every client call finds its queue *disconnected* once what was queued has
been taken — it never finds it merely empty, which is what waiting forever would be.

Property theorems only; the reachable-state invariant `Conn.C05.InvD` ("an I/O end that is alive
belongs to link 0 or to the link of a current slot; a link without I/O end has an empty FIFO; a
dead state owns nothing") and every helper lemma live in `AmqModel/Lemmas/ConnC05.lean`.
-/
namespace AmqModel.Props.C05
open AmqModel.Conn

/-- Reachable states (any history of client operations, frames, events, transport behaviour). -/
def Reachable (c : Conn) : Prop := ∃ cm b ops, (∀ o ∈ ops, ApiLegal o) ∧ c = run (init cm b) ops

/-- FATAL MAPS. A failing step ends the loop: the state is dead afterwards, for every kind of step. -/
theorem error_ends_the_loop (c : Conn) (o : IoOp) (e : Err) (h : (ioStep c o).2.err = some e) :
    (ioStep c o).1.dead = true := by
  cases hd : c.dead with
  | true => rw [(ioStep_dead hd o).1]; exact hd
  | false =>
    have hk : ∀ c1 w, (ioFin c1 w (some e)).1.dead = true := fun c1 _ => (kill_spec c1).2.2.2.2.2
    cases o with
    | frame bytes =>
      rw [ioStep_frame hd] at h ⊢
      rw [ioFin_err] at h; rw [h]; exact hk _ _
    | event t =>
      rw [ioStep_event hd] at h ⊢
      rw [ioFin_err] at h; rw [h]; exact hk _ _
    | write =>
      rw [ioStep_write hd] at h ⊢
      rw [ioFin_err] at h; rw [h]; exact hk _ _
    | done =>
      rw [ioStep_done hd] at h
      split at h <;> cases h
    | dereg => rw [ioStep_dereg hd] at h; cases h
    | rereg => rw [ioStep_rereg hd] at h; cases h
    | poll => rw [ioStep_poll hd] at h; cases h
    | kill => rw [ioStep_kill hd] at h; cases h

/-- The transport failures map to their specific errors. -/
theorem write_error_maps (c : Conn) (rest : List WriteStep) (hne : c.out ≠ []) (hw : c.writes = .err :: rest) :
    (writeToStream c).2.2 = some .ioErrorWritingSocket :=
  C05.writeToStream_err hne hw

theorem read_faults_map (c : Conn) (rest : List FrameBuffer.ReadEv)
    (hfb : FrameBuffer.frameSize? c.fb = none) :
    (c.reads = .eof :: rest → (readFromStream c).2 = some .unexpectedSocketClose) ∧
    (c.reads = .ioErr :: rest → (readFromStream c).2 = some .ioErrorReadingSocket) ∧
    (c.reads = .chunk [] :: rest → (readFromStream c).2 = some .unexpectedSocketClose) :=
  ⟨fun hr => C05.readFromStream_fault hfb hr (res := .unexpectedSocketClose) (Or.inl ⟨rfl, rfl⟩) rfl,
   fun hr => C05.readFromStream_fault hfb hr (res := .ioErrorReadingSocket) (Or.inr (Or.inl ⟨rfl, rfl⟩)) rfl,
   fun hr => C05.readFromStream_fault hfb hr (res := .unexpectedSocketClose) (Or.inr (Or.inr ⟨rfl, rfl⟩)) rfl⟩

/-- An unparsable frame ends the loop with MalformedFrame. -/
theorem malformed_maps (c : Conn) (bytes : Bytes) (d : Decl) (hd : declOf c bytes = some d) (hf : d.frame = none) :
    (processBytes c bytes).2 = some .malformedFrame :=
  C05.processBytes_malformed hd hf

/-- Every reachable state satisfies the invariants the proofs below rest on. -/
theorem Reachable.inv {c : Conn} (hr : Reachable c) : Inv c ∧ InvC c ∧ C05.DI c := by
  obtain ⟨cm, b, ops, hl, rfl⟩ := hr
  exact ⟨inv_reachable cm b ops hl, invC_reachable cm b ops, C05.di_reachable cm b ops⟩

/-- DEAD RELEASES EVERYBODY. In a dead state reached from a reachable one, every I/O-thread end is
    gone: every handle's link, every consumer's sender, every listener's sender, the allocation
    and blocked-listener queues. -/
theorem dead_state_has_no_io_ends (c : Conn) (hr : Reachable c) (hd : c.dead = true) :
    (∀ label lid, lookupS label c.handles = some lid → (getLink c lid).ioAlive = false) ∧
    (∀ qid q, lookupN qid c.cqs = some q → q.txAlive = false) ∧
    (∀ l, lstTxAlive c l = false) ∧
    c.slots = [] ∧ c.allocReq = [] ∧ c.blockedFifo = [] := by
  obtain ⟨_, hc, hdi⟩ := hr.inv
  obtain ⟨hs, _, hq, hb, _⟩ := C05.dead_ok hdi hd
  exact ⟨fun _ lid _ => C05.dead_links hdi hd lid, C05.dead_cqs hc hs, C05.dead_lst hdi hd, hs, hq, hb⟩

/-- … so every later submission is refused (the caller gets the queued error or EventLoopDropped:
    `Api.handleSend`), whatever it is and on whatever handle, … -/
theorem dead_refuses_submissions (c : Conn) (hr : Reachable c) (hd : c.dead = true) (label : Label) (m : Msg) (req : Option Nat) (l : Label) :
    (clientSend c label m).2 = .disconnected ∧ (allocRequest c req).2 = .disconnected ∧
    (setBlockedRequest c l).2 = .disconnected := by
  obtain ⟨_, _, hdi⟩ := hr.inv
  have hio := C05.dead_links hdi hd
  refine ⟨?_, ?_, ?_⟩
  · unfold clientSend
    split
    · rfl
    · dsimp only
      rw [hio]; rfl
  · unfold allocRequest
    split
    · rfl
    · rw [hio]; rfl
  · unfold setBlockedRequest
    split
    · rfl
    · rw [hio]; rfl

/-- … a blocked or later receive gets what was queued and then `disconnected`, never `empty`, … -/
theorem dead_never_empty (c : Conn) (hr : Reachable c) (hd : c.dead = true) (label cl l : Label) :
    (clientRecv c label cl).2 ≠ .empty ∧ (consRecv c cl).2 ≠ .empty ∧ (lstRecv c l).2 ≠ .empty ∧
    (allocReply c label).2 ≠ .empty := by
  obtain ⟨_, hc, hdi⟩ := hr.inv
  have hio := C05.dead_links hdi hd
  have hs := (C05.dead_ok hdi hd).1
  refine ⟨?_, ?_, ?_, ?_⟩
  · unfold clientRecv
    split
    · simp
    · dsimp only
      split
      · rw [hio]; simp
      · split <;> simp
  · unfold consRecv
    split
    · simp
    · split
      · simp
      · rename_i qid _ _ q hq
        split
        · simp
        · rw [C05.dead_cqs hc hs qid q hq]; simp
  · unfold lstRecv
    split
    · simp
    · split
      · simp
      · split
        · simp
        · rw [C05.dead_lst hdi hd l]; simp
  · unfold allocReply
    split
    · simp
    · split
      · rw [hio]; simp
      · simp
      · simp

/-- … and each receive takes one entry off a finite queue, so after finitely many receives the
    caller sees `disconnected` (every consumer queue terminates). -/
theorem dead_queue_drains (c : Conn) (hr : Reachable c) (hd : c.dead = true) (cl : Label) (qid : Nat) (q : CQ)
    (hl : lookupS cl c.consLabels = some qid) (hq : lookupN qid c.cqs = some q) :
    (q.msgs = [] → (consRecv c cl).2 = .disconnected) ∧
    (∀ m rest, q.msgs = m :: rest → (consRecv c cl).2 = .got m ∧
        lookupN qid (consRecv c cl).1.cqs = some { q with msgs := rest }) := by
  obtain ⟨_, hc, hdi⟩ := hr.inv
  have hs := (C05.dead_ok hdi hd).1
  have htx := C05.dead_cqs hc hs qid q hq
  refine ⟨fun hm => ?_, fun m rest hm => ?_⟩
  · unfold consRecv
    simp only [hl, hq, hm, htx]
    rfl
  · have e : consRecv c cl =
        ({ c with cqs := setN qid { q with msgs := rest } c.cqs }, .got m) := by
      unfold consRecv
      simp only [hl, hq, hm]
    rw [e]
    exact ⟨rfl, lookupN_setN_self _ _ _⟩

/-- Dead states stay dead, and no client operation resurrects an I/O end. -/
theorem dead_is_forever (c : Conn) (o : Op) (hd : c.dead = true) : (step c o).dead = true := by
  cases o with
  | io o => show (ioStep c o).1.dead = true; rw [(ioStep_dead hd o).1]; exact hd
  | client o => show (clientStep c o).1.dead = true; rw [C05.clientStep_dead]; exact hd
  | decl d => exact hd
  | feed evs => exact hd
  | wscript ws => exact hd

/-- NO WAIT CYCLE. The I/O thread itself never blocks: from a reachable state in which the
    connection handle has at most one allocation outstanding (its calls are sequential: `&mut
    Connection`) and at most one reply queued on channel 0, no step reports `hang`. -/
theorem io_thread_never_blocks (c : Conn) (hr : Reachable c) (o : IoOp)
    (halloc : c.allocReq.length + c.allocRep.length ≤ 1) (hrep : (getLink c 0).replies.length ≤ 1) :
    (ioStep c o).2.err ≠ some .hang :=
  C05.nh_ioStep hr.inv.1 halloc hrep o

/-- CLOSE REPORTS THE ROOT CAUSE: `Connection::close` returns the I/O thread's own error (or
    IoThreadPanic) whenever that thread failed — whatever the close call itself ran into — and the
    close call's result otherwise. -/
theorem close_reports_root_cause (c : Api.Chan) (e : Api.Err) :
    (Api.closeImpl c (.failed e)).2 = .err e ∧
    (Api.closeImpl c .panicked).2 = .err (.other "IoThreadPanic") ∧
    (Api.closeImpl c .ok).2 = (Api.closeConnection c).2 :=
  ⟨rfl, rfl, rfl⟩

example : (ioStep { (Conn.init 2 2) with reads := [.eof] } (.event (.stream true false))).2.err = some .unexpectedSocketClose ∧
    (ioStep { (Conn.init 2 2) with reads := [.eof] } (.event (.stream true false))).1.dead = true := by decide

end AmqModel.Props.C05
