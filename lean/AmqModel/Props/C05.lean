import AmqModel.Model.ConnRun
namespace AmqModel.Props.C05
open AmqModel.Conn

theorem placeholder : (Conn.init 1 1).dead = false := rfl

end AmqModel.Props.C05
