import AmqModel.Model.ConnRun
import AmqModel.Lemmas.Conn
import AmqModel.Lemmas.ConnC13
/-!
# C13 — confirms, returns and blocked notices are forwarded verbatim, in order

Property theorems only; the computation lemmas live in `AmqModel/Lemmas/ConnC13.lean`.
-/
namespace AmqModel.Props.C13
open AmqModel.Conn AmqModel.Collector

/-- A publisher confirmation on channel `n` reaches the channel's current confirm listener
    unchanged (ack or nack, delivery tag, multiple flag), appended at the end of its queue; nothing
    else changes and no error results. -/
theorem confirm_forwarded (c : Conn) (n : Nat) (slot : Slot) (l : Label) (q : LQ) (ack : Bool) (dtag : Nat) (mult : Bool) (dc df : Bytes)
    (hs : c.st = .steady) (hn : n ≠ 0) (hslot : lookupN n c.slots = some slot)
    (hl : slot.confL = some l) (hq : lookupS l c.lqs = some q) (hrx : q.rxAlive = true) :
    process c (.method n 60 (if ack then 80 else 120) [.nat dtag, .bool mult]) dc df =
      ({ c with lqs := setS l { q with msgs := q.msgs ++ [.confirm ack dtag mult] } c.lqs }, none) :=
  process_confirm_alive hs hn hslot hl hq hrx ack dtag mult dc df

/-- With no listener the confirmation is discarded: the state is unchanged, no error. -/
theorem confirm_without_listener (c : Conn) (n : Nat) (slot : Slot) (mid dtag : Nat) (mult : Bool) (dc df : Bytes)
    (hs : c.st = .steady) (hn : n ≠ 0) (hslot : lookupN n c.slots = some slot) (hm : mid = 80 ∨ mid = 120)
    (hl : slot.confL = none) :
    process c (.method n 60 mid [.nat dtag, .bool mult]) dc df = (c, none) :=
  process_confirm_none hs hn hslot hl hm dtag mult dc df

/-- With a dropped listener it is discarded too; the dead listener is forgotten; no error. -/
theorem confirm_dropped_listener (c : Conn) (n : Nat) (slot : Slot) (l : Label) (q : LQ) (mid dtag : Nat) (mult : Bool) (dc df : Bytes)
    (hs : c.st = .steady) (hn : n ≠ 0) (hslot : lookupN n c.slots = some slot) (hm : mid = 80 ∨ mid = 120)
    (hl : slot.confL = some l) (hq : lookupS l c.lqs = some q) (hrx : q.rxAlive = false) :
    process c (.method n 60 mid [.nat dtag, .bool mult]) dc df = (setSlot c n { slot with confL := none }, none) :=
  process_confirm_dead hs hn hslot hl hq hrx hm dtag mult dc df

/-- IN ORDER: a run of confirmations processed one after another with a live listener extends its
    queue by exactly those confirmations, in that order. -/
theorem confirms_in_order (c : Conn) (n : Nat) (slot : Slot) (l : Label) (q : LQ) (cs : List (Bool × Nat × Bool))
    (hs : c.st = .steady) (hn : n ≠ 0) (hslot : lookupN n c.slots = some slot)
    (hl : slot.confL = some l) (hq : lookupS l c.lqs = some q) (hrx : q.rxAlive = true) :
    let c' := cs.foldl (fun acc x => (process acc (.method n 60 (if x.1 then 80 else 120) [.nat x.2.1, .bool x.2.2]) [] []).1) c
    lookupS l c'.lqs = some { q with msgs := q.msgs ++ cs.map (fun x => .confirm x.1 x.2.1 x.2.2) } :=
  confirms_fold hn hl cs c q hs hslot hq hrx

/-- Blocked / unblocked notices reach the connection's listener the same way. -/
theorem blocked_forwarded (c : Conn) (l : Label) (q : LQ) (reason dc df : Bytes)
    (hs : c.st = .steady) (hl : c.blockedL = some l) (hq : lookupS l c.lqs = some q) (hrx : q.rxAlive = true) :
    process c (.method 0 10 60 [.bytes reason]) dc df =
      ({ c with lqs := setS l { q with msgs := q.msgs ++ [.blocked reason] } c.lqs }, none) ∧
    (∀ fields, process c (.method 0 10 61 fields) dc df =
      ({ c with lqs := setS l { q with msgs := q.msgs ++ [.unblocked] } c.lqs }, none)) := by
  refine ⟨?_, fun fields => ?_⟩
  · rw [process_blocked hs, trySendBlocked_alive hl hq hrx]
  · rw [process_unblocked hs, trySendBlocked_alive hl hq hrx]

theorem blocked_without_listener (c : Conn) (reason dc df : Bytes) (hs : c.st = .steady) (hl : c.blockedL = none) :
    process c (.method 0 10 60 [.bytes reason]) dc df = (c, none) := by
  rw [process_blocked hs, trySendBlocked_none hl]

/-- A returned message reaches the channel's current return listener with all its parts. -/
theorem return_forwarded (c : Conn) (n : Nat) (slot : Slot) (l : Label) (q : LQ) (code : Nat) (text ex rk props body : Bytes)
    (hl : slot.retL = some l) (hq : lookupS l c.lqs = some q) (hrx : q.rxAlive = true) :
    dispatchContent c n slot ⟨.ret code text ex rk, props, body⟩ =
      ({ c with lqs := setS l { q with msgs := q.msgs ++ [.ret code text ex rk props body] } c.lqs }, none) :=
  dispatchContent_ret_alive c n code text ex rk props body hl hq hrx

/-- Registering a new listener replaces the old one in the slot (the old sender is dropped). -/
theorem register_replaces (c : Conn) (n : Nat) (slot : Slot) (l' : Option Label)
    (hn : n ≠ 0) (hslot : lookupN n c.slots = some slot) :
    processChannelMessage c n (.setConfirm l') = (setSlot c n { slot with confL := l' }, none) ∧
    processChannelMessage c n (.setReturn l') = (setSlot c n { slot with retL := l' }, none) :=
  ⟨pcm_setConfirm hn hslot l', pcm_setReturn hn hslot l'⟩

/-- … so the old listener's queue becomes disconnected once nothing else refers to it. -/
theorem replaced_listener_disconnected (c : Conn) (l : Label)
    (h1 : c.blockedL ≠ some l) (h2 : l ∉ c.blockedFifo)
    (h3 : ∀ p ∈ c.slots, p.2.retL ≠ some l ∧ p.2.confL ≠ some l)
    (h4 : ∀ p ∈ c.links, ∀ m ∈ p.2.fifo, m ≠ .setReturn (some l) ∧ m ≠ .setConfirm (some l)) :
    lstTxAlive c l = false :=
  lstTxAlive_false c l h1 h2 h3 h4

/-- REGISTERED BEFORE PUBLISH. Submissions of one handle reach the I/O thread in submission order
    (the queue is FIFO and the handler drains it front to back): a listener registration submitted
    before a publish is in force before the publish's bytes are handed to the output buffer — hence
    before the server can react to them. -/
theorem submit_appends (c : Conn) (label : Label) (lid : Nat) (m : Msg)
    (hh : lookupS label c.handles = some lid) (hio : (getLink c lid).ioAlive = true)
    (hroom : (getLink c lid).fifo.length < c.bound) :
    (clientSend c label m).2 = .sent ∧
    (getLink (clientSend c label m).1 lid).fifo = (getLink c lid).fifo ++ [m] :=
  clientSend_sent m hh hio hroom

theorem registration_then_publish (c : Conn) (n : Nat) (slot : Slot) (l : Label) (bytes : Bytes)
    (hn : n ≠ 0) (hslot : lookupN n c.slots = some slot) (hseal : c.sealed = false)
    (hf : (getLink c slot.lid).fifo = [.setConfirm (some l), .send bytes])
    (hca : (getLink c slot.lid).clientAlive = true) :
    let r := handleEvent c (.chan n)
    r.2.2 = none ∧ r.1.out = c.out ++ bytes ∧
    (∃ s', lookupN n r.1.slots = some s' ∧ s'.confL = some l) :=
  registration_then_publish_aux c n slot l bytes hn hslot hseal hf hca

end AmqModel.Props.C13
