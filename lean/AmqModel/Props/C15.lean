import AmqModel.Model.Tune
import AmqModel.Model.Split
import AmqModel.Props.C10
import AmqModel.Props.C02
import AmqModel.Lemmas.Tune
/-!
# C15 — tuning is negotiated as documented and then obeyed

Property theorems only (helper lemmas live in `AmqModel/Lemmas/Tune.lean`).
-/
namespace AmqModel.Props.C15
open AmqModel.Tune

/-- A triple of wire values: `channel_max : u16`, `frame_max : u32`, `heartbeat : u16`. -/
def InRange (t : Triple) : Prop :=
  t.channelMax ≤ U16_MAX ∧ t.frameMax ≤ U32_MAX ∧ t.heartbeat ≤ U16_MAX

/-- The TuneOk computed by the code is the one the documentation prescribes, for every pair of
    client options and server Tune (all of `u16 × u32 × u16` on both sides). -/
theorem makeTuneOk_eq_spec (c s : Triple) (hc : InRange c) (hs : InRange s) :
    makeTuneOk c s = specTuneOk c s := by
  rw [makeTuneOk_eq hc.1 hs.1 hc.2.1 hs.2.1]
  rfl

/-- Field by field, as the property text puts it. -/
theorem tune_fields (c s t : Triple) (hc : InRange c) (hs : InRange s) (h : makeTuneOk c s = .ok t) :
    t.channelMax = negotiateLimit U16_MAX c.channelMax s.channelMax ∧
    t.frameMax = negotiateLimit U32_MAX c.frameMax s.frameMax ∧
    t.heartbeat = min c.heartbeat s.heartbeat ∧
    (t.heartbeat = 0 ↔ (c.heartbeat = 0 ∨ s.heartbeat = 0)) ∧
    4096 ≤ t.frameMax ∧ InRange t ∧ 1 ≤ t.channelMax := by
  obtain ⟨h1, h2, h3, h4⟩ := makeTuneOk_ok hc.1 hs.1 hc.2.1 hs.2.1 h
  refine ⟨h1, h2, h3, ?_, h2 ▸ h4, ⟨?_, ?_, ?_⟩, ?_⟩
  · rw [h3]; exact min_eq_zero_iff _ _
  · rw [h1]; exact negotiateLimit_le hc.1 hs.1
  · rw [h2]; exact negotiateLimit_le hc.2.1 hs.2.1
  · rw [h3]; exact Nat.le_trans (Nat.min_le_left _ _) hc.2.2
  · rw [h1]; exact negotiateLimit_pos (by decide)

/-- Below 4096 the attempt fails with FrameMaxTooSmall carrying the computed value; otherwise a
    TuneOk exists. -/
theorem frame_max_floor (c s : Triple) (hc : InRange c) (hs : InRange s) :
    (negotiateLimit U32_MAX c.frameMax s.frameMax < 4096 ↔
      makeTuneOk c s = .frameMaxTooSmall 4096 (negotiateLimit U32_MAX c.frameMax s.frameMax)) ∧
    (4096 ≤ negotiateLimit U32_MAX c.frameMax s.frameMax ↔ ∃ t, makeTuneOk c s = .ok t) := by
  rw [makeTuneOk_eq hc.1 hs.1 hc.2.1 hs.2.1]
  by_cases hlt : negotiateLimit U32_MAX c.frameMax s.frameMax < 4096
  · rw [if_pos hlt]
    refine ⟨⟨fun _ => rfl, fun _ => hlt⟩, ⟨fun hge => absurd hlt (Nat.not_lt.mpr hge), ?_⟩⟩
    rintro ⟨t, ht⟩
    exact TuneRes.noConfusion ht
  · rw [if_neg hlt]
    refine ⟨⟨fun h => absurd h hlt, fun h => TuneRes.noConfusion h⟩,
      ⟨fun _ => ⟨_, rfl⟩, fun _ => Nat.le_of_not_gt hlt⟩⟩

/-- Obeyed (frame_max): with the payload limit derived from the announced frame_max, every body
    frame of every body is at most frame_max bytes long on the wire, none is empty, and they
    concatenate to the body. -/
theorem body_frames_le_frame_max (c s t : Triple) (hc : InRange c) (hs : InRange s)
    (h : makeTuneOk c s = .ok t) (body : Bytes) :
    (∀ chunk ∈ Split.splitBody (payloadLimit t.frameMax) body,
        0 < chunk.length ∧ Split.encodedLen chunk ≤ t.frameMax) ∧
    (Split.splitBody (payloadLimit t.frameMax) body).flatten = body := by
  obtain ⟨_, hpos, hadd⟩ := payloadLimit_of_ge (tune_fields c s t hc hs h).2.2.2.2.1
  refine ⟨fun chunk hm => ?_, C02.split_flatten _ hpos body⟩
  obtain ⟨h0, hle⟩ := C02.split_sizes _ hpos body chunk hm
  refine ⟨h0, ?_⟩
  unfold Split.encodedLen
  omega

/-- Obeyed (channel_max): with the allocator configured by the announced channel_max, no
    sequence of opens and closes ever yields an id above it (or id 0), by either path. -/
theorem ids_le_channel_max (c s t : Triple) (hc : InRange c) (hs : InRange s)
    (h : makeTuneOk c s = .ok t) (ops : List Slots.Op) (id id' : Nat) :
    let st := ops.foldl Slots.step (Slots.new t.channelMax)
    ((Slots.insertSome st id).2 = .ok id' → 1 ≤ id' ∧ id' ≤ t.channelMax ∧ id' = id) ∧
    ((Slots.insertNone st).2 = .ok id' → 1 ≤ id' ∧ id' ≤ t.channelMax) := by
  have _ := hc; have _ := hs; have _ := h  -- holds for any `channel_max`
  intro st
  have hmax : st.max = t.channelMax := reachable_max t.channelMax ops
  have hinv : C10.Inv st := C10.inv_reachable t.channelMax ops
  constructor
  · intro hok
    by_cases hcond : 1 ≤ id ∧ id ≤ st.max ∧ id ∉ st.open_
    · rw [((C10.insertSome_spec st id).1 hcond).1] at hok
      injection hok with hok
      subst hok
      exact ⟨hcond.1, hmax ▸ hcond.2.1, rfl⟩
    · rw [(C10.insertSome_spec st id).2 hcond] at hok
      exact Slots.Res.noConfusion hok
  · intro hok
    rcases C10.insertNone_spec st hinv with ⟨x, hx, h1, h2, _⟩ | ⟨hex, _⟩
    · rw [hx] at hok
      injection hok with hok
      subst hok
      exact ⟨h1, hmax ▸ h2⟩
    · rw [hex] at hok
      exact Slots.Res.noConfusion hok

/-- Obeyed (heartbeat): timers exist iff neither side said 0. -/
theorem heartbeat_enabled_iff (c s t : Triple) (hc : InRange c) (hs : InRange s)
    (h : makeTuneOk c s = .ok t) :
    heartbeatsEnabled t.heartbeat = true ↔ (c.heartbeat ≠ 0 ∧ s.heartbeat ≠ 0) := by
  have hz := (tune_fields c s t hc hs h).2.2.2.1
  simp only [heartbeatsEnabled, decide_eq_true_eq]
  omega

/-- The announced values never exceed what EITHER side asked for (a side that said 0 asked for no
    limit), and symmetric in the two sides: swapping client options and server Tune gives the
    same TuneOk. -/
theorem tune_within_both_sides (c s t : Triple) (hc : InRange c) (hs : InRange s)
    (h : makeTuneOk c s = .ok t) :
    (s.channelMax ≠ 0 → t.channelMax ≤ s.channelMax) ∧ (c.channelMax ≠ 0 → t.channelMax ≤ c.channelMax) ∧
    (s.frameMax ≠ 0 → t.frameMax ≤ s.frameMax) ∧ (c.frameMax ≠ 0 → t.frameMax ≤ c.frameMax) ∧
    t.heartbeat ≤ s.heartbeat ∧ t.heartbeat ≤ c.heartbeat ∧
    makeTuneOk s c = .ok t := by
  obtain ⟨h1, h2, h3, _⟩ := tune_fields c s t hc hs h
  have hsym : makeTuneOk s c = makeTuneOk c s := by
    simp only [makeTuneOk, Nat.min_comm]
  have hl : ∀ top a b : Nat, (b ≠ 0 → negotiateLimit top a b ≤ b) ∧
      (a ≠ 0 → negotiateLimit top a b ≤ a) := by
    intro top a b
    unfold negotiateLimit
    constructor <;> intro hz <;> (repeat' split) <;> omega
  refine ⟨?_, ?_, ?_, ?_, ?_, ?_, hsym ▸ h⟩
  · rw [h1]; exact (hl _ _ _).1
  · rw [h1]; exact (hl _ _ _).2
  · rw [h2]; exact (hl _ _ _).1
  · rw [h2]; exact (hl _ _ _).2
  · rw [h3]; exact Nat.min_le_right _ _
  · rw [h3]; exact Nat.min_le_left _ _

/-- Obeyed (channel_max), count: with the allocator configured by the announced channel_max, at no
    point of any history are more than that many channels open. -/
theorem open_channels_le_channel_max (c s t : Triple) (hc : InRange c) (hs : InRange s)
    (h : makeTuneOk c s = .ok t) (ops : List Slots.Op) :
    (ops.foldl Slots.step (Slots.new t.channelMax)).open_.length ≤ t.channelMax ∧ t.channelMax ≤ U16_MAX :=
  ⟨(C10.open_count_le_max t.channelMax ops).2.2, (tune_fields c s t hc hs h).2.2.2.2.2.1.1⟩

example : makeTuneOk ⟨0, 0, 60⟩ ⟨2047, 131072, 60⟩ = .ok ⟨2047, 131072, 60⟩ := by decide
example : makeTuneOk ⟨0, 0, 0⟩ ⟨0, 0, 0⟩ = .ok ⟨65535, 4294967295, 0⟩ := by decide
example : makeTuneOk ⟨5, 4095, 1⟩ ⟨0, 0, 9⟩ = .frameMaxTooSmall 4096 4095 := by decide

end AmqModel.Props.C15
