/-
Stateless specification of the confirm smoother, written from the property text (C14), not from
the code.

`covers c t`  : the raw confirmation `c` mentions tag `t` (`t = c.tag`, or `t ≤ c.tag` if multiple).
`cover h t`   : the first raw confirmation of history `h` that mentions `t` — necessarily the one
                that first covered it; its kind is the tag's true outcome.
`frontier start h` : the least `t ≥ start` that no confirmation of `h` covers.
`specOut start p c`: what the call processing `c` after history `p` must yield: the tags from the
                old frontier up to the new one, ascending, each with the kind of its first cover.
`Valid start h`: every raw confirmation's own tag is `≥ start` and was not covered before
                (each tag confirmed once, singly or by a multiple; a multiple may sweep over tags
                already confirmed individually, which keep their own outcome).
-/
import AmqModel.Model.Smoother

namespace AmqModel.Smoother

def covers (c : Confirm) (t : Nat) : Bool := if c.multiple then t ≤ c.tag else c.tag = t

def cover (h : List Confirm) (t : Nat) : Option Confirm := h.find? (covers · t)

def isCovered (h : List Confirm) (t : Nat) : Bool := h.any (covers · t)

/-- Scan upwards from `t` while covered (`fuel` steps at most). -/
def scanUp (h : List Confirm) : Nat → Nat → Nat
  | 0, t => t
  | fuel + 1, t => if isCovered h t then scanUp h fuel (t + 1) else t

def maxTag (h : List Confirm) : Nat := h.foldl (fun m c => max m c.tag) 0

def frontier (start : Nat) (h : List Confirm) : Nat := scanUp h (maxTag h + 2 - start) start

def outAt (h : List Confirm) (t : Nat) : Out :=
  match cover h t with
  | some c => ⟨c.kind, t⟩
  | none => ⟨.ack, t⟩   -- never used: only covered tags are emitted

def specOut (start : Nat) (p : List Confirm) (c : Confirm) : List Out :=
  let a := frontier start p
  let b := frontier start (p ++ [c])
  (List.range' a (b - a)).map (outAt (p ++ [c]))

def validStep (start : Nat) (p : List Confirm) (c : Confirm) : Bool :=
  decide (start ≤ c.tag) && !isCovered p c.tag

/-- `validFrom start p h`: `h` is a valid continuation of the (valid) history `p`. -/
def validFrom (start : Nat) (p : List Confirm) : List Confirm → Bool
  | [] => true
  | c :: cs => validStep start p c && validFrom start (p ++ [c]) cs

def Valid (start : Nat) (h : List Confirm) : Bool := validFrom start [] h

/-- Outputs of the whole history according to the spec, one list per raw confirmation. -/
def specRun (start : Nat) (p : List Confirm) : List Confirm → List (List Out)
  | [] => []
  | c :: cs => specOut start p c :: specRun start (p ++ [c]) cs

end AmqModel.Smoother
