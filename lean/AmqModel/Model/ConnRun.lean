/-
Operation alphabet and step functions of the `Conn` machine: what the line protocol of the
`machine` engine executes, and what the theorems quantify over ("every reachable state" = every
state `run (init …) ops` for a list of operations).
-/
import AmqModel.Model.Conn

namespace AmqModel.Conn

/-- Steps of the I/O thread (one atomic handler run each) and of its environment. -/
inductive IoOp where
  | frame (bytes : Bytes)            -- `ConnectionState::process` on one parsed frame
  | event (t : Token)                -- `handle_steady_event`
  | write                            -- `write_to_stream`
  | done                             -- `is_connection_done` (the assert inside may fire)
  | dereg | rereg                    -- (de/re)register_nonzero_channels
  | poll                             -- one `Poll::poll`
  | kill                             -- the thread exits
  deriving Repr, DecidableEq

structure IoOut where
  dead : Bool := false               -- the op found the loop already gone
  wrote : Option Bytes := none
  err : Option Err := none
  done : Option (Option Bool) := none
  ready : List PTok := []
  nondet : Bool := false
  deriving Repr, DecidableEq

/-- One I/O-thread step; an error result ends the loop (`kill`). -/
def ioStep (c : Conn) (o : IoOp) : Conn × IoOut :=
  if c.dead then
    match o with
    | .kill => (c, {})
    | _ => (c, { dead := true })
  else
    let fin (c1 : Conn) (wrote : Option Bytes) (e : Option Err) : Conn × IoOut :=
      match e with
      | none => (c1, { wrote := wrote, nondet := c1.nondet })
      | some e => (kill c1, { wrote := wrote, err := some e, nondet := c1.nondet })
    match o with
    | .frame bytes => let (c1, e) := processBytes c bytes; fin c1 none e
    | .event t =>
      let (c1, wrote, e) := handleEvent c t
      let w := match t with
        | .stream _ true => some wrote
        | _ => none
      fin c1 w e
    | .write => let (c1, wrote, e) := writeToStream c; fin c1 (some wrote) e
    | .done =>
      match isDone c with
      | some b => (c, { done := some (some b) })
      | none => (kill c, { done := some none })
    | .dereg => (deregisterAll c, {})
    | .rereg => (reregisterAll c, {})
    | .poll => let (c1, toks) := pollAll c; (c1, { ready := toks })
    | .kill => (kill c, {})

/-- Steps of client threads (each is one queue operation). -/
inductive ClientOp where
  | allocReq (req : Option Nat)
  | allocRep (label : Label)
  | send (label : Label) (m : Msg)
  | setBlocked (l : Label)
  | recv (label cl : Label)
  | crecv (cl : Label)
  | lrecv (l : Label)
  | dropHandle (label : Label)
  | dropCons (cl : Label)
  | dropLst (l : Label)
  deriving Repr, DecidableEq

inductive ClientOut where
  | none
  | sent (o : SendOutcome)
  | alloc (o : AllocOutcome)
  | reply (o : RecvOutcome)
  | cons (o : ConsOutcome)
  | lst (o : LstOutcome)
  deriving Repr, DecidableEq

def listenerOf : Msg → Option Label
  | .setReturn (some l) => some l
  | .setConfirm (some l) => some l
  | _ => none

def clientStep (c : Conn) (o : ClientOp) : Conn × ClientOut :=
  match o with
  | .allocReq req => let (c1, r) := allocRequest c req; (c1, .sent r)
  | .allocRep label => let (c1, r) := allocReply c label; (c1, .alloc r)
  | .send label m =>
    -- a listener registration creates its (fresh) queue first
    let c0 := match listenerOf m with
      | some l => newListener c l
      | none => c
    let (c1, r) := clientSend c0 label m; (c1, .sent r)
  | .setBlocked l => let (c1, r) := setBlockedRequest (newListener c l) l; (c1, .sent r)
  | .recv label cl => let (c1, r) := clientRecv c label cl; (c1, .reply r)
  | .crecv cl => let (c1, r) := consRecv c cl; (c1, .cons r)
  | .lrecv l => let (c1, r) := lstRecv c l; (c1, .lst r)
  | .dropHandle label => (dropHandle c label, .none)
  | .dropCons cl => (dropCons c cl, .none)
  | .dropLst l => (dropListener c l, .none)

/-- Everything that can happen to the machine. -/
inductive Op where
  | io (o : IoOp)
  | client (o : ClientOp)
  | decl (d : Decl)                                  -- the harness declares a frame (A1)
  | feed (evs : List FrameBuffer.ReadEv)             -- the transport has more to read
  | wscript (ws : List WriteStep)                    -- how the transport will take writes
  deriving Repr

def step (c : Conn) : Op → Conn
  | .io o => (ioStep c o).1
  | .client o => (clientStep c o).1
  | .decl d => { c with table := c.table ++ [d] }
  | .feed evs => { c with reads := c.reads ++ evs }
  | .wscript ws => { c with writes := c.writes ++ ws }

def run (c : Conn) (ops : List Op) : Conn := ops.foldl step c

/-- What the public API can make a client handle do: listener registrations never travel on the
    connection's own handle (`Channel0Handle` has no such method). -/
def ApiLegal : Op → Prop
  | .client (.send label m) => label = "0" → listenerOf m = none ∧ m ≠ .setReturn none ∧ m ≠ .setConfirm none
  | _ => True

end AmqModel.Conn
