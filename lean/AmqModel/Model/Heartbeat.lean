/-
M9 — heartbeat bookkeeping: src/heartbeats.rs (`Heartbeat::{start, record_activity, fire}`),
src/io_loop/heartbeat_timers.rs (rx interval = 2 × negotiated, tx interval = negotiated) and
`Inner::process_heartbeat_timers` in src/io_loop/mod.rs.

Time is in milliseconds on a monotone clock; "now" is an input of every operation (the real code
reads `Instant::now()`).  The timer wheel (mio-extras `Timer`) is modelled by its contract only:
a timeout set for `d` ms from now fires at some time in `[setAt + d, setAt + d + ε]` (A4).
-/
import AmqModel.Basic

namespace AmqModel.Heartbeat

def FUDGE : Nat := 5      -- `Duration::from_millis(5)` in `fire`

structure Hb where
  last : Nat              -- time of the last recorded activity
  interval : Nat
  dueAt : Nat             -- when the currently armed timeout is due
  deriving Repr, DecidableEq

inductive HbState where
  | stillRunning
  | expired
  deriving Repr, DecidableEq

/-- `Heartbeat::start` at time `now` -/
def start (now interval : Nat) : Hb := ⟨now, interval, now + interval⟩

/-- `record_activity` -/
def record (h : Hb) (now : Nat) : Hb := { h with last := now }

/-- `fire` at time `now`: expired iff `interval ≤ elapsed + 5 ms`; the timeout is re-armed for the
    full interval after an expiry, for the remaining time otherwise. -/
def fire (h : Hb) (now : Nat) : Hb × HbState :=
  let elapsed := now - h.last
  if h.interval ≤ elapsed + FUDGE then ({ h with dueAt := now + h.interval }, .expired)
  else ({ h with dueAt := now + (h.interval - elapsed) }, .stillRunning)

/-- The pair of timers of a connection (`RxTxHeartbeat::new`), `h` = negotiated heartbeat in ms. -/
structure RxTx where
  rx : Hb
  tx : Hb
  deriving Repr, DecidableEq

def MAX_MISSED : Nat := 2

def startRxTx (now h : Nat) : RxTx := ⟨start now (MAX_MISSED * h), start now h⟩

/-- What `process_heartbeat_timers` does when the rx / tx timeout fires. -/
inductive Effect where
  | none
  | missedServerHeartbeats        -- the loop ends with this error
  | pushHeartbeat                 -- a heartbeat frame is queued (only if nothing else is)
  deriving Repr, DecidableEq

def fireRx (p : RxTx) (now : Nat) : RxTx × Effect :=
  match fire p.rx now with
  | (rx', .expired) => ({ p with rx := rx' }, .missedServerHeartbeats)
  | (rx', .stillRunning) => ({ p with rx := rx' }, .none)

def fireTx (p : RxTx) (now : Nat) (outbufEmpty : Bool) : RxTx × Effect :=
  match fire p.tx now with
  | (tx', .expired) => ({ p with tx := tx' }, if outbufEmpty then .pushHeartbeat else .none)
  | (tx', .stillRunning) => ({ p with tx := tx' }, .none)

end AmqModel.Heartbeat
