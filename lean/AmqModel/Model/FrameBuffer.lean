/-
M1 — `FrameBuffer::read_from` (src/frame_buffer.rs) over `input_buffer::InputBuffer`.

The buffer is the list of unconsumed bytes.  One `read_from` call runs against a script of
transport events; a `chunk bs` event is one `read()` that has `bs` available and returns at most
the space offered (`reserve = max MIN_READ frame_size` once the size of an incomplete frame is
known, `MIN_READ = 4096` otherwise); what does not fit stays available for the next `read()`.
`chunk []` is `Ok(0)`, i.e. end of stream.  An exhausted script is `WouldBlock`.

`parse : Bytes → Bool` is amq-protocol's `parse_frame` accept/reject verdict on one envelope
(assumption A1); a frame handed to the handler is identified with its bytes.
The handler is modelled by `failAt`: it returns `Err` on the frame with that running index.
-/
import AmqModel.Basic

namespace AmqModel.FrameBuffer

inductive ReadEv where
  | chunk (bs : Bytes)
  | wouldBlock
  | eof
  | ioErr
  deriving Repr, DecidableEq

inductive RdRes where
  | ok (bytesRead : Nat)
  | unexpectedSocketClose
  | ioErrorReadingSocket
  | malformedFrame
  | handlerErr
  deriving Repr, DecidableEq

def MIN_READ : Nat := 4096

/-- `AmqpFrameKind::parse_size`: bytes 3..7 big-endian, plus 8. -/
def frameSize? : Bytes → Option Nat
  | _ :: _ :: _ :: a :: b :: c :: d :: _ => some (((a * 256 + b) * 256 + c) * 256 + d + 8)
  | _ => none

structure RdOut where
  buf : Bytes              -- buffer after the call
  script : List ReadEv     -- unconsumed transport events
  frames : List Bytes      -- frames handed to the handler during the call, in order
  res : RdRes
  deriving Repr, DecidableEq

/-- The loop of `Inner::read_from`. `seen` = number of frames handed on before this point
    (for `failAt`), `nread` = `bytes_read`. -/
def readLoop (parse : Bytes → Bool) (failAt : Option Nat) :
    Nat → Bytes → List ReadEv → Nat → Nat → List Bytes → RdOut
  | 0, buf, script, _, nread, acc => ⟨buf, script, acc.reverse, .ok nread⟩  -- out of fuel (unreachable)
  | fuel + 1, buf, script, seen, nread, acc =>
    let fs := frameSize? buf
    let complete := match fs with
      | some n => decide (n ≤ buf.length)
      | none => false
    if complete then
      let n := fs.getD 0
      let fr := buf.take n
      if parse fr then
        if failAt = some seen then
          -- handler(frame)? fails: the frame was handed on, the buffer is not advanced
          ⟨buf, script, (fr :: acc).reverse, .handlerErr⟩
        else readLoop parse failAt fuel (buf.drop n) script (seen + 1) nread (fr :: acc)
      else ⟨buf, script, acc.reverse, .malformedFrame⟩
    else
      let reserve := match fs with
        | some n => max MIN_READ n
        | none => MIN_READ
      match script with
      | [] => ⟨buf, [], acc.reverse, .ok nread⟩
      | .wouldBlock :: rest => ⟨buf, rest, acc.reverse, .ok nread⟩
      | .eof :: rest => ⟨buf, rest, acc.reverse, .unexpectedSocketClose⟩
      | .ioErr :: rest => ⟨buf, rest, acc.reverse, .ioErrorReadingSocket⟩
      | .chunk bs :: rest =>
        if bs.isEmpty then ⟨buf, rest, acc.reverse, .unexpectedSocketClose⟩
        else
          let got := bs.take reserve
          let left := bs.drop reserve
          let script' := if left.isEmpty then rest else .chunk left :: rest
          readLoop parse failAt fuel (buf ++ got) script' seen (nread + got.length) acc

def scriptBytes : List ReadEv → Nat
  | [] => 0
  | .chunk bs :: rest => bs.length + 1 + scriptBytes rest
  | _ :: rest => 1 + scriptBytes rest

/-- Fuel that suffices: every iteration consumes a frame (≥ 8 bytes of buffer) or a read event
    (or at least one byte of one). -/
def readFuel (buf : Bytes) (script : List ReadEv) : Nat := 2 * (buf.length + scriptBytes script) + 2

def readFrom (parse : Bytes → Bool) (failAt : Option Nat) (buf : Bytes) (script : List ReadEv)
    (seen : Nat) : RdOut :=
  readLoop parse failAt (readFuel buf script) buf script seen 0 []

/-! The segmentation-free reference: all whole frames at the head of a byte string. -/

/-- Frames wholly contained in `buf`, in order, up to the first one `parse` rejects. -/
def drainF (parse : Bytes → Bool) : Nat → Bytes → List Bytes × Bytes × Bool
  | 0, buf => ([], buf, true)
  | fuel + 1, buf =>
    match frameSize? buf with
    | some n =>
      if n ≤ buf.length then
        if parse (buf.take n) then
          let (fs, r, ok) := drainF parse fuel (buf.drop n)
          (buf.take n :: fs, r, ok)
        else ([], buf, false)
      else ([], buf, true)
    | none => ([], buf, true)

def framesOf (parse : Bytes → Bool) (buf : Bytes) : List Bytes × Bytes × Bool :=
  drainF parse (buf.length + 1) buf

end AmqModel.FrameBuffer
