/-
M10 — `connection.rs::amqp_url` (`open` up to the socket: `populate_host_and_port`, `decode`, the
secure-only check).  URL *syntax* is the `url` crate's business (assumption A5): the model starts
from the components that crate reports for the parsed URL.  Percent-decoding and integer parsing
are re-implemented here.  Strings are byte strings; the generators keep percent-encoded octets
valid UTF-8 so that `from_utf8_lossy` is the identity.
-/
import AmqModel.Basic

namespace AmqModel.Url

/-- What `url::Url` reports for the parsed URL. -/
structure Parts where
  parsed : Bool                       -- `Url::parse` succeeded
  cannotBeABase : Bool
  scheme : Bytes
  username : Bytes                    -- raw (still percent-encoded)
  password : Option Bytes             -- raw
  host : Option Bytes                 -- `host_str()`
  port : Option Nat
  segs : Option (List Bytes)          -- `path_segments()`, raw
  query : List (Bytes × Bytes)        -- `query_pairs()`, already form-decoded
  deriving Repr, DecidableEq

inductive Auth where
  | plain (user pass : Bytes)
  | external
  deriving Repr, DecidableEq

structure Decoded where
  secure : Bool
  host : Bytes
  port : Nat
  auth : Auth
  vhost : Bytes
  heartbeat : Nat
  channelMax : Nat
  timeoutMs : Option Nat
  deriving Repr, DecidableEq

inductive Err where
  | urlParseError
  | invalidUrlScheme
  | specifyUrlPort
  | extraUrlPathSegments
  | urlParseHeartbeat
  | urlParseChannelMax
  | urlParseConnectionTimeout
  | urlInvalidAuthMechanism (m : Bytes)
  | urlUnsupportedParameter (k : Bytes)
  | insecureUrl
  deriving Repr, DecidableEq

def hexDigitVal (b : Nat) : Option Nat :=
  if 48 ≤ b ∧ b ≤ 57 then some (b - 48)
  else if 97 ≤ b ∧ b ≤ 102 then some (b - 87)
  else if 65 ≤ b ∧ b ≤ 70 then some (b - 55)
  else none

/-- `percent_encoding::percent_decode`: `%XY` with two hex digits becomes one byte; anything else
    (including a stray `%`) is copied. -/
def percentDecode : Bytes → Bytes
  | 37 :: a :: b :: rest =>
    match hexDigitVal a, hexDigitVal b with
    | some x, some y => (x * 16 + y) :: percentDecode rest
    | _, _ => 37 :: percentDecode (a :: b :: rest)
  | c :: rest => c :: percentDecode rest
  | [] => []

/-- Percent-encode every byte (the canonical way to write an arbitrary byte string in a URL). -/
def hexUpper (n : Nat) : Nat := if n < 10 then 48 + n else 55 + n
def percentEncode : Bytes → Bytes
  | [] => []
  | b :: rest => 37 :: hexUpper (b / 16) :: hexUpper (b % 16) :: percentEncode rest

def digitsVal : Bytes → Nat → Option Nat
  | [], acc => some acc
  | d :: rest, acc => if 48 ≤ d ∧ d ≤ 57 then digitsVal rest (acc * 10 + (d - 48)) else none

/-- `str::parse::<uN>()` for an unsigned type with maximum `top`: optional leading `+`, at least
    one digit, digits only, value `≤ top`. -/
def parseUnsigned (top : Nat) (s : Bytes) : Option Nat :=
  let ds := match s with
    | 43 :: rest => rest
    | other => other
  if ds.isEmpty then none
  else match digitsVal ds 0 with
    | some v => if v ≤ top then some v else none
    | none => none

def str (s : String) : Bytes := s.toUTF8.toList.map (·.toNat)

/-! Literal strings of the code, as explicit byte lists (kernel-reducible). -/
def kGuest : Bytes := [103, 117, 101, 115, 116]  -- 'guest'
def kSlash : Bytes := [47]  -- '/'
def kLocalhost : Bytes := [108, 111, 99, 97, 108, 104, 111, 115, 116]  -- 'localhost'
def kAmqp : Bytes := [97, 109, 113, 112]  -- 'amqp'
def kAmqps : Bytes := [97, 109, 113, 112, 115]  -- 'amqps'
def kHeartbeat : Bytes := [104, 101, 97, 114, 116, 98, 101, 97, 116]  -- 'heartbeat'
def kChannelMax : Bytes := [99, 104, 97, 110, 110, 101, 108, 95, 109, 97, 120]  -- 'channel_max'
def kConnectionTimeout : Bytes := [99, 111, 110, 110, 101, 99, 116, 105, 111, 110, 95, 116, 105, 109, 101, 111, 117, 116]  -- 'connection_timeout'
def kAuthMechanism : Bytes := [97, 117, 116, 104, 95, 109, 101, 99, 104, 97, 110, 105, 115, 109]  -- 'auth_mechanism'
def kExternal : Bytes := [101, 120, 116, 101, 114, 110, 97, 108]  -- 'external'

structure Opts where
  auth : Auth
  vhost : Bytes
  heartbeat : Nat
  channelMax : Nat
  timeoutMs : Option Nat
  deriving Repr, DecidableEq

def defaultOpts : Opts :=
  { auth := .plain kGuest kGuest, vhost := kSlash, heartbeat := 60, channelMax := 0,
    timeoutMs := none }

/-- The `for (k, v) in url.query_pairs()` loop of `decode`. -/
def decodeQuery (o : Opts) : List (Bytes × Bytes) → Except Err Opts
  | [] => .ok o
  | (k, v) :: rest =>
    if k = kHeartbeat then
      match parseUnsigned 65535 v with
      | some n => decodeQuery { o with heartbeat := n } rest
      | none => .error .urlParseHeartbeat
    else if k = kChannelMax then
      match parseUnsigned 65535 v with
      | some n => decodeQuery { o with channelMax := n } rest
      | none => .error .urlParseChannelMax
    else if k = kConnectionTimeout then
      match parseUnsigned 18446744073709551615 v with
      | some n => decodeQuery { o with timeoutMs := some n } rest
      | none => .error .urlParseConnectionTimeout
    else if k = kAuthMechanism then
      if v = kExternal then decodeQuery { o with auth := .external } rest
      else .error (.urlInvalidAuthMechanism v)
    else .error (.urlUnsupportedParameter k)

/-- `decode(&url)` -/
def decode (p : Parts) : Except Err Opts :=
  let o := defaultOpts
  let r1 : Except Err Opts :=
    match p.segs with
    | some (vhost :: more) =>
      let o1 := if vhost ≠ [] then { o with vhost := percentDecode vhost } else o
      if more ≠ [] then .error .extraUrlPathSegments else .ok o1
    | _ => .ok o
  match r1 with
  | .error e => .error e
  | .ok o1 =>
    let o2 :=
      if p.username ≠ [] ∨ p.password.isSome then
        let user := if p.username = [] then kGuest else p.username
        { o1 with auth := .plain (percentDecode user) (percentDecode (p.password.getD kGuest)) }
      else o1
    decodeQuery o2 p.query

/-- `amqp_url::open` up to (excluding) the socket. `allowInsecure = false` for `Connection::open`
    / `open_tuned`, `true` for the `insecure_*` variants. -/
def openUrl (allowInsecure : Bool) (p : Parts) : Except Err Decoded :=
  if !p.parsed then .error .urlParseError
  else
    -- populate_host_and_port
    let needHost := p.host.isNone || p.host = some []
    if needHost && p.cannotBeABase then .error .urlParseError
    else
      let host := if needHost then kLocalhost else p.host.getD []
      let sch : Option (Bool × Nat) :=
        if p.scheme = kAmqp then some (false, 5672)
        else if p.scheme = kAmqps then some (true, 5671)
        else none
      match sch with
      | none => .error .invalidUrlScheme
      | some (secure, dflt) =>
        let port := p.port.getD dflt
        -- (fix D21) an insecure URL is refused as such by the secure-only entry points before
        -- anything else about it is looked at
        if !secure && !allowInsecure then .error .insecureUrl
        else
          match decode p with
          | .error e => .error e
          | .ok o =>
            .ok { secure := secure, host := host, port := port, auth := o.auth, vhost := o.vhost,
                  heartbeat := o.heartbeat, channelMax := o.channelMax, timeoutMs := o.timeoutMs }

end AmqModel.Url
