/-
M5 — `ChannelSlots<T>` (src/io_loop/channel_slots.rs), payloads dropped.

`open_`  = key set of `slots: HashMap<u16, T>` (only membership is observed)
`freed`  = `freed_channel_ids: IndexSet<u16>`; head of the list = most recently inserted
           (`IndexSet::insert` of a present element is a no-op, `pop` takes the last inserted)
`next`   = `next_channel_id` (a `u32` in the repaired code: it reaches `channel_max + 1 ≤ 65536`)
`max`    = `channel_max`

`legacy = true` transcribes the code before the repairs of D1/D2 (id 0 accepted; a single `pop`
followed by `unreachable!` when the popped id is occupied).
-/
import AmqModel.Basic

namespace AmqModel.Slots

structure Slots where
  open_ : List Nat
  freed : List Nat
  next : Nat
  max : Nat
  deriving Repr, DecidableEq

inductive Res where
  | ok (id : Nat)
  | unavailable (id : Nat)
  | exhausted
  | panic
  deriving Repr, DecidableEq

def new (max : Nat) : Slots := { open_ := [], freed := [], next := 1, max := max }

def freedInsert (id : Nat) (f : List Nat) : List Nat := if id ∈ f then f else id :: f

/-- `insert(Some(id), …)` -/
def insertSomeG (legacy : Bool) (s : Slots) (id : Nat) : Slots × Res :=
  if (!legacy && id = 0) || id > s.max then (s, .unavailable id)
  else if id ∈ s.open_ then (s, .unavailable id)
  else ({ s with open_ := id :: s.open_ }, .ok id)

/-- The `while self.next_channel_id <= self.channel_max` loop. -/
def counterLoop : Nat → Slots → Slots × Option Nat
  | 0, s => (s, none)
  | fuel + 1, s =>
    if s.next ≤ s.max then
      let id := s.next
      let s' := { s with next := s.next + 1 }
      if id ∈ s.open_ then counterLoop fuel s'
      else ({ s' with open_ := id :: s'.open_ }, some id)
    else (s, none)

/-- Pop freed ids until a vacant one is found (stale entries are skipped). -/
def popLoop (open_ : List Nat) : List Nat → List Nat × Option Nat
  | [] => ([], none)
  | id :: rest => if id ∈ open_ then popLoop open_ rest else (rest, some id)

/-- `insert(None, …)` = `insert_unused_channel_id` -/
def insertNoneG (legacy : Bool) (s : Slots) : Slots × Res :=
  match counterLoop (s.max + 1 - s.next) s with
  | (s', some id) => (s', .ok id)
  | (s', none) =>
    if legacy then
      match s'.freed with
      | [] => (s', .exhausted)
      | id :: rest =>
        if id ∈ s'.open_ then ({ s' with freed := rest }, .panic)
        else ({ s' with freed := rest, open_ := id :: s'.open_ }, .ok id)
    else
      match popLoop s'.open_ s'.freed with
      | (f, some id) => ({ s' with freed := f, open_ := id :: s'.open_ }, .ok id)
      | (f, none) => ({ s' with freed := f }, .exhausted)

abbrev insertSome := insertSomeG false
abbrev insertNone := insertNoneG false

/-- `remove(id)`; the Boolean is `Option::is_some` of the result. -/
def remove (s : Slots) (id : Nat) : Slots × Bool :=
  if id ∈ s.open_ then
    ({ s with open_ := s.open_.erase id, freed := freedInsert id s.freed }, true)
  else (s, false)

/-- `drain()`: every open id is freed (insertion order into the freed set follows `HashMap`
    iteration order, which is unspecified; the model uses list order — nothing is allocated after
    a drain in the real client). Returns the drained ids. -/
def drain (s : Slots) : Slots × List Nat :=
  ({ s with open_ := [], freed := s.open_.foldl (fun f id => freedInsert id f) s.freed }, s.open_)

inductive Op where
  | some (id : Nat)
  | none
  | remove (id : Nat)
  | drain
  deriving Repr, DecidableEq

def stepG (legacy : Bool) (s : Slots) : Op → Slots
  | .some id => (insertSomeG legacy s id).1
  | .none => (insertNoneG legacy s).1
  | .remove id => (remove s id).1
  | .drain => (drain s).1

abbrev step := stepG false

end AmqModel.Slots
