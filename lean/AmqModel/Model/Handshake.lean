/-
M8 — the AMQP handshake: src/io_loop/handshake_state.rs (`HandshakeState::process`),
src/connection_options.rs (`make_start_ok`, `make_tune_ok`, `make_open`), src/auth.rs, and the
outcome mapping of src/io_loop/mod.rs (`run_amqp_handshake`, `is_handshake_done`, the
connection-timeout branch of `run_io_loop`).

The server's behaviour is a list of *reads*: each read delivers some frames and then either
would-block (more may come), ends the stream, resets it, or the server goes silent (with a
configured timeout the attempt then ends with ConnectionTimeout).  `pushed` of the outcome is
what reaches the wire: the frames queued during reads that completed (a read that fails ends the
loop before its own output is written; a finished handshake writes everything).
-/
import AmqModel.Basic
import AmqModel.Model.Tune

namespace AmqModel.Handshake

/-- An inbound frame, as far as the handshake looks at it. -/
inductive HFrame where
  | start (mechanisms locales : Bytes)        -- Connection.Start on channel 0
  | secure                                    -- Connection.Secure on channel 0
  | tune (t : Tune.Triple)                    -- Connection.Tune on channel 0
  | openOk                                    -- Connection.OpenOk on channel 0
  | close (code : Nat) (text : Bytes)         -- Connection.Close on channel 0
  | heartbeat                                 -- heartbeat on channel 0
  | other                                     -- anything else that parses (incl. the above on another channel)
  | bad                                       -- does not parse
  deriving Repr, DecidableEq

/-- A frame the client queues for the server. -/
inductive CFrame where
  | startOk (mechanism response locale : Bytes) (information : Option Bytes)
  | tuneOk (t : Tune.Triple)
  | open_ (vhost : Bytes)
  | closeOk
  deriving Repr, DecidableEq

inductive HErr where
  | unsupportedAuthMechanism (available requested : Bytes)
  | unsupportedLocale (available requested : Bytes)
  | saslSecureNotSupported
  | frameMaxTooSmall (min requested : Nat)
  | frameUnexpected
  | malformedFrame
  | invalidCredentials
  | serverClosedConnection (code : Nat) (text : Bytes)
  | unexpectedSocketClose
  | ioErrorReadingSocket
  | connectionTimeout
  | hangs                                     -- the attempt never returns (silent server, no timeout)
  deriving Repr, DecidableEq

structure Opts where
  mechanism : Bytes
  response : Bytes
  locale : Bytes
  vhost : Bytes
  information : Option Bytes
  tuning : Tune.Triple                        -- client channel_max / frame_max / heartbeat
  timeout : Bool                              -- a connection timeout is configured
  deriving Repr, DecidableEq

inductive HState where
  | start
  | secure
  | tune
  | open_ (t : Tune.Triple)
  | serverClosing (code : Nat) (text : Bytes)
  | done (t : Tune.Triple)
  deriving Repr, DecidableEq

/-- `server.split(' ').any(|s| s == client)` -/
def splitSpaces : Bytes → Bytes → List Bytes
  | [], cur => [cur.reverse]
  | 32 :: rest, cur => cur.reverse :: splitSpaces rest []
  | b :: rest, cur => splitSpaces rest (b :: cur)

def serverSupports (server client : Bytes) : Bool := (splitSpaces server []).contains client

/-- `HandshakeState::process` (the `Secure` state retries as `Tune`). -/
def hsStep (o : Opts) (s : HState) (f : HFrame) : Except HErr (HState × List CFrame) :=
  match f with
  | .heartbeat => .ok (s, [])
  | _ =>
    match s with
    | .start =>
      match f with
      | .start mechs locales =>
        if !serverSupports mechs o.mechanism then .error (.unsupportedAuthMechanism mechs o.mechanism)
        else if !serverSupports locales o.locale then .error (.unsupportedLocale locales o.locale)
        else .ok (.secure, [.startOk o.mechanism o.response o.locale o.information])
      | _ => .error .frameUnexpected
    | .secure | .tune =>
      match s, f with
      | .secure, .secure => .error .saslSecureNotSupported
      | _, .tune t =>
        match Tune.makeTuneOk o.tuning t with
        | .frameMaxTooSmall m r => .error (.frameMaxTooSmall m r)
        | .ok tok => .ok (.open_ tok, [.tuneOk tok, .open_ o.vhost])
      | _, _ => .error .frameUnexpected
    | .open_ tok =>
      match f with
      | .close code text => .ok (.serverClosing code text, [.closeOk])
      | .openOk => .ok (.done tok, [])
      | _ => .error .frameUnexpected
    | .serverClosing _ _ => .error .frameUnexpected
    -- (fix D18) what the server sends right behind OpenOk may arrive in the read that completes the
    -- handshake: such frames are kept for the established connection, the handshake stays done
    | .done t => .ok (.done t, [])

/-- How a read ends once its frames have been handed on. -/
inductive ReadEnd where
  | wouldBlock
  | eof
  | reset
  | silence          -- nothing ever arrives any more
  deriving Repr, DecidableEq

structure Read where
  frames : List HFrame
  ending : ReadEnd
  deriving Repr, DecidableEq

/-- How the attempt ends. -/
inductive Result where
  | connected (t : Tune.Triple)
  | failed (e : HErr)
  deriving Repr, DecidableEq

structure Outcome where
  result : Result
  pushed : List CFrame
  deriving Repr, DecidableEq

/-- Frames of one read through the state machine; the first error stops the read. -/
def runFrames (o : Opts) : HState → List HFrame → List CFrame → Except HErr HState × List CFrame
  | s, [], acc => (.ok s, acc)
  | s, .bad :: _, acc => let _ := s; (.error .malformedFrame, acc)
  | s, f :: fs, acc =>
    match hsStep o s f with
    | .error e => (.error e, acc)
    | .ok (s', out) => runFrames o s' fs (acc ++ out)

/-- The error a failing loop is turned into (`run_amqp_handshake`): in state `Secure` a dropped
    connection means bad credentials.  `legacy` = before the repair of D9 (any error in `Secure`). -/
def mapErr (legacy : Bool) (s : HState) (e : HErr) : HErr :=
  match s with
  | .secure =>
    if legacy then .invalidCredentials
    else match e with
      | .unexpectedSocketClose | .ioErrorReadingSocket => .invalidCredentials
      | other => other
  | _ => e

/-- The handshake loop over the server's reads.  After each read (one batch of poll events) the
    loop checks `is_handshake_done`; everything pushed is assumed writable (the transport of the
    handshake scenarios never stalls). -/
def runReads (legacy : Bool) (o : Opts) : HState → List Read → List CFrame → Outcome
  | s, [], acc =>
    -- the script is over and nothing more arrives
    ⟨.failed (mapErr legacy s (if o.timeout then .connectionTimeout else .hangs)), acc⟩
  | s, r :: rs, acc =>
    match runFrames o s r.frames acc with
    | (.error e, _) =>
      -- the state the loop ended in is the one before the failing frame; `mapErr` looks at it.
      -- What this read made the client queue is never written: the loop ends first.
      let sAt := (lastGood o s r.frames)
      ⟨.failed (mapErr legacy sAt e), acc⟩
    | (.ok s', acc') =>
      match r.ending with
      | .eof => ⟨.failed (mapErr legacy s' .unexpectedSocketClose), acc⟩
      | .reset => ⟨.failed (mapErr legacy s' .ioErrorReadingSocket), acc⟩
      | .silence => finish legacy o s' acc' true
      | .wouldBlock =>
        match s' with
        | .done t => ⟨.connected t, acc'⟩
        | .serverClosing code text => ⟨.failed (.serverClosedConnection code text), acc'⟩
        | _ => runReads legacy o s' rs acc'
where
  /-- State reached just before the first failing frame of a read. -/
  lastGood (o : Opts) : HState → List HFrame → HState
    | s, [] => s
    | s, .bad :: _ => s
    | s, f :: fs =>
      match hsStep o s f with
      | .error _ =>
        -- `Secure` hands every frame that is not a Secure challenge on to `Tune` *after* switching
        -- state, so a frame failing there leaves the machine in `Tune`
        if s = .secure ∧ f ≠ .secure then .tune else s
      | .ok (s', _) => lastGood o s' fs
  finish (legacy : Bool) (o : Opts) (s : HState) (acc : List CFrame) (_silent : Bool) : Outcome :=
    match s with
    | .done t => ⟨.connected t, acc⟩
    | .serverClosing code text => ⟨.failed (.serverClosedConnection code text), acc⟩
    | _ => ⟨.failed (mapErr legacy s (if o.timeout then .connectionTimeout else .hangs)), acc⟩

def handshake (legacy : Bool) (o : Opts) (reads : List Read) : Outcome := runReads legacy o .start reads []

end AmqModel.Handshake
