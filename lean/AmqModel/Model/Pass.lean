/-
One pass of `IoLoop::run_io_loop` (src/io_loop/mod.rs) as far as the *registrations* go: what the
loop does after the events of a poll batch have been handled -

    if listening && outbuf.len() > high  { deregister channels; listening = false }
    else if !listening && outbuf.len() <= low { reregister channels; listening = true }
    if has_data_to_write() && have_written_to_socket { reregister(stream, R|W, edge) }
    else if had_data_to_write && !has_data_to_write() { have_written_to_socket = true; reregister(stream, R, edge) }

(the second condition is the tree after fix D14; `endOfPassD14` below is the decision as it was)

and at entry (`if has_data_to_write() && have_written_to_socket { reregister(stream, R|W) }`) - around
an edge-triggered socket (`PollOpt::edge()`), whose events the loop must not lose: a writable event
is raised when the transport BECOMES willing while writable interest is registered, and when a
(re-)registration with writable interest finds it willing (EPOLL_CTL_MOD semantics, which mio
documents and the comment in the code relies on) - never merely because data is waiting.

The handlers of the batch are abstract here: they append to the buffer (`append n`) and, for a
writable event of the socket only, run `write_to_stream` (`write k`: the transport takes `k` bytes;
when that is less than what is buffered the call that follows returns WouldBlock).
-/
import AmqModel.Model.Backpressure

namespace AmqModel.Pass

/-- What the loop does to the socket's registration. -/
inductive SockAct where
  | none
  | rw          -- reregister(stream, readable | writable, edge)
  | r           -- reregister(stream, readable, edge)
  deriving Repr, DecidableEq

/-- The loop's own control variables. -/
structure Ctl where
  hw : Bool               -- have_written_to_socket
  listening : Bool        -- listening_to_channels
  deriving Repr, DecidableEq

/-- End of a pass: `had` = data was buffered when `poll` returned, `out` = bytes buffered now. -/
def endOfPass (c : Ctl) (had : Bool) (out high low : Nat) : Ctl × Backpressure.Action × SockAct :=
  let sw := Backpressure.endOfBatch c.listening out high low
  if decide (out > 0) && c.hw then ({ c with listening := sw.1 }, sw.2, .rw)
  else if had && decide (out = 0) then ({ hw := true, listening := sw.1 }, sw.2, .r)
  else ({ c with listening := sw.1 }, sw.2, .none)

/-- The decision before fix D14 (`else if had_data_to_write`): kept to state what was wrong. -/
def endOfPassD14 (c : Ctl) (had : Bool) (out high low : Nat) : Ctl × Backpressure.Action × SockAct :=
  let sw := Backpressure.endOfBatch c.listening out high low
  if decide (out > 0) && c.hw then ({ c with listening := sw.1 }, sw.2, .rw)
  else if had then ({ hw := true, listening := sw.1 }, sw.2, .r)
  else ({ c with listening := sw.1 }, sw.2, .none)

/-- Entry of `run_io_loop` (handshake, then steady state: the registration is not known). -/
def enter (out : Nat) (hw : Bool) : SockAct :=
  if decide (out > 0) && hw then .rw else .none

/-- The socket as the selector sees it (edge-triggered). -/
structure Sock where
  willing : Bool          -- the transport would take bytes now
  wInt : Bool             -- writable interest registered
  wEdge : Bool            -- a writable event is queued for the next poll
  deriving Repr, DecidableEq

def Sock.apply (s : Sock) : SockAct → Sock
  | .none => s
  | .rw => { s with wInt := true, wEdge := s.wEdge || s.willing }
  | .r => { s with wInt := false, wEdge := false }

/-- The environment: the transport becomes willing (an edge, if anyone is interested) … -/
def Sock.becomeWilling (s : Sock) : Sock :=
  if s.willing then s else { s with willing := true, wEdge := s.wEdge || s.wInt }

/-- … or unwilling (its buffer filled up exactly; no event). -/
def Sock.becomeUnwilling (s : Sock) : Sock := { s with willing := false }

structure St where
  out : Nat
  ctl : Ctl
  sock : Sock
  high : Nat
  low : Nat
  deriving Repr, DecidableEq

/-- What the handlers of one batch do to the buffer. -/
inductive HOp where
  | append (n : Nat)      -- a submission, a reply to the server, a heartbeat …
  | write (k : Nat)       -- `write_to_stream` with a transport that takes `k` bytes now
  deriving Repr, DecidableEq

/-- `write_to_stream`: everything goes out, or the transport stops taking bytes (WouldBlock seen). -/
def doWrite (s : St) (k : Nat) : St :=
  if s.out ≤ k then { s with out := 0 }
  else { s with out := s.out - k, sock := { s.sock with willing := false } }

/-- One handler step; `wev` = the batch holds a writable event for the socket (only then is
    `write_to_stream` called). -/
def hstep (wev : Bool) (s : St) : HOp → St
  | .append n => { s with out := s.out + n }
  | .write k => if wev then doWrite s k else s

/-- A whole pass: poll takes the queued event, the handlers run, the end of the pass follows. -/
def pass (s : St) (ops : List HOp) : St :=
  let had := decide (s.out > 0)
  let wev := s.sock.wEdge
  let s1 := { s with sock := { s.sock with wEdge := false } }
  let s2 := ops.foldl (hstep wev) s1
  let r := endOfPass s2.ctl had s2.out s2.high s2.low
  { s2 with ctl := r.1, sock := s2.sock.apply r.2.2 }

/-- Everything that can happen between two polls and during one. -/
inductive Step where
  | pass (ops : List HOp)
  | willing
  | unwilling
  deriving Repr

def step (s : St) : Step → St
  | .pass ops => pass s ops
  | .willing => { s with sock := s.sock.becomeWilling }
  | .unwilling => { s with sock := s.sock.becomeUnwilling }

def run (s : St) (xs : List Step) : St := xs.foldl step s

/-- Armed: with data to write the loop is registered for writable and either an event is queued
    or the transport is refusing (so that its becoming willing will raise one); with nothing to
    write it is not registered for writable (no busy loop on an idle, writable socket). -/
def Armed (s : St) : Prop :=
  (s.out > 0 → s.sock.wInt = true ∧ (s.sock.wEdge = true ∨ s.sock.willing = false)) ∧
  (s.out = 0 → s.sock.wInt = false)

/-- The handshake's first phase (`have_written_to_socket = false`): registered for writable only
    since `start()`, nothing can append yet. -/
def ArmedStart (s : St) : Prop :=
  s.ctl.hw = false ∧ s.out > 0 ∧ s.sock.wInt = true ∧ (s.sock.wEdge = true ∨ s.sock.willing = false)

end AmqModel.Pass
