/-
M4 — `ContentCollector` (src/io_loop/content_collector.rs).

A content message arrives as a method (Deliver / Return / GetOk), a header announcing the body
size, and body frames.  `collect*` take the state out (`self.kind.take()`), so after an error the
collector is idle.
-/
import AmqModel.Basic

namespace AmqModel.Collector

/-- The content-bearing method that opened the message, with the fields the client keeps. -/
inductive Kind where
  | deliver (tag : Bytes) (dtag : Nat) (redelivered : Bool) (exchange rk : Bytes)
  | ret (code : Nat) (text exchange rk : Bytes)
  | get (dtag : Nat) (redelivered : Bool) (exchange rk : Bytes) (count : Nat)
  deriving Repr, DecidableEq

/-- A completely reassembled message. -/
structure Content where
  kind : Kind
  props : Bytes
  body : Bytes
  deriving Repr, DecidableEq

inductive CState where
  | idle
  | start (k : Kind)
  | body (k : Kind) (size : Nat) (props : Bytes) (buf : Bytes)
  deriving Repr, DecidableEq

inductive Res where
  | more (s : CState)               -- Ok(None)
  | done (c : Content)              -- Ok(Some(..)); the collector is idle again
  | unexpected                      -- Err(FrameUnexpected); the collector is idle
  deriving Repr, DecidableEq

/-- `collect_deliver` / `collect_return` / `collect_get` -/
def collectMethod (s : CState) (k : Kind) : Res :=
  match s with
  | .idle => .more (.start k)
  | _ => .unexpected

/-- `collect_header` -/
def collectHeader (s : CState) (size : Nat) (props : Bytes) : Res :=
  match s with
  | .start k => if size = 0 then .done ⟨k, props, []⟩ else .more (.body k size props [])
  | _ => .unexpected

/-- `collect_body` -/
def collectBody (s : CState) (payload : Bytes) : Res :=
  match s with
  | .body k size props buf =>
    let buf' := buf ++ payload
    if buf'.length = size then .done ⟨k, props, buf'⟩
    else if buf'.length < size then .more (.body k size props buf')
    else .unexpected
  | _ => .unexpected

/-- State after an operation (idle after completion or error). -/
def Res.state : Res → CState
  | .more s => s
  | _ => .idle

end AmqModel.Collector
