/-
The heartbeat timers around the `Conn` machine: `Inner::start_heartbeats`,
`HeartbeatTimers::record_{rx,tx}_activity` as called from `Inner::read_from_stream` /
`Inner::write_to_stream`, and `Inner::process_heartbeat_timers` (src/io_loop/mod.rs).

`Conn` itself knows nothing of time.  This layer carries a clock (`now`, advanced by the
environment), the pair of timers of `Heartbeat.RxTx`, and wraps every I/O-thread step: a step that
took bytes from the transport records rx activity, a step that handed bytes to the transport
records tx activity, and the HEARTBEAT event fires whichever timers are due.

The timer wheel (mio-extras) is modelled by its contract (A4): a timeout is handed out by the
first poll at or after its due time; timeouts of one poll come in order of due time.
-/
import AmqModel.Model.ConnRun
import AmqModel.Model.Heartbeat

namespace AmqModel.ConnHb
open AmqModel.Conn AmqModel.Heartbeat

structure St where
  c : Conn
  now : Nat := 0
  hb : Option RxTx := none
  deriving Repr

/-- Bytes still to come from the scripted transport. -/
def bytesIn : List FrameBuffer.ReadEv → Nat
  | [] => 0
  | .chunk bs :: rest => bs.length + bytesIn rest
  | _ :: rest => bytesIn rest

/-- `start_heartbeats(interval)`: nothing is started for an interval of 0. -/
def startHeartbeats (s : St) (interval : Nat) : St :=
  if interval = 0 then s else { s with hb := some (startRxTx s.now interval) }

/-- The environment lets time pass. -/
def sleep (s : St) (ms : Nat) : St := { s with now := s.now + ms }

/-- Activity bookkeeping after an I/O-thread step from `before` to `after` that handed `wrote` to
    the transport. -/
def recordActivity (hb : Option RxTx) (now : Nat) (readSome wroteSome : Bool) : Option RxTx :=
  hb.map fun p =>
    let p1 := if readSome then { p with rx := record p.rx now } else p
    if wroteSome then { p1 with tx := record p1.tx now } else p1

def wroteSome (o : IoOut) : Bool :=
  match o.wrote with
  | some (_ :: _) => true
  | _ => false

/-- Any I/O-thread step other than the HEARTBEAT event. -/
def ioStep (s : St) (o : IoOp) : St × IoOut :=
  let (c', out) := Conn.ioStep s.c o
  let readSome := decide (bytesIn c'.reads < bytesIn s.c.reads)
  ({ s with c := c', hb := recordActivity s.hb s.now readSome (wroteSome out) }, out)

inductive HbOut where
  | dead                        -- the loop was gone already
  | ok
  | missedServerHeartbeats      -- the loop ends with this error
  deriving Repr, DecidableEq

/-- `process_heartbeat_timers`: fire the timers that are due, the earlier one first. -/
def fireDue : Nat → Conn → RxTx → Nat → Conn × RxTx × Bool
  | 0, c, p, _ => (c, p, false)
  | fuel + 1, c, p, now =>
    let rxDue := decide (p.rx.dueAt ≤ now)
    let txDue := decide (p.tx.dueAt ≤ now)
    if txDue && (!rxDue || decide (p.tx.dueAt ≤ p.rx.dueAt)) then
      let (p', eff) := fireTx p now c.out.isEmpty
      let c' := if eff = .pushHeartbeat then pushOut c heartbeatFrame else c
      fireDue fuel c' p' now
    else if rxDue then
      let (p', eff) := fireRx p now
      if eff = .missedServerHeartbeats then (c, p', true) else fireDue fuel c p' now
    else (c, p, false)

/-- The HEARTBEAT token of `handle_steady_event`. -/
def hbEvent (s : St) : St × HbOut :=
  if s.c.dead then (s, .dead)
  else
    match s.hb with
    | none => (s, .ok)
    | some p =>
      let (c', p', missed) := fireDue 4 s.c p s.now
      if missed then ({ s with c := kill c', hb := some p' }, .missedServerHeartbeats)
      else ({ s with c := c', hb := some p' }, .ok)

def clientStep (s : St) (o : ClientOp) : St × ClientOut :=
  let (c', out) := Conn.clientStep s.c o
  ({ s with c := c' }, out)

/-- Everything that can happen to the timed machine. -/
inductive Op where
  | base (o : Conn.Op)            -- any operation of the untimed machine
  | start (interval : Nat)        -- `start_heartbeats`
  | sleep (ms : Nat)              -- time passes
  | hbEvent                       -- the HEARTBEAT token
  deriving Repr

def step (s : St) : Op → St
  | .base (.io o) => (ioStep s o).1
  | .base o => { s with c := Conn.step s.c o }
  | .start h => startHeartbeats s h
  | .sleep ms => sleep s ms
  | .hbEvent => (hbEvent s).1

def run (s : St) (ops : List Op) : St := ops.foldl step s

def init (channelMax bound : Nat) : St := { c := Conn.init channelMax bound }

end AmqModel.ConnHb
