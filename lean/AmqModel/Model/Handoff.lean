/-
The hand-off at the end of a cancel or close, at the granularity the sequential machine model
(`Model/Conn.lean`, one `process` call = one atomic step) cannot see: the I/O thread makes TWO
sends - the answer to the caller (`slot.tx`) and the terminal message to the consumer - and the
caller's thread runs concurrently: blocked until the answer arrives, then free to drop the consumer
and with it the receiving end of the consumer's queue (that is what `Consumer`'s `Drop` does after
its cancel; src/consumer.rs).  A send to a queue whose receiver is gone makes the I/O thread give up
the whole connection (`send()` in connection_state.rs: `EventLoopClientDropped`).
-/
namespace AmqModel.Handoff

/-- The two sends of the I/O thread. -/
inductive Send where
  | caller        -- `send(&slot.tx, reply)`
  | consumer      -- `send(&tx, terminal message)`
  deriving Repr, DecidableEq

structure St where
  todo : List Send          -- what the I/O thread still has to do, in program order
  answered : Bool           -- the caller has its answer
  receiverAlive : Bool      -- the consumer's receiving end exists
  delivered : Bool          -- the terminal message is in the consumer's queue
  ioDead : Bool             -- the I/O thread ended the connection (EventLoopClientDropped)
  deriving Repr, DecidableEq

def init (order : List Send) : St :=
  { todo := order, answered := false, receiverAlive := true, delivered := false, ioDead := false }

/-- A scheduler choice: the I/O thread makes its next send, or the caller's thread runs. -/
inductive Who where
  | io
  | client
  deriving Repr, DecidableEq

def step (s : St) : Who → St
  | .io =>
    if s.ioDead then s else
    match s.todo with
    | [] => s
    | .caller :: rest => { s with todo := rest, answered := true }
    | .consumer :: rest =>
      if s.receiverAlive then { s with todo := rest, delivered := true }
      else { s with todo := rest, ioDead := true }
  | .client =>
    -- blocked in `recv` until answered; then it returns from cancel()/drop and the receiver goes
    if s.answered then { s with receiverAlive := false } else s

def run (s : St) (sched : List Who) : St := sched.foldl step s

/-- The order of the code after fix D15. -/
def consumerFirst : List Send := [.consumer, .caller]
/-- The order before. -/
def callerFirst : List Send := [.caller, .consumer]

end AmqModel.Handoff
