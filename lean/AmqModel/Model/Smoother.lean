/-
M6 — `ConfirmSmoother` (src/confirm.rs), transcribed at `Iterator::next` granularity.

`St`      = `ConfirmSmoother { expected, out_of_order }`
`It`      = `Iter { parent, payload, next, to_confirm, done }`  (parent state carried inside)
`iterNext`= `Iterator::next`
`drainIt` = the `while !self.done { self.next() }` loop of `Drop` (fuel-indexed; `drainFuel` suffices)
`process` = run the iterator returned by `ConfirmSmoother::process` to completion
`takeDrop`= take `k` items from the iterator, then drop it

`u64` is modelled as `Nat`: `expected += 1` is never evaluated at `u64::MAX` for tags `< 2^64 - 1`
(the correspondence keeps tags below that).
-/
import AmqModel.Basic

namespace AmqModel.Smoother

inductive Kind where
  | ack | nack
  deriving DecidableEq, Repr, Inhabited

/-- A raw confirmation from the server. -/
structure Confirm where
  kind : Kind
  tag : Nat
  multiple : Bool
  deriving DecidableEq, Repr

/-- A smoothed confirmation (always `multiple = false`). -/
structure Out where
  kind : Kind
  tag : Nat
  deriving DecidableEq, Repr

structure St where
  expected : Nat
  ooo : List (Nat × Out)
  deriving Repr

structure It where
  st : St
  payload : Confirm
  next : Option Out
  done : Bool
  deriving Repr

def mkIt (st : St) (c : Confirm) : It := { st := st, payload := c, next := none, done := false }

/-- `Iterator::next` of the (repaired) code.  `legacy = true` gives the code before the repair of
    D4, in which the `multiple` branch did not consult `out_of_order`. -/
def iterNextG (legacy : Bool) (it : It) : It × Option Out :=
  if it.done then (it, none)
  else
    let p := it.payload
    let e := it.st.expected
    if p.tag = e then
      -- exact match
      let e' := e + 1
      let nxt := AL.lookup e' it.st.ooo
      ({ it with st := { expected := e', ooo := AL.erase e' it.st.ooo }, next := nxt },
        some ⟨p.kind, p.tag⟩)
    else if p.tag > e then
      if p.multiple then
        if legacy then
          ({ it with st := { it.st with expected := e + 1 } }, some ⟨p.kind, e⟩)
        else
          let ret := match AL.lookup e it.st.ooo with
            | some o => o
            | none => ⟨p.kind, e⟩
          ({ it with st := { expected := e + 1, ooo := AL.erase e it.st.ooo } }, some ret)
      else
        ({ it with st := { it.st with ooo := AL.insert p.tag ⟨p.kind, p.tag⟩ it.st.ooo },
                   done := true }, none)
    else
      match it.next with
      | some n =>
        let e' := e + 1
        ({ it with st := { expected := e', ooo := AL.erase e' it.st.ooo },
                   next := AL.lookup e' it.st.ooo }, some n)
      | none => ({ it with done := true }, none)

abbrev iterNext := iterNextG false

/-- Run the iterator until `done`, collecting what it yields. -/
def drainItG (legacy : Bool) : Nat → It → It × List Out
  | 0, it => (it, [])
  | fuel + 1, it =>
    if it.done then (it, [])
    else
      match iterNextG legacy it with
      | (it', some o) => let (r, os) := drainItG legacy fuel it'; (r, o :: os)
      | (it', none) => drainItG legacy fuel it'

abbrev drainIt := drainItG false

/-- Fuel that always suffices (theorem `drainIt_done`). -/
def drainFuel (it : It) : Nat := (it.payload.tag + 1 - it.st.expected) + it.st.ooo.length + 3

def processG (legacy : Bool) (st : St) (c : Confirm) : St × List Out :=
  let it := mkIt st c
  let (r, os) := drainItG legacy (drainFuel it) it
  (r.st, os)

abbrev process := processG false

/-- Take up to `k` items, then stop (the iterator is still alive). -/
def takeItG (legacy : Bool) : Nat → It → It × List Out
  | 0, it => (it, [])
  | k + 1, it =>
    match iterNextG legacy it with
    | (it', some o) => let (r, os) := takeItG legacy k it'; (r, o :: os)
    | (it', none) => (it', [])

/-- `for c in smoother.process(confirm).take(k) {}` — the iterator is dropped after `k` items. -/
def takeDropG (legacy : Bool) (k : Nat) (st : St) (c : Confirm) : St × List Out :=
  let it := mkIt st c
  let (it', os) := takeItG legacy k it
  let (r, _) := drainItG legacy (drainFuel it') it'
  (r.st, os)

abbrev takeDrop := takeDropG false

def runG (legacy : Bool) (st : St) : List Confirm → St × List (List Out)
  | [] => (st, [])
  | c :: cs =>
    let (st', os) := processG legacy st c
    let (r, oss) := runG legacy st' cs
    (r, os :: oss)

abbrev run := runG false

def new (start : Nat) : St := { expected := start, ooo := [] }

end AmqModel.Smoother
