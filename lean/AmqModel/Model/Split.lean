/-
M3 — `ChannelHandle::send_content` (src/io_loop/channel_handle.rs): a content header followed by
the body cut into body frames of at most `limit` payload bytes (`limit` = `Channel0Handle`'s
`frame_max` field = negotiated frame_max − 8), none when the body is empty.
-/
import AmqModel.Basic

namespace AmqModel.Split

/-- The `while content.len() > self.frame_max { … }` loop followed by the final non-empty piece.
    Fuel-indexed; `splitBody` supplies `body.length` (enough whenever `limit > 0`). -/
def splitBodyF : Nat → Nat → Bytes → List Bytes
  | 0, _, content => if content.isEmpty then [] else [content]
  | fuel + 1, limit, content =>
    if content.length > limit then
      content.take limit :: splitBodyF fuel limit (content.drop limit)
    else if content.isEmpty then []
    else [content]

def splitBody (limit : Nat) (body : Bytes) : List Bytes := splitBodyF body.length limit body

/-- Length on the wire of a body frame carrying `payload`: 7-byte header, payload, end marker. -/
def encodedLen (payload : Bytes) : Nat := payload.length + 8

end AmqModel.Split
