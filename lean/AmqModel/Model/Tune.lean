/-
M7 — `ConnectionOptions::make_tune_ok` (src/connection_options.rs) and the places where the
negotiated values are put to use:
  * `Channel0Handle::new(handle, frame_max)` (src/io_loop/channel_handle.rs): per-frame payload
    limit `frame_max - 8`, with `0` promoted to `usize::MAX` first;
  * `chan_slots.set_channel_max(tune_ok.channel_max)` (src/io_loop/mod.rs `thread_main`);
  * `inner.start_heartbeats(tune_ok.heartbeat)` (handshake_state.rs; timers only if `> 0`).
-/
import AmqModel.Basic

namespace AmqModel.Tune

def U16_MAX : Nat := 65535
def U32_MAX : Nat := 4294967295
def FRAME_MIN_SIZE : Nat := 4096
def FRAME_OVERHEAD : Nat := 8
def USIZE_MAX : Nat := 18446744073709551615

structure Triple where
  channelMax : Nat
  frameMax : Nat
  heartbeat : Nat
  deriving Repr, DecidableEq

inductive TuneRes where
  | ok (t : Triple)
  | frameMaxTooSmall (min requested : Nat)
  deriving Repr, DecidableEq

/-- `promote_0_u16` / `promote_0_u32` -/
def promote0 (top v : Nat) : Nat := if v = 0 then top else v

/-- `make_tune_ok(&self, tune)`: `client` = the options, `server` = the Tune frame. -/
def makeTuneOk (client server : Triple) : TuneRes :=
  let chanMax0 := promote0 U16_MAX server.channelMax
  let chanMax1 := promote0 U16_MAX client.channelMax
  let frameMax0 := promote0 U32_MAX server.frameMax
  let frameMax1 := promote0 U32_MAX client.frameMax
  let channelMax := min chanMax0 chanMax1
  let frameMax := min frameMax0 frameMax1
  let heartbeat := min server.heartbeat client.heartbeat
  if frameMax < FRAME_MIN_SIZE then .frameMaxTooSmall FRAME_MIN_SIZE frameMax
  else .ok ⟨channelMax, frameMax, heartbeat⟩

/-- `Channel0Handle::new`: the per-body-frame payload limit derived from the negotiated
    `frame_max`. -/
def payloadLimit (frameMax : Nat) : Nat :=
  (if frameMax = 0 then USIZE_MAX else frameMax) - FRAME_OVERHEAD

/-- `start_heartbeats`: timers are created only for a positive interval. -/
def heartbeatsEnabled (heartbeat : Nat) : Bool := decide (heartbeat > 0)

/-! Specification written from the property text (C15), not from the code. -/

/-- "the lower of the two sides' values, where 0 on either side means no limit and two
    unlimited sides yield the field's maximum value" -/
def negotiateLimit (top c s : Nat) : Nat :=
  if c = 0 then (if s = 0 then top else s)
  else if s = 0 then c
  else min c s

/-- "for heartbeat the lower of the two values (0, meaning disabled, if either side says 0)" -/
def negotiateHeartbeat (c s : Nat) : Nat := min c s

def specTuneOk (client server : Triple) : TuneRes :=
  if negotiateLimit U32_MAX client.frameMax server.frameMax < 4096 then
    .frameMaxTooSmall 4096 (negotiateLimit U32_MAX client.frameMax server.frameMax)
  else
    .ok ⟨negotiateLimit U16_MAX client.channelMax server.channelMax,
         negotiateLimit U32_MAX client.frameMax server.frameMax,
         negotiateHeartbeat client.heartbeat server.heartbeat⟩

end AmqModel.Tune
