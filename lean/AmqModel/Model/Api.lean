/-
M11 — the client-side API layer: src/channel.rs, src/queue.rs, src/exchange.rs, src/consumer.rs,
src/delivery.rs, src/get.rs, src/connection.rs (open_channel, listen_for_connection_blocked,
close), src/io_loop/channel_handle.rs (open_channel, close, send_content), and the calling
conventions of src/io_loop/io_loop_handle.rs (call / call_nowait / get / consume).

A public operation becomes: the frames it submits (method with its fields in wire order; header
and body frames for a publish), whether it then waits for a reply, and what it returns from the
reply.  The I/O thread is not part of this model: replies are pre-loaded (`replies`), submissions
are logged (`sent`).
-/
import AmqModel.Basic
import AmqModel.Model.Split
import AmqModel.Model.Tune

namespace AmqModel.Api

inductive AField where
  | nat (n : Nat)
  | bool (b : Bool)
  | str (bs : Bytes)          -- short / long string
  | table (bs : Bytes)        -- field table, canonical encoding
  deriving Repr, DecidableEq

/-- A frame submitted to the I/O thread. -/
inductive Out where
  | method (ch cls mid : Nat) (fields : List AField)
  | header (ch classId size : Nat) (props : Bytes)
  | body (ch : Nat) (payload : Bytes)
  deriving Repr, DecidableEq

/-- The kind of message that carries it (`IoLoopMessage`). -/
inductive Sent where
  | send (o : Out)
  | connectionClose (o : Out)
  | setReturn
  | setConfirm
  deriving Repr, DecidableEq

inductive Err where
  | frameUnexpected
  | eventLoopDropped
  | other (token : String)      -- an error pre-loaded on the reply queue (e.g. ServerClosedChannel …)
  deriving Repr, DecidableEq

/-- A pre-loaded reply (`Result<ChannelMessage>`). -/
inductive Rep where
  | method (cls mid : Nat) (fields : List AField)
  | consumeOk (tag : Bytes)
  | getNone
  | getSome                     -- payload is carried by the harness; the model only routes it
  | err (e : Err)
  deriving Repr, DecidableEq

/-- What an operation returns. -/
inductive Ret where
  | unit
  | count (n : Nat)                                   -- purge / delete
  | queue (name : Bytes) (mc cc : Option Nat)
  | exchange (name : Bytes)
  | consumer (tag : Bytes)
  | getNone
  | getSome
  | err (e : Err)
  | panic
  deriving Repr, DecidableEq

structure Chan where
  id : Nat
  replies : List Rep := []
  sent : List Sent := []
  ioAlive : Bool := true
  closed : Bool := false        -- `Channel.closed`
  limit : Nat                   -- per-body-frame payload limit (`ChannelHandle.frame_max`)
  deriving Repr

def submit (c : Chan) (s : Sent) : Chan := { c with sent := c.sent ++ [s] }

/-- `IoLoopHandle::send`: fails when the I/O-thread end is gone; the error is what is queued on
    the reply queue, else EventLoopDropped (`check_recv_for_error`). -/
def handleSend (c : Chan) (s : Sent) : Chan × Option Err :=
  if c.ioAlive then (submit c s, none)
  else match c.replies with
    | .err e :: rest => ({ c with replies := rest }, some e)
    | _ :: rest => ({ c with replies := rest }, some .frameUnexpected)
    | [] => (c, some .eventLoopDropped)

/-- `IoLoopHandle::recv` (the generators never let a live queue run empty: that would block). -/
def handleRecv (c : Chan) : Chan × Except Err Rep :=
  match c.replies with
  | .err e :: rest => ({ c with replies := rest }, .error e)
  | r :: rest => ({ c with replies := rest }, .ok r)
  | [] => (c, .error .eventLoopDropped)

/-- `call::<_, T>(method)`: submit, wait, and accept only a method reply with the expected ids. -/
def call (c : Chan) (o : Out) (cls mid : Nat) : Chan × Except Err (List AField) :=
  match handleSend c (.send o) with
  | (c1, some e) => (c1, .error e)
  | (c1, none) =>
    match handleRecv c1 with
    | (c2, .error e) => (c2, .error e)
    | (c2, .ok (.method cls' mid' fs)) =>
      if cls' = cls ∧ mid' = mid then (c2, .ok fs) else (c2, .error .frameUnexpected)
    | (c2, .ok _) => (c2, .error .frameUnexpected)

/-- `call_nowait(method)` -/
def callNowait (c : Chan) (o : Out) : Chan × Option Err := handleSend c (.send o)

def retOfUnit : Chan × Except Err (List AField) → Chan × Ret
  | (c, .ok _) => (c, .unit)
  | (c, .error e) => (c, .err e)

def retOfNowait : Chan × Option Err → Chan × Ret
  | (c, none) => (c, .unit)
  | (c, some e) => (c, .err e)

/-! ## Operations of `Channel` (and of `Queue` / `Exchange`, which forward to them) -/

structure QueueDeclareOpts where
  durable : Bool
  exclusive : Bool
  autoDelete : Bool
  args : Bytes
  deriving Repr, DecidableEq

structure ExchangeDeclareOpts where
  durable : Bool
  autoDelete : Bool
  internal : Bool
  args : Bytes
  deriving Repr, DecidableEq

def emptyTable : Bytes := [0, 0, 0, 0]

def mQueueDeclare (ch : Nat) (q : Bytes) (o : QueueDeclareOpts) (passive nowait : Bool) : Out :=
  .method ch 50 10 [.nat 0, .str q, .bool passive, .bool o.durable, .bool o.exclusive, .bool o.autoDelete,
                    .bool nowait, .table o.args]

def mExchangeDeclare (ch : Nat) (ty name : Bytes) (o : ExchangeDeclareOpts) (passive nowait : Bool) : Out :=
  .method ch 40 10 [.nat 0, .str name, .str ty, .bool passive, .bool o.durable, .bool o.autoDelete,
                    .bool o.internal, .bool nowait, .table o.args]

inductive Op where
  | qos (prefetchSize prefetchCount : Nat) (global : Bool)
  | recover (requeue : Bool)
  | publish (exchange rk : Bytes) (mandatory immediate : Bool) (props body : Bytes)
  | listenConfirms
  | listenReturns
  | confirmSelect (nowait : Bool)
  | queueDeclare (q : Bytes) (o : QueueDeclareOpts)
  | queueDeclareNowait (q : Bytes) (o : QueueDeclareOpts)
  | queueDeclarePassive (q : Bytes)
  | get (q : Bytes) (noAck : Bool)
  | consume (q : Bytes) (noLocal noAck exclusive : Bool) (args : Bytes)
  | queueBind (q e rk args : Bytes) (nowait : Bool)
  | queueUnbind (q e rk args : Bytes)
  | queuePurge (q : Bytes) (nowait : Bool)
  | queueDelete (q : Bytes) (ifUnused ifEmpty nowait : Bool)
  | exchangeDeclare (ty name : Bytes) (o : ExchangeDeclareOpts)
  | exchangeDeclareNowait (ty name : Bytes) (o : ExchangeDeclareOpts)
  | exchangeDeclarePassive (name : Bytes)
  | exchangeBind (dest src rk args : Bytes) (nowait : Bool)
  | exchangeUnbind (dest src rk args : Bytes) (nowait : Bool)
  | exchangeDelete (name : Bytes) (ifUnused nowait : Bool)
  | ackAll
  | nackAll (requeue : Bool)
  | ack (deliveryChan dtag : Nat) (multiple : Bool)            -- Delivery::ack / ack_multiple
  | nack (deliveryChan dtag : Nat) (multiple requeue : Bool)
  | reject (deliveryChan dtag : Nat) (requeue : Bool)
  | cancel (tag : Bytes)                                        -- first `Consumer::cancel`
  | close                                                       -- `Channel::close` / drop
  deriving Repr, DecidableEq

/-- `send_content`: header, then the body cut into frames of at most `limit` payload bytes. -/
def contentFrames (ch limit : Nat) (props body : Bytes) : List Out :=
  .header ch 60 body.length props :: (Split.splitBody limit body).map (.body ch)

def submitAll (c : Chan) : List Out → Chan × Option Err
  | [] => (c, none)
  | o :: os =>
    match handleSend c (.send o) with
    | (c1, some e) => (c1, some e)
    | (c1, none) => submitAll c1 os

def direct : Bytes := [100, 105, 114, 101, 99, 116]  -- "direct"

/-- One public operation on a channel handle. -/
def run (c : Chan) : Op → Chan × Ret
  | .qos ps pc g => retOfUnit (call c (.method c.id 60 10 [.nat ps, .nat pc, .bool g]) 60 11)
  | .recover r => retOfUnit (call c (.method c.id 60 110 [.bool r]) 60 111)
  | .publish ex rk m i props body =>
    match callNowait c (.method c.id 60 40 [.nat 0, .str ex, .str rk, .bool m, .bool i]) with
    | (c1, some e) => (c1, .err e)
    | (c1, none) => retOfNowait (submitAll c1 (contentFrames c.id c.limit props body))
  | .listenConfirms => retOfNowait (handleSend c .setConfirm)
  | .listenReturns => retOfNowait (handleSend c .setReturn)
  | .confirmSelect false => retOfUnit (call c (.method c.id 85 10 [.bool false]) 85 11)
  | .confirmSelect true => retOfNowait (callNowait c (.method c.id 85 10 [.bool true]))
  | .queueDeclare q o =>
    match call c (mQueueDeclare c.id q o false false) 50 11 with
    | (c1, .ok [.str name, .nat mc, .nat cc]) => (c1, .queue name (some mc) (some cc))
    | (c1, .ok _) => (c1, .err .frameUnexpected)
    | (c1, .error e) => (c1, .err e)
  | .queueDeclareNowait q o =>
    if q = [] then (c, .panic)
    else match callNowait c (mQueueDeclare c.id q o false true) with
      | (c1, none) => (c1, .queue q none none)
      | (c1, some e) => (c1, .err e)
  | .queueDeclarePassive q =>
    match call c (mQueueDeclare c.id q ⟨false, false, false, emptyTable⟩ true false) 50 11 with
    | (c1, .ok [.str name, .nat mc, .nat cc]) => (c1, .queue name (some mc) (some cc))
    | (c1, .ok _) => (c1, .err .frameUnexpected)
    | (c1, .error e) => (c1, .err e)
  | .get q noAck =>
    match handleSend c (.send (.method c.id 60 70 [.nat 0, .str q, .bool noAck])) with
    | (c1, some e) => (c1, .err e)
    | (c1, none) =>
      match handleRecv c1 with
      | (c2, .error e) => (c2, .err e)
      | (c2, .ok .getNone) => (c2, .getNone)
      | (c2, .ok .getSome) => (c2, .getSome)
      | (c2, .ok _) => (c2, .err .frameUnexpected)
  | .consume q nl na ex args =>
    match handleSend c (.send (.method c.id 60 20 [.nat 0, .str q, .str [], .bool nl, .bool na, .bool ex, .bool false, .table args])) with
    | (c1, some e) => (c1, .err e)
    | (c1, none) =>
      match handleRecv c1 with
      | (c2, .error e) => (c2, .err e)
      | (c2, .ok (.consumeOk tag)) => (c2, .consumer tag)
      | (c2, .ok _) => (c2, .err .frameUnexpected)
  | .queueBind q e rk args false => retOfUnit (call c (.method c.id 50 20 [.nat 0, .str q, .str e, .str rk, .bool false, .table args]) 50 21)
  | .queueBind q e rk args true => retOfNowait (callNowait c (.method c.id 50 20 [.nat 0, .str q, .str e, .str rk, .bool true, .table args]))
  | .queueUnbind q e rk args => retOfUnit (call c (.method c.id 50 50 [.nat 0, .str q, .str e, .str rk, .table args]) 50 51)
  | .queuePurge q false =>
    match call c (.method c.id 50 30 [.nat 0, .str q, .bool false]) 50 31 with
    | (c1, .ok [.nat n]) => (c1, .count n)
    | (c1, .ok _) => (c1, .err .frameUnexpected)
    | (c1, .error e) => (c1, .err e)
  | .queuePurge q true => retOfNowait (callNowait c (.method c.id 50 30 [.nat 0, .str q, .bool true]))
  | .queueDelete q iu ie false =>
    match call c (.method c.id 50 40 [.nat 0, .str q, .bool iu, .bool ie, .bool false]) 50 41 with
    | (c1, .ok [.nat n]) => (c1, .count n)
    | (c1, .ok _) => (c1, .err .frameUnexpected)
    | (c1, .error e) => (c1, .err e)
  | .queueDelete q iu ie true => retOfNowait (callNowait c (.method c.id 50 40 [.nat 0, .str q, .bool iu, .bool ie, .bool true]))
  | .exchangeDeclare ty name o =>
    match call c (mExchangeDeclare c.id ty name o false false) 40 11 with
    | (c1, .ok _) => (c1, .exchange name)
    | (c1, .error e) => (c1, .err e)
  | .exchangeDeclareNowait ty name o =>
    match callNowait c (mExchangeDeclare c.id ty name o false true) with
    | (c1, none) => (c1, .exchange name)
    | (c1, some e) => (c1, .err e)
  | .exchangeDeclarePassive name =>
    match call c (mExchangeDeclare c.id direct name ⟨false, false, false, emptyTable⟩ true false) 40 11 with
    | (c1, .ok _) => (c1, .exchange name)
    | (c1, .error e) => (c1, .err e)
  | .exchangeBind d s rk args false => retOfUnit (call c (.method c.id 40 30 [.nat 0, .str d, .str s, .str rk, .bool false, .table args]) 40 31)
  | .exchangeBind d s rk args true => retOfNowait (callNowait c (.method c.id 40 30 [.nat 0, .str d, .str s, .str rk, .bool true, .table args]))
  | .exchangeUnbind d s rk args false => retOfUnit (call c (.method c.id 40 40 [.nat 0, .str d, .str s, .str rk, .bool false, .table args]) 40 51)
  | .exchangeUnbind d s rk args true => retOfNowait (callNowait c (.method c.id 40 40 [.nat 0, .str d, .str s, .str rk, .bool true, .table args]))
  | .exchangeDelete name iu false => retOfUnit (call c (.method c.id 40 20 [.nat 0, .str name, .bool iu, .bool false]) 40 21)
  | .exchangeDelete name iu true => retOfNowait (callNowait c (.method c.id 40 20 [.nat 0, .str name, .bool iu, .bool true]))
  | .ackAll => retOfNowait (callNowait c (.method c.id 60 80 [.nat 0, .bool true]))
  | .nackAll r => retOfNowait (callNowait c (.method c.id 60 120 [.nat 0, .bool true, .bool r]))
  | .ack dch dtag m =>
    if dch ≠ c.id then (c, .panic) else retOfNowait (callNowait c (.method c.id 60 80 [.nat dtag, .bool m]))
  | .nack dch dtag m r =>
    if dch ≠ c.id then (c, .panic) else retOfNowait (callNowait c (.method c.id 60 120 [.nat dtag, .bool m, .bool r]))
  | .reject dch dtag r =>
    if dch ≠ c.id then (c, .panic) else retOfNowait (callNowait c (.method c.id 60 90 [.nat dtag, .bool r]))
  | .cancel tag => retOfUnit (call c (.method c.id 60 30 [.str tag, .bool false]) 60 31)
  | .close =>
    if c.closed then (c, .unit)
    else retOfUnit (call { c with closed := true } (.method c.id 20 40 [.nat 0, .str [], .nat 0, .nat 0]) 20 41)

/-- `Channel0Handle::open_channel`'s second half: Channel.Open on the new channel. -/
def openChannel (c : Chan) : Chan × Ret :=
  retOfUnit (call c (.method c.id 20 10 [.str []]) 20 11)

/-- `Connection::close` → `Channel0Handle::close_connection` -/
def goodbye : Bytes := [103, 111, 111, 100, 98, 121, 101]

def closeConnection (c : Chan) : Chan × Ret :=
  match handleSend c (.connectionClose (.method 0 10 50 [.nat 200, .str goodbye, .nat 0, .nat 0])) with
  | (c1, some e) => (c1, .err e)
  | (c1, none) =>
    match handleRecv c1 with
    | (c2, .error e) => (c2, .err e)
    | (c2, .ok (.method 10 51 _)) => (c2, .unit)
    | (c2, .ok _) => (c2, .err .frameUnexpected)

/-- How the (joined) I/O thread ended. -/
inductive IoEnd where
  | ok
  | failed (e : Err)
  | panicked
  deriving Repr, DecidableEq

/-- `Connection::close_impl`: the close call's result is kept aside, the I/O thread is joined; a
    panic or an error of the thread is what `close` reports (the root cause), else the close
    call's own result. -/
def closeImpl (c : Chan) (io : IoEnd) : Chan × Ret :=
  let (c1, r) := closeConnection c
  match io with
  | .panicked => (c1, .err (.other "IoThreadPanic"))
  | .failed e => (c1, .err e)
  | .ok => (c1, r)

/-- `Channel::new` for a channel of a connection that negotiated `frameMax`. -/
def newChan (id frameMax : Nat) : Chan := { id := id, limit := Tune.payloadLimit frameMax }

end AmqModel.Api
