/-
M12 + M13 — the I/O thread of an established connection and the queues that tie it to its
clients, as a sequential machine (every handler run of the I/O thread is atomic; client threads
touch its state only through the queues).

Transcribes: src/io_loop/connection_state.rs (`ConnectionState::process` and helpers),
src/io_loop/mod.rs (`handle_steady_event`, `handle_channel{0,}_readable`,
`process_channel_message`, `allocate_channel`, `handle_set_blocked_tx`, `write_to_stream`,
`read_from_stream`, `is_connection_done`, (de/re)register), the client halves in
src/io_loop/io_loop_handle.rs, and the readiness bookkeeping of mio-extras' channel on top of a
mio user-space registration (assumption A3, stated here as definitions).

Everything a client can observe is in the state: reply queues, consumer queues, listener queues,
bytes handed to the transport.  An error result of an I/O-thread step ends the loop: `kill`
drops every queue end the I/O thread owns.
-/
import AmqModel.Basic
import AmqModel.Model.Collector
import AmqModel.Model.Slots
import AmqModel.Model.FrameBuffer

namespace AmqModel.Conn
open AmqModel.Collector

abbrev Label := String

/-! ## Alphabets -/

inductive Err where
  | frameUnexpected
  | eventLoopClientDropped
  | eventLoopDropped
  | bogusChannel (n : Nat)
  | duplicateConsumerTag (n : Nat) (tag : Bytes)
  | unknownConsumerTag (n : Nat) (tag : Bytes)
  | unexpectedSocketClose
  | ioErrorReadingSocket
  | ioErrorWritingSocket
  | malformedFrame
  | serverClosedConnection (code : Nat) (text : Bytes)
  | serverClosedChannel (n code : Nat) (text : Bytes)
  | clientClosedConnection
  | unavailableChannelId (n : Nat)
  | exhaustedChannelIds
  | panic                      -- an `unreachable!` / `assert!` / `unwrap` of the I/O thread fired
  | hang                       -- a blocking send with no reader (the step would never return)
  | modelBadInput              -- the case file is malformed (never produced by the generators)
  deriving Repr, DecidableEq

/-- A method field the client reads or hands back (see DESIGN.md Appendix A). -/
inductive Field where
  | nat (n : Nat)
  | bool (b : Bool)
  | bytes (bs : Bytes)
  deriving Repr, DecidableEq

/-- An inbound frame as amq-protocol's parser reports it; `fields` are the method's fields the
    client reads, in wire order. -/
inductive Frame where
  | heartbeat (ch : Nat)
  | method (ch cls mid : Nat) (fields : List Field)
  | header (ch classId size : Nat) (props : Bytes)
  | body (ch : Nat) (payload : Bytes)
  deriving Repr, DecidableEq

/-- `ConsumerMessage` -/
inductive CMsg where
  | delivery (ch dtag : Nat) (redelivered : Bool) (exchange rk props body : Bytes)
  | clientCancelled
  | serverCancelled
  | clientClosedChannel
  | serverClosedChannel (n code : Nat) (text : Bytes)
  | clientClosedConnection
  | serverClosedConnection (code : Nat) (text : Bytes)
  deriving Repr, DecidableEq

/-- What a listener queue carries (`Return`, `Confirm`, `ConnectionBlockedNotification`). -/
inductive LMsg where
  | ret (code : Nat) (text exchange rk props body : Bytes)
  | confirm (ack : Bool) (dtag : Nat) (multiple : Bool)
  | blocked (reason : Bytes)
  | unblocked
  deriving Repr, DecidableEq

/-- `Result<ChannelMessage>` on a reply queue. -/
inductive Reply where
  | method (cls mid : Nat) (fields : List Field)
  | consumeOk (tag : Bytes) (qid : Nat)
  | getNone
  | getSome (ch dtag : Nat) (redelivered : Bool) (exchange rk : Bytes) (count : Nat) (props body : Bytes)
  | err (e : Err)
  deriving Repr, DecidableEq

/-- `IoLoopMessage` -/
inductive Msg where
  | send (bytes : Bytes)
  | connectionClose (bytes : Bytes)
  | setReturn (l : Option Label)
  | setConfirm (l : Option Label)
  deriving Repr, DecidableEq

inductive CSt where
  | steady
  | serverClosing (code : Nat) (text : Bytes)
  | clientException
  | clientClosed
  deriving Repr, DecidableEq

def CSt.isServerClosing : CSt → Bool
  | .serverClosing _ _ => true
  | _ => false

/-- Readiness node of a mio-extras channel receiver registered with the poll (A3). -/
structure Src where
  pending : Nat := 0        -- mio-extras `pending` (messages, +1 phantom once the last sender is gone)
  registered : Bool := false
  interest : Bool := false
  readiness : Bool := false
  queued : Bool := false
  deriving Repr, DecidableEq

/-- One client handle ↔ slot pair: the bounded FIFO towards the I/O thread and the reply queue back. -/
structure Link where
  chan : Nat
  fifo : List Msg := []
  replies : List Reply := []
  ioAlive : Bool := true
  clientAlive : Bool := true
  src : Src := {}
  deriving Repr, DecidableEq

structure Slot where
  lid : Nat
  coll : CState := .idle
  consumers : List (Bytes × Nat) := []
  retL : Option Label := none
  confL : Option Label := none
  deriving Repr, DecidableEq

structure CQ where
  msgs : List CMsg := []
  txAlive : Bool := true
  rxAlive : Bool := true
  deriving Repr, DecidableEq

structure LQ where
  msgs : List LMsg := []
  rxAlive : Bool := true
  deriving Repr, DecidableEq

inductive WriteStep where
  | accept (k : Nat)
  | wouldBlock
  | err
  deriving Repr, DecidableEq

/-- Frame table entry: bytes ↦ parsed frame (none = `parse_frame` rejects it) and the two `Debug`
    renderings the client-exception texts are built from (assumption A1). -/
structure Decl where
  bytes : Bytes
  frame : Option Frame
  dbgClass : Bytes
  dbgFrame : Bytes
  deriving Repr, DecidableEq

structure Conn where
  dead : Bool := false
  nondet : Bool := false       -- an order-dependent (HashMap iteration) outcome was met
  st : CSt := .steady
  blockedL : Option Label := none
  slots : List (Nat × Slot) := []
  alloc : Slots.Slots
  out : Bytes := []
  sealed : Bool := false
  registered : Bool := true    -- `channels_are_registered`
  bound : Nat
  links : List (Nat × Link)
  nextLid : Nat := 1
  cqs : List (Nat × CQ) := []
  nextQid : Nat := 0
  lqs : List (Label × LQ) := []
  handles : List (Label × Nat)
  consLabels : List (Label × Nat) := []
  allocReq : List (Option Nat) := []
  allocSrc : Src := { registered := true, interest := true }
  allocRep : List (Except Err Nat) := []
  blockedFifo : List Label := []
  blockedSrc : Src := { registered := true, interest := true }
  fb : Bytes := []
  reads : List FrameBuffer.ReadEv := []
  writes : List WriteStep := []
  table : List Decl := []
  legacy : Bool := false
  deriving Repr

def init (channelMax bound : Nat) (legacy : Bool := false) : Conn :=
  { alloc := Slots.new channelMax, bound := bound,
    links := [(0, { chan := 0, src := { registered := true, interest := true } })],
    handles := [("0", 0)], legacy := legacy }

/-! ## Small map helpers (association lists keyed by `Nat` or `String`) -/

def lookupN {α} (k : Nat) : List (Nat × α) → Option α
  | [] => none
  | (k', v) :: r => if k' = k then some v else lookupN k r

def setN {α} (k : Nat) (v : α) : List (Nat × α) → List (Nat × α)
  | [] => [(k, v)]
  | (k', v') :: r => if k' = k then (k, v) :: r else (k', v') :: setN k v r

def eraseN {α} (k : Nat) : List (Nat × α) → List (Nat × α)
  | [] => []
  | (k', v') :: r => if k' = k then eraseN k r else (k', v') :: eraseN k r

def lookupS {α} (k : String) : List (String × α) → Option α
  | [] => none
  | (k', v) :: r => if k' = k then some v else lookupS k r

def setS {α} (k : String) (v : α) : List (String × α) → List (String × α)
  | [] => [(k, v)]
  | (k', v') :: r => if k' = k then (k, v) :: r else (k', v') :: setS k v r

def eraseS {α} (k : String) : List (String × α) → List (String × α)
  | [] => []
  | (k', v') :: r => if k' = k then eraseS k r else (k', v') :: eraseS k r

def lookupB {α} (k : Bytes) : List (Bytes × α) → Option α
  | [] => none
  | (k', v) :: r => if k' = k then some v else lookupB k r

def eraseB {α} (k : Bytes) : List (Bytes × α) → List (Bytes × α)
  | [] => []
  | (k', v') :: r => if k' = k then eraseB k r else (k', v') :: eraseB k r

/-- Insert keeping keys ascending (only used so that iteration order is deterministic). -/
def insertSorted {α} (k : Nat) (v : α) : List (Nat × α) → List (Nat × α)
  | [] => [(k, v)]
  | (k', v') :: r => if k < k' then (k, v) :: (k', v') :: r
                     else if k = k' then (k, v) :: r
                     else (k', v') :: insertSorted k v r

/-! ## Encoders for the frames the I/O thread itself produces -/

def be16 (n : Nat) : Bytes := [n / 256 % 256, n % 256]
def be32 (n : Nat) : Bytes := [n / 16777216 % 256, n / 65536 % 256, n / 256 % 256, n % 256]

def encMethod (ch cls mid : Nat) (args : Bytes) : Bytes :=
  [1] ++ be16 ch ++ be32 (4 + args.length) ++ be16 cls ++ be16 mid ++ args ++ [206]

def encShortStr (s : Bytes) : Bytes := (s.length % 256) :: s

def heartbeatFrame : Bytes := [8, 0, 0, 0, 0, 0, 0, 206]
def connectionCloseOk : Bytes := encMethod 0 10 51 []
def channelCloseOk (n : Nat) : Bytes := encMethod n 20 41 []
def basicCancelOk (n : Nat) (tag : Bytes) : Bytes := encMethod n 60 31 (encShortStr tag)
def connectionClose (code : Nat) (text : Bytes) : Bytes :=
  encMethod 0 10 50 (be16 code ++ encShortStr text ++ be16 0 ++ be16 0)

/-- Cut a UTF-8 string to at most `n` bytes without splitting a character. -/
def truncUtf8 (n : Nat) (s : Bytes) : Bytes :=
  if s.length ≤ n then s
  else
    let rec back : Nat → Nat
      | 0 => 0
      | k + 1 => if (s.getD (k + 1) 0) / 64 = 2 then back k else k + 1
    s.take (back n)

def asciiBytes (s : String) : Bytes := s.toList.map Char.toNat

def natAscii (n : Nat) : Bytes := asciiBytes (toString n)

/-! ## Output buffer (`SealableOutputBuffer`) -/

def pushOut (c : Conn) (bytes : Bytes) : Conn :=
  if c.sealed then c else { c with out := c.out ++ bytes }

def sealOut (c : Conn) : Conn := { c with sealed := true }

/-! ## Readiness bookkeeping (mio-extras channel over a mio user-space registration) -/

/-- `SenderCtl::inc` after a successful send (or when the last sender is dropped). -/
def Src.inc (s : Src) : Src :=
  let s1 := { s with pending := s.pending + 1 }
  if s.pending = 0 ∧ s.registered then
    { s1 with readiness := true, queued := s1.queued || s1.interest }
  else s1

/-- `ReceiverCtl::dec` after a successful `try_recv`. -/
def Src.dec (s : Src) : Src :=
  let s1 := if s.pending = 1 ∧ s.registered then { s with readiness := false } else s
  { s1 with pending := s1.pending - 1 }

/-- `Evented::register` (first registration; readable interest, edge). -/
def Src.register (s : Src) : Src :=
  let r := decide (s.pending > 0)
  { s with registered := true, interest := true, readiness := r, queued := r }

def Src.reregister (s : Src) : Src :=
  { s with interest := true, queued := s.queued || s.readiness }

def Src.deregister (s : Src) : Src := { s with interest := false }

/-- One `Poll::poll`: is an event produced for this source?  The node is dequeued either way. -/
def Src.pollOne (s : Src) : Src × Bool :=
  ({ s with queued := false }, s.queued && s.readiness && s.interest)

/-! ## Queue primitives -/

def getLink (c : Conn) (lid : Nat) : Link := (lookupN lid c.links).getD { chan := 0, ioAlive := false, clientAlive := false }

def setLink (c : Conn) (lid : Nat) (l : Link) : Conn := { c with links := setN lid l c.links }

/-- `send(&slot.tx, item)`: `try_send` on the bounded(2) reply queue. -/
def sendReply (c : Conn) (lid : Nat) (r : Reply) : Conn × Option Err :=
  let l := getLink c lid
  if !l.clientAlive then (c, some .eventLoopClientDropped)
  else if l.replies.length ≥ 2 then (c, some .frameUnexpected)
  else (setLink c lid { l with replies := l.replies ++ [r] }, none)

/-- `send(&tx, msg)` to a consumer queue (unbounded): fails only if the receiver is gone. -/
def sendCons (c : Conn) (qid : Nat) (m : CMsg) : Conn × Option Err :=
  match lookupN qid c.cqs with
  | some q =>
    if !q.rxAlive then (c, some .eventLoopClientDropped)
    else ({ c with cqs := setN qid { q with msgs := q.msgs ++ [m] } c.cqs }, none)
  | none => (c, some .modelBadInput)

def dropConsTx (c : Conn) (qid : Nat) : Conn :=
  match lookupN qid c.cqs with
  | some q => { c with cqs := setN qid { q with txAlive := false } c.cqs }
  | none => c

/-- `try_send` on a listener queue: `true` iff delivered (receiver alive). -/
def sendLst (c : Conn) (l : Label) (m : LMsg) : Conn × Bool :=
  match lookupS l c.lqs with
  | some q =>
    if q.rxAlive then ({ c with lqs := setS l { q with msgs := q.msgs ++ [m] } c.lqs }, true)
    else (c, false)
  | none => (c, false)

/-- Dropping a reply that was never received drops what it carries (a consumer receiver). -/
def dropReply (c : Conn) : Reply → Conn
  | .consumeOk _ qid =>
    match lookupN qid c.cqs with
    | some q => { c with cqs := setN qid { q with rxAlive := false } c.cqs }
    | none => c
  | _ => c

/-- The I/O thread lets go of a slot: its FIFO receiver, reply sender, consumer senders and
    listener senders are dropped. -/
def dropSlotEnds (c : Conn) (s : Slot) : Conn :=
  let l := getLink c s.lid
  let c1 := setLink c s.lid { l with ioAlive := false, fifo := [] }
  s.consumers.foldl (fun acc (_, qid) => dropConsTx acc qid) c1

/-- Send a terminal message to every consumer of a slot, dropping each sender after its message
    (`for (_, tx) in slot.consumers.drain() { send(&tx, msg)?; }`). -/
def notifyConsumers (msg : CMsg) (c : Conn) : List (Bytes × Nat) → Conn × Option Err
  | [] => (c, none)
  | (_, qid) :: more =>
    match sendCons c qid msg with
    | (c2, some e) => (c2, some e)
    | (c2, none) => notifyConsumers msg (dropConsTx c2 qid) more

/-! ## `ConnectionState::process` -/

def slotGet (c : Conn) (n : Nat) : Except Err Slot :=
  match lookupN n c.slots with
  | some s => .ok s
  | none => .error (.bogusChannel n)

def setSlot (c : Conn) (n : Nat) (s : Slot) : Conn := { c with slots := setN n s c.slots }

/-- `chan_slots.remove(n)`: the slot leaves the table and the id goes to the freed set. -/
def removeSlot (c : Conn) (n : Nat) : Conn :=
  { c with slots := eraseN n c.slots, alloc := (Slots.remove c.alloc n).1 }

/-- `client_exception`: push Connection.Close(code, text), seal, state := ClientException. -/
def clientException (c : Conn) (code : Nat) (text : Bytes) : Conn :=
  let text' := if c.legacy then text else truncUtf8 255 text
  let c1 := pushOut c (connectionClose code text')
  { (sealOut c1) with st := .clientException }

/-- Notify every slot of a connection close and drop them all (`chan_slots.drain()` loop).
    Iteration follows ascending ids here; the real order is `HashMap` order, which matters only
    when a send fails part-way (flagged `nondet`). -/
def drainSlots (c : Conn) (replyOf : Reply) (consOf : CMsg) : Conn × Option Err :=
  let all := c.slots
  let c0 := { c with slots := [], alloc := (Slots.drain c.alloc).1 }
  let rec go (c : Conn) : List (Nat × Slot) → Conn × Option Err
    | [] => (c, none)
    | (_, s) :: rest =>
      let fail (c : Conn) (e : Err) : Conn × Option Err :=
        -- the drain iterator is dropped: every remaining slot is dropped unnotified
        let c' := (s :: rest.map (·.2)).foldl dropSlotEnds c
        ({ c' with nondet := c'.nondet || decide (all.length > 1) }, some e)
      -- (consumers first, then the channel's caller: fix D15)
      match notifyConsumers consOf c s.consumers with
      | (c1, some e) =>
        let c3 := (s :: rest.map (·.2)).foldl dropSlotEnds c1
        ({ c3 with nondet := c3.nondet || decide (all.length > 1 || s.consumers.length > 1) }, some e)
      | (c1, none) =>
        match sendReply c1 s.lid replyOf with
        | (c2, some e) => fail c2 e
        | (c2, none) => go (dropSlotEnds c2 s) rest
  go c0 all

/-- Deliver a completed content message (`CollectorResult`). -/
def dispatchContent (c : Conn) (n : Nat) (slot : Slot) (ct : Content) : Conn × Option Err :=
  match ct.kind with
  | .deliver tag dtag red ex rk =>
    match lookupB tag slot.consumers with
    | none => (c, some (.unknownConsumerTag n tag))
    | some qid => sendCons c qid (.delivery n dtag red ex rk ct.props ct.body)
  | .ret code text ex rk =>
    match slot.retL with
    | none => (c, none)
    | some l =>
      match sendLst c l (.ret code text ex rk ct.props ct.body) with
      | (c1, true) => (c1, none)
      | (c1, false) => (setSlot c1 n { slot with retL := none }, none)
  | .get dtag red ex rk count =>
    sendReply c slot.lid (.getSome n dtag red ex rk count ct.props ct.body)

def afterCollect (c : Conn) (n : Nat) (slot : Slot) (r : Res) : Conn × Option Err :=
  let slot' := { slot with coll := r.state }
  let c1 := setSlot c n slot'
  match r with
  | .more _ => (c1, none)
  | .unexpected => (c1, some .frameUnexpected)
  | .done ct => dispatchContent c1 n slot' ct

def trySendConfirm (c : Conn) (n : Nat) (slot : Slot) (m : LMsg) : Conn :=
  match slot.confL with
  | none => c
  | some l =>
    match sendLst c l m with
    | (c1, true) => c1
    | (c1, false) => setSlot c1 n { slot with confL := none }

def trySendBlocked (c : Conn) (m : LMsg) : Conn :=
  match c.blockedL with
  | none => c
  | some l =>
    match sendLst c l m with
    | (c1, true) => c1
    | (c1, false) => { c1 with blockedL := none }

def isGenericReply (cls mid : Nat) : Bool :=
  (cls, mid) ∈ [(60, 11), (60, 111), (20, 11), (85, 11), (40, 11), (40, 21), (40, 31), (40, 51),
                (50, 11), (50, 41), (50, 21), (50, 31), (50, 51)]

def isNotImplemented (cls mid : Nat) : Bool :=
  cls = 30 || cls = 90 || (cls, mid) ∈ [(20, 20), (20, 21)]

def isNotAllowed (cls mid : Nat) : Bool :=
  cls = 10 ||
  (cls, mid) ∈ [(60, 10), (60, 20), (60, 70), (60, 40), (60, 110), (60, 100), (60, 90), (20, 10),
                (85, 10), (40, 10), (40, 20), (40, 30), (40, 40), (50, 10), (50, 40), (50, 20),
                (50, 30), (50, 50)]

/-- `process` on a method frame for channel `n ≠ 0`. -/
def processChannelMethod (c : Conn) (n cls mid : Nat) (fields : List Field) (dbgClass : Bytes) :
    Conn × Option Err :=
  let withSlot (k : Slot → Conn × Option Err) : Conn × Option Err :=
    match slotGet c n with
    | .ok s => k s
    | .error e => (c, some e)
  match cls, mid, fields with
  -- server-initiated channel close
  | 20, 40, [.nat code, .bytes text] =>
      withSlot fun slot =>
        let c1 := removeSlot c n
        -- (consumers first, then the channel's caller: fix D15)
        match notifyConsumers (.serverClosedChannel n code text) c1 slot.consumers with
        | (c2, some e) =>
          let c4 := dropSlotEnds c2 slot
          ({ c4 with nondet := c4.nondet || decide (slot.consumers.length > 1) }, some e)
        | (c2, none) =>
          match sendReply c2 slot.lid (.err (.serverClosedChannel n code text)) with
          | (c3, some e) => (dropSlotEnds c3 slot, some e)
          | (c3, none) => (dropSlotEnds (pushOut c3 (channelCloseOk n)) slot, none)
  -- server ack for a client-initiated channel close
  | 20, 41, _ =>
    match lookupN n c.slots with
    | none => (c, none)
    | some slot =>
      let c1 := removeSlot c n
      match sendReply c1 slot.lid (.method 20 41 []) with
      | (c2, some e) => (dropSlotEnds c2 slot, some e)
      | (c2, none) =>
        match notifyConsumers .clientClosedChannel c2 slot.consumers with
        | (c3, some e) =>
          let c4 := dropSlotEnds c3 slot
          ({ c4 with nondet := c4.nondet || decide (slot.consumers.length > 1) }, some e)
        | (c3, none) => (dropSlotEnds c3 slot, none)
  -- consume-ok
  | 60, 21, [.bytes tag] =>
      withSlot fun slot =>
        match lookupB tag slot.consumers with
        | some _ => (c, some (.duplicateConsumerTag n tag))
        | none =>
          let qid := c.nextQid
          let c1 := { c with cqs := c.cqs ++ [(qid, {})], nextQid := qid + 1 }
          let c2 := setSlot c1 n { slot with consumers := slot.consumers ++ [(tag, qid)] }
          match sendReply c2 slot.lid (.consumeOk tag qid) with
          | (c3, some e) =>
            -- the reply (and the receiver inside it) is dropped
            (dropReply c3 (.consumeOk tag qid), some e)
          | (c3, none) => (c3, none)
  -- server-initiated cancel
  | 60, 30, [.bytes tag, .bool nowait] =>
      withSlot fun slot =>
        let r : Conn × Option Err :=
          match lookupB tag slot.consumers with
          | some qid =>
            let c1 := setSlot c n { slot with consumers := eraseB tag slot.consumers }
            match sendCons c1 qid .serverCancelled with
            | (c2, some e) => (dropConsTx c2 qid, some e)
            | (c2, none) => (dropConsTx c2 qid, none)
          | none => (c, none)
        match r with
        | (c2, some e) => (c2, some e)
        | (c2, none) => (if nowait then c2 else pushOut c2 (basicCancelOk n tag), none)
  -- cancel-ok
  | 60, 31, [.bytes tag] =>
      withSlot fun slot =>
        let consumer := lookupB tag slot.consumers
        let c1 := setSlot c n { slot with consumers := eraseB tag slot.consumers }
        -- (the consumer first, then the caller of the cancel: fix D15)
        let r : Conn × Option Err :=
          match consumer with
          | some qid =>
            match sendCons c1 qid .clientCancelled with
            | (c2, some e) => (dropConsTx c2 qid, some e)
            | (c2, none) => (dropConsTx c2 qid, none)
          | none => (c1, none)
        match r with
        | (c2, some e) => (c2, some e)
        | (c2, none) => sendReply c2 slot.lid (.method 60 31 [.bytes tag])
  -- deliver / return / get-ok open a content message
  | 60, 60, [.bytes tag, .nat dtag, .bool red, .bytes ex, .bytes rk] =>
      withSlot fun slot => afterCollect c n slot (collectMethod slot.coll (.deliver tag dtag red ex rk))
  | 60, 50, [.nat code, .bytes text, .bytes ex, .bytes rk] =>
      withSlot fun slot => afterCollect c n slot (collectMethod slot.coll (.ret code text ex rk))
  | 60, 71, [.nat dtag, .bool red, .bytes ex, .bytes rk, .nat count] =>
      withSlot fun slot => afterCollect c n slot (collectMethod slot.coll (.get dtag red ex rk count))
  -- get-empty
  | 60, 72, _ => withSlot fun slot => sendReply c slot.lid .getNone
  -- publisher confirms
  | 60, 80, [.nat dtag, .bool mult] =>
      withSlot fun slot => (trySendConfirm c n slot (.confirm true dtag mult), none)
  | 60, 120, [.nat dtag, .bool mult] =>
      withSlot fun slot => (trySendConfirm c n slot (.confirm false dtag mult), none)
  | _, _, _ =>
    if isGenericReply cls mid then
      withSlot fun slot => sendReply c slot.lid (.method cls mid fields)
    else if isNotImplemented cls mid then
      (clientException c 540 (asciiBytes "do not know how to handle channel " ++ natAscii n ++
        asciiBytes " method " ++ dbgClass), none)
    else if isNotAllowed cls mid then
      (clientException c 530 (asciiBytes "illegal channel " ++ natAscii n ++ asciiBytes " method " ++ dbgClass), none)
    else (c, some .modelBadInput)

/-- `ConnectionState::process(inner, frame)`.  `dbgClass` / `dbgFrame` are the `Debug` renderings
    of the method / of the whole frame (only used in client-exception texts). -/
def process (c : Conn) (f : Frame) (dbgClass dbgFrame : Bytes) : Conn × Option Err :=
  match c.st with
  | .clientException => (c, none)
  | .serverClosing _ _ | .clientClosed =>
    if c.legacy then (c, some .frameUnexpected) else (c, none)
  | .steady =>
    match f with
    | .heartbeat 0 => (c, none)
    | .heartbeat _ => (c, some .frameUnexpected)
    | .method 0 10 50 [.nat code, .bytes text] =>
        let c1 := sealOut (pushOut c connectionCloseOk)
        let c2 := { c1 with st := .serverClosing code text }
        -- the channel-0 slot (owned by the old state value) is dropped
        let c3 := setLink c2 0 { (getLink c2 0) with ioAlive := false, fifo := [] }
        let c4 := { c3 with blockedL := none, allocReq := [], blockedFifo := [] }
        drainSlots c4 (.err (.serverClosedConnection code text)) (.serverClosedConnection code text)
    | .method 0 10 51 _ =>
      -- blocking `send` on the channel-0 reply queue
      let l := getLink c 0
      if !l.clientAlive then (c, some .eventLoopClientDropped)
      else if l.replies.length ≥ 2 then (c, some .hang)
      else
        let c1 := setLink c 0 { l with replies := l.replies ++ [.method 10 51 []] }
        let c2 := { c1 with st := .clientClosed }
        let c3 := setLink c2 0 { (getLink c2 0) with ioAlive := false, fifo := [] }
        let c4 := { c3 with blockedL := none, allocReq := [], blockedFifo := [] }
        drainSlots c4 (.err .clientClosedConnection) .clientClosedConnection
    | .method 0 10 60 [.bytes reason] => (trySendBlocked c (.blocked reason), none)
    | .method 0 10 61 _ => (trySendBlocked c .unblocked, none)
    | .method 0 _ _ _ =>
      let c1 := clientException c 540 (asciiBytes "do not know how to handle channel 0 method " ++ dbgClass)
      (dropCh0 c1, none)
    | .header 0 _ _ _ | .body 0 _ =>
      let c1 := clientException c 530 (asciiBytes "received illegal channel 0 frame " ++ dbgFrame)
      (dropCh0 c1, none)
    | .method n cls mid fields =>
      match processChannelMethod c n cls mid fields dbgClass with
      | (c1, e) => (if c1.st = .clientException then dropCh0 c1 else c1, e)
    | .header n _ size props =>
      match slotGet c n with
      | .error e => (c, some e)
      | .ok slot => afterCollect c n slot (collectHeader slot.coll size props)
    | .body n payload =>
      match slotGet c n with
      | .error e => (c, some e)
      | .ok slot => afterCollect c n slot (collectBody slot.coll payload)
where
  /-- `*self = ConnectionState::ClientException` drops the old `Steady(ch0_slot)` value. -/
  dropCh0 (c : Conn) : Conn :=
    let c1 := setLink c 0 { (getLink c 0) with ioAlive := false, fifo := [] }
    { c1 with blockedL := none, allocReq := [], blockedFifo := [] }

/-! ## Events of the I/O thread -/

/-- `process_channel_message` for everything but the close request's preamble (below). -/
def processPlainMessage (c : Conn) (n : Nat) (m : Msg) : Conn × Option Err :=
  match m with
  | .connectionClose buf => (sealOut (pushOut c buf), none)
  | .send buf => (pushOut c buf, none)
  | .setReturn h =>
    if n = 0 then (c, some .panic)
    else match lookupN n c.slots with
      | some slot => (setSlot c n { slot with retL := h }, none)
      | none => (c, some .panic)
  | .setConfirm h =>
    if n = 0 then (c, some .panic)
    else match lookupN n c.slots with
      | some slot => (setSlot c n { slot with confL := h }, none)
      | none => (c, some .panic)

/-- Pop one message of a link's FIFO (`try_recv` + `dec`). -/
def popFifo (c : Conn) (lid : Nat) : Option (Msg × Conn) :=
  let l := getLink c lid
  match l.fifo with
  | [] => none
  | m :: rest => some (m, setLink c lid { l with fifo := rest, src := l.src.dec })

/-- Take everything that is queued on channel `n` right now (`while let Some(Ok(message)) = ...`):
    stops quietly at an empty queue, a vanished client or a vanished slot. -/
def takeQueued : Nat → Conn → Nat → Conn × Option Err
  | 0, c, _ => (c, some .hang)
  | fuel + 1, c, n =>
    match lookupN n c.slots with
    | none => (c, none)
    | some slot =>
      match popFifo c slot.lid with
      | none => (c, none)
      | some (m, c1) =>
        match processPlainMessage c1 n m with
        | (c2, some e) => (c2, some e)
        | (c2, none) => takeQueued fuel c2 n

/-- … for every open channel, in ascending order of the ids (fix D17: what the channels submitted
    before `Connection::close` was called goes out before the Close, also when their queues are not
    being polled). -/
def takeAllQueued (c : Conn) : List Nat → Conn × Option Err
  | [] => (c, none)
  | n :: more =>
    let fuel := (match lookupN n c.slots with | some slot => (getLink c slot.lid).fifo.length | none => 0) + 1
    match takeQueued fuel c n with
    | (c1, some e) => (c1, some e)
    | (c1, none) => takeAllQueued c1 more

/-- `process_channel_message` -/
def processChannelMessage (c : Conn) (n : Nat) (m : Msg) : Conn × Option Err :=
  match m with
  | .connectionClose buf =>
    match takeAllQueued c ((c.slots.map (·.1)).mergeSort (· ≤ ·)) with
    | (c1, some e) => (c1, some e)
    | (c1, none) => (sealOut (pushOut c1 buf), none)
  | other => processPlainMessage c n other

/-- `handle_channel_readable(n)` / `handle_channel0_readable`: drain the FIFO until empty. -/
def drainFifo : Nat → Conn → Nat → Conn × Option Err
  | 0, c, _ => (c, some .hang)
  | fuel + 1, c, n =>
    let lid? : Option Nat := if n = 0 then some 0 else (lookupN n c.slots).map (·.lid)
    match lid? with
    | none => (c, none)                       -- stale wake-up for a dropped channel
    | some lid =>
      match popFifo c lid with
      | some (m, c1) =>
        match processChannelMessage c1 n m with
        | (c2, some e) => (c2, some e)
        | (c2, none) => drainFifo fuel c2 n
      | none => if (getLink c lid).clientAlive then (c, none) else (c, some .eventLoopClientDropped)

def ch0Alive (c : Conn) : Bool := (lookupS "0" c.handles).isSome

/-- `allocate_channel` -/
def allocateLoop : Nat → Conn → Conn × Option Err
  | 0, c => (c, some .hang)
  | fuel + 1, c =>
    match c.allocReq with
    | [] => if ch0Alive c then (c, none) else (c, some .eventLoopClientDropped)
    | req :: rest =>
      let c1 := { c with allocReq := rest, allocSrc := c.allocSrc.dec }
      let (alloc', res) := match req with
        | some id => Slots.insertSome c1.alloc id
        | none => Slots.insertNone c1.alloc
      let c2 := { c1 with alloc := alloc' }
      match res with
      | .panic => (c2, some .panic)
      | .ok id =>
        let lid := c2.nextLid
        let src0 : Src := ({} : Src).register
        let src := if c2.registered then src0 else src0.deregister
        let c3 := { c2 with nextLid := lid + 1, links := c2.links ++ [(lid, { chan := id, src := src })],
                            slots := insertSorted id { lid := lid } c2.slots }
        -- blocking send of the handle on the bounded(1) reply queue
        if !ch0Alive c3 then
          -- send failed: clear the allocated channel; the handle is dropped
          let c4 := removeSlot c3 id
          let l := getLink c4 lid
          allocateLoop fuel (setLink c4 lid { l with ioAlive := false, clientAlive := false })
        else if c3.allocRep.length ≥ 1 then (c3, some .hang)
        else allocateLoop fuel { c3 with allocRep := c3.allocRep ++ [.ok lid] }
      | other =>
        let e : Err := match other with
          | .unavailable id => .unavailableChannelId id
          | _ => .exhaustedChannelIds
        if !ch0Alive c2 then allocateLoop fuel c2
        else if c2.allocRep.length ≥ 1 then (c2, some .hang)
        else allocateLoop fuel { c2 with allocRep := c2.allocRep ++ [.error e] }

/-- `handle_set_blocked_tx` -/
def setBlockedLoop : Nat → Conn → Conn × Option Err
  | 0, c => (c, some .hang)
  | fuel + 1, c =>
    match c.blockedFifo with
    | [] => if ch0Alive c then (c, none) else (c, some .eventLoopClientDropped)
    | l :: rest =>
      setBlockedLoop fuel { c with blockedFifo := rest, blockedSrc := c.blockedSrc.dec, blockedL := some l }

/-- `Inner::write_to_stream` against the scripted transport; returns the bytes the transport took. -/
def writeLoop : Nat → Conn → Nat → Bytes → Conn × Bytes × Option Err
  | 0, c, _, w => (c, w, some .hang)
  | fuel + 1, c, pos, w =>
    if pos < c.out.length then
      match c.writes with
      | [] => ({ c with out := c.out.drop pos }, w, none)
      | .wouldBlock :: rest => ({ c with out := c.out.drop pos, writes := rest }, w, none)
      | .err :: rest => ({ c with writes := rest }, w, some .ioErrorWritingSocket)
      | .accept k :: rest =>
        let n := min k (c.out.length - pos)
        writeLoop fuel { c with writes := rest } (pos + n) (w ++ (c.out.drop pos).take n)
    else ({ c with out := [] }, w, none)

def writeToStream (c : Conn) : Conn × Bytes × Option Err :=
  writeLoop (c.out.length + c.writes.length + 2) c 0 []

def declOf (c : Conn) (bytes : Bytes) : Option Decl := c.table.find? (·.bytes == bytes)

def processBytes (c : Conn) (bytes : Bytes) : Conn × Option Err :=
  match declOf c bytes with
  | some d =>
    match d.frame with
    | some f => process c f d.dbgClass d.dbgFrame
    | none => (c, some .malformedFrame)
  | none => (c, some .modelBadInput)

/-- `read_from_stream`: the frame buffer runs against the scripted transport, every frame goes
    through `process`; the first error (handler or transport) ends the call. -/
def readFromStream (c : Conn) : Conn × Option Err :=
  let parse := fun bs => match declOf c bs with
    | some d => d.frame.isSome
    | none => false
  let r := FrameBuffer.readFrom parse none c.fb c.reads 0
  let c0 := { c with fb := r.buf, reads := r.script }
  let rec go (c : Conn) : List Bytes → Conn × Option Err
    | [] => (c, none)
    | fr :: rest =>
      match processBytes c fr with
      | (c1, some e) => (c1, some e)
      | (c1, none) => go c1 rest
  match go c0 r.frames with
  | (c1, some e) => (c1, some e)
  | (c1, none) =>
    match r.res with
    | .ok _ => (c1, none)
    | .unexpectedSocketClose => (c1, some .unexpectedSocketClose)
    | .ioErrorReadingSocket => (c1, some .ioErrorReadingSocket)
    | .malformedFrame => (c1, some .malformedFrame)
    | .handlerErr => (c1, some .modelBadInput)

inductive Token where
  | stream (readable writable : Bool)
  | heartbeat
  | setBlocked
  | alloc
  | chan (n : Nat)
  deriving Repr, DecidableEq

/-- `handle_steady_event`; the transport's bytes taken by a write are returned for observation. -/
def handleEvent (c : Conn) (t : Token) : Conn × Bytes × Option Err :=
  match t with
  | .stream r w =>
    let (c1, wrote, e1) := if w then writeToStream c else (c, [], none)
    match e1 with
    | some e => (c1, wrote, some e)
    | none =>
      if r then
        let (c2, e2) := readFromStream c1
        -- once the server has confirmed the client's close, a failing read is no longer an
        -- error (the server is free to hang up right away); nor once the server's own close has
        -- been processed (fix D19: a hang-up behind it does not replace the server's reason)
        -- (after the server's close only what the socket itself does is forgiven - the end of the
        --  stream, a read error, bytes that do not parse -, not an error raised while that close was being processed)
        if !c2.legacy && (c2.st = .clientClosed ||
            (c2.st.isServerClosing && (e2 = some .unexpectedSocketClose || e2 = some .ioErrorReadingSocket || e2 = some .malformedFrame)))
        then (c2, wrote, none) else (c2, wrote, e2)
      else (c1, wrote, none)
  | .heartbeat => (c, [], none)     -- no timers are started in this machine (see M9 / C17)
  | .setBlocked =>
    match c.st with
    | .steady => let (c1, e) := setBlockedLoop (c.blockedFifo.length + 1) c; (c1, [], e)
    | _ => if c.legacy then (c, [], some .panic) else (c, [], none)
  | .alloc =>
    match c.st with
    | .steady => let (c1, e) := allocateLoop (c.allocReq.length + 1) c; (c1, [], e)
    | _ => if c.legacy then (c, [], some .panic) else (c, [], none)
  | .chan 0 =>
    match c.st with
    | .steady => let (c1, e) := drainFifo ((getLink c 0).fifo.length + 1) c 0; (c1, [], e)
    | _ => if c.legacy then (c, [], some .panic) else (c, [], none)
  | .chan n =>
    let fuel := match lookupN n c.slots with
      | some s => (getLink c s.lid).fifo.length + 1
      | none => 1
    let (c1, e) := drainFifo fuel c n; (c1, [], e)

/-- `is_connection_done` (`none` = the `assert!` fires). -/
def isDone (c : Conn) : Option Bool :=
  match c.st with
  | .steady => some false
  | .clientClosed => some true
  | _ => if c.sealed then some c.out.isEmpty else none

/-- `deregister_nonzero_channels` / `reregister_nonzero_channels` -/
def deregisterAll (c : Conn) : Conn :=
  let c1 := c.slots.foldl (fun acc (_, s) =>
    let l := getLink acc s.lid; setLink acc s.lid { l with src := l.src.deregister }) c
  { c1 with registered := false }

def reregisterAll (c : Conn) : Conn :=
  let c1 := c.slots.foldl (fun acc (_, s) =>
    let l := getLink acc s.lid; setLink acc s.lid { l with src := l.src.reregister }) c
  { c1 with registered := true }

/-- The I/O loop ends (error, or done): every queue end it owns is dropped. -/
def kill (c : Conn) : Conn :=
  let c1 := c.slots.foldl (fun acc (_, s) => dropSlotEnds acc s) c
  let c2 := setLink c1 0 { (getLink c1 0) with ioAlive := false, fifo := [] }
  { c2 with dead := true, slots := [], blockedL := none, allocReq := [], blockedFifo := [] }

/-- One `Poll::poll` with a zero timeout: the tokens for which an event is produced. -/
inductive PTok where
  | chan (n : Nat)
  | alloc
  | setBlocked
  deriving Repr, DecidableEq

def pollAll (c : Conn) : Conn × List PTok :=
  -- channel 0 and the non-zero channels that still have a slot (a dropped receiver yields nothing)
  let ch0 : List (Nat × Nat) := if (getLink c 0).ioAlive then [(0, 0)] else []
  let srcs := ch0 ++ c.slots.map (fun (n, s) => (n, s.lid))
  let (c1, toks) := srcs.foldl (fun (acc : Conn × List PTok) (n, lid) =>
    let l := getLink acc.1 lid
    let (s', ev) := l.src.pollOne
    (setLink acc.1 lid { l with src := s' }, if ev then acc.2 ++ [.chan n] else acc.2)) (c, [])
  let ch0io := (getLink c1 0).ioAlive
  let (sa, ea) := c1.allocSrc.pollOne
  let (sb, eb) := c1.blockedSrc.pollOne
  let c2 := { c1 with allocSrc := sa, blockedSrc := sb }
  (c2, toks ++ (if ea && ch0io then [.alloc] else []) ++ (if eb && ch0io then [.setBlocked] else []))

/-! ## Client side (the halves of the blocking calls in io_loop_handle.rs) -/

inductive SendOutcome where
  | sent | full | disconnected
  deriving Repr, DecidableEq

/-- `tx.try_send(message)` on a handle's FIFO. -/
def clientSend (c : Conn) (label : Label) (m : Msg) : Conn × SendOutcome :=
  match lookupS label c.handles with
  | none => (c, .disconnected)
  | some lid =>
    let l := getLink c lid
    if !l.ioAlive then (c, .disconnected)
    else if l.fifo.length ≥ c.bound then (c, .full)
    else (setLink c lid { l with fifo := l.fifo ++ [m], src := l.src.inc }, .sent)

def allocRequest (c : Conn) (req : Option Nat) : Conn × SendOutcome :=
  if !ch0Alive c then (c, .disconnected)
  else if !(getLink c 0).ioAlive then (c, .disconnected)
  else if c.allocReq.length ≥ 1 then (c, .full)
  else ({ c with allocReq := c.allocReq ++ [req], allocSrc := c.allocSrc.inc }, .sent)

def setBlockedRequest (c : Conn) (l : Label) : Conn × SendOutcome :=
  if !ch0Alive c then (c, .disconnected)
  else if !(getLink c 0).ioAlive then (c, .disconnected)
  else if c.blockedFifo.length ≥ 1 then (c, .full)
  else ({ c with blockedFifo := c.blockedFifo ++ [l], blockedSrc := c.blockedSrc.inc }, .sent)

inductive AllocOutcome where
  | empty | disconnected | ok (id : Nat) | err (e : Err)
  deriving Repr, DecidableEq

/-- `alloc_chan_rep_rx.try_recv()`; a received handle is kept under `label`. -/
def allocReply (c : Conn) (label : Label) : Conn × AllocOutcome :=
  if !ch0Alive c then (c, .disconnected)
  else match c.allocRep with
    | [] => if (getLink c 0).ioAlive then (c, .empty) else (c, .disconnected)
    | .ok lid :: rest =>
      ({ c with allocRep := rest, handles := setS label lid c.handles }, .ok (getLink c lid).chan)
    | .error e :: rest => ({ c with allocRep := rest }, .err e)

inductive RecvOutcome where
  | empty | disconnected | got (r : Reply)
  deriving Repr, DecidableEq

/-- `rx.try_recv()` on a handle's reply queue; a consumer receiver is kept under `consLabel`. -/
def clientRecv (c : Conn) (label consLabel : Label) : Conn × RecvOutcome :=
  match lookupS label c.handles with
  | none => (c, .disconnected)
  | some lid =>
    let l := getLink c lid
    match l.replies with
    | [] => if l.ioAlive then (c, .empty) else (c, .disconnected)
    | r :: rest =>
      let c1 := setLink c lid { l with replies := rest }
      match r with
      | .consumeOk _ qid => ({ c1 with consLabels := setS consLabel qid c1.consLabels }, .got r)
      | _ => (c1, .got r)

/-- Dropping a client handle: both of its ends go; unreceived replies are dropped; the I/O thread
    is woken by the phantom `inc` of the last sender. -/
def dropHandle (c : Conn) (label : Label) : Conn :=
  match lookupS label c.handles with
  | none => c
  | some lid =>
    let l := getLink c lid
    let c1 := l.replies.foldl dropReply c
    let c2 := setLink c1 lid { l with clientAlive := false, replies := [], src := l.src.inc }
    let c3 := { c2 with handles := eraseS label c2.handles }
    if label = "0" then
      -- IoLoopHandle0 also owns the allocation and blocked-listener queues
      { c3 with allocSrc := c3.allocSrc.inc, blockedSrc := c3.blockedSrc.inc, allocRep := [] }
    else c3

inductive ConsOutcome where
  | empty | disconnected | got (m : CMsg)
  deriving Repr, DecidableEq

def consRecv (c : Conn) (label : Label) : Conn × ConsOutcome :=
  match lookupS label c.consLabels with
  | none => (c, .disconnected)
  | some qid =>
    match lookupN qid c.cqs with
    | none => (c, .disconnected)
    | some q =>
      match q.msgs with
      | m :: rest => ({ c with cqs := setN qid { q with msgs := rest } c.cqs }, .got m)
      | [] => if q.txAlive then (c, .empty) else (c, .disconnected)

def dropCons (c : Conn) (label : Label) : Conn :=
  match lookupS label c.consLabels with
  | none => c
  | some qid =>
    match lookupN qid c.cqs with
    | some q => { c with cqs := setN qid { q with rxAlive := false, msgs := [] } c.cqs,
                         consLabels := eraseS label c.consLabels }
    | none => c

/-- Is some sender of listener queue `l` still alive (in a slot, in the state, or in flight)? -/
def lstTxAlive (c : Conn) (l : Label) : Bool :=
  c.blockedL = some l || c.blockedFifo.contains l ||
  c.slots.any (fun (_, s) => s.retL = some l || s.confL = some l) ||
  c.links.any (fun (_, k) => k.fifo.any (fun m => m = .setReturn (some l) || m = .setConfirm (some l)))

inductive LstOutcome where
  | empty | disconnected | got (m : LMsg)
  deriving Repr, DecidableEq

def lstRecv (c : Conn) (l : Label) : Conn × LstOutcome :=
  match lookupS l c.lqs with
  | none => (c, .disconnected)
  | some q =>
    if !q.rxAlive then (c, .disconnected)       -- the client dropped this receiver itself
    else match q.msgs with
    | m :: rest => ({ c with lqs := setS l { q with msgs := rest } c.lqs }, .got m)
    | [] => if lstTxAlive c l then (c, .empty) else (c, .disconnected)

def newListener (c : Conn) (l : Label) : Conn := { c with lqs := setS l {} c.lqs }

def dropListener (c : Conn) (l : Label) : Conn :=
  match lookupS l c.lqs with
  | some q => { c with lqs := setS l { q with rxAlive := false, msgs := [] } c.lqs }
  | none => c

end AmqModel.Conn
