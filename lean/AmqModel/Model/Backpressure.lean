/-
The high/low-water switch at the end of every batch of poll events in `run_io_loop`
(src/io_loop/mod.rs lines 573-587):

    if listening_to_channels && outbuf.len() > high_water      { deregister_nonzero_channels; listening = false }
    else if !listening_to_channels && outbuf.len() <= low_water { reregister_nonzero_channels; listening = true }
-/
import AmqModel.Model.ConnRun

namespace AmqModel.Backpressure
open AmqModel.Conn

inductive Action where
  | none
  | throttle      -- deregister_nonzero_channels
  | resume        -- reregister_nonzero_channels
  deriving Repr, DecidableEq

def endOfBatch (listening : Bool) (outLen high low : Nat) : Bool × Action :=
  if listening && decide (outLen > high) then (false, .throttle)
  else if !listening && decide (outLen ≤ low) then (true, .resume)
  else (listening, .none)

/-- The switch applied to the machine. -/
def applyEndOfBatch (c : Conn) (listening : Bool) (high low : Nat) : Conn × Bool :=
  match endOfBatch listening c.out.length high low with
  | (l, .throttle) => (deregisterAll c, l)
  | (l, .resume) => (reregisterAll c, l)
  | (l, .none) => (c, l)

end AmqModel.Backpressure
