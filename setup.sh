#!/bin/sh
# MANIFEST.setup_cmd: build the Lean project (models, theorems, driver) and the harness, offline.
set -e
cd "$(dirname "$0")"
export CARGO_NET_OFFLINE=true
(cd lean && lake build)
[ -f harness/Cargo.lock ] || cp /repo/Cargo.lock harness/Cargo.lock
(cd harness && cargo build --offline --bins)
